import C2paModel.Model.C28
import C2paModel.Gen.C28HttpSites
/-
C28 — no network access unless the configuration enables it.

Every theorem is about the decision functions of `Model/C28.lean` for *all* settings, transport
behaviours, signers, assets and (unbounded) lists of ingredients and claims.
-/
namespace C2pa.C28

/-! ### helper facts about the pieces -/

theorem fetchOcsp_mem {env : Env} {k r : Req} {c : Claim} (h : r ∈ fetchOcsp env k c) : r = k := by
  unfold fetchOcsp at h
  split at h
  · exact List.eq_of_mem_replicate h
  · split at h
    · simp at h
    · simpa using h

theorem fetchOcsp_length_le (env : Env) (k : Req) (c : Claim) :
    (fetchOcsp env k c).length ≤ c.responders := by
  unfold fetchOcsp
  split
  · simp
  · split
    · simp
    · simp; omega

theorem checkOcsp_mem {s : Settings} {env : Env} {st : Store} {c : Claim} {r : Req}
    (h : r ∈ checkOcsp s env st c) :
    r = .ocspVerify ∧ s.ocspFetch = true ∧ (c.stapled && c.stapledUsable) = false := by
  unfold checkOcsp at h
  split at h
  · simp at h
  · split at h
    · simp at h
    · split at h
      · rename_i h1 h2 h3
        exact ⟨fetchOcsp_mem h, h3, by simpa using h2⟩
      · simp at h

theorem verifyStore_mem {s : Settings} {env : Env} {st : Store} {r : Req}
    (h : r ∈ verifyStore s env st) : r = .ocspVerify ∧ s.ocspFetch = true := by
  unfold verifyStore at h
  obtain ⟨c, _, hc⟩ := List.mem_flatMap.mp h
  exact ⟨(checkOcsp_mem hc).1, (checkOcsp_mem hc).2.1⟩

theorem statusLabels_nil_of_off (s : Settings) (st : Store)
    (h : s.statusFetch = .none ∨ s.statusOverride = none) : statusLabels s st = [] := by
  unfold statusLabels
  rcases h with h | h
  · rw [h]; cases s.statusOverride with
    | none => rfl
    | some b => cases b <;> simp
  · rw [h]

theorem statusDers_mem {s : Settings} {env : Env} {st : Store} {r : Req}
    (h : r ∈ statusDers s env st) :
    r = .ocspStatus ∧ s.statusFetch ≠ .none ∧ s.statusOverride.isSome = true := by
  unfold statusDers at h
  obtain ⟨c, hc, hr⟩ := List.mem_flatMap.mp h
  refine ⟨fetchOcsp_mem hr, ?_, ?_⟩
  · intro h0
    rw [statusLabels_nil_of_off s st (Or.inl h0)] at hc
    simp at hc
  · cases h1 : s.statusOverride with
    | some b => rfl
    | none =>
      rw [statusLabels_nil_of_off s st (Or.inr h1)] at hc
      simp at hc

theorem loadJumbf_mem {s : Settings} {env : Env} {a : Asset} {r : Req}
    (h : r ∈ (loadJumbf s env a).2) :
    ∃ u, r = .manifest u ∧ s.remoteFetch = true ∧ a.embedded = .absent ∧ a.xmp = some u
      ∧ validRemoteUrl u = true := by
  unfold loadJumbf at h
  split at h
  · simp at h
  · simp at h
  · rename_i hemb
    split at h
    · simp at h
    · rename_i u hx
      split at h
      · rename_i hv
        split at h
        · rename_i hf
          split at h <;> (simp at h; exact ⟨u, h, hf, hemb, hx, hv⟩)
        · simp at h
      · simp at h

/-- the trace of `loadJumbf` is empty or the single request for the referenced URL -/
theorem loadJumbf_trace (s : Settings) (env : Env) (a : Asset) :
    (loadJumbf s env a).2 = [] ∨ ∃ u, (loadJumbf s env a).2 = [.manifest u] ∧ a.xmp = some u := by
  unfold loadJumbf
  split
  · simp
  · simp
  · split
    · simp
    · rename_i u hx
      split
      · split
        · split <;> simp [hx]
        · simp
      · simp

/-! ### the property: every request is asked for -/

theorem identityReqs_mem {s : Settings} {st : Store} {r : Req} (h : r ∈ identityReqs s st) :
    r = .didWeb ∧ s.decodeIdentity = true := by
  unfold identityReqs at h
  split at h
  · rename_i hd
    obtain ⟨c, _, hc⟩ := List.mem_flatMap.mp h
    exact ⟨List.eq_of_mem_replicate hc, hd⟩
  · simp at h

/-- where the requests of a read come from -/
theorem read_mem {s : Settings} {env : Env} {a : Asset} {r : Req} (h : r ∈ (read s env a).trace) :
    r ∈ (loadJumbf s env a).2 ∨ (r = .ocspVerify ∧ s.ocspFetch = true)
      ∨ (r = .didWeb ∧ s.decodeIdentity = true) := by
  unfold read at h
  split at h
  · rename_i e t heq
    left; rw [heq]; exact h
  · rename_i st t heq
    simp only [List.mem_append] at h
    rcases h with (h | h) | h
    · left; rw [heq]; exact h
    · right; left; exact verifyStore_mem h
    · right; right; exact identityReqs_mem h

/-- `enabled` does not look at the signer or the builder for the requests of reading. -/
theorem request_implies_enabled_read (s : Settings) (env : Env) (a : Asset) (tsa ex : Bool)
    (r : Req) (h : r ∈ (read s env a).trace) : enabled ⟨s, tsa, ex⟩ r = true := by
  rcases read_mem h with hl | ⟨hr, ho⟩ | ⟨hr, hd⟩
  · obtain ⟨u, hu, hf, _⟩ := loadJumbf_mem hl
    subst hu
    simpa [enabled] using hf
  · subst hr
    simpa [enabled] using ho
  · subst hr
    simpa [enabled] using hd

theorem importIng_mem {s : Settings} {env : Env} {a : Asset} {p e : Bool} {r : Req}
    (h : r ∈ (importIng s env a p e).2) :
    r ∈ (loadJumbf s env a).2 ∨ (r = .ocspVerify ∧ s.ocspFetch = true)
      ∨ (r = .ocspStatus ∧ s.statusFetch ≠ .none ∧ s.statusOverride.isSome = true) := by
  unfold importIng at h
  split at h
  · rename_i st t heq
    simp only [List.mem_append] at h
    rcases h with (h | h) | h
    · left; rw [heq]; exact h
    · right; left; exact verifyStore_mem h
    · right; right; exact statusDers_mem h
  all_goals (rename_i heq; left; rw [heq]; exact h)

theorem importIng_flags (s : Settings) (env : Env) (a : Asset) (p e : Bool) :
    (importIng s env a p e).1.explicitTs = e ∧ (importIng s env a p e).1.parent = p := by
  unfold importIng
  split <;> simp

theorem request_implies_enabled_import (s : Settings) (env : Env) (a : Asset) (p e tsa ex : Bool)
    (r : Req) (h : r ∈ (importIng s env a p e).2) : enabled ⟨s, tsa, ex⟩ r = true := by
  rcases importIng_mem h with hl | ⟨hr, ho⟩ | ⟨hr, h1, h2⟩
  · obtain ⟨u, hu, hf, _⟩ := loadJumbf_mem hl
    subst hu
    simpa [enabled] using hf
  · subst hr
    simpa [enabled] using ho
  · subst hr
    simp only [enabled, h2, Bool.and_true]
    cases hs : s.statusFetch
    · exact absurd hs h1
    · decide
    · decide

theorem timestampReqs_mem {s : Settings} {ings : List Ing} {r : Req}
    (h : r ∈ timestampReqs s ings) :
    r = .tsaAssertion ∧ (s.autoTs = true ∨ ings.any (·.explicitTs) = true) := by
  unfold timestampReqs at h
  split at h
  · simp at h
  · rename_i hc
    constructor
    · obtain ⟨_, _, rfl⟩ := List.mem_map.mp h; rfl
    · cases h1 : s.autoTs
      · cases h2 : ings.any (·.explicitTs)
        · simp [h1, h2] at hc
        · exact Or.inr rfl
      · exact Or.inl rfl

theorem tsPhase_mem {s : Settings} {sg : Signer} {ings : List Ing} {r : Req}
    (h : r ∈ tsPhase s sg ings) :
    r = .tsaAssertion ∧ sg.tsa = true ∧ (s.autoTs = true ∨ ings.any (·.explicitTs) = true) := by
  unfold tsPhase at h
  split at h
  · rename_i ht
    exact ⟨(timestampReqs_mem h).1, ht, (timestampReqs_mem h).2⟩
  · simp at h

theorem signerTs_mem {sg : Signer} {r : Req} (h : r ∈ signerTs sg) :
    r = .tsaSigner ∧ sg.tsa = true := by
  unfold signerTs at h
  split at h
  · rename_i ht; exact ⟨by simpa using h, ht⟩
  · simp at h

theorem afterSign_mem {s : Settings} {env : Env} {sg : Signer} {ings : List Ing} {r : Req}
    (h : r ∈ afterSign s env sg ings) :
    r = .ocspVerify ∧ s.ocspFetch = true ∧ s.verifyAfterSign = true := by
  unfold afterSign at h
  split at h
  · rename_i hv
    exact ⟨(verifyStore_mem h).1, (verifyStore_mem h).2, hv⟩
  · simp at h

theorem signFlow_mem {s : Settings} {env : Env} {sg : Signer} {ings : List Ing} {r : Req}
    (h : r ∈ (signFlow s env sg ings).trace) :
    (r = .tsaAssertion ∧ sg.tsa = true ∧ (s.autoTs = true ∨ ings.any (·.explicitTs) = true))
      ∨ (r = .tsaSigner ∧ sg.tsa = true)
      ∨ (r = .ocspVerify ∧ s.ocspFetch = true ∧ s.verifyAfterSign = true) := by
  unfold signFlow at h
  split at h
  · simp at h
  · split at h
    · exact Or.inl (tsPhase_mem (List.mem_of_mem_take h))
    · split at h
      · rename_i hts
        rcases List.mem_append.mp h with h | h
        · exact Or.inl (tsPhase_mem h)
        · refine Or.inr (Or.inl ⟨by simpa using h, ?_⟩)
          simp only [Bool.and_eq_true] at hts
          exact hts.1
      · rcases List.mem_append.mp h with h | h
        · rcases List.mem_append.mp h with h | h
          · exact Or.inl (tsPhase_mem h)
          · exact Or.inr (Or.inl (signerTs_mem h))
        · exact Or.inr (Or.inr (afterSign_mem h))

theorem request_implies_enabled_sign (s : Settings) (env : Env) (sg : Signer) (ings : List Ing)
    (r : Req) (h : r ∈ (signFlow s env sg ings).trace) :
    enabled ⟨s, sg.tsa, ings.any (·.explicitTs)⟩ r = true := by
  rcases signFlow_mem h with ⟨hr, h1, h2⟩ | ⟨hr, h1⟩ | ⟨hr, h1, _⟩
  · subst hr
    simp only [enabled, h1, Bool.true_and]
    rcases h2 with h2 | h2 <;> simp [h2]
  · subst hr
    simpa [enabled] using h1
  · subst hr
    simpa [enabled] using h1

theorem importAll_mem {s : Settings} {env : Env} :
    ∀ {as : List (Asset × Bool × Bool)} {r : Req}, r ∈ (importAll s env as).2 →
      ∃ a p e, (a, p, e) ∈ as ∧ r ∈ (importIng s env a p e).2
  | [], r, h => by simp [importAll] at h
  | (a, p, e) :: rest, r, h => by
    simp only [importAll, List.mem_append] at h
    rcases h with h | h
    · exact ⟨a, p, e, List.mem_cons_self, h⟩
    · obtain ⟨a', p', e', hm, hr⟩ := importAll_mem h
      exact ⟨a', p', e', List.mem_cons_of_mem _ hm, hr⟩

theorem importAll_explicit (s : Settings) (env : Env) :
    ∀ as : List (Asset × Bool × Bool),
      (importAll s env as).1.any (·.explicitTs) = as.any (fun x => x.2.2)
  | [] => by simp [importAll]
  | (a, p, e) :: rest => by
    simp only [importAll, List.any_cons]
    rw [importAll_explicit s env rest, (importIng_flags s env a p e).1]

/-- The full statement, as a proposition about the model. -/
def NoRequestUnlessEnabled : Prop :=
  (∀ (s : Settings) (env : Env) (a : Asset) (tsa ex : Bool) (r : Req),
      r ∈ (read s env a).trace → enabled ⟨s, tsa, ex⟩ r = true)
  ∧ (∀ (s : Settings) (env : Env) (sg : Signer) (as : List (Asset × Bool × Bool)) (r : Req),
      r ∈ (importAndSign s env sg as).2.trace →
        enabled ⟨s, sg.tsa, as.any (fun x => x.2.2)⟩ r = true)

/-- **Every request in the trace of reading, of importing any number of ingredients and of
signing is enabled by its setting / the signer / the builder call.** -/
theorem request_implies_enabled : NoRequestUnlessEnabled := by
  refine ⟨request_implies_enabled_read, ?_⟩
  intro s env sg as r h
  unfold importAndSign at h
  simp only at h
  rcases List.mem_append.mp h with h | h
  · obtain ⟨a, p, e, _, hr⟩ := importAll_mem h
    exact request_implies_enabled_import s env a p e _ _ r hr
  · have := request_implies_enabled_sign s env sg (importAll s env as).1 r h
    rwa [importAll_explicit] at this

/-- With everything off (remote manifest fetch, OCSP fetch, certificate-status fetch, identity
assertion decoding, no TSA URL) no operation issues any request, whatever the assets reference. -/
theorem no_request_when_nothing_enabled (s : Settings) (env : Env) (sg : Signer)
    (as : List (Asset × Bool × Bool)) (a : Asset)
    (h1 : s.remoteFetch = false) (h2 : s.ocspFetch = false)
    (h3 : s.statusFetch = .none ∨ s.statusOverride = none) (h4 : sg.tsa = false)
    (h5 : s.decodeIdentity = false) :
    (read s env a).trace = [] ∧ (importAndSign s env sg as).2.trace = [] := by
  have key : ∀ r : Req, enabled ⟨s, sg.tsa, as.any (fun x => x.2.2)⟩ r = false := by
    intro r
    cases r <;> simp [enabled, h1, h2, h4, h5]
    rcases h3 with h3 | h3 <;> simp [h3]
  constructor
  · apply List.eq_nil_iff_forall_not_mem.mpr
    intro r hr
    have := request_implies_enabled.1 s env a sg.tsa (as.any (fun x => x.2.2)) r hr
    rw [key r] at this; cases this
  · apply List.eq_nil_iff_forall_not_mem.mpr
    intro r hr
    have := request_implies_enabled.2 s env sg as r hr
    rw [key r] at this; cases this

/-- `http://h/m` -/
def urlEx : Url := ['h', 't', 't', 'p', ':', '/', '/', 'h', '/', 'm']

example : ∃ (s : Settings) (env : Env) (sg : Signer) (as : List (Asset × Bool × Bool)) (a : Asset),
    (s.remoteFetch = false ∧ s.ocspFetch = false ∧ sg.tsa = false ∧ s.decodeIdentity = false
    ∧ a.xmp = some urlEx ∧ as ≠ [] ∧ (s.statusFetch = .none ∨ s.statusOverride = none)) ∧ env = env :=
  ⟨⟨false, false, .all, none, true, true, .all, true, false⟩, ⟨.ok, .ok, .ok⟩, ⟨false, 2, false, false, 0⟩,
    [(⟨.absent, some urlEx, [⟨1, false, false, 0, false, false, false, 3⟩]⟩, true, true)],
    ⟨.absent, some urlEx, []⟩, ⟨rfl, rfl, rfl, rfl, rfl, by simp, Or.inr rfl⟩, rfl⟩

/-! ### remote manifests -/

/-- **Remote-only asset, fetching disabled: the error is `RemoteManifestUrl` and carries exactly
the referenced URL; nothing is requested.** -/
theorem remote_only_disabled_error_has_url (s : Settings) (env : Env) (a : Asset) (u : Url)
    (he : a.embedded = .absent) (hx : a.xmp = some u) (hv : validRemoteUrl u = true)
    (hf : s.remoteFetch = false) :
    read s env a = ⟨.error (.remoteManifestUrl u), []⟩ := by
  simp [read, loadJumbf, he, hx, hv, hf]

/-- The same asset imported as an ingredient: `manifest.inaccessible` with that URL, no request. -/
theorem remote_only_disabled_ingredient_has_url (s : Settings) (env : Env) (a : Asset) (u : Url)
    (p e : Bool) (he : a.embedded = .absent) (hx : a.xmp = some u)
    (hv : validRemoteUrl u = true) (hf : s.remoteFetch = false) :
    importIng s env a p e = (⟨.inaccessible (some u), p, e⟩, []) := by
  simp [importIng, loadJumbf, he, hx, hv, hf]

example : validRemoteUrl urlEx = true := by decide
example : validRemoteUrl ['H', 'T', 'T', 'P', 's', ':', '/', '/', 'h'] = true := by decide
example : validRemoteUrl ['f', 't', 'p', ':', '/', '/', 'h', '/', 'm'] = false := by decide
example : validRemoteUrl ['m', '/', 'x', '.', 'c', '2', 'p', 'a'] = false := by decide
example : validRemoteUrl ['h', 't', 't', 'p', ':', '/', '/'] = false := by decide

/-- **An embedded manifest is preferred: with one present (or present but unreadable) no remote
manifest is requested**, whatever the XMP reference and the settings say. -/
theorem embedded_preferred (s : Settings) (env : Env) (a : Asset) (p e : Bool)
    (h : a.embedded ≠ .absent) (u : Url) :
    Req.manifest u ∉ (read s env a).trace ∧ Req.manifest u ∉ (importIng s env a p e).2 := by
  have nl : ∀ r, r ∈ (loadJumbf s env a).2 → False := by
    intro r hr
    obtain ⟨_, _, _, he, _⟩ := loadJumbf_mem hr
    exact h he
  constructor
  · intro hm
    rcases read_mem hm with hm | ⟨hm, _⟩ | ⟨hm, _⟩
    · exact nl _ hm
    · cases hm
    · cases hm
  · intro hm
    rcases importIng_mem hm with hm | ⟨hm, _⟩ | ⟨hm, _⟩
    · exact nl _ hm
    · cases hm
    · cases hm

/-- Exactly when a remote manifest is requested while reading, and for which URL. -/
theorem manifest_request_iff (s : Settings) (env : Env) (a : Asset) (u : Url) :
    Req.manifest u ∈ (read s env a).trace ↔
      a.embedded = .absent ∧ a.xmp = some u ∧ validRemoteUrl u = true ∧ s.remoteFetch = true := by
  constructor
  · intro hm
    have : Req.manifest u ∈ (loadJumbf s env a).2 := by
      rcases read_mem hm with hm | ⟨hm, _⟩ | ⟨hm, _⟩
      · exact hm
      · cases hm
      · cases hm
    obtain ⟨u', hu, hf, he, hx, hv⟩ := loadJumbf_mem this
    cases hu
    exact ⟨he, hx, hv, hf⟩
  · rintro ⟨he, hx, hv, hf⟩
    cases hm : env.manifest <;> simp [read, loadJumbf, he, hx, hv, hf, hm]

/-- At most one remote manifest request per read, and it comes first. -/
theorem read_trace_shape (s : Settings) (env : Env) (a : Asset) :
    ∃ pre post, (read s env a).trace = pre ++ post
      ∧ (pre = [] ∨ ∃ u, pre = [.manifest u] ∧ a.xmp = some u)
      ∧ ∀ r ∈ post, r = .ocspVerify ∨ r = .didWeb := by
  unfold read
  split
  · rename_i e t heq
    refine ⟨t, [], by simp, ?_, by simp⟩
    have := loadJumbf_trace s env a
    rw [heq] at this; exact this
  · rename_i st t heq
    refine ⟨t, verifyStore s env st ++ identityReqs s st, by simp, ?_, ?_⟩
    · have := loadJumbf_trace s env a
      rw [heq] at this; exact this
    · intro r hr
      rcases List.mem_append.mp hr with hr | hr
      · exact Or.inl (verifyStore_mem hr).1
      · exact Or.inr (identityReqs_mem hr).1

/-- did:web documents are resolved only while reading with `core.decode_identity_assertions`;
importing an ingredient and signing never resolve one. -/
theorem identity_lookup_only_when_decoding (s : Settings) (env : Env) (sg : Signer) (a : Asset)
    (as : List (Asset × Bool × Bool)) :
    (Req.didWeb ∈ (read s env a).trace → s.decodeIdentity = true)
      ∧ Req.didWeb ∉ (importAndSign s env sg as).2.trace := by
  constructor
  · intro h
    simpa [enabled] using request_implies_enabled_read s env a false false _ h
  · intro h
    unfold importAndSign at h
    simp only at h
    rcases List.mem_append.mp h with h | h
    · obtain ⟨a', p, e, _, hr⟩ := importAll_mem h
      rcases importIng_mem hr with hl | ⟨hr, _⟩ | ⟨hr, _⟩
      · obtain ⟨u, hu, _⟩ := loadJumbf_mem hl
        cases hu
      · cases hr
      · cases hr
    · rcases signFlow_mem h with ⟨hr, _⟩ | ⟨hr, _⟩ | ⟨hr, _⟩ <;> cases hr

/-! ### OCSP -/

/-- A claim whose signature staples a usable OCSP response is never the reason for a fetch during
validation, whatever `verify.ocsp_fetch` says. -/
theorem stapled_never_fetched (s : Settings) (env : Env) (st : Store) (c : Claim)
    (h : c.stapled = true) (hu : c.stapledUsable = true) : checkOcsp s env st c = [] := by
  apply List.eq_nil_iff_forall_not_mem.mpr
  intro r hr
  have := (checkOcsp_mem hr).2.2
  rw [h, hu] at this; cases this

/-- At most one request per OCSP responder named by the certificate, per validation of a claim. -/
theorem ocsp_requests_bounded (s : Settings) (env : Env) (st : Store) (c : Claim) :
    (checkOcsp s env st c).length ≤ c.responders := by
  unfold checkOcsp
  split
  · simp
  · split
    · simp
    · split
      · exact fetchOcsp_length_le env _ c
      · simp

/-- Certificate-status responses held by the store replace the fetch when
`certificate_status_should_override` is on. -/
theorem status_override_suppresses_fetch (s : Settings) (env : Env) (st : Store) (c : Claim)
    (h1 : s.statusOverride = some true) (h2 : statusResp st c = true) :
    checkOcsp s env st c = [] := by
  simp [checkOcsp, h1, h2]

example : statusResp [⟨1, false, false, 0, true, true, false, 0⟩, ⟨1, false, false, 0, false, false, false, 0⟩]
    ⟨1, false, false, 0, false, false, false, 0⟩ = true := by decide

/-- With fetching on and nothing stapled or overriding, all responders are tried as long as they
answer with a non-200 status (so the bound above is attained). -/
theorem ocsp_all_responders_tried (s : Settings) (st : Store) (c : Claim) (m t : Reply)
    (h1 : s.ocspFetch = true) (h2 : c.stapledUsable = false) (h3 : s.statusOverride.getD false = false) :
    checkOcsp s ⟨m, .notFound, t⟩ st c = List.replicate c.responders .ocspVerify := by
  simp [checkOcsp, fetchOcsp, h1, h2, h3]

/-! ### time stamps -/

/-- Without a TSA URL on the signer no time-stamp request of either kind is issued. -/
theorem no_tsa_url_no_timestamp_request (s : Settings) (env : Env) (sg : Signer)
    (as : List (Asset × Bool × Bool)) (h : sg.tsa = false) :
    Req.tsaAssertion ∉ (importAndSign s env sg as).2.trace
      ∧ Req.tsaSigner ∉ (importAndSign s env sg as).2.trace := by
  constructor <;> intro hm <;>
    (have := request_implies_enabled.2 s env sg as _ hm; simp [enabled, h] at this)

/-- The only request that does not use the resolver of the caller's `Context` is the signer's
own time-stamp request, and there is at most one per signing. -/
theorem only_signer_timestamp_leaves_context (s : Settings) (env : Env) (sg : Signer)
    (ings : List Ing) :
    (∀ r ∈ (signFlow s env sg ings).trace, r.channel = .fresh → r = .tsaSigner)
      ∧ ((signFlow s env sg ings).trace.filter (· == .tsaSigner)).length ≤ 1 := by
  constructor
  · intro r _ hc
    cases r <;> simp [Req.channel] at hc ⊢
  · have hts : (tsPhase s sg ings).filter (· == Req.tsaSigner) = [] := by
      apply List.filter_eq_nil_iff.mpr
      intro r hr
      rw [(tsPhase_mem hr).1]; decide
    have hts1 : ((tsPhase s sg ings).take 1).filter (· == Req.tsaSigner) = [] := by
      apply List.filter_eq_nil_iff.mpr
      intro r hr
      rw [(tsPhase_mem (List.mem_of_mem_take hr)).1]; decide
    have hvs : (afterSign s env sg ings).filter (· == Req.tsaSigner) = [] := by
      apply List.filter_eq_nil_iff.mpr
      intro r hr
      rw [(afterSign_mem hr).1]; decide
    have hsg : ((signerTs sg).filter (· == Req.tsaSigner)).length ≤ 1 := by
      unfold signerTs; cases sg.tsa <;> simp
    unfold signFlow
    split
    · simp
    · split
      · rw [hts1]; simp
      · split
        · rw [List.filter_append, hts]; simp
        · rw [List.filter_append, List.filter_append, hts, hvs]; simpa using hsg

/-! ### the inventory of request sites, regenerated from sdk/src -/

/-- **Every place of sdk/src that reaches an HTTP transport is one of the reviewed sites; every
call path from such a site up to its guard is a reviewed one; every guard expression the model
relies on is present in the source.** (`decide` over the table of
`translators/c28_http_sites.py`.) -/
theorem call_site_inventory_closed :
    (Gen.sinkSites.all (fun x => (siteKind? x.1 x.2.1).isSome)) = true
      ∧ (Gen.callers.all (fun x => reviewedCallers.contains x)) = true
      ∧ (requiredGuards.all (fun g => Gen.guards.contains (g, true))) = true
      ∧ (Gen.guards.all (fun g => g.2)) = true := by
  decide +kernel

/-- Every request kind of the model is issued by a site that exists in the source, and every
inventoried site that the modelled operations can reach (remote manifest, OCSP, time stamp) is
the issuing site of a modelled request kind. -/
theorem model_requests_match_sites :
    (∀ k : ReqKind, Gen.sinkSites.any (fun x => siteKind? x.1 x.2.1 == some (SiteKind.of k)) = true)
      ∧ (Gen.sinkSites.all (fun x =>
          match siteKind? x.1 x.2.1 with
          | some .remoteManifest => SiteKind.of .manifest == .remoteManifest
          | some .ocsp => SiteKind.of .ocspVerify == .ocsp && SiteKind.of .ocspStatus == .ocsp
          | some .timeStamp => SiteKind.of .tsaAssertion == .timeStamp && SiteKind.of .tsaSigner == .timeStamp
          | some _ => true      -- identity validator / remote signer / default transport: explicit
          | none => false)) = true := by
  constructor
  · intro k; cases k <;> decide +kernel
  · decide +kernel

/-! ### non-vacuity: with the settings on, the requests do occur -/

def sOn : Settings := ⟨true, true, .all, some false, true, true, .all, true, true⟩
def envNf : Env := ⟨.ok, .notFound, .ok⟩
def remOnly : Asset := ⟨.absent, some urlEx, [⟨2, false, false, 1, false, false, false, 1⟩]⟩

example : (read sOn envNf remOnly).trace = [.manifest urlEx, .ocspVerify, .ocspVerify, .didWeb] := by
  decide
example : (importAndSign sOn envNf ⟨true, 1, false, false, 0⟩ [(remOnly, true, false)]).2.trace
    = [.manifest urlEx, .ocspVerify, .ocspVerify, .ocspStatus, .ocspStatus,
       .tsaAssertion, .tsaSigner, .ocspVerify, .ocspVerify, .ocspVerify] := by
  decide
example : read { sOn with remoteFetch := false } envNf remOnly
    = ⟨.error (.remoteManifestUrl urlEx), []⟩ := by decide

end C2pa.C28
