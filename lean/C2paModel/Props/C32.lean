import C2paModel.Lemmas.C32
/-
C32 — property theorems. The statement (properties.jsonl):

  c2patool never modifies, replaces or deletes an existing file or directory it writes to
  (output file, output folder, sidecar manifest) unless force is requested. Every file it
  reports as signed reads back with a Valid manifest.

The theorems quantify over every configuration (all flag combinations, all paths, all
"facts" about the world: parseable or not, signing succeeds or not, …) and every initial
file system. `WF` (an existing entry has an existing parent directory) is the only
assumption on the file system and is needed only for files written *into* a fresh report
folder. The second sentence of the statement is about the SDK's signing and validation
and is checked on the implementation by the harness (read-back of every output);
`signed_ok_output_present` is its model-level part: an `ok` outcome of a signing run
means the output (and the sidecar, when asked for) was written by this run.
-/
namespace C2pa.C32

/-- an existing entry below the working directory lies in an existing directory -/
def WF (fs : FS) : Prop := ∀ p, p ≠ [] → fs p ≠ .absent → fs p.dropLast = .dir

/-- the location held nothing before the run -/
def Fresh (fs : FS) (p : Loc) : Prop := fs p = .absent

/-- What a run may change: the declared output itself or anything inside it (output
folder), the sidecar next to the output when `--sidecar` is given, and missing parent
directories of the output (which can only be created). -/
def Declared (cfg : Cfg) (fs : FS) (p : Loc) : Prop :=
  outLoc cfg <+: p ∨ (cfg.sidecar = true ∧ p = sidecarLoc cfg) ∨ (p <+: outLoc cfg ∧ fs p = .absent)

theorem fresh_child {fs : FS} (hwf : WF fs) {out : Loc} (n : String) (h : fs out = .absent) :
    fs (out ++ [n]) = .absent := by
  apply Classical.byContradiction
  intro hne
  have := hwf (out ++ [n]) (by simp) hne
  rw [List.dropLast_concat] at this
  rw [h] at this
  cases this

/-! ### invariants of the whole run -/

theorem runSt_fresh (cfg : Cfg) (fs : FS) (hwf : WF fs) (hf : cfg.force = false) (st : St)
    (h : Inv fs (Fresh fs) st) : Inv fs (Fresh fs) (runSt cfg st).st := by
  have hfne : ¬ cfg.force = true := by rw [hf]; exact Bool.false_ne_true
  have abs : ∀ q, (cfg.force = true ∨ st.fs q = .absent) → Fresh fs q := by
    intro q hq
    rcases hq with hq | hq
    · exact absurd hq hfne
    · exact h.absent_of (fun x => x) hq
  unfold runSt
  split
  · exact h
  · split
    · exact h
    · split
      · exact h
      · split
        · split
          · exact h
          · split
            · exact h
            · split
              · exact fragBranch_inv h (fun _ _ hq => hq) (fun _ _ d _ hd => abs d hd)
              · exact signBranch_inv h (abs _) (fun _ hs => abs _ hs) (fun _ _ hq => hq)
        · split
          · exact h
          · split
            · exact folderBranch_inv h (fun _ _ hq => hq) (fun hh => absurd hh hfne)
                (fun n hq => fresh_child hwf n (abs _ hq))
            · exact h

theorem runSt_declared (cfg : Cfg) (fs : FS) (st : St)
    (h : Inv fs (Declared cfg fs) st) : Inv fs (Declared cfg fs) (runSt cfg st).st := by
  unfold runSt
  split
  · exact h
  · split
    · exact h
    · split
      · exact h
      · split
        · split
          · exact h
          · split
            · exact h
            · rename_i output ho
              have hout : outLoc cfg = resolve output := by simp [outLoc, ho]
              have hsc : sidecarLoc cfg = resolve (withExtension output "c2pa") := by
                simp [sidecarLoc, ho]
              have near : ∀ q, (q <+: resolve output ∨ resolve output <+: q) → fs q = .absent →
                  Declared cfg fs q := by
                intro q hq ha
                rcases hq with hq | hq
                · exact Or.inr (Or.inr ⟨hout ▸ hq, ha⟩)
                · exact Or.inl (hout ▸ hq)
              split
              · refine fragBranch_inv h near ?_
                intro r _ d hd _
                unfold initDest at hd
                split at hd
                · cases hd
                · cases hd
                  exact Or.inl (hout ▸ ⟨_, rfl⟩)
              · refine signBranch_inv h (fun _ => Or.inl (hout ▸ List.prefix_refl _))
                  (fun hs _ => Or.inr (Or.inl ⟨hs, hsc.symm⟩)) ?_
                intro q hq ha
                exact near q (Or.inl ((prefixes_prefix _ _ hq).trans (prefix_dropLast _))) ha
        · split
          · exact h
          · split
            · rename_i output ho
              have hout : outLoc cfg = resolve output := by simp [outLoc, ho]
              refine folderBranch_inv h ?_ (fun _ q hq => Or.inl (hout ▸ hq))
                (fun n _ => Or.inl (hout ▸ ⟨[n], rfl⟩))
              intro q hq ha
              rcases hq with hq | hq
              · exact Or.inr (Or.inr ⟨hout ▸ hq, ha⟩)
              · exact Or.inl (hout ▸ hq)
            · exact h

/-! ### the property -/

/-- **No clobbering without `--force`**, action form: for every configuration without
`--force` and every file system, every location touched by any action of the run (file
created, overwritten, removed; directory created; tree removed) held nothing before the
run. In particular no pre-existing file or directory is overwritten, removed or replaced —
output file, output folder, sidecar manifest, fragment destinations, the input, bystanders. -/
theorem no_clobber_without_force (cfg : Cfg) (fs : FS) (hwf : WF fs) (hf : cfg.force = false) :
    ∀ a ∈ (run cfg fs).st.acts, ∀ p, a.touches p = true → fs p = .absent :=
  (runSt_fresh cfg fs hwf hf _ (Inv.init fs _)).conf

/-- state form: whatever existed before a run without `--force` is still there, unchanged. -/
theorem no_clobber_state (cfg : Cfg) (fs : FS) (hwf : WF fs) (hf : cfg.force = false) :
    ∀ p, fs p ≠ .absent → (run cfg fs).st.fs p = fs p :=
  fun p hp => (runSt_fresh cfg fs hwf hf _ (Inv.init fs _)).agree p hp

/-- The action list is the whole story: the final file system is the initial one with the
actions applied in order (so the two theorems above and below speak about everything the
run did). -/
theorem acts_explain_state (cfg : Cfg) (fs : FS) :
    (run cfg fs).st.fs = applyAll (run cfg fs).st.acts fs :=
  (runSt_declared cfg fs _ (Inv.init fs _)).explain

/-- **`--force` only touches the declared outputs** (and so does a run without it): every
location touched by any action is the output path or inside the output folder, the sidecar
path when `--sidecar` is given, or a missing parent directory of the output. -/
theorem force_only_touches_output (cfg : Cfg) (fs : FS) :
    ∀ a ∈ (run cfg fs).st.acts, ∀ p, a.touches p = true → Declared cfg fs p :=
  (runSt_declared cfg fs _ (Inv.init fs _)).conf

theorem undeclared_untouched (cfg : Cfg) (fs : FS) :
    ∀ p, ¬ Declared cfg fs p → (run cfg fs).st.fs p = fs p :=
  (runSt_declared cfg fs _ (Inv.init fs _)).agree

/-- never the input, never siblings: an existing entry that is neither the output (or
inside the output folder) nor the requested sidecar survives every run, forced or not. -/
theorem bystander_untouched (cfg : Cfg) (fs : FS) (p : Loc) (hex : fs p ≠ .absent)
    (hout : ¬ outLoc cfg <+: p) (hsc : ¬ (cfg.sidecar = true ∧ p = sidecarLoc cfg)) :
    (run cfg fs).st.fs p = fs p := by
  apply undeclared_untouched
  rintro (h | h | ⟨_, h⟩)
  · exact hout h
  · exact hsc h
  · exact hex h

/-- the input in particular -/
theorem input_untouched (cfg : Cfg) (fs : FS) (path : RawPath) (_hp : cfg.path = some path)
    (hex : fs (resolve path) ≠ .absent) (hout : ¬ outLoc cfg <+: resolve path)
    (hsc : ¬ (cfg.sidecar = true ∧ resolve path = sidecarLoc cfg)) :
    (run cfg fs).st.fs (resolve path) = fs (resolve path) :=
  bystander_untouched cfg fs _ hex hout hsc

/-- **Signing onto the input needs `--force`**: with a manifest definition, an output path
that names the input file (same spelling or an alias such as `./in.jpg`) and no `--force`,
the run stops with "Output already exists" before doing anything. -/
theorem same_path_needs_force (cfg : Cfg) (fs : FS) (path output : RawPath)
    (hp : cfg.path = some path) (ho : cfg.output = some output) (hm : cfg.msrc ≠ .none)
    (hcmd : ∀ g r, cfg.cmd ≠ .fragment g r) (hearly : cfg.early = false)
    (hsetup : cfg.setupOk = true)
    (hsame : resolve output = resolve path) (hex : fs (resolve path) ≠ .absent)
    (hf : cfg.force = false) :
    (run cfg fs).outcome = .exists ∧ (run cfg fs).st.acts = [] := by
  have hext : extNormal output = extNormal path := by
    unfold extNormal extension fileName
    rw [hsame]
  have hpe : pExists { fs := fs, acts := [] } output = true := by
    simp only [pExists, locExists, hsame]
    simpa using hex
  have hchk : outputCheck cfg path output { fs := fs, acts := [] } = none := by
    unfold outputCheck
    simp [hpe, hf]
  have hsb : signBranch cfg path output { fs := fs, acts := [] } = ⟨.exists, { fs := fs, acts := [] }⟩ := by
    unfold signBranch
    simp [hext, hchk]
  have hmne : (cfg.msrc != MSrc.none) = true := by simpa using hm
  have hrun : run cfg fs = ⟨.exists, { fs := fs, acts := [] }⟩ := by
    unfold run runSt
    simp only [hp, ho, hearly, hsetup, hmne]
    cases hc : cfg.cmd with
    | none => simp [hsb]
    | trust => simp [hsb]
    | fragment g r => exact absurd hc (hcmd g r)
  rw [hrun]
  exact ⟨rfl, rfl⟩

/-- corollary of `no_clobber_without_force`: whenever a run touches the (existing) input,
`--force` was given. -/
theorem touching_input_needs_force (cfg : Cfg) (fs : FS) (hwf : WF fs) (path : RawPath)
    (hex : fs (resolve path) ≠ .absent) (a : Action) (ha : a ∈ (run cfg fs).st.acts)
    (ht : a.touches (resolve path) = true) : cfg.force = true := by
  cases hf : cfg.force with
  | true => rfl
  | false => exact absurd (no_clobber_without_force cfg fs hwf hf a ha _ ht) hex

/-! ### "reported as signed" at model level -/

theorem writeFile_post {p : Loc} {c : Content} {st st' : St} (e : writeFile p c st = some st') :
    st'.fs p = .file c := by
  unfold writeFile at e
  split at e
  · cases e
  · cases e; simp [emit, apply]
  · split at e
    · cases e; simp [emit, apply]
    · cases e

theorem signFile_ok {cfg : Cfg} {src out : Loc} {c : Content} {st : St}
    (h : (signFile cfg src out c st).1 = .ok) : (signFile cfg src out c st).2.fs out = .file c := by
  unfold signFile at h ⊢
  split
  · rename_i hc; simp [hc] at h
  · rename_i hc
    simp only [hc] at h
    split
    · rename_i e; simp [e] at h
    · rename_i st1 e1
      simp only [e1] at h
      split
      · rename_i hc2; simp [hc2] at h
      · rename_i hc2
        simp only [hc2] at h
        split
        · rename_i hc3; simp [hc3] at h
        · rename_i hc3
          simp only [hc3] at h
          split
          · rename_i e2; simp [e2] at h
          · rename_i st2 e2
            simp only [e2] at h
            split
            · rename_i hs
              simp only [hs] at e2
              exact writeFile_post e2
            · rename_i hs; simp [hs] at h

theorem signInPlace_ok {cfg : Cfg} {src out : Loc} {c : Content} {st : St}
    (h : (signInPlace cfg src out c st).1 = .ok) :
    (signInPlace cfg src out c st).2.fs out = .file c := by
  unfold signInPlace at h ⊢
  split
  · rename_i hc; simp [hc] at h
  · rename_i hc
    simp only [hc] at h
    split
    · rename_i hc2; simp [hc2] at h
    · rename_i hc2
      simp only [hc2] at h
      split
      · rename_i hc3; simp [hc3] at h
      · rename_i hc3
        simp only [hc3] at h
        split
        · rename_i e; simp [e] at h
        · rename_i st1 e1
          simp only [e1] at h
          split
          · rename_i e2; simp [e2] at h
          · rename_i st2 e2
            exact writeFile_post e2

/-- A signing run (manifest definition, no `fragment` sub-command) that ends `ok` — the
tool printed the report of the signed output — has written the sidecar when `--sidecar`
was given, and otherwise left a file with an embedded manifest at the output path. -/
theorem signed_ok_output_present (cfg : Cfg) (path output : RawPath) (st : St)
    (hok : (signBranch cfg path output st).outcome = .ok) :
    (cfg.sidecar = true →
      (signBranch cfg path output st).st.fs (resolve (withExtension output "c2pa")) = .file .c2pa)
    ∧ (cfg.sidecar = false →
      (signBranch cfg path output st).st.fs (resolve output) = .file .embedded) := by
  unfold signBranch at hok ⊢
  dsimp only at hok ⊢
  split
  · rename_i hc; simp [hc] at hok
  · rename_i hc
    simp only [hc] at hok
    split
    · rename_i e; simp [e] at hok
    · rename_i e; simp [e] at hok
    · rename_i st1 e
      simp only [e] at hok
      split
      · rename_i hc2; simp [hc2] at hok
      · rename_i hc2
        simp only [hc2] at hok
        split
        · rename_i hc3; simp [hc3] at hok
        · rename_i hc3
          simp only [hc3] at hok
          split
          · rename_i hc4; simp [hc4] at hok
          · rename_i hc4
            simp only [hc4] at hok
            -- the tail
            unfold signTail at hok ⊢
            split
            · rename_i hc5
              simp only [hc5, if_true] at hok
              have hc5' : ¬ (signStep cfg path output st1).fst = Outcome.ok := by simpa using hc5
              exact absurd (by simpa using hok) hc5'
            · rename_i hc5
              simp only [hc5] at hok
              have hstep : (signStep cfg path output st1).1 = .ok := by simpa using hc5
              split
              · rename_i e3; simp [e3] at hok
              · rename_i st3 e3
                have hfin : ∀ x, (if cfg.reportOk = true then (⟨Outcome.ok, st3⟩ : Res)
                    else ⟨Outcome.fail, st3⟩).st.fs x = st3.fs x := by
                  intro x; split <;> rfl
                refine ⟨fun hs => ?_, fun hs => ?_⟩
                · rw [hfin]
                  simp only [hs, if_true] at e3
                  exact writeFile_post e3
                · rw [hfin]
                  simp only [hs] at e3
                  cases e3
                  unfold signStep at hstep ⊢
                  split
                  · rename_i hpe
                    simp only [hpe] at hstep
                    have := signFile_ok hstep
                    simpa [signContent, hs] using this
                  · rename_i hpe
                    simp only [hpe] at hstep
                    have := signInPlace_ok hstep
                    simpa [signContent, hs] using this

/-! ### non-vacuity -/

/-- a small well-formed file system: `in.jpg`, `out.jpg`, `out.c2pa` and a folder `rep` with a file -/
def fsEx : FS := fun p =>
  if p = [] then .dir
  else if p = ["in.jpg"] then .file .pre
  else if p = ["out.jpg"] then .file .pre
  else if p = ["out.c2pa"] then .file .pre
  else if p = ["rep"] then .dir
  else if p = ["rep", "old.txt"] then .file .pre
  else .absent

theorem fsEx_wf : WF fsEx := by
  intro p hne hp
  unfold fsEx at hp ⊢
  by_cases h1 : p = ["in.jpg"]
  · subst h1; simp
  by_cases h2 : p = ["out.jpg"]
  · subst h2; simp
  by_cases h3 : p = ["out.c2pa"]
  · subst h3; simp
  by_cases h4 : p = ["rep"]
  · subst h4; simp
  by_cases h5 : p = ["rep", "old.txt"]
  · subst h5; simp
  simp [hne, h1, h2, h3, h4, h5] at hp

def cfgSign (out : String) (sidecar force : Bool) : Cfg :=
  { path := some ["in.jpg"], output := some [out], msrc := .file, sidecar := sidecar, force := force }

/-- without `--force` a fresh output and sidecar are created (the hypotheses of
`no_clobber_without_force` are met by a run that does write) … -/
example : (run (cfgSign "new.jpg" true false) fsEx).outcome = .ok
    ∧ (run (cfgSign "new.jpg" true false) fsEx).st.acts
      = [.create ["new.jpg"] .copy, .create ["new.c2pa"] .c2pa] := by
  constructor <;> decide

/-- … an existing sidecar stops the run (this is the repaired F10; before the repair the
action list was `[.create out.jpg, .overwrite out.c2pa]`) … -/
example : (run { cfgSign "fresh.jpg" true false with output := some ["out.jpg"] } fsEx).outcome = .exists := by
  decide

example : (run { path := some ["in.jpg"], output := some ["out2.jpg"], msrc := .file, sidecar := true }
    (fun p => if p = ["out2.c2pa"] then .file .pre else fsEx p)).outcome = .exists
    ∧ (run { path := some ["in.jpg"], output := some ["out2.jpg"], msrc := .file, sidecar := true }
    (fun p => if p = ["out2.c2pa"] then .file .pre else fsEx p)).st.acts = [] := by
  constructor <;> decide

/-- … and with `--force` exactly the output and the sidecar are replaced. -/
example : (run (cfgSign "out.jpg" true true) fsEx).st.acts
    = [.remove ["out.jpg"], .create ["out.jpg"] .copy, .overwrite ["out.c2pa"] .c2pa] := by
  decide

/-- report folder with `--force`: the tree is removed and rebuilt -/
example : (run { path := some ["in.jpg"], output := some ["rep"], msrc := .none, force := true } fsEx).st.acts
    = [.rmtree ["rep"], .mkdir ["rep"], .create ["rep", "*"] .res,
       .create ["rep", "manifest_store.json"] .report] := by
  decide

/-- `same_path_needs_force` applies to the alias spelling -/
example : resolve [".", "in.jpg"] = resolve ["in.jpg"] ∧ pathEq [".", "in.jpg"] ["in.jpg"] = false := by
  constructor <;> decide

/-- forced alias run: the model (like the tool) removes the input and then fails — the
declared output *is* the input here; `force_only_touches_output` is not violated. -/
example : (run { path := some ["in.jpg"], output := some [".", "in.jpg"], msrc := .file, force := true } fsEx).outcome = .fail
    ∧ (run { path := some ["in.jpg"], output := some [".", "in.jpg"], msrc := .file, force := true } fsEx).st.acts
      = [.remove ["in.jpg"]] := by
  constructor <;> decide

end C2pa.C32
