import C2paModel.Lemmas.C32
/-
C32 — property theorems. The statement (properties.jsonl):

  c2patool never modifies, replaces or deletes an existing file or directory it writes to
  (output file, output folder, sidecar manifest) unless force is requested. Every file it
  reports as signed reads back with a Valid manifest.

The theorems quantify over every configuration (all flag combinations, all paths, all
"facts" about the world: parseable or not, signing succeeds or not, …) and every initial
file system — and over every `Cfg.rho`, the map from path spellings to locations, i.e. over
every aliasing between PATH, `-o` and the sidecar path (`./x`, `sub/../x`, absolute paths,
directory links …). `WF` (an existing entry has an existing parent directory) is the only
assumption on the file system and is needed only for files written *into* a fresh report
folder. "Refusal implies no action" is *not* a theorem: see the section on refusals for the
exact characterisation and the proved counter-example. The second sentence of the statement is about the SDK's signing and validation
and is checked on the implementation by the harness (read-back of every output);
`signed_ok_output_present` is its model-level part: an `ok` outcome of a signing run
means the output (and the sidecar, when asked for) was written by this run.
-/
namespace C2pa.C32

/-- an existing entry below the working directory lies in an existing directory -/
def WF (fs : FS) : Prop := ∀ p, p ≠ [] → fs p ≠ .absent → fs p.dropLast = .dir

/-- the location held nothing before the run -/
def Fresh (fs : FS) (p : Loc) : Prop := fs p = .absent

/-- the output names a folder that the run fills: report / ingredient folder (no manifest
definition) or the destination of the `fragment` sub-command -/
def FolderMode (cfg : Cfg) : Prop := cfg.msrc = .none ∨ ∃ g r, cfg.cmd = .fragment g r

/-- What a run may change. There must *be* a declared output (`-o`); then: the location the
output string leads to; anything inside it when the output is a folder the run fills
(`FolderMode`) — and only then; the sidecar next to the output when `--sidecar` is given;
missing parent directories of the output (which can only be created).
Without `-o` nothing is declared, and in signing mode `-o .` declares the working directory
entry itself, not its content. -/
def Declared (cfg : Cfg) (fs : FS) (p : Loc) : Prop :=
  ∃ output, cfg.output = some output ∧
    (p = cfg.rho output
      ∨ (FolderMode cfg ∧ cfg.rho output <+: p)
      ∨ (cfg.sidecar = true ∧ p = cfg.rho (withExtension output "c2pa"))
      ∨ (p <+: cfg.rho output ∧ fs p = .absent))

theorem fresh_child {fs : FS} (hwf : WF fs) {out : Loc} (n : String) (h : fs out = .absent) :
    fs (out ++ [n]) = .absent := by
  apply Classical.byContradiction
  intro hne
  have := hwf (out ++ [n]) (by simp) hne
  rw [List.dropLast_concat] at this
  rw [h] at this
  cases this

/-! ### invariants of the whole run -/

theorem runSt_fresh (cfg : Cfg) (fs : FS) (hwf : WF fs) (hf : cfg.force = false) (st : St)
    (h : Inv fs (Fresh fs) st) : Inv fs (Fresh fs) (runSt cfg st).st := by
  have hfne : ¬ cfg.force = true := by rw [hf]; exact Bool.false_ne_true
  have abs : ∀ q, (cfg.force = true ∨ st.fs q = .absent) → Fresh fs q := by
    intro q hq
    rcases hq with hq | hq
    · exact absurd hq hfne
    · exact h.absent_of (fun x => x) hq
  unfold runSt
  split
  · exact h
  · split
    · exact h
    · split
      · exact h
      · split
        · split
          · exact h
          · split
            · exact h
            · split
              · exact fragBranch_inv h (fun _ _ hq => hq) (fun _ _ d _ hd => abs d hd)
              · exact signBranch_inv h (abs _) (fun _ hs => abs _ hs) (fun _ _ hq => hq)
        · split
          · exact h
          · split
            · exact folderBranch_inv h (fun _ _ hq => hq) (fun hh => absurd hh hfne)
                (fun n hq => fresh_child hwf n (abs _ hq))
            · exact h

theorem runSt_declared (cfg : Cfg) (fs : FS) (st : St)
    (h : Inv fs (Declared cfg fs) st) : Inv fs (Declared cfg fs) (runSt cfg st).st := by
  unfold runSt
  split
  · exact h
  · split
    · exact h
    · split
      · exact h
      · split
        · split
          · exact h
          · split
            · exact h
            · rename_i output ho
              have near : FolderMode cfg → ∀ q, (q <+: cfg.rho output ∨ cfg.rho output <+: q) →
                  fs q = .absent → Declared cfg fs q := by
                intro hfm q hq ha
                rcases hq with hq | hq
                · exact ⟨output, ho, Or.inr (Or.inr (Or.inr ⟨hq, ha⟩))⟩
                · exact ⟨output, ho, Or.inr (Or.inl ⟨hfm, hq⟩)⟩
              split
              · rename_i glob rends hcmd
                have hfm : FolderMode cfg := Or.inr ⟨glob, rends, hcmd⟩
                refine fragBranch_inv h (near hfm) ?_
                intro r _ d hd _
                unfold initDest at hd
                split at hd
                · cases hd
                · cases hd
                  exact ⟨output, ho, Or.inr (Or.inl ⟨hfm, ⟨_, rfl⟩⟩)⟩
              · refine signBranch_inv h (fun _ => ⟨output, ho, Or.inl rfl⟩)
                  (fun hs _ => ⟨output, ho, Or.inr (Or.inr (Or.inl ⟨hs, rfl⟩))⟩) ?_
                intro q hq ha
                exact ⟨output, ho, Or.inr (Or.inr (Or.inr
                  ⟨(prefixes_prefix _ _ hq).trans (prefix_dropLast _), ha⟩))⟩
        · rename_i hmne
          have hm : cfg.msrc = .none := by simpa using hmne
          have hfm : FolderMode cfg := Or.inl hm
          split
          · exact h
          · split
            · rename_i output ho
              refine folderBranch_inv h ?_ (fun _ q hq => ⟨output, ho, Or.inr (Or.inl ⟨hfm, hq⟩)⟩)
                (fun n _ => ⟨output, ho, Or.inr (Or.inl ⟨hfm, ⟨[n], rfl⟩⟩)⟩)
              intro q hq ha
              rcases hq with hq | hq
              · exact ⟨output, ho, Or.inr (Or.inr (Or.inr ⟨hq, ha⟩))⟩
              · exact ⟨output, ho, Or.inr (Or.inl ⟨hfm, hq⟩)⟩
            · exact h

/-! ### the property -/

/-- **No clobbering without `--force`**, action form: for every configuration without
`--force` and every file system, every location touched by any action of the run (file
created, overwritten, removed; directory created; tree removed) held nothing before the
run. In particular no pre-existing file or directory is overwritten, removed or replaced —
output file, output folder, sidecar manifest, fragment destinations, the input, bystanders. -/
theorem no_clobber_without_force (cfg : Cfg) (fs : FS) (hwf : WF fs) (hf : cfg.force = false) :
    ∀ a ∈ (run cfg fs).st.acts, ∀ p, a.touches p = true → fs p = .absent :=
  (runSt_fresh cfg fs hwf hf _ (Inv.init fs _)).conf

/-- state form: whatever existed before a run without `--force` is still there, unchanged. -/
theorem no_clobber_state (cfg : Cfg) (fs : FS) (hwf : WF fs) (hf : cfg.force = false) :
    ∀ p, fs p ≠ .absent → (run cfg fs).st.fs p = fs p :=
  fun p hp => (runSt_fresh cfg fs hwf hf _ (Inv.init fs _)).agree p hp

/-- The action list is the whole story: the final file system is the initial one with the
actions applied in order (so the two theorems above and below speak about everything the
run did). -/
theorem acts_explain_state (cfg : Cfg) (fs : FS) :
    (run cfg fs).st.fs = applyAll (run cfg fs).st.acts fs :=
  (runSt_declared cfg fs _ (Inv.init fs _)).explain

/-- **`--force` only touches the declared outputs** (and so does a run without it): every
location touched by any action is the output path or inside the output folder, the sidecar
path when `--sidecar` is given, or a missing parent directory of the output. -/
theorem force_only_touches_output (cfg : Cfg) (fs : FS) :
    ∀ a ∈ (run cfg fs).st.acts, ∀ p, a.touches p = true → Declared cfg fs p :=
  (runSt_declared cfg fs _ (Inv.init fs _)).conf

theorem undeclared_untouched (cfg : Cfg) (fs : FS) :
    ∀ p, ¬ Declared cfg fs p → (run cfg fs).st.fs p = fs p :=
  (runSt_declared cfg fs _ (Inv.init fs _)).agree

/-! ### no vacuity through a missing or degenerate `-o` -/

theorem runSt_no_output (cfg : Cfg) (st : St) (h : cfg.output = none) : (runSt cfg st).st = st := by
  unfold runSt
  simp only [h]
  repeat' split
  all_goals rfl

/-- **A run without `-o` performs no action at all**, whatever the other options and facts
(so `Declared`, which asks for a declared output, is not satisfied by accident). -/
theorem no_output_no_acts (cfg : Cfg) (fs : FS) (h : cfg.output = none) :
    (run cfg fs).st.acts = [] := by
  unfold run
  rw [runSt_no_output cfg _ h]

theorem no_output_state (cfg : Cfg) (fs : FS) (h : cfg.output = none) :
    (run cfg fs).st.fs = fs := by
  unfold run
  rw [runSt_no_output cfg _ h]

/-- **In signing mode only three kinds of location are ever touched** (forced or not): the
location of the output string itself, the requested sidecar, a missing ancestor directory of
the output. In particular `-o .` (location `[]`) does not make the content of the working
directory fair game. -/
theorem sign_mode_touches (cfg : Cfg) (fs : FS) (hfm : ¬ FolderMode cfg) :
    ∀ a ∈ (run cfg fs).st.acts, ∀ p, a.touches p = true →
      cfg.output.isSome = true ∧
      (p = outLoc cfg ∨ (cfg.sidecar = true ∧ p = sidecarLoc cfg)
        ∨ (p <+: outLoc cfg ∧ fs p = .absent)) := by
  intro a ha p hp
  obtain ⟨output, ho, hd⟩ := force_only_touches_output cfg fs a ha p hp
  refine ⟨by simp [ho], ?_⟩
  simp only [outLoc, sidecarLoc, ho, Option.getD_some]
  rcases hd with hd | ⟨hf, _⟩ | hd | hd
  · exact Or.inl hd
  · exact absurd hf hfm
  · exact Or.inr (Or.inl hd)
  · exact Or.inr (Or.inr hd)

/-- never the input, never siblings: an existing entry that is not the location of the output
string, not inside the output folder (folder modes), and not the requested sidecar survives
every run, forced or not — under every aliasing `rho`. -/
theorem bystander_untouched (cfg : Cfg) (fs : FS) (p : Loc) (hex : fs p ≠ .absent)
    (hout : p ≠ outLoc cfg) (hin : FolderMode cfg → ¬ outLoc cfg <+: p)
    (hsc : ¬ (cfg.sidecar = true ∧ p = sidecarLoc cfg)) :
    (run cfg fs).st.fs p = fs p := by
  apply undeclared_untouched
  rintro ⟨output, ho, hd⟩
  simp only [outLoc, sidecarLoc, ho, Option.getD_some] at hout hin hsc
  rcases hd with h | ⟨hf, h⟩ | h | ⟨_, h⟩
  · exact hout h
  · exact hin hf h
  · exact hsc h
  · exact hex h

/-- the input in particular: it survives unless the output string (or the sidecar string)
leads to the very same location, or the input lies inside the output folder. -/
theorem input_untouched (cfg : Cfg) (fs : FS) (path : RawPath) (_hp : cfg.path = some path)
    (hex : fs (cfg.rho path) ≠ .absent) (hout : cfg.rho path ≠ outLoc cfg)
    (hin : FolderMode cfg → ¬ outLoc cfg <+: cfg.rho path)
    (hsc : ¬ (cfg.sidecar = true ∧ cfg.rho path = sidecarLoc cfg)) :
    (run cfg fs).st.fs (cfg.rho path) = fs (cfg.rho path) :=
  bystander_untouched cfg fs _ hex hout hin hsc

/-- **Signing onto the input needs `--force`, under every alias**: with a manifest
definition, an output string that leads to the location of the input (same spelling,
`./in.jpg`, `sub/../in.jpg`, an absolute path, a path through a directory link, … — any
`rho`) and no `--force`, the run refuses ("Output already exists", or "Output type must
match" when the two spellings differ in their extension) before doing anything. -/
theorem same_path_needs_force (cfg : Cfg) (fs : FS) (path output : RawPath)
    (hp : cfg.path = some path) (ho : cfg.output = some output) (hm : cfg.msrc ≠ .none)
    (hcmd : ∀ g r, cfg.cmd ≠ .fragment g r) (hearly : cfg.early = false)
    (hsetup : cfg.setupOk = true)
    (hsame : cfg.rho output = cfg.rho path) (hex : fs (cfg.rho path) ≠ .absent)
    (hf : cfg.force = false) :
    ((run cfg fs).outcome = .exists ∨ (run cfg fs).outcome = .typeMismatch)
      ∧ (run cfg fs).st.acts = [] := by
  have hpe : pExists cfg { fs := fs, acts := [] } output = true := by
    simp only [pExists, locExists, hsame]
    simpa using hex
  have hchk : outputCheck cfg path output { fs := fs, acts := [] } = none := by
    unfold outputCheck
    simp [hpe, hf]
  have hsb : signBranch cfg path output { fs := fs, acts := [] }
        = ⟨.exists, { fs := fs, acts := [] }⟩
      ∨ signBranch cfg path output { fs := fs, acts := [] }
        = ⟨.typeMismatch, { fs := fs, acts := [] }⟩ := by
    unfold signBranch
    by_cases hext : extNormal output = extNormal path
    · left; simp [hext, hchk]
    · right; simp [hext]
  have hmne : (cfg.msrc != MSrc.none) = true := by simpa using hm
  have hrun : run cfg fs = signBranch cfg path output { fs := fs, acts := [] } := by
    unfold run runSt
    simp only [hp, ho, hearly, hsetup, hmne]
    cases hc : cfg.cmd with
    | none => simp
    | trust => simp
    | fragment g r => exact absurd hc (hcmd g r)
  rw [hrun]
  rcases hsb with hsb | hsb <;> rw [hsb]
  · exact ⟨Or.inl rfl, rfl⟩
  · exact ⟨Or.inr rfl, rfl⟩

/-- corollary of `no_clobber_without_force`: whenever a run touches the (existing) input,
`--force` was given. -/
theorem touching_input_needs_force (cfg : Cfg) (fs : FS) (hwf : WF fs) (path : RawPath)
    (hex : fs (cfg.rho path) ≠ .absent) (a : Action) (ha : a ∈ (run cfg fs).st.acts)
    (ht : a.touches (cfg.rho path) = true) : cfg.force = true := by
  cases hf : cfg.force with
  | true => rfl
  | false => exact absurd (no_clobber_without_force cfg fs hwf hf a ha _ ht) hex

/-! ### refusals

"Refusal" = the tool stops at one of its own argument / existence checks (as opposed to an
operation failing). The natural reading "a refusal has done nothing" is *false* for the code:
with `--force` the existing output is removed *before* the "Missing filename" / "Missing
extension" checks (main.rs: `remove_file(&output)?` precedes `output.extension().is_none()`).
The property statement permits this (force was requested and the removed file is the declared
output), so it is recorded as a proved witness, replayed on the binary by the harness
(`witness-force-refusal`), and the true part is proved in full. -/

def Outcome.refusal : Outcome → Bool
  | .usage | .needPath | .exists | .typeMismatch | .noFilename | .noExtension
  | .needManifest | .needOutput | .notFolder | .fragFile | .fragGlob => true
  | .ok | .readonly | .fail => false

/-- full statement (false for the code, see `not_refusalClean`) -/
def RefusalClean : Prop :=
  ∀ (cfg : Cfg) (fs : FS), WF fs → (run cfg fs).outcome.refusal = true → (run cfg fs).st.acts = []

theorem outputCheck_shape {cfg : Cfg} {path output : RawPath} {st st1 : St}
    (e : outputCheck cfg path output st = some (some st1)) :
    st1 = st ∨ (cfg.force = true ∧ pathEq output path = false
      ∧ isFile st (cfg.rho output) = true ∧ st1 = emit (.remove (cfg.rho output)) st) := by
  unfold outputCheck at e
  split at e
  · split at e
    · rename_i hf
      simp only [Bool.and_eq_true, Bool.not_eq_true'] at hf
      split at e
      · rename_i s e'
        cases e
        unfold removeFile at e'
        split at e'
        · rename_i hfile
          cases e'
          exact Or.inr ⟨hf.1, hf.2, hfile, rfl⟩
        · cases e'
      · cases e
    · split at e
      · cases e
      · cases e; exact Or.inl rfl
  · cases e; exact Or.inl rfl

theorem signFile_outcome (cfg : Cfg) (src out : Loc) (c : Content) (st : St) :
    (signFile cfg src out c st).1.refusal = false := by
  unfold signFile
  repeat' split
  all_goals rfl

theorem signInPlace_outcome (cfg : Cfg) (src out : Loc) (c : Content) (st : St) :
    (signInPlace cfg src out c st).1.refusal = false := by
  unfold signInPlace
  repeat' split
  all_goals rfl

theorem signTail_outcome (cfg : Cfg) (sc : Loc) (r : Outcome × St) (h : r.1.refusal = false) :
    (signTail cfg sc r).outcome.refusal = false := by
  unfold signTail
  split
  · exact h
  · repeat' split
    all_goals rfl

/-- what a refusal of the signing arm has done: nothing, or exactly the forced removal of the
existing output followed by "Missing filename"/"Missing extension" -/
def SignShape (cfg : Cfg) (path output : RawPath) (st : St) (r : Res) : Prop :=
  r.outcome.refusal = true →
    r.st = st ∨ (cfg.force = true ∧ pathEq output path = false
      ∧ (r.outcome = .noFilename ∨ r.outcome = .noExtension)
      ∧ isFile st (cfg.rho output) = true ∧ r.st = emit (.remove (cfg.rho output)) st)

theorem signBranch_refusal (cfg : Cfg) (path output : RawPath) (st : St) :
    SignShape cfg path output st (signBranch cfg path output st) := by
  unfold signBranch
  dsimp only
  split
  · exact fun _ => Or.inl rfl
  · split
    · exact fun _ => Or.inl rfl
    · exact fun _ => Or.inl rfl
    · rename_i st1 e
      have sh := outputCheck_shape e
      split
      · rename_i hsc
        intro _
        left
        rcases sh with sh | ⟨hf, _⟩
        · exact sh
        · simp [hf] at hsc
      · split
        · intro _
          rcases sh with sh | ⟨hf, hp, hfile, hst⟩
          · exact Or.inl sh
          · exact Or.inr ⟨hf, hp, Or.inl rfl, hfile, hst⟩
        · split
          · intro _
            rcases sh with sh | ⟨hf, hp, hfile, hst⟩
            · exact Or.inl sh
            · exact Or.inr ⟨hf, hp, Or.inr rfl, hfile, hst⟩
          · intro hr
            have : (signStep cfg path output st1).1.refusal = false := by
              unfold signStep
              split
              · exact signFile_outcome ..
              · exact signInPlace_outcome ..
            rw [signTail_outcome _ _ _ this] at hr
            cases hr

theorem fragBranch_refusal (cfg : Cfg) (output : RawPath) (glob : Bool) (rends : List Rend)
    (st : St) (hr : (fragBranch cfg output glob rends st).outcome.refusal = true) :
    (fragBranch cfg output glob rends st).st = st := by
  revert hr
  unfold fragBranch
  dsimp only
  repeat' split
  all_goals first
    | exact fun _ => rfl
    | (intro hr; cases hr)

theorem folderBranch_refusal (cfg : Cfg) (path output : RawPath) (st : St)
    (hr : (folderBranch cfg path output st).outcome.refusal = true) :
    (folderBranch cfg path output st).st = st := by
  revert hr
  unfold folderBranch
  dsimp only
  repeat' split
  all_goals first
    | exact fun _ => rfl
    | (intro hr; cases hr)

/-- **What a refusing run has done — exact characterisation.** Either nothing at all, or:
`--force` was given, the output string differs from the PATH string, the output location held
a file, the refusal is "Missing filename"/"Missing extension", and the run consists of
exactly one action, the removal of that file. -/
theorem refusal_acts (cfg : Cfg) (fs : FS) (hr : (run cfg fs).outcome.refusal = true) :
    (run cfg fs).st.acts = []
    ∨ (cfg.force = true
        ∧ ((run cfg fs).outcome = .noFilename ∨ (run cfg fs).outcome = .noExtension)
        ∧ ∃ path output, cfg.path = some path ∧ cfg.output = some output
            ∧ pathEq output path = false
            ∧ (∃ c, fs (cfg.rho output) = .file c)
            ∧ (run cfg fs).st.acts = [.remove (cfg.rho output)]) := by
  revert hr
  unfold run runSt
  split
  · exact fun _ => Or.inl rfl
  · split
    · exact fun _ => Or.inl rfl
    · rename_i path hpath
      split
      · exact fun _ => Or.inl rfl
      · split
        · split
          · exact fun _ => Or.inl rfl
          · split
            · exact fun _ => Or.inl rfl
            · rename_i output ho
              split
              · intro hr
                rw [fragBranch_refusal _ _ _ _ _ hr]
                exact Or.inl rfl
              · intro hr
                rcases signBranch_refusal cfg path output _ hr with hs | ⟨hf, hp, ho', hfile, hst⟩
                · rw [hs]; exact Or.inl rfl
                · right
                  refine ⟨hf, ho', path, output, hpath, ho, hp, ?_, ?_⟩
                  · unfold isFile at hfile
                    dsimp only at hfile
                    split at hfile
                    · rename_i c hc; exact ⟨c, hc⟩
                    · cases hfile
                  · rw [hst]; rfl
        · split
          · exact fun _ => Or.inl rfl
          · split
            · intro hr
              rw [folderBranch_refusal _ _ _ _ hr]
              exact Or.inl rfl
            · exact fun _ => Or.inl rfl

/-- `RefusalClean` restricted to what is true: every refusal without `--force`, and every
refusal other than "Missing filename"/"Missing extension", has performed no action. -/
theorem refusal_clean_partial (cfg : Cfg) (fs : FS) (hr : (run cfg fs).outcome.refusal = true)
    (h : cfg.force = false
      ∨ ((run cfg fs).outcome ≠ .noFilename ∧ (run cfg fs).outcome ≠ .noExtension)) :
    (run cfg fs).st.acts = [] := by
  rcases refusal_acts cfg fs hr with h0 | ⟨hf, ho, _⟩
  · exact h0
  · rcases h with h | ⟨h1, h2⟩
    · rw [hf] at h; cases h
    · rcases ho with ho | ho
      · exact absurd ho h1
      · exact absurd ho h2

/-- witness: `c2patool in -m m.json -o out -f` with existing files `in` and `out` -/
def fsW : FS := fun p =>
  if p = [] then .dir else if p = ["in"] then .file .pre else if p = ["out"] then .file .pre
  else .absent

theorem fsW_wf : WF fsW := by
  intro p hne hp
  unfold fsW at hp ⊢
  by_cases h1 : p = ["in"]
  · subst h1; simp
  by_cases h2 : p = ["out"]
  · subst h2; simp
  simp [hne, h1, h2] at hp

def cfgW : Cfg := { path := some ["in"], output := some ["out"], msrc := .file, force := true }

/-- the forced run refuses with "Missing extension" *after* deleting the output -/
theorem force_refusal_destroys_output :
    (run cfgW fsW).outcome = .noExtension ∧ (run cfgW fsW).st.acts = [.remove ["out"]]
      ∧ (run cfgW fsW).st.fs ["out"] = .absent := by
  refine ⟨?_, ?_, ?_⟩ <;> decide

/-- The code falsifies `RefusalClean`. (Replayed on the binary by the harness:
obligation `witness-force-refusal`.) -/
theorem not_refusalClean : ¬ RefusalClean := by
  intro h
  have := h cfgW fsW fsW_wf (by decide)
  revert this
  decide

/-! ### "reported as signed" at model level -/

theorem writeFile_post {p : Loc} {c : Content} {st st' : St} (e : writeFile p c st = some st') :
    st'.fs p = .file c := by
  unfold writeFile at e
  split at e
  · cases e
  · cases e; simp [emit, apply]
  · split at e
    · cases e; simp [emit, apply]
    · cases e

theorem writeFile_frame {p q : Loc} {c : Content} {st st' : St} (e : writeFile p c st = some st')
    (hq : q ≠ p) : st'.fs q = st.fs q := by
  have hq' : (p == q) = false := by
    simp only [beq_eq_false_iff_ne, ne_eq]
    exact fun h => hq h.symm
  unfold writeFile at e
  split at e
  · cases e
  · cases e; simp [emit, apply, hq']
  · split at e
    · cases e; simp [emit, apply, hq']
    · cases e

theorem signFile_ok {cfg : Cfg} {src out : Loc} {c : Content} {st : St}
    (h : (signFile cfg src out c st).1 = .ok) : (signFile cfg src out c st).2.fs out = .file c := by
  unfold signFile at h ⊢
  split
  · rename_i hc; simp [hc] at h
  · rename_i hc
    simp only [hc] at h
    split
    · rename_i e; simp [e] at h
    · rename_i st1 e1
      simp only [e1] at h
      split
      · rename_i hc2; simp [hc2] at h
      · rename_i hc2
        simp only [hc2] at h
        split
        · rename_i hc3; simp [hc3] at h
        · rename_i hc3
          simp only [hc3] at h
          split
          · rename_i e2; simp [e2] at h
          · rename_i st2 e2
            simp only [e2] at h
            split
            · rename_i hs
              simp only [hs] at e2
              exact writeFile_post e2
            · rename_i hs; simp [hs] at h

theorem signInPlace_ok {cfg : Cfg} {src out : Loc} {c : Content} {st : St}
    (h : (signInPlace cfg src out c st).1 = .ok) :
    (signInPlace cfg src out c st).2.fs out = .file c := by
  unfold signInPlace at h ⊢
  split
  · rename_i hc; simp [hc] at h
  · rename_i hc
    simp only [hc] at h
    split
    · rename_i hc2; simp [hc2] at h
    · rename_i hc2
      simp only [hc2] at h
      split
      · rename_i hc3; simp [hc3] at h
      · rename_i hc3
        simp only [hc3] at h
        split
        · rename_i e; simp [e] at h
        · rename_i st1 e1
          simp only [e1] at h
          split
          · rename_i e2; simp [e2] at h
          · rename_i st2 e2
            exact writeFile_post e2

theorem signStep_ok {cfg : Cfg} {path output : RawPath} {st : St}
    (h : (signStep cfg path output st).1 = .ok) :
    (signStep cfg path output st).2.fs (cfg.rho output) = .file (signContent cfg) := by
  unfold signStep at h ⊢
  split
  · rename_i hpe
    simp only [hpe] at h
    exact signFile_ok h
  · rename_i hpe
    simp only [hpe] at h
    exact signInPlace_ok h

/-- an `ok` tail: the signing step was `ok`, the sidecar (when asked for) holds the manifest
store, everything else is as the signing step left it -/
theorem signTail_ok {cfg : Cfg} {sc : Loc} {r : Outcome × St}
    (hok : (signTail cfg sc r).outcome = .ok) :
    r.1 = .ok ∧ (cfg.sidecar = true → (signTail cfg sc r).st.fs sc = .file .c2pa)
      ∧ ∀ q, (cfg.sidecar = true → q ≠ sc) → (signTail cfg sc r).st.fs q = r.2.fs q := by
  unfold signTail at hok ⊢
  split
  · rename_i hc
    simp only [hc, if_true] at hok
    have : ¬ r.1 = Outcome.ok := by simpa using hc
    exact absurd hok this
  · rename_i hc
    have h1 : r.1 = .ok := by simpa using hc
    simp only [hc] at hok
    split
    · rename_i e3; simp [e3] at hok
    · rename_i st3 e3
      have hfin : ∀ x, (if cfg.reportOk = true then (⟨Outcome.ok, st3⟩ : Res)
          else ⟨Outcome.fail, st3⟩).st.fs x = st3.fs x := by
        intro x; split <;> rfl
      refine ⟨h1, fun hs => ?_, fun q hq => ?_⟩
      · rw [hfin]
        simp only [hs, if_true] at e3
        exact writeFile_post e3
      · rw [hfin]
        cases hs : cfg.sidecar with
        | true =>
          simp only [hs, if_true] at e3
          exact writeFile_frame e3 (hq hs)
        | false =>
          simp only [hs] at e3
          cases e3
          rfl

/-- A signing run (manifest definition, no `fragment` sub-command) that ends `ok` — the
tool printed the report of the signed output — has left, at the location of the output
string, the signed asset written by this run (embedded manifest; with `--sidecar` the
untouched copy or the copy with the remote reference), and, with `--sidecar`, the manifest
store at the sidecar location. -/
theorem signed_ok_output_present (cfg : Cfg) (path output : RawPath) (st : St)
    (hok : (signBranch cfg path output st).outcome = .ok) :
    (cfg.sidecar = true →
      (signBranch cfg path output st).st.fs (cfg.rho (withExtension output "c2pa")) = .file .c2pa)
    ∧ ((cfg.sidecar = true → cfg.rho output ≠ cfg.rho (withExtension output "c2pa")) →
      (signBranch cfg path output st).st.fs (cfg.rho output) = .file (signContent cfg)) := by
  unfold signBranch at hok ⊢
  dsimp only at hok ⊢
  split
  · rename_i hc; simp [hc] at hok
  · rename_i hc
    simp only [hc] at hok
    split
    · rename_i e; simp [e] at hok
    · rename_i e; simp [e] at hok
    · rename_i st1 e
      simp only [e] at hok
      split
      · rename_i hc2; simp [hc2] at hok
      · rename_i hc2
        simp only [hc2] at hok
        split
        · rename_i hc3; simp [hc3] at hok
        · rename_i hc3
          simp only [hc3] at hok
          split
          · rename_i hc4; simp [hc4] at hok
          · rename_i hc4
            simp only [hc4] at hok
            obtain ⟨hstep, hsc, hframe⟩ := signTail_ok hok
            refine ⟨hsc, fun hne => ?_⟩
            rw [hframe _ hne]
            exact signStep_ok hstep

/-- the second loop of the fragment arm: when it succeeds every init destination holds a
signed init segment -/
theorem initLoop_ok {out : Loc} (rs : List Rend) : ∀ (st st' : St),
    initLoop out rs st = (true, st') →
    (∀ r ∈ rs, ∃ d, initDest out r = some d ∧ st'.fs d = .file .init)
      ∧ (∀ q, st.fs q = .file .init → st'.fs q = .file .init) := by
  induction rs with
  | nil =>
    intro st st' h
    unfold initLoop at h
    cases h
    exact ⟨fun _ hr => (nomatch hr), fun _ hq => hq⟩
  | cons r rs ih =>
    intro st st' h
    unfold initLoop at h
    split at h
    · simp at h
    · rename_i d hd
      split at h
      · simp at h
      · rename_i st1 e1
        obtain ⟨hA, hB⟩ := ih st1 st' h
        have hstep : ∀ q, st.fs q = .file .init → st1.fs q = .file .init := by
          intro q hq
          by_cases hqd : q = d
          · subst hqd; exact writeFile_post e1
          · rw [writeFile_frame e1 hqd]; exact hq
        refine ⟨?_, fun q hq => hB q (hstep q hq)⟩
        intro r' hr'
        rcases List.mem_cons.mp hr' with rfl | hr'
        · exact ⟨d, hd, hB d (writeFile_post e1)⟩
        · exact hA r' hr'

/-- **`fragment` run reported as signed**: an `ok` outcome with at least one matched init
segment means that for *every* matched init segment the destination
`<output>/<init folder>/<init name>` holds the signed init segment written by this run. -/
theorem frag_ok_inits_present (cfg : Cfg) (output : RawPath) (glob : Bool) (rends : List Rend)
    (st : St) (hok : (fragBranch cfg output glob rends st).outcome = .ok) (hne : rends ≠ []) :
    ∀ r ∈ rends, ∃ d, initDest (cfg.rho output) r = some d
      ∧ (fragBranch cfg output glob rends st).st.fs d = .file .init := by
  revert hok
  unfold fragBranch
  dsimp only
  split
  · intro h; cases h
  · split
    · intro h; cases h
    · split
      · intro h; cases h
      · split
        · rename_i hemp
          exact absurd (List.isEmpty_iff.mp hemp) hne
        · split
          · intro h; cases h
          · split
            · intro h; cases h
            · split
              · intro h; cases h
              · split
                · intro h; cases h
                · rename_i st3 e3
                  split
                  · intro _
                    exact (initLoop_ok rends _ st3 e3).1
                  · intro h; cases h

/-- **report / ingredient folder run that ends `ok`** has written the report file into the
output folder -/
theorem folder_ok_report_present (cfg : Cfg) (path output : RawPath) (st : St)
    (hok : (folderBranch cfg path output st).outcome = .ok) :
    (folderBranch cfg path output st).st.fs
      (cfg.rho output ++ [if cfg.ingredient = true then "ingredient.json" else "manifest_store.json"])
      = .file .report := by
  revert hok
  unfold folderBranch
  dsimp only
  split
  · intro h; cases h
  · split
    · intro h; cases h
    · intro h; cases h
    · split
      · intro h; cases h
      · split
        · rename_i hing
          try simp only [hing, if_true]
          repeat' split
          all_goals first
            | (intro h; cases h; done)
            | (rename_i e; intro _; exact writeFile_post e)
        · rename_i hing
          try simp only [hing, if_false]
          repeat' split
          all_goals first
            | (intro h; cases h; done)
            | (rename_i e; intro _; exact writeFile_post e)

/-! ### non-vacuity -/

/-- a small well-formed file system: `in.jpg`, `out.jpg`, `out.c2pa` and a folder `rep` with a file -/
def fsEx : FS := fun p =>
  if p = [] then .dir
  else if p = ["in.jpg"] then .file .pre
  else if p = ["out.jpg"] then .file .pre
  else if p = ["out.c2pa"] then .file .pre
  else if p = ["rep"] then .dir
  else if p = ["rep", "old.txt"] then .file .pre
  else .absent

theorem fsEx_wf : WF fsEx := by
  intro p hne hp
  unfold fsEx at hp ⊢
  by_cases h1 : p = ["in.jpg"]
  · subst h1; simp
  by_cases h2 : p = ["out.jpg"]
  · subst h2; simp
  by_cases h3 : p = ["out.c2pa"]
  · subst h3; simp
  by_cases h4 : p = ["rep"]
  · subst h4; simp
  by_cases h5 : p = ["rep", "old.txt"]
  · subst h5; simp
  simp [hne, h1, h2, h3, h4, h5] at hp

def cfgSign (out : String) (sidecar force : Bool) : Cfg :=
  { path := some ["in.jpg"], output := some [out], msrc := .file, sidecar := sidecar, force := force }

/-- without `--force` a fresh output and sidecar are created (the hypotheses of
`no_clobber_without_force` are met by a run that does write) … -/
example : (run (cfgSign "new.jpg" true false) fsEx).outcome = .ok
    ∧ (run (cfgSign "new.jpg" true false) fsEx).st.acts
      = [.create ["new.jpg"] .copy, .create ["new.c2pa"] .c2pa] := by
  constructor <;> decide

/-- … an existing sidecar stops the run (this is the repaired F10; before the repair the
action list was `[.create out.jpg, .overwrite out.c2pa]`) … -/
example : (run { cfgSign "fresh.jpg" true false with output := some ["out.jpg"] } fsEx).outcome = .exists := by
  decide

example : (run { path := some ["in.jpg"], output := some ["out2.jpg"], msrc := .file, sidecar := true }
    (fun p => if p = ["out2.c2pa"] then .file .pre else fsEx p)).outcome = .exists
    ∧ (run { path := some ["in.jpg"], output := some ["out2.jpg"], msrc := .file, sidecar := true }
    (fun p => if p = ["out2.c2pa"] then .file .pre else fsEx p)).st.acts = [] := by
  constructor <;> decide

/-- … and with `--force` exactly the output and the sidecar are replaced. -/
example : (run (cfgSign "out.jpg" true true) fsEx).st.acts
    = [.remove ["out.jpg"], .create ["out.jpg"] .copy, .overwrite ["out.c2pa"] .c2pa] := by
  decide

/-- report folder with `--force`: the tree is removed and rebuilt -/
example : (run { path := some ["in.jpg"], output := some ["rep"], msrc := .none, force := true } fsEx).st.acts
    = [.rmtree ["rep"], .mkdir ["rep"], .create ["rep", "*"] .res,
       .create ["rep", "manifest_store.json"] .report] := by
  decide

/-- `same_path_needs_force` applies to the alias spelling -/
example : resolve [".", "in.jpg"] = resolve ["in.jpg"] ∧ pathEq [".", "in.jpg"] ["in.jpg"] = false := by
  constructor <;> decide

/-- an aliasing `rho`: `sub/../in.jpg`, an absolute spelling and a path through a directory
link all lead to `[in.jpg]` -/
def rhoEx : RawPath → Loc :=
  rhoOf [(["sub", "..", "in.jpg"], ["in.jpg"]), (["@", "in.jpg"], ["in.jpg"]),
         (["ln", "in.jpg"], ["in.jpg"]), (["sub", "..", "in.c2pa"], ["in.c2pa"])]

/-- `same_path_needs_force` under such an alias: refused, nothing done … -/
example : (run { cfgSign "x" false false with output := some ["sub", "..", "in.jpg"], rho := rhoEx } fsEx).outcome = .exists
    ∧ (run { cfgSign "x" false false with output := some ["@", "in.jpg"], rho := rhoEx } fsEx).outcome = .exists
    ∧ (run { cfgSign "x" false false with output := some ["ln", "in.jpg"], rho := rhoEx } fsEx).st.acts = [] := by
  refine ⟨?_, ?_, ?_⟩ <;> decide

/-- forced alias run: the model (like the tool) removes the input and then fails — the
declared output *is* the input here; `force_only_touches_output` is not violated. The same
happens through any other alias. -/
example : (run { path := some ["in.jpg"], output := some [".", "in.jpg"], msrc := .file, force := true } fsEx).outcome = .fail
    ∧ (run { path := some ["in.jpg"], output := some [".", "in.jpg"], msrc := .file, force := true } fsEx).st.acts
      = [.remove ["in.jpg"]]
    ∧ (run { cfgSign "x" false true with output := some ["sub", "..", "in.jpg"], rho := rhoEx } fsEx).st.acts
      = [.remove ["in.jpg"]] := by
  refine ⟨?_, ?_, ?_⟩ <;> decide

/-- `-o .` in signing mode: refused without any action, forced or not (`remove_file(".")`
fails on a directory), so `sign_mode_touches` is not about an empty action list only because
of the examples above -/
example : (run { path := some ["in"], output := some ["."], msrc := .file, force := true } fsW).st.acts = []
    ∧ (run { path := some ["in"], output := some ["."], msrc := .file } fsW).outcome = .exists := by
  constructor <;> decide

def cfgFrag : Cfg :=
  { path := some ["rend", "init.mp4"], output := some ["fo"], msrc := .file,
    cmd := .fragment true [⟨some "rend", "init.mp4", ["s1.m4s"]⟩] }

/-- `frag_ok_inits_present` is met by a run that writes -/
example : (run cfgFrag fsEx).outcome = .ok
    ∧ (run cfgFrag fsEx).st.fs ["fo", "rend", "init.mp4"] = .file .init := by
  constructor <;> decide

end C2pa.C32
