import C2paModel.Model.C37
import C2paModel.Props.C04
/-
C37 — property theorems. The statement (properties.jsonl):

  A manifest whose stapled or asserted OCSP response reports the signing certificate revoked is
  never reported Valid or Trusted. OCSP responses that do not concern the signing certificate, or
  are not validly signed, never change the verdict.

All theorems quantify over every response (any number of `SingleResponse`s with arbitrary facts),
every list of asserted responses, every signing time and every log `rest` of the other checks.
-/
namespace C2pa.C37

open C2pa.C04 (Code Kind)

/-! ### what a response says about the signing certificate -/

/-- A `SingleResponse` that ends the scan with a clearance (good and in range, or revoked for
another reason than removeFromCRL but only after the signing time). -/
def Clears (st : Option Int) (now : Int) (s : Single) : Prop :=
  s.certIdMatches = true ∧ ∃ l, verdict st now s.status = .clear l

/-- A `SingleResponse` about the signing certificate that is taken as "revoked": revoked without
reason; revoked (other reason) at or before the signing time, or with no signing time; revoked
(removeFromCRL) at or before the signing time / now; or *good but outside its window*. -/
def SaysRevoked (st : Option Int) (now : Int) (s : Single) : Prop :=
  s.certIdMatches = true ∧ verdict st now s.status = .note (failE cRevoked)

/-- A response the implementation can use: it decodes, its signature verifies under the first
embedded certificate, and that certificate passes the OCSP-signing profile and chains to an anchor. -/
def Usable (r : Resp) (rp : Responder) : Prop :=
  (∃ singles, r = .parsed true singles) ∧ rp.profileOk = true ∧ rp.trusted = true

/-- **The response reports the signing certificate revoked**: usable, some matching
`SingleResponse` says revoked and none clears it. -/
def ReportsRevoked (r : Resp) (rp : Responder) (st : Option Int) (now : Int) : Prop :=
  ∃ singles, r = .parsed true singles ∧ rp.profileOk = true ∧ rp.trusted = true ∧
    (∃ s ∈ singles, SaysRevoked st now s) ∧ ∀ s ∈ singles, ¬ Clears st now s

/-- **The response does not concern the signing certificate or is not validly signed**: it does
not decode, embeds no certificate to check its signature with, the signature does not verify, the
responder fails its profile or is untrusted, or no `certId` identifies the signing certificate. -/
def Unbound (r : Resp) (rp : Responder) : Prop :=
  r = .undecodable ∨ (∃ l, r = .noCerts l) ∨ (∃ l, r = .parsed false l) ∨
    rp.profileOk = false ∨ rp.trusted = false ∨
    (∃ l, r = .parsed true l ∧ ∀ s ∈ l, s.certIdMatches = false)

theorem hasCode_append (a b : List Entry) (c : Code) :
    hasCode (a ++ b) c = (hasCode a c || hasCode b c) := by
  simp [hasCode, List.any_append]

theorem hasCode_failE_self (c : Code) : hasCode [failE c] c = true := by
  simp [hasCode, failE]

/-- Once the internal log has a revoked entry and nothing clears, the scan result has it. -/
theorem scan_keeps_revoked (st : Option Int) (now : Int) :
    ∀ (singles : List Single) (internal : List Entry),
      (∀ s ∈ singles, ¬ Clears st now s) → hasCode internal cRevoked = true →
      hasCode (scan st now singles internal) cRevoked = true := by
  intro singles
  induction singles with
  | nil => intro internal _ h; simpa [scan] using h
  | cons a rest ih =>
    intro internal hc h
    have hrest : ∀ s ∈ rest, ¬ Clears st now s := fun s hs => hc s (List.mem_cons_of_mem _ hs)
    unfold scan
    cases hm : a.certIdMatches
    · simpa using ih internal hrest h
    · simp only [Bool.not_true, Bool.false_eq_true, if_false]
      cases hv : verdict st now a.status with
      | clear l => exact absurd ⟨hm, l, hv⟩ (hc a (List.mem_cons_self ..))
      | note e =>
        simp only
        exact ih _ hrest (by rw [hasCode_append, h]; rfl)
      | pass => simpa using ih internal hrest h

theorem scan_revoked (st : Option Int) (now : Int) :
    ∀ (singles : List Single) (internal : List Entry),
      (∀ s ∈ singles, ¬ Clears st now s) → (∃ s ∈ singles, SaysRevoked st now s) →
      hasCode (scan st now singles internal) cRevoked = true := by
  intro singles
  induction singles with
  | nil => intro _ _ h; obtain ⟨s, hs, _⟩ := h; cases hs
  | cons a rest ih =>
    intro internal hc hr
    have hrest : ∀ s ∈ rest, ¬ Clears st now s := fun s hs => hc s (List.mem_cons_of_mem _ hs)
    obtain ⟨s, hs, hsr⟩ := hr
    unfold scan
    cases hs with
    | head =>
      obtain ⟨hm, hv⟩ := hsr
      simp only [hm, Bool.not_true, Bool.false_eq_true, if_false, hv]
      exact scan_keeps_revoked st now rest _ hrest
        (by rw [hasCode_append, hasCode_failE_self]; simp)
    | tail _ hs' =>
      cases hm : a.certIdMatches
      · simpa using ih internal hrest ⟨s, hs', hsr⟩
      · simp only [Bool.not_true, Bool.false_eq_true, if_false]
        cases hv : verdict st now a.status with
        | clear l => exact absurd ⟨hm, l, hv⟩ (hc a (List.mem_cons_self ..))
        | note e => simp only; exact ih _ hrest ⟨s, hs', hsr⟩
        | pass => simpa using ih internal hrest ⟨s, hs', hsr⟩

theorem checkStapled_revoked (r : Resp) (rp : Responder) (st : Option Int) (now : Int)
    (h : ReportsRevoked r rp st now) : hasCode (checkStapled r rp st now) cRevoked = true := by
  obtain ⟨singles, rfl, hp, ht, hr, hc⟩ := h
  simp only [checkStapled, fromDerChecked, hp, ht, Bool.not_true, Bool.false_eq_true, if_false]
  exact scan_revoked st now singles [] hc hr

theorem decide1_revoked (l : List Entry) (h : hasCode l cRevoked = true) :
    decide1 l = some ⟨false, [info cRevoked]⟩ := by
  simp [decide1, h]

/-- Responses that decide nothing (neither revoked nor not-revoked reaches the caller). -/
def Silent (r : Resp) (rp : Responder) (st : Option Int) (now : Int) : Prop :=
  decide1 (checkStapled r rp st now) = none

theorem processList_revoked (st : Option Int) (now : Int) :
    ∀ (pre : List (Resp × Responder)) (r : Resp) (rp : Responder) (post : List (Resp × Responder)),
      (∀ x ∈ pre, Silent x.1 x.2 st now) → ReportsRevoked r rp st now →
      (processList st now (pre ++ (r, rp) :: post)).ok = false := by
  intro pre
  induction pre with
  | nil =>
    intro r rp post _ h
    simp [processList, decide1_revoked _ (checkStapled_revoked r rp st now h)]
  | cons a pre' ih =>
    intro r rp post hs h
    obtain ⟨ar, arp⟩ := a
    have ha : decide1 (checkStapled ar arp st now) = none := hs (ar, arp) (List.mem_cons_self ..)
    simp only [List.cons_append, processList, ha]
    exact ih r rp post (fun x hx => hs x (List.mem_cons_of_mem _ hx)) h

/-- **A stapled response that reports the signing certificate revoked: no Valid/Trusted report.**
The revocation check fails, `verify_claim` returns the error and the read yields no report at all. -/
theorem revoked_never_valid_stapled (r : Resp) (rp : Responder) (asserted : List (Resp × Responder))
    (st : Option Int) (now : Int) (rest : List Entry) (h : ReportsRevoked r rp st now) :
    report (some (r, rp)) asserted st now rest = none := by
  have := decide1_revoked _ (checkStapled_revoked r rp st now h)
  simp [report, checkOcspStatus, this]

/-- **An asserted response (certificate-status assertion) that reports the signing certificate
revoked: no Valid/Trusted report**, provided the stapled value (if any) and the asserted responses
before it decide nothing. -/
theorem revoked_never_valid_asserted (staple : Option (Resp × Responder))
    (pre : List (Resp × Responder)) (r : Resp) (rp : Responder) (post : List (Resp × Responder))
    (st : Option Int) (now : Int) (rest : List Entry)
    (hst : ∀ x, staple = some x → Silent x.1 x.2 st now)
    (hpre : ∀ x ∈ pre, Silent x.1 x.2 st now) (h : ReportsRevoked r rp st now) :
    report staple (pre ++ (r, rp) :: post) st now rest = none := by
  have hp := processList_revoked st now pre r rp post hpre h
  cases staple with
  | none => simp [report, checkOcspStatus, hp]
  | some x =>
    obtain ⟨xr, xrp⟩ := x
    have : decide1 (checkStapled xr xrp st now) = none := hst (xr, xrp) rfl
    simp [report, checkOcspStatus, this, hp]

/-- **`revoked_never_valid`** in the statement's words: whenever there is a report, it was not
produced from a revoked response — a reported state (in particular Valid or Trusted) excludes a
stapled response that reports the signing certificate revoked. -/
theorem revoked_never_valid (r : Resp) (rp : Responder) (asserted : List (Resp × Responder))
    (st : Option Int) (now : Int) (rest : List Entry) (s : C04.State) (l : List Entry)
    (hrep : report (some (r, rp)) asserted st now rest = some (s, l)) :
    ¬ ReportsRevoked r rp st now := by
  intro h
  rw [revoked_never_valid_stapled r rp asserted st now rest h] at hrep
  cases hrep

/-! ### unbound or unsigned responses are ignored -/

theorem scan_unmatched (st : Option Int) (now : Int) :
    ∀ (singles : List Single) (internal : List Entry),
      (∀ s ∈ singles, s.certIdMatches = false) → scan st now singles internal = internal := by
  intro singles
  induction singles with
  | nil => intro _ _; rfl
  | cons a rest ih =>
    intro internal h
    unfold scan
    simp only [h a (List.mem_cons_self ..), Bool.not_false, if_true]
    exact ih internal (fun s hs => h s (List.mem_cons_of_mem _ hs))

/-- An unbound / unsigned response contributes nothing. -/
theorem checkStapled_unbound (r : Resp) (rp : Responder) (st : Option Int) (now : Int)
    (h : Unbound r rp) : checkStapled r rp st now = [] := by
  rcases h with rfl | ⟨l, rfl⟩ | ⟨l, rfl⟩ | hp | ht | ⟨l, rfl, hl⟩
  · simp [checkStapled, fromDerChecked]
  · simp [checkStapled, fromDerChecked]
  · simp [checkStapled, fromDerChecked]
  · unfold checkStapled
    cases (fromDerChecked r st now) with
    | mk c lg => cases c <;> simp [hp]
  · unfold checkStapled
    cases (fromDerChecked r st now) with
    | mk c lg => cases c <;> cases hpo : rp.profileOk <;> simp [ht]
  · simp only [checkStapled, fromDerChecked, scan_unmatched st now l [] hl]
    cases rp.profileOk <;> cases rp.trusted <;> simp

theorem silent_of_unbound (r : Resp) (rp : Responder) (st : Option Int) (now : Int)
    (h : Unbound r rp) : Silent r rp st now := by
  simp [Silent, checkStapled_unbound r rp st now h, decide1, hasCode]

/-- **An unbound / unsigned stapled response never changes the verdict**: revocation outcome,
log, state and report are exactly those of the same manifest without it. -/
theorem unbound_or_unsigned_response_ignored (r : Resp) (rp : Responder)
    (asserted : List (Resp × Responder)) (st : Option Int) (now : Int) (rest : List Entry)
    (h : Unbound r rp) :
    checkOcspStatus (some (r, rp)) asserted st now = checkOcspStatus none asserted st now ∧
    report (some (r, rp)) asserted st now rest = report none asserted st now rest := by
  have hs : decide1 (checkStapled r rp st now) = none := silent_of_unbound r rp st now h
  have h1 : checkOcspStatus (some (r, rp)) asserted st now = checkOcspStatus none asserted st now := by
    simp [checkOcspStatus, hs]
  refine ⟨h1, ?_⟩
  simp [report, claimState, claimLog, h1]

/-- **… and so does an unbound / unsigned asserted response**, wherever it stands in the list. -/
theorem unbound_asserted_response_ignored (staple : Option (Resp × Responder))
    (pre post : List (Resp × Responder)) (r : Resp) (rp : Responder)
    (st : Option Int) (now : Int) (rest : List Entry) (h : Unbound r rp) :
    report staple (pre ++ (r, rp) :: post) st now rest = report staple (pre ++ post) st now rest := by
  have hs : decide1 (checkStapled r rp st now) = none := silent_of_unbound r rp st now h
  have hl : processList st now (pre ++ (r, rp) :: post) = processList st now (pre ++ post) := by
    induction pre with
    | nil => simp [processList, hs]
    | cons a pre' ih =>
      obtain ⟨ar, arp⟩ := a
      simp only [List.cons_append, processList]
      rw [ih]
  have hc : checkOcspStatus staple (pre ++ (r, rp) :: post) st now
      = checkOcspStatus staple (pre ++ post) st now := by
    cases staple with
    | none => simp [checkOcspStatus, hl]
    | some x => obtain ⟨xr, xrp⟩ := x; simp [checkOcspStatus, hl]
  simp [report, claimState, claimLog, hc]

/-- With no usable evidence at all the revocation check succeeds silently. -/
theorem no_evidence_no_entries (st : Option Int) (now : Int) (rest : List Entry) :
    report none [] st now rest
      = some (C04.state { active := some (toCodes rest), deltas := none }, rest) := by
  simp [report, checkOcspStatus, processList, claimState, claimLog]

/-! ### non-vacuity -/

def okResponder : Responder := ⟨true, true⟩

example : ReportsRevoked (.parsed true [⟨true, .revoked 100 .other⟩]) okResponder (some 200) 300 :=
  ⟨_, rfl, rfl, rfl, ⟨_, List.mem_cons_self .., rfl, by decide⟩,
    by intro s hs; simp at hs; subst hs; rintro ⟨_, l, hl⟩; simp [verdict] at hl⟩

example : report (some (.parsed true [⟨true, .revoked 100 .other⟩], okResponder)) [] (some 200) 300
    [succ C04.cSigValidated, succ C04.cInsideValidity] = none := by decide

/-- Signed before the revocation (time-stamped at 50, revoked at 100): not treated as revoked. -/
example : (report (some (.parsed true [⟨true, .revoked 100 .other⟩], okResponder)) [] (some 50) 300
    [succ C04.cSigValidated, succ C04.cInsideValidity]).map (·.1) = some .valid := by decide

example : Unbound (.parsed true [⟨false, .revoked 100 .none⟩]) okResponder :=
  Or.inr (Or.inr (Or.inr (Or.inr (Or.inr ⟨_, rfl, by simp⟩))))

/-- The same revoked response about *another* certificate leaves the manifest Valid. -/
example : (report (some (.parsed true [⟨false, .revoked 100 .none⟩], okResponder)) [] none 300
    [succ C04.cSigValidated, succ C04.cInsideValidity]).map (·.1) = some .valid := by decide

end C2pa.C37
