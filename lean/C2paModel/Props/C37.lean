import C2paModel.Model.C37
import C2paModel.Props.C04
/-
C37 — property theorems. The statement (properties.jsonl):

  A manifest whose stapled or asserted OCSP response reports the signing certificate revoked is
  never reported Valid or Trusted. OCSP responses that do not concern the signing certificate, or
  are not validly signed, never change the verdict.

All theorems quantify over every response (any number of `SingleResponse`s with arbitrary facts),
every list of asserted responses, every signing time and every log `rest` of the other checks.
The predicates a theorem assumes are stated on the *input* (the OCSP status, its times, the three
`certId` comparisons, the responder facts) — never on the model's own intermediate results; the
`…_iff` lemmas tie them to what the scan does.
-/
namespace C2pa.C37

open C2pa.C04 (Code Kind)

/-! ### what a `SingleResponse` says, read at the signing time (input level) -/

/-- **The status says "revoked"** for a signature made at `st` (no trusted signing time: now):
revoked without a reason; revoked for a reason other than removeFromCRL at or before the signing
time (or with no signing time at all); revoked with removeFromCRL at or before the signing time / now. -/
def RevokedStatus (st : Option Int) (now : Int) : Status → Prop
  | .revoked _ .none => True
  | .revoked revAt .other => ∀ t, st = some t → revAt ≤ t
  | .revoked revAt .removeFromCrl => revAt ≤ st.getD now
  | _ => False

/-- A `good` status that the implementation nevertheless files under `signingCredential.ocsp.revoked`:
the signing time is at or after thisUpdate and after nextUpdate; without a signing time: now is
before thisUpdate. -/
def GoodOutOfWindow (st : Option Int) (now : Int) : Status → Prop
  | .good thisU nextU =>
    match st with
    | some t => thisU ≤ t ∧ nextU < t
    | none => now < thisU
  | _ => False

/-- A status that ends the scan with a clearance: good and in its window (with a signing time:
before thisUpdate or up to nextUpdate; **without one: merely `thisUpdate ≤ now` — nextUpdate is not
consulted**), or revoked for a reason other than removeFromCRL strictly after the signing time. -/
def ClearingStatus (st : Option Int) (now : Int) : Status → Prop
  | .good thisU nextU =>
    match st with
    | some t => t < thisU ∨ t ≤ nextU
    | none => thisU ≤ now
  | .revoked revAt .other => ∃ t, st = some t ∧ t < revAt
  | _ => False

theorem verdict_good_some (t a b now : Int) :
    verdict (some t) now (.good a b) =
      if t < a ∨ t ≤ b then .clear [succ cNotRevoked] else .note (failE cRevoked) := by
  simp only [verdict]
  by_cases h1 : t < a
  · simp [h1]
  · by_cases h2 : t ≤ b
    · have : a ≤ t := by omega
      simp [h1, h2, this]
    · simp [h1, h2]

theorem verdict_good_none (a b now : Int) :
    verdict none now (.good a b) =
      if a ≤ now then .clear [succ cNotRevoked] else .note (failE cRevoked) := by
  simp only [verdict]
  by_cases h : a ≤ now <;> simp [h]

theorem verdict_crl_some (t x now : Int) :
    verdict (some t) now (.revoked x .removeFromCrl) =
      if t < x then .pass else .note (failE cRevoked) := by
  simp only [verdict]
  by_cases h : t < x <;> simp [h]

theorem verdict_crl_none (x now : Int) :
    verdict none now (.revoked x .removeFromCrl) =
      if now < x then .pass else .note (failE cRevoked) := by
  simp only [verdict]
  by_cases h : now < x <;> simp [h]

theorem verdict_other_some (t x now : Int) :
    verdict (some t) now (.revoked x .other) =
      if t < x then .clear [] else .note (failE cRevoked) := by
  simp only [verdict]
  by_cases h : t < x <;> simp [h]

theorem verdict_other_none (x now : Int) :
    verdict none now (.revoked x .other) = .note (failE cRevoked) := by
  simp [verdict]

theorem verdict_noreason (st : Option Int) (x now : Int) :
    verdict st now (.revoked x .none) = .note (failE cRevoked) := by
  simp [verdict]

theorem verdict_revoked_iff (st : Option Int) (now : Int) (s : Status) :
    verdict st now s = .note (failE cRevoked) ↔ RevokedStatus st now s ∨ GoodOutOfWindow st now s := by
  have hne : failE cUnknown ≠ failE cRevoked := by decide
  cases s with
  | good a b =>
    cases st with
    | none =>
      rw [verdict_good_none]
      simp only [RevokedStatus, GoodOutOfWindow, false_or]
      by_cases h : a ≤ now
      · rw [if_pos h]; exact ⟨fun h' => (by cases h'), fun h' => by omega⟩
      · rw [if_neg h]; exact ⟨fun _ => by omega, fun _ => rfl⟩
    | some t =>
      rw [verdict_good_some]
      simp only [RevokedStatus, GoodOutOfWindow, false_or]
      by_cases h : t < a ∨ t ≤ b
      · rw [if_pos h]; exact ⟨fun h' => (by cases h'), fun h' => by omega⟩
      · rw [if_neg h]; exact ⟨fun _ => by omega, fun _ => rfl⟩
  | revoked x r =>
    cases r with
    | none =>
      rw [verdict_noreason]
      exact ⟨fun _ => Or.inl trivial, fun _ => rfl⟩
    | removeFromCrl =>
      cases st with
      | none =>
        rw [verdict_crl_none]
        simp only [RevokedStatus, GoodOutOfWindow, or_false, Option.getD_none]
        by_cases h : now < x
        · rw [if_pos h]; exact ⟨fun h' => (by cases h'), fun h' => by omega⟩
        · rw [if_neg h]; exact ⟨fun _ => by omega, fun _ => rfl⟩
      | some t =>
        rw [verdict_crl_some]
        simp only [RevokedStatus, GoodOutOfWindow, or_false, Option.getD_some]
        by_cases h : t < x
        · rw [if_pos h]; exact ⟨fun h' => (by cases h'), fun h' => by omega⟩
        · rw [if_neg h]; exact ⟨fun _ => by omega, fun _ => rfl⟩
    | other =>
      cases st with
      | none =>
        rw [verdict_other_none]
        simp only [RevokedStatus, GoodOutOfWindow, or_false]
        exact ⟨fun _ t ht => (by cases ht), fun _ => by first | rfl | trivial⟩
      | some t =>
        rw [verdict_other_some]
        simp only [RevokedStatus, GoodOutOfWindow, or_false]
        by_cases h : t < x
        · rw [if_pos h]
          exact ⟨fun h' => (by cases h'), fun h' => by have := h' t rfl; omega⟩
        · rw [if_neg h]
          exact ⟨fun _ t' ht' => by cases ht'; omega, fun _ => rfl⟩
  | unknown =>
    simp only [verdict, RevokedStatus, GoodOutOfWindow, or_false, iff_false]
    intro h; exact hne (Verdict.note.inj h)
  | badTime =>
    simp only [verdict, RevokedStatus, GoodOutOfWindow, or_false, iff_false]
    intro h; cases h

theorem verdict_clear_iff (st : Option Int) (now : Int) (s : Status) :
    (∃ l, verdict st now s = .clear l) ↔ ClearingStatus st now s := by
  cases s with
  | good a b =>
    cases st with
    | none =>
      rw [verdict_good_none]
      simp only [ClearingStatus]
      by_cases h : a ≤ now
      · rw [if_pos h]; exact ⟨fun _ => h, fun _ => ⟨_, rfl⟩⟩
      · rw [if_neg h]; exact ⟨fun ⟨l, hl⟩ => (by cases hl), fun h' => absurd h' h⟩
    | some t =>
      rw [verdict_good_some]
      simp only [ClearingStatus]
      by_cases h : t < a ∨ t ≤ b
      · rw [if_pos h]; exact ⟨fun _ => h, fun _ => ⟨_, rfl⟩⟩
      · rw [if_neg h]; exact ⟨fun ⟨l, hl⟩ => (by cases hl), fun h' => absurd h' h⟩
  | revoked x r =>
    cases r with
    | none =>
      rw [verdict_noreason]
      exact ⟨fun ⟨l, hl⟩ => (by cases hl), fun h => absurd h id⟩
    | removeFromCrl =>
      simp only [ClearingStatus, iff_false]
      rintro ⟨l, hl⟩
      cases st with
      | none => rw [verdict_crl_none] at hl; split at hl <;> cases hl
      | some t => rw [verdict_crl_some] at hl; split at hl <;> cases hl
    | other =>
      cases st with
      | none =>
        rw [verdict_other_none]
        simp only [ClearingStatus]
        exact ⟨fun ⟨l, hl⟩ => (by cases hl), fun ⟨t, ht, _⟩ => by cases ht⟩
      | some t =>
        rw [verdict_other_some]
        simp only [ClearingStatus]
        by_cases h : t < x
        · rw [if_pos h]; exact ⟨fun _ => ⟨t, rfl, h⟩, fun _ => ⟨_, rfl⟩⟩
        · rw [if_neg h]
          exact ⟨fun ⟨l, hl⟩ => (by cases hl), fun ⟨t', ht', hlt⟩ => by cases ht'; exact absurd hlt h⟩
  | unknown =>
    simp only [verdict, ClearingStatus, iff_false]
    rintro ⟨l, hl⟩; cases hl
  | badTime =>
    simp only [verdict, ClearingStatus, iff_false]
    rintro ⟨l, hl⟩; cases hl

theorem verdict_abort_iff (st : Option Int) (now : Int) (s : Status) :
    verdict st now s = .abort ↔ s = .badTime := by
  cases s with
  | good a b =>
    refine ⟨fun h => ?_, fun h => by cases h⟩
    cases st with
    | none => rw [verdict_good_none] at h; split at h <;> cases h
    | some t => rw [verdict_good_some] at h; split at h <;> cases h
  | revoked x r =>
    refine ⟨fun h => ?_, fun h => by cases h⟩
    cases r with
    | none => rw [verdict_noreason] at h; cases h
    | removeFromCrl =>
      cases st with
      | none => rw [verdict_crl_none] at h; split at h <;> cases h
      | some t => rw [verdict_crl_some] at h; split at h <;> cases h
    | other =>
      cases st with
      | none => rw [verdict_other_none] at h; cases h
      | some t => rw [verdict_other_some] at h; split at h <;> cases h
  | unknown => exact ⟨fun h => by simp [verdict] at h, fun h => by cases h⟩
  | badTime => exact ⟨fun _ => rfl, fun _ => rfl⟩

/-- Every entry the scan notes is `signingCredential.ocsp.revoked` or `…ocsp.unknown` (failure). -/
theorem verdict_note_cases (st : Option Int) (now : Int) (s : Status) (e : Entry)
    (h : verdict st now s = .note e) : e = failE cRevoked ∨ e = failE cUnknown := by
  cases s with
  | good a b =>
    left
    cases st with
    | none => rw [verdict_good_none] at h; split at h <;> cases h; rfl
    | some t => rw [verdict_good_some] at h; split at h <;> cases h; rfl
  | revoked x r =>
    left
    cases r with
    | none => rw [verdict_noreason] at h; cases h; rfl
    | removeFromCrl =>
      cases st with
      | none => rw [verdict_crl_none] at h; split at h <;> cases h; rfl
      | some t => rw [verdict_crl_some] at h; split at h <;> cases h; rfl
    | other =>
      cases st with
      | none => rw [verdict_other_none] at h; cases h; rfl
      | some t => rw [verdict_other_some] at h; split at h <;> cases h; rfl
  | unknown => right; simp only [verdict] at h; cases h; rfl
  | badTime => simp only [verdict] at h; cases h

/-- The log of a clearance never carries the revoked code. -/
theorem verdict_clear_log (st : Option Int) (now : Int) (s : Status) (l : List Entry)
    (h : verdict st now s = .clear l) : hasCode l cRevoked = false := by
  have h1 : hasCode [succ cNotRevoked] cRevoked = false := by decide
  have h2 : hasCode ([] : List Entry) cRevoked = false := rfl
  cases s with
  | good a b =>
    cases st with
    | none => rw [verdict_good_none] at h; split at h <;> cases h; exact h1
    | some t => rw [verdict_good_some] at h; split at h <;> cases h; exact h1
  | revoked x r =>
    cases r with
    | none => rw [verdict_noreason] at h; cases h
    | removeFromCrl =>
      cases st with
      | none => rw [verdict_crl_none] at h; split at h <;> cases h
      | some t => rw [verdict_crl_some] at h; split at h <;> cases h
    | other =>
      cases st with
      | none => rw [verdict_other_none] at h; cases h
      | some t => rw [verdict_other_some] at h; split at h <;> cases h; exact h2
  | unknown => simp only [verdict] at h; cases h
  | badTime => simp only [verdict] at h; cases h

/-- **A "revoked" status is flagged** (reviewer's form): the OCSP status alone — not the scan's
own result — determines the `signingCredential.ocsp.revoked` note. -/
theorem revoked_status_flagged (st : Option Int) (now : Int) (revAt : Int) (r : Reason)
    (h : r = .none ∨ (r = .other ∧ ∀ t, st = some t → revAt ≤ t) ∨
      (r = .removeFromCrl ∧ revAt ≤ st.getD now)) :
    verdict st now (.revoked revAt r) = .note (failE cRevoked) := by
  rw [verdict_revoked_iff]
  left
  rcases h with rfl | ⟨rfl, h⟩ | ⟨rfl, h⟩
  · trivial
  · exact h
  · exact h

/-- A status that says revoked never clears. -/
theorem revoked_not_clearing (st : Option Int) (now : Int) (s : Status)
    (h : RevokedStatus st now s) : ¬ ClearingStatus st now s := by
  cases s with
  | good a b => exact absurd h id
  | revoked at' r =>
    cases r with
    | none => intro hc; exact hc
    | removeFromCrl => intro hc; exact hc
    | other =>
      rintro ⟨t, ht, hlt⟩
      have := h t ht
      omega
  | unknown => exact absurd h id
  | badTime => exact absurd h id

/-! ### what a response says -/

/-- A `SingleResponse` about the signing certificate that ends the scan with a clearance. -/
def Clears (st : Option Int) (now : Int) (s : Single) : Prop :=
  s.certIdMatches = true ∧ ClearingStatus st now s.status

/-- A `SingleResponse` about the signing certificate whose time value does not re-parse:
`from_der_checked` returns `Err` when the scan reaches it. -/
def Aborts (s : Single) : Prop := s.certIdMatches = true ∧ s.status = .badTime

/-- A `SingleResponse` about the signing certificate for which the scan notes "revoked": the status
says revoked, or it is a `good` status outside its window. -/
def Flagged (st : Option Int) (now : Int) (s : Single) : Prop :=
  s.certIdMatches = true ∧ (RevokedStatus st now s.status ∨ GoodOutOfWindow st now s.status)

/-- A response the implementation can use: it decodes, its signature verifies under the first
embedded certificate, and that certificate passes the OCSP-signing profile and chains to an anchor. -/
def Usable (r : Resp) (rp : Responder) : Prop :=
  (∃ singles, r = .parsed true singles) ∧ rp.profileOk = true ∧ rp.trusted = true

/-- **The response reports the signing certificate revoked**: usable; some `SingleResponse` whose
`certId` matches in all three components carries a status that says revoked at the signing time;
no matching `SingleResponse` clears, and none has an unparsable time. -/
def ReportsRevoked (r : Resp) (rp : Responder) (st : Option Int) (now : Int) : Prop :=
  ∃ singles, r = .parsed true singles ∧ rp.profileOk = true ∧ rp.trusted = true ∧
    (∃ s ∈ singles, s.certIdMatches = true ∧ RevokedStatus st now s.status) ∧
    (∀ s ∈ singles, ¬ Clears st now s) ∧ ∀ s ∈ singles, ¬ Aborts s

/-- **The response does not concern the signing certificate or is not validly signed**: it does
not decode, embeds no certificate to check its signature with, the signature does not verify, the
responder fails its profile or is untrusted, or every `certId` differs from the signing certificate
in the serial number, the issuer name hash or the issuer key hash. -/
def Unbound (r : Resp) (rp : Responder) : Prop :=
  r = .undecodable ∨ (∃ l, r = .noCerts l) ∨ (∃ l, r = .parsed false l) ∨
    rp.profileOk = false ∨ rp.trusted = false ∨
    (∃ l, r = .parsed true l ∧
      ∀ s ∈ l, s.serialEq = false ∨ s.nameHashEq = false ∨ s.keyHashEq = false)

/-- **The `certId` binding needs all three components** (`cert_id_matches_signer`). -/
theorem certId_matches_iff (s : Single) :
    s.certIdMatches = true ↔ s.serialEq = true ∧ s.nameHashEq = true ∧ s.keyHashEq = true := by
  simp [Single.certIdMatches, Bool.and_eq_true, and_assoc]

theorem certId_mismatch_iff (s : Single) :
    s.certIdMatches = false ↔ s.serialEq = false ∨ s.nameHashEq = false ∨ s.keyHashEq = false := by
  cases h1 : s.serialEq <;> cases h2 : s.nameHashEq <;> cases h3 : s.keyHashEq <;>
    simp [Single.certIdMatches, h1, h2, h3]

theorem hasCode_append (a b : List Entry) (c : Code) :
    hasCode (a ++ b) c = (hasCode a c || hasCode b c) := by
  simp [hasCode, List.any_append]

theorem hasCode_failE_self (c : Code) : hasCode [failE c] c = true := by
  simp [hasCode, failE]

theorem hasCode_unknown_revoked : hasCode [failE cUnknown] cRevoked = false := by decide
theorem hasCode_unknown_notRevoked : hasCode [failE cUnknown] cNotRevoked = false := by decide
theorem hasCode_revoked_notRevoked : hasCode [failE cRevoked] cNotRevoked = false := by decide
theorem hasCode_notRevoked_revoked : hasCode [succ cNotRevoked] cRevoked = false := by decide

/-- A `SingleResponse` at which the scan neither returns early nor fails. -/
def NoStop (st : Option Int) (now : Int) (s : Single) : Prop := ¬ Clears st now s ∧ ¬ Aborts s

/-- **The scan result carries `signingCredential.ocsp.revoked` iff** no matching `SingleResponse`
clears or aborts and one of them is flagged (or the internal log already had the code). -/
theorem scan_revoked_iff (st : Option Int) (now : Int) :
    ∀ (singles : List Single) (internal : List Entry),
      (∃ l, scan st now singles internal = some l ∧ hasCode l cRevoked = true) ↔
        (∀ s ∈ singles, NoStop st now s) ∧
          (hasCode internal cRevoked = true ∨ ∃ s ∈ singles, Flagged st now s) := by
  intro singles
  induction singles with
  | nil => intro internal; simp [scan]
  | cons a rest ih =>
    intro internal
    unfold scan
    cases hm : a.certIdMatches
    · -- not about the signing certificate: skipped
      simp only [Bool.not_false, if_true]
      rw [ih internal]
      have hns : NoStop st now a := ⟨fun h => by simp [Clears, hm] at h, fun h => by simp [Aborts, hm] at h⟩
      have hnf : ¬ Flagged st now a := fun h => by simp [Flagged, hm] at h
      constructor
      · rintro ⟨h1, h2⟩
        refine ⟨fun s hs => ?_, ?_⟩
        · rcases List.mem_cons.1 hs with rfl | hs
          · exact hns
          · exact h1 s hs
        · rcases h2 with h2 | ⟨s, hs, hf⟩
          · exact Or.inl h2
          · exact Or.inr ⟨s, List.mem_cons_of_mem _ hs, hf⟩
      · rintro ⟨h1, h2⟩
        refine ⟨fun s hs => h1 s (List.mem_cons_of_mem _ hs), ?_⟩
        rcases h2 with h2 | ⟨s, hs, hf⟩
        · exact Or.inl h2
        · rcases List.mem_cons.1 hs with rfl | hs
          · exact absurd hf hnf
          · exact Or.inr ⟨s, hs, hf⟩
    · simp only [Bool.not_true, Bool.false_eq_true, if_false]
      cases hv : verdict st now a.status with
      | clear l =>
        have hc : Clears st now a := ⟨hm, (verdict_clear_iff st now a.status).1 ⟨l, hv⟩⟩
        simp only
        constructor
        · rintro ⟨l', hl', hcode⟩
          cases hl'
          rw [verdict_clear_log st now a.status l hv] at hcode; cases hcode
        · rintro ⟨h1, _⟩
          exact absurd hc (h1 a (List.mem_cons_self ..)).1
      | abort =>
        have ha : Aborts a := ⟨hm, (verdict_abort_iff st now a.status).1 hv⟩
        simp only
        constructor
        · rintro ⟨l', hl', _⟩; cases hl'
        · rintro ⟨h1, _⟩
          exact absurd ha (h1 a (List.mem_cons_self ..)).2
      | pass =>
        simp only
        rw [ih internal]
        have hns : NoStop st now a :=
          ⟨(fun h => by
              obtain ⟨l, hl⟩ := (verdict_clear_iff st now a.status).2 h.2
              rw [hv] at hl; cases hl),
           (fun h => by
              have := (verdict_abort_iff st now a.status).2 h.2
              rw [hv] at this; cases this)⟩
        have hnf : ¬ Flagged st now a := fun h => by
          have := (verdict_revoked_iff st now a.status).2 h.2
          rw [hv] at this; cases this
        constructor
        · rintro ⟨h1, h2⟩
          refine ⟨fun s hs => ?_, ?_⟩
          · rcases List.mem_cons.1 hs with rfl | hs
            · exact hns
            · exact h1 s hs
          · rcases h2 with h2 | ⟨s, hs, hf⟩
            · exact Or.inl h2
            · exact Or.inr ⟨s, List.mem_cons_of_mem _ hs, hf⟩
        · rintro ⟨h1, h2⟩
          refine ⟨fun s hs => h1 s (List.mem_cons_of_mem _ hs), ?_⟩
          rcases h2 with h2 | ⟨s, hs, hf⟩
          · exact Or.inl h2
          · rcases List.mem_cons.1 hs with rfl | hs
            · exact absurd hf hnf
            · exact Or.inr ⟨s, hs, hf⟩
      | note e =>
        simp only
        rw [ih (internal ++ [e])]
        have hns : NoStop st now a :=
          ⟨(fun h => by
              obtain ⟨l, hl⟩ := (verdict_clear_iff st now a.status).2 h.2
              rw [hv] at hl; cases hl),
           (fun h => by
              have := (verdict_abort_iff st now a.status).2 h.2
              rw [hv] at this; cases this)⟩
        have hfl : Flagged st now a ↔ e = failE cRevoked := by
          constructor
          · intro h
            have := (verdict_revoked_iff st now a.status).2 h.2
            rw [hv] at this; exact Verdict.note.inj this
          · rintro rfl; exact ⟨hm, (verdict_revoked_iff st now a.status).1 hv⟩
        have hcode : hasCode (internal ++ [e]) cRevoked = true ↔
            hasCode internal cRevoked = true ∨ Flagged st now a := by
          rw [hasCode_append, Bool.or_eq_true, hfl]
          rcases verdict_note_cases st now a.status e hv with rfl | rfl
          · simp [hasCode_failE_self]
          · rw [hasCode_unknown_revoked]
            have : failE cUnknown ≠ failE cRevoked := by decide
            simp [this]
        constructor
        · rintro ⟨h1, h2⟩
          refine ⟨fun s hs => ?_, ?_⟩
          · rcases List.mem_cons.1 hs with rfl | hs
            · exact hns
            · exact h1 s hs
          · rcases h2 with h2 | ⟨s, hs, hf⟩
            · rcases hcode.1 h2 with h | h
              · exact Or.inl h
              · exact Or.inr ⟨a, List.mem_cons_self .., h⟩
            · exact Or.inr ⟨s, List.mem_cons_of_mem _ hs, hf⟩
        · rintro ⟨h1, h2⟩
          refine ⟨fun s hs => h1 s (List.mem_cons_of_mem _ hs), ?_⟩
          rcases h2 with h2 | ⟨s, hs, hf⟩
          · exact Or.inl (hcode.2 (Or.inl h2))
          · rcases List.mem_cons.1 hs with rfl | hs
            · exact Or.inl (hcode.2 (Or.inr hf))
            · exact Or.inr ⟨s, hs, hf⟩

/-- **`check_stapled_ocsp_response` hands "revoked" to its caller iff** the response is usable, no
matching `SingleResponse` clears or has an unparsable time, and one of them is flagged. -/
theorem checkStapled_revoked_iff (r : Resp) (rp : Responder) (st : Option Int) (now : Int) :
    hasCode (checkStapled r rp st now) cRevoked = true ↔
      ∃ singles, r = .parsed true singles ∧ rp.profileOk = true ∧ rp.trusted = true ∧
        (∀ s ∈ singles, NoStop st now s) ∧ ∃ s ∈ singles, Flagged st now s := by
  have hnil : hasCode ([] : List Entry) cRevoked = false := rfl
  cases r with
  | undecodable => simp [checkStapled, fromDerChecked, hnil]
  | noCerts l => simp [checkStapled, fromDerChecked, hnil]
  | parsed sig singles =>
    cases sig
    · simp [checkStapled, fromDerChecked, hnil]
    · have key := scan_revoked_iff st now singles []
      simp only [hnil, Bool.false_eq_true, false_or] at key
      simp only [checkStapled, fromDerChecked]
      cases hs : scan st now singles [] with
      | none =>
        rw [hs] at key
        simp only [Option.map_none, hnil, Bool.false_eq_true, false_iff]
        rintro ⟨sg, hsg, _, _, h1, h2⟩
        cases hsg
        have := key.2 ⟨h1, h2⟩
        obtain ⟨l, hl, _⟩ := this
        cases hl
      | some l =>
        rw [hs] at key
        simp only [Option.map_some, Bool.not_true, Bool.false_eq_true, if_false]
        cases hp : rp.profileOk
        · simp [hnil]
        · cases ht : rp.trusted
          · simp [hnil]
          · simp only [Bool.not_true, Bool.false_eq_true, if_false]
            constructor
            · intro h
              obtain ⟨h1, h2⟩ := key.1 ⟨l, rfl, h⟩
              exact ⟨singles, rfl, by first | rfl | trivial, by first | rfl | trivial, h1, h2⟩
            · rintro ⟨sg, hsg, _, _, h1, h2⟩
              cases hsg
              obtain ⟨l', hl', hc⟩ := key.2 ⟨h1, h2⟩
              cases hl'; exact hc

theorem checkStapled_revoked (r : Resp) (rp : Responder) (st : Option Int) (now : Int)
    (h : ReportsRevoked r rp st now) : hasCode (checkStapled r rp st now) cRevoked = true := by
  obtain ⟨singles, rfl, hp, ht, ⟨s, hs, hm, hr⟩, hc, ha⟩ := h
  exact (checkStapled_revoked_iff _ rp st now).2
    ⟨singles, rfl, hp, ht, fun x hx => ⟨hc x hx, ha x hx⟩, s, hs, hm, Or.inl hr⟩

theorem decide1_revoked (l : List Entry) (h : hasCode l cRevoked = true) :
    decide1 l = some ⟨false, [info cRevoked]⟩ := by
  simp [decide1, h]

/-- Responses that decide nothing (neither revoked nor not-revoked reaches the caller). -/
def Silent (r : Resp) (rp : Responder) (st : Option Int) (now : Int) : Prop :=
  decide1 (checkStapled r rp st now) = none

theorem processList_revoked (st : Option Int) (now : Int) :
    ∀ (pre : List (Resp × Responder)) (r : Resp) (rp : Responder) (post : List (Resp × Responder)),
      (∀ x ∈ pre, Silent x.1 x.2 st now) → ReportsRevoked r rp st now →
      (processList st now (pre ++ (r, rp) :: post)).ok = false := by
  intro pre
  induction pre with
  | nil =>
    intro r rp post _ h
    simp [processList, decide1_revoked _ (checkStapled_revoked r rp st now h)]
  | cons a pre' ih =>
    intro r rp post hs h
    obtain ⟨ar, arp⟩ := a
    have ha : decide1 (checkStapled ar arp st now) = none := hs (ar, arp) (List.mem_cons_self ..)
    simp only [List.cons_append, processList, ha]
    exact ih r rp post (fun x hx => hs x (List.mem_cons_of_mem _ hx)) h

/-- **A stapled response that reports the signing certificate revoked: no Valid/Trusted report.**
The revocation check fails, `verify_claim` returns the error and the read yields no report at all. -/
theorem revoked_never_valid_stapled (r : Resp) (rp : Responder) (asserted : List (Resp × Responder))
    (st : Option Int) (now : Int) (rest : List Entry) (h : ReportsRevoked r rp st now) :
    report (some (r, rp)) asserted st now rest = none := by
  have := decide1_revoked _ (checkStapled_revoked r rp st now h)
  simp [report, checkOcspStatus, this]

/-- **Headline, no model-defined predicate in the hypotheses**: a usable stapled response with the
single entry "revoked" for the signing certificate (all three `certId` components match; reason
absent, or any reason with the revocation at or before the signing time as the code reads it)
— the read returns no report. -/
theorem single_revoked_response_no_report (revAt : Int) (r : Reason) (rp : Responder)
    (asserted : List (Resp × Responder)) (st : Option Int) (now : Int) (rest : List Entry)
    (hp : rp.profileOk = true) (ht : rp.trusted = true)
    (h : r = .none ∨ (r = .other ∧ ∀ t, st = some t → revAt ≤ t) ∨
      (r = .removeFromCrl ∧ revAt ≤ st.getD now)) :
    report (some (.parsed true [⟨true, true, true, .revoked revAt r⟩], rp)) asserted st now rest
      = none := by
  have hr : RevokedStatus st now (.revoked revAt r) := by
    rcases h with rfl | ⟨rfl, h⟩ | ⟨rfl, h⟩
    · trivial
    · exact h
    · exact h
  apply revoked_never_valid_stapled
  refine ⟨_, rfl, hp, ht, ⟨_, List.mem_cons_self .., rfl, hr⟩, ?_, ?_⟩
  · intro s hs
    rw [List.mem_singleton] at hs; subst hs
    exact fun hc => revoked_not_clearing st now _ hr hc.2
  · intro s hs
    rw [List.mem_singleton] at hs; subst hs
    rintro ⟨_, hb⟩; cases hb

/-- **An asserted response (certificate-status assertion) that reports the signing certificate
revoked: no Valid/Trusted report — provided the stapled value (if any) and the asserted responses
before it decide nothing.** Partial: the unconditional statement is `AssertedRevokedNeverValid`
below, which the code falsifies (`asserted_revoked_never_valid_false`). -/
theorem revoked_never_valid_asserted_partial (staple : Option (Resp × Responder))
    (pre : List (Resp × Responder)) (r : Resp) (rp : Responder) (post : List (Resp × Responder))
    (st : Option Int) (now : Int) (rest : List Entry)
    (hst : ∀ x, staple = some x → Silent x.1 x.2 st now)
    (hpre : ∀ x ∈ pre, Silent x.1 x.2 st now) (h : ReportsRevoked r rp st now) :
    report staple (pre ++ (r, rp) :: post) st now rest = none := by
  have hp := processList_revoked st now pre r rp post hpre h
  cases staple with
  | none => simp [report, checkOcspStatus, hp]
  | some x =>
    obtain ⟨xr, xrp⟩ := x
    have : decide1 (checkStapled xr xrp st now) = none := hst (xr, xrp) rfl
    simp [report, checkOcspStatus, this, hp]

/-- The statement's "or asserted" clause at full strength: wherever the revoked response stands. -/
def AssertedRevokedNeverValid : Prop :=
  ∀ (staple : Option (Resp × Responder)) (pre : List (Resp × Responder)) (r : Resp)
    (rp : Responder) (post : List (Resp × Responder)) (st : Option Int) (now : Int)
    (rest : List Entry),
    ReportsRevoked r rp st now → report staple (pre ++ (r, rp) :: post) st now rest = none

def okResponder : Responder := ⟨true, true⟩

/-- **The code falsifies it**: `check_ocsp_status` returns `Ok` on the first source that yields
`notRevoked`, so a stapled `good` response (here even a stale one: thisUpdate 0, nextUpdate 10,
validated at 1000 without a trusted signing time) shadows an asserted response that says revoked.
Replayed on the implementation by the harness (classes `good-staple-shadows-revoked-assertion`,
`good-assertion-shadows-revoked-assertion`). -/
theorem asserted_revoked_never_valid_false : ¬ AssertedRevokedNeverValid := by
  intro h
  have hr : ReportsRevoked (.parsed true [⟨true, true, true, .revoked 5 .none⟩]) okResponder none 1000 :=
    ⟨_, rfl, rfl, rfl, ⟨_, List.mem_cons_self .., rfl, trivial⟩,
      by intro s hs; rw [List.mem_singleton] at hs; subst hs; exact fun hc => hc.2,
      by intro s hs; rw [List.mem_singleton] at hs; subst hs; rintro ⟨_, hb⟩; cases hb⟩
  have := h (some (.parsed true [⟨true, true, true, .good 0 10⟩], okResponder)) [] _ okResponder []
    none 1000 [] hr
  revert this
  decide

/-- … and so does an earlier *asserted* `good` response. -/
theorem asserted_good_shadows_revoked :
    (report none [(.parsed true [⟨true, true, true, .good 0 10⟩], okResponder),
        (.parsed true [⟨true, true, true, .revoked 5 .none⟩], okResponder)] none 1000 []).isSome
      = true := by decide

/-- **A stale `good` response clears when there is no trusted signing time**: the rule is
`now ≥ thisUpdate` only; nextUpdate (10) is long past at 1000000. Recorded witness, replayed by the
harness (`stale-good/…` cases). With a trusted signing time after nextUpdate the same response is
filed under "revoked" instead (`stale_good_with_time_flagged`). -/
theorem stale_good_clears_without_time :
    verdict none 1000000 (.good 0 10) = .clear [succ cNotRevoked] := by decide

theorem stale_good_with_time_flagged :
    verdict (some 1000000) 1000000 (.good 0 10) = .note (failE cRevoked) := by decide

/-- Without a signing time a `good` status clears **iff** `thisUpdate ≤ now` — whatever nextUpdate. -/
theorem good_clears_without_time_iff (now thisU nextU : Int) :
    ClearingStatus none now (.good thisU nextU) ↔ thisU ≤ now := Iff.rfl

/-- (helper, not a registered obligation: the contrapositive of `revoked_never_valid_stapled`)
**`revoked_never_valid`** in the statement's words: whenever there is a report, it was not
produced from a revoked response — a reported state (in particular Valid or Trusted) excludes a
stapled response that reports the signing certificate revoked. -/
theorem revoked_never_valid (r : Resp) (rp : Responder) (asserted : List (Resp × Responder))
    (st : Option Int) (now : Int) (rest : List Entry) (s : C04.State) (l : List Entry)
    (hrep : report (some (r, rp)) asserted st now rest = some (s, l)) :
    ¬ ReportsRevoked r rp st now := by
  intro h
  rw [revoked_never_valid_stapled r rp asserted st now rest h] at hrep
  cases hrep

/-! ### unbound, unsigned or unreadable responses are ignored -/

theorem scan_unmatched (st : Option Int) (now : Int) :
    ∀ (singles : List Single) (internal : List Entry),
      (∀ s ∈ singles, s.certIdMatches = false) → scan st now singles internal = some internal := by
  intro singles
  induction singles with
  | nil => intro _ _; rfl
  | cons a rest ih =>
    intro internal h
    unfold scan
    simp only [h a (List.mem_cons_self ..), Bool.not_false, if_true]
    exact ih internal (fun s hs => h s (List.mem_cons_of_mem _ hs))

/-- An unbound / unsigned response contributes nothing. -/
theorem checkStapled_unbound (r : Resp) (rp : Responder) (st : Option Int) (now : Int)
    (h : Unbound r rp) : checkStapled r rp st now = [] := by
  rcases h with rfl | ⟨l, rfl⟩ | ⟨l, rfl⟩ | hp | ht | ⟨l, rfl, hl⟩
  · simp [checkStapled, fromDerChecked]
  · simp [checkStapled, fromDerChecked]
  · simp [checkStapled, fromDerChecked]
  · unfold checkStapled
    cases (fromDerChecked r st now) with
    | none => rfl
    | some x => obtain ⟨c, lg⟩ := x; cases c <;> simp [hp]
  · unfold checkStapled
    cases (fromDerChecked r st now) with
    | none => rfl
    | some x => obtain ⟨c, lg⟩ := x; cases c <;> cases hpo : rp.profileOk <;> simp [ht]
  · have hl' : ∀ s ∈ l, s.certIdMatches = false :=
      fun s hs => (certId_mismatch_iff s).2 (hl s hs)
    simp only [checkStapled, fromDerChecked, scan_unmatched st now l [] hl', Option.map_some]
    cases rp.profileOk <;> cases rp.trusted <;> simp

/-- **A response `from_der_checked` fails on (`Err`) contributes nothing either**: when the scan
reaches a matching `SingleResponse` with an unparsable time before any clearance, the response is
treated as absent — including any "revoked" it noted before. -/
theorem checkStapled_err (singles : List Single) (rp : Responder) (st : Option Int) (now : Int)
    (h : scan st now singles [] = none) : checkStapled (.parsed true singles) rp st now = [] := by
  simp [checkStapled, fromDerChecked, h]

/-- Input-level instance: the first matching `SingleResponse` has an unparsable time. -/
theorem scan_abort_first (st : Option Int) (now : Int) (pre : List Single) (a : Single)
    (post : List Single) (internal : List Entry)
    (hpre : ∀ s ∈ pre, s.certIdMatches = false) (ha : Aborts a) :
    scan st now (pre ++ a :: post) internal = none := by
  induction pre with
  | nil =>
    obtain ⟨hm, hb⟩ := ha
    simp [scan, hm, hb, verdict]
  | cons b pre' ih =>
    simp only [List.cons_append]
    unfold scan
    simp only [hpre b (List.mem_cons_self ..), Bool.not_false, if_true]
    exact ih (fun s hs => hpre s (List.mem_cons_of_mem _ hs))

theorem silent_of_unbound (r : Resp) (rp : Responder) (st : Option Int) (now : Int)
    (h : Unbound r rp) : Silent r rp st now := by
  simp [Silent, checkStapled_unbound r rp st now h, decide1, hasCode]

/-- **An unbound / unsigned stapled response never changes the verdict**: revocation outcome,
log, state and report are exactly those of the same manifest without it. -/
theorem unbound_or_unsigned_response_ignored (r : Resp) (rp : Responder)
    (asserted : List (Resp × Responder)) (st : Option Int) (now : Int) (rest : List Entry)
    (h : Unbound r rp) :
    checkOcspStatus (some (r, rp)) asserted st now = checkOcspStatus none asserted st now ∧
    report (some (r, rp)) asserted st now rest = report none asserted st now rest := by
  have hs : decide1 (checkStapled r rp st now) = none := silent_of_unbound r rp st now h
  have h1 : checkOcspStatus (some (r, rp)) asserted st now = checkOcspStatus none asserted st now := by
    simp [checkOcspStatus, hs]
  refine ⟨h1, ?_⟩
  simp [report, claimState, claimLog, h1]

/-- **… and so does an unbound / unsigned asserted response**, wherever it stands in the list. -/
theorem unbound_asserted_response_ignored (staple : Option (Resp × Responder))
    (pre post : List (Resp × Responder)) (r : Resp) (rp : Responder)
    (st : Option Int) (now : Int) (rest : List Entry) (h : Unbound r rp) :
    report staple (pre ++ (r, rp) :: post) st now rest = report staple (pre ++ post) st now rest := by
  have hs : decide1 (checkStapled r rp st now) = none := silent_of_unbound r rp st now h
  have hl : processList st now (pre ++ (r, rp) :: post) = processList st now (pre ++ post) := by
    induction pre with
    | nil => simp [processList, hs]
    | cons a pre' ih =>
      obtain ⟨ar, arp⟩ := a
      simp only [List.cons_append, processList]
      rw [ih]
  have hc : checkOcspStatus staple (pre ++ (r, rp) :: post) st now
      = checkOcspStatus staple (pre ++ post) st now := by
    cases staple with
    | none => simp [checkOcspStatus, hl]
    | some x => obtain ⟨xr, xrp⟩ := x; simp [checkOcspStatus, hl]
  simp [report, claimState, claimLog, hc]

/-- **One matching issuer hash is not enough**: a validly signed "revoked" (or "good") response
whose `certId` has the signer's serial number and issuer *name* hash but another issuer *key* hash
(a second CA with the same distinguished name), or the key hash but another name hash, leaves the
report exactly as without it. -/
theorem one_issuer_hash_is_not_enough (nameEq keyEq : Bool) (status : Status) (rp : Responder)
    (asserted : List (Resp × Responder)) (st : Option Int) (now : Int) (rest : List Entry)
    (h : nameEq = false ∨ keyEq = false) :
    report (some (.parsed true [⟨true, nameEq, keyEq, status⟩], rp)) asserted st now rest
      = report none asserted st now rest := by
  refine (unbound_or_unsigned_response_ignored _ rp asserted st now rest ?_).2
  refine Or.inr (Or.inr (Or.inr (Or.inr (Or.inr ⟨_, rfl, ?_⟩))))
  intro s hs
  rw [List.mem_singleton] at hs; subst hs
  rcases h with h | h
  · exact Or.inr (Or.inl h)
  · exact Or.inr (Or.inr h)

/-- With no usable evidence at all the revocation check succeeds silently. -/
theorem no_evidence_no_entries (st : Option Int) (now : Int) (rest : List Entry) :
    report none [] st now rest
      = some (C04.state { active := some (toCodes rest), deltas := none }, rest) := by
  simp [report, checkOcspStatus, processList, claimState, claimLog]

/-! ### store level: the evidence carried in a certificate-status assertion -/

/-- **A manifest whose certificate-status assertion carries an unbound / unsigned response reads
exactly as without it** (state, log, or the same read error) — the store's pre-pass over the
assertion logs nothing (repaired) and `check_ocsp_status` ignores the response. -/
theorem unbound_asserted_response_ignored_store (staple : Option (Resp × Responder))
    (pre post : List (Resp × Responder)) (r : Resp) (rp : Responder)
    (st : Option Int) (now : Int) (rest : List Entry) (h : Unbound r rp) :
    reportStore staple (pre ++ (r, rp) :: post) st now rest
      = reportStore staple (pre ++ post) st now rest := by
  have hs : decide1 (checkStapled r rp st now) = none := silent_of_unbound r rp st now h
  have hl : processList st now (pre ++ (r, rp) :: post) = processList st now (pre ++ post) := by
    induction pre with
    | nil => simp [processList, hs]
    | cons a pre' ih =>
      obtain ⟨ar, arp⟩ := a
      simp only [List.cons_append, processList]
      rw [ih]
  have hc : checkOcspStatus staple (pre ++ (r, rp) :: post) st now
      = checkOcspStatus staple (pre ++ post) st now := by
    cases staple with
    | none => simp [checkOcspStatus, hl]
    | some x => obtain ⟨xr, xrp⟩ := x; simp [checkOcspStatus, hl]
  simp [reportStore, prePass, claimLog, hc]

/-- A usable asserted response that reports revoked, behind silent sources: the read fails. -/
theorem revoked_never_valid_asserted_store_partial (staple : Option (Resp × Responder))
    (pre : List (Resp × Responder)) (r : Resp) (rp : Responder) (post : List (Resp × Responder))
    (st : Option Int) (now : Int) (rest : List Entry)
    (hst : ∀ x, staple = some x → Silent x.1 x.2 st now)
    (hpre : ∀ x ∈ pre, Silent x.1 x.2 st now) (h : ReportsRevoked r rp st now) :
    reportStore staple (pre ++ (r, rp) :: post) st now rest = none := by
  have := revoked_never_valid_asserted_partial staple pre r rp post st now rest hst hpre h
  unfold report at this
  unfold reportStore
  split at this
  · cases this
  · rename_i hok; simp [hok]

/-- What the pre-pass wrote into the validation log before the repair (finding
`unbound-assertion-changed-verdict`, fixed): for a response signed by an *untrusted* responder —
unbound in the statement's sense — that says revoked, a `signingCredential.ocsp.revoked` failure,
which made the manifest Invalid; replayed by the harness (`e2a:untrusted-revoked`). -/
theorem prepass_leak_witness :
    Unbound (.parsed true [⟨true, true, true, .revoked 5 .none⟩]) ⟨true, false⟩ ∧
      prePassLeak [(.parsed true [⟨true, true, true, .revoked 5 .none⟩], ⟨true, false⟩)] 1000
        = [failE cRevoked] := by
  refine ⟨Or.inr (Or.inr (Or.inr (Or.inr (Or.inl rfl)))), ?_⟩
  decide

/-! ### non-vacuity -/

example : ReportsRevoked (.parsed true [⟨true, true, true, .revoked 100 .other⟩]) okResponder
    (some 200) 300 :=
  ⟨_, rfl, rfl, rfl, ⟨_, List.mem_cons_self .., rfl, by intro t ht; cases ht; decide⟩,
    by
      intro s hs; rw [List.mem_singleton] at hs; subst hs
      rintro ⟨_, t, ht, hlt⟩; cases ht; revert hlt; decide,
    by intro s hs; rw [List.mem_singleton] at hs; subst hs; rintro ⟨_, hb⟩; cases hb⟩

example : report (some (.parsed true [⟨true, true, true, .revoked 100 .other⟩], okResponder)) []
    (some 200) 300 [succ C04.cSigValidated, succ C04.cInsideValidity] = none := by decide

/-- Signed before the revocation (time-stamped at 50, revoked at 100): not treated as revoked. -/
example : (report (some (.parsed true [⟨true, true, true, .revoked 100 .other⟩], okResponder)) []
    (some 50) 300 [succ C04.cSigValidated, succ C04.cInsideValidity]).map (·.1) = some .valid := by
  decide

example : Unbound (.parsed true [⟨false, true, true, .revoked 100 .none⟩]) okResponder :=
  Or.inr (Or.inr (Or.inr (Or.inr (Or.inr ⟨_, rfl, by simp⟩))))

/-- The same revoked response about *another* certificate leaves the manifest Valid. -/
example : (report (some (.parsed true [⟨false, true, true, .revoked 100 .none⟩], okResponder)) []
    none 300 [succ C04.cSigValidated, succ C04.cInsideValidity]).map (·.1) = some .valid := by decide

/-- Same serial number and issuer name, other issuer key: ignored (Valid as without it). -/
example : (report (some (.parsed true [⟨true, true, false, .revoked 100 .none⟩], okResponder)) []
    none 300 [succ C04.cSigValidated, succ C04.cInsideValidity]).map (·.1) = some .valid := by decide

/-- A response that notes "revoked" and then meets an unparsable time is dropped as a whole. -/
example : checkStapled (.parsed true [⟨true, true, true, .revoked 100 .none⟩,
    ⟨true, true, true, .badTime⟩]) okResponder none 300 = [] := by decide

end C2pa.C37
