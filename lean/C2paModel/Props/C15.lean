import C2paModel.Model.C15
/-
C15 — property theorems. The statement (properties.jsonl):

  In the placeholder workflow for data-hash formats, the signed manifest returned after
  hashing has exactly the same length as the placeholder previously returned, or signing
  fails with an error. It never returns longer or shorter bytes that would overwrite media
  data or leave stale bytes when patched in place, and a patched asset reads back Valid.

The theorems quantify over every flow: any pre-added DataHash, any exclusion list (any
length, any values), any dynamic assertions (any reserve and content sizes), any `base`.
(Read-back validity is observed end to end by the correspondence harness.)
-/
namespace C2pa.C15

theorem hdr_cases (n : Nat) :
    (n < 24 ∧ hdr n = 1) ∨ (24 ≤ n ∧ n < 256 ∧ hdr n = 2) ∨ (256 ≤ n ∧ n < 65536 ∧ hdr n = 3) ∨
    (65536 ≤ n ∧ n < 4294967296 ∧ hdr n = 5) ∨ (4294967296 ≤ n ∧ hdr n = 9) := by
  unfold hdr
  by_cases h1 : n < 24
  · simp [h1]
  · by_cases h2 : n < 256
    · simp [h1, h2]; omega
    · by_cases h3 : n < 65536
      · simp [h1, h2, h3]; omega
      · by_cases h4 : n < 4294967296
        · simp [h1, h2, h3, h4]; omega
        · simp [h1, h2, h3, h4]; omega

theorem hdr_pos (n : Nat) : 1 ≤ hdr n := by
  rcases hdr_cases n with h | h | h | h | h <;> omega

theorem hdr_le (n : Nat) : hdr n ≤ 9 := by
  rcases hdr_cases n with h | h | h | h | h <;> omega

/-! ### `sign_embeddable` -/

/-- **embeddable_len.** With a placeholder recorded and a DataHash binding, the result is
an error or has exactly the placeholder length — for every size of the signed JUMBF. -/
theorem embeddable_len (len jumbf : Nat) :
    signEmbeddable (some len) true jumbf = .tooLarge ∨
    signEmbeddable (some len) true jumbf = .ok len := by
  unfold signEmbeddable
  by_cases h1 : jumbf > len
  · left; simp [h1]
  · right
    by_cases h2 : jumbf < len
    · simp [h1, h2]
    · have : jumbf = len := by omega
      simp [h1, h2, this]

/-- **fits_iff.** It succeeds exactly when the signed JUMBF is not larger than the placeholder. -/
theorem fits_iff (len jumbf : Nat) :
    signEmbeddable (some len) true jumbf = .ok len ↔ jumbf ≤ len := by
  unfold signEmbeddable
  by_cases h1 : jumbf > len
  · simp [h1]
  · by_cases h2 : jumbf < len
    · simp [h1, h2]; omega
    · have : jumbf = len := by omega
      simp [this]

/-- Without the DataHash guard (BMFF placeholder workflow: the caller reserves room for
Merkle leaves beyond the placeholder) a longer manifest is returned as it is — the size
contract is specific to data-hash formats. -/
theorem bmff_may_be_longer : signEmbeddable (some 100) false 140 = .ok 140 := by decide

/-! ### whole flows -/

/-- **flow_len.** Every run of the placeholder workflow ends in an error or returns exactly
as many JUMBF bytes as `placeholder` did (hence the same number of composed bytes). -/
theorem flow_len (f : Flow) : f.run = .tooLarge ∨ f.run = .ok f.placeholderLen :=
  embeddable_len _ _

/-- **flow_fits_iff.** It succeeds iff the final DataHash assertion plus the dynamic
assertion contents are not larger than what the placeholder reserved for them; `base`,
i.e. everything else in the manifest, does not matter. -/
theorem flow_fits_iff (f : Flow) :
    f.run = .ok f.placeholderLen ↔
      dhSize f.dhFinal + (f.das.map (fun d => d.2)).sum ≤
        dhSize f.dh0 + (f.das.map (fun d => daPlaceholder d.1)).sum := by
  unfold Flow.run
  rw [fits_iff]
  unfold Flow.signedLen Flow.placeholderLen
  omega

example : (⟨0, 6, 32, none, some [⟨2, 3349⟩], true, []⟩ : Flow).run = .ok 248 := by decide

/-! ### closed form for exclusion lists against the SDK's own placeholder -/

theorem placeholder_exclSize : exclSize (List.replicate 10 ⟨0, 2⟩) = 161 := by decide

theorem dhSize_placeholder (a d : Nat) :
    dhSize (placeholderDH a d) =
      173 + optField 4 (some 14) + optField 3 (some a) + (5 + str d) + (4 + str 0) := by
  show 1 + (11 + exclSize (List.replicate 10 ⟨0, 2⟩)) + optField 4 (some 14) + optField 3 (some a) +
      (5 + str d) + (4 + str 0) + optField 4 none = _
  rw [placeholder_exclSize]
  simp [optField]

/-- The documented flow: `placeholder` (no pre-added DataHash), `set_data_hash_exclusions l`,
`update_hash_from_stream`, no dynamic assertions. -/
def documented (base algLen digestLen : Nat) (l : List Range) : Flow :=
  { base := base, defAlgLen := algLen, digestLen := digestLen, pre := none,
    excl := some l, rehash := true, das := [] }

/-- **exclusions_fit_iff.** In the documented flow a non-empty exclusion list fits iff the
CBOR of the list is at most the 161 bytes of the ten dummy ranges:
`hdr |l| + Σ (14 + hdr start + hdr length) ≤ 161`. -/
theorem exclusions_fit_iff (base algLen digestLen : Nat) (l : List Range) (hne : l ≠ []) :
    (documented base algLen digestLen l).run = .ok (documented base algLen digestLen l).placeholderLen ↔
      exclSize l ≤ 161 := by
  rw [flow_fits_iff]
  have hemp : l.isEmpty = false := by
    cases l with
    | nil => exact absurd rfl hne
    | cons a t => rfl
  have hfinal : dhSize (documented base algLen digestLen l).dhFinal =
      1 + (11 + exclSize l) + optField 4 (some 14) + optField 3 (some algLen) +
        (5 + str digestLen) + (4 + str 0) + 0 := by
    simp [documented, Flow.dhFinal, Flow.dh0, setExclusions, updateHash, newWith, placeholderDH,
      dhSize, hemp, optField]
  have h0 : dhSize (documented base algLen digestLen l).dh0 =
      173 + optField 4 (some 14) + optField 3 (some algLen) + (5 + str digestLen) + (4 + str 0) :=
    dhSize_placeholder algLen digestLen
  rw [hfinal, h0]
  simp only [documented, List.map_nil, List.sum_nil]
  omega

/-- An empty list always fits (the `exclusions` field is omitted altogether). -/
theorem no_exclusions_fit (base algLen digestLen : Nat) :
    (documented base algLen digestLen []).run =
      .ok (documented base algLen digestLen []).placeholderLen := by
  rw [flow_fits_iff]
  have h0 : dhSize (documented base algLen digestLen []).dh0 =
      173 + optField 4 (some 14) + optField 3 (some algLen) + (5 + str digestLen) + (4 + str 0) :=
    dhSize_placeholder algLen digestLen
  have hfinal : dhSize (documented base algLen digestLen []).dhFinal =
      1 + 0 + optField 4 (some 14) + optField 3 (some algLen) +
        (5 + str digestLen) + (4 + str 0) + 0 := by
    simp [documented, Flow.dhFinal, Flow.dh0, setExclusions, updateHash, newWith, placeholderDH,
      dhSize, optField]
  rw [hfinal, h0]
  simp only [documented, List.map_nil, List.sum_nil]
  omega

theorem rangeSize_le (r : Range) : rangeSize r ≤ 32 := by
  have := hdr_le r.start; have := hdr_le r.length
  unfold rangeSize; omega

theorem sum_rangeSize_le (l : List Range) : (l.map rangeSize).sum ≤ 32 * l.length := by
  induction l with
  | nil => simp
  | cons a t ih =>
    have := rangeSize_le a
    simp only [List.map_cons, List.sum_cons, List.length_cons]
    omega

/-- **Up to five exclusions always fit**, whatever their offsets and lengths (each range
takes at most 32 bytes). In particular the documented single exclusion
`(offset, placeholder length)` can never overflow the placeholder. -/
theorem up_to_five_exclusions_fit (base algLen digestLen : Nat) (l : List Range)
    (hne : l ≠ []) (h5 : l.length ≤ 5) :
    (documented base algLen digestLen l).run =
      .ok (documented base algLen digestLen l).placeholderLen := by
  rw [exclusions_fit_iff _ _ _ _ hne]
  have hs := sum_rangeSize_le l
  have hh : hdr l.length = 1 := by simp [hdr]; omega
  unfold exclSize
  omega

example : ([⟨2, 3349⟩] : List Range) ≠ [] ∧ ([⟨2, 3349⟩] : List Range).length ≤ 5 := by decide

theorem sum_rangeSize_small (l : List Range)
    (h : ∀ r ∈ l, r.start < 24 ∧ r.length < 24) : (l.map rangeSize).sum = 16 * l.length := by
  induction l with
  | nil => simp
  | cons a t ih =>
    have ha := h a (List.mem_cons_self ..)
    have h1 : hdr a.start = 1 := by simp [hdr, ha.1]
    have h2 : hdr a.length = 1 := by simp [hdr, ha.2]
    have iht := ih (fun r hr => h r (List.mem_cons_of_mem _ hr))
    simp only [List.map_cons, List.sum_cons, List.length_cons, iht, rangeSize, h1, h2]
    omega

/-- **Ten exclusions fit only while every value is below 24** — the placeholder reserves
16 bytes per range, i.e. one-byte integers. -/
theorem ten_small_exclusions_fit (base algLen digestLen : Nat) (l : List Range)
    (hne : l ≠ []) (h10 : l.length ≤ 10) (h : ∀ r ∈ l, r.start < 24 ∧ r.length < 24) :
    (documented base algLen digestLen l).run =
      .ok (documented base algLen digestLen l).placeholderLen := by
  rw [exclusions_fit_iff _ _ _ _ hne]
  have hs := sum_rangeSize_small l h
  have hh : hdr l.length = 1 := by simp [hdr]; omega
  unfold exclSize
  omega

/-- The input on which the unrepaired code returned more bytes than the placeholder (ten
exclusions `(24, 1)`: 171 > 161 bytes): the repaired code reports an error. -/
theorem ten_exclusions_24_1_too_large (base algLen digestLen : Nat) :
    (documented base algLen digestLen (List.replicate 10 ⟨24, 1⟩)).run = .tooLarge := by
  have hne : List.replicate 10 (⟨24, 1⟩ : Range) ≠ [] := by decide
  have hnot : ¬ exclSize (List.replicate 10 ⟨24, 1⟩) ≤ 161 := by decide
  rcases flow_len (documented base algLen digestLen (List.replicate 10 ⟨24, 1⟩)) with h | h
  · exact h
  · exact absurd ((exclusions_fit_iff _ _ _ _ hne).1 h) hnot

/-! ### dynamic assertions -/

/-- The placeholder of a dynamic assertion is never larger than its `reserve_size`, and it
is *smaller* exactly just past a CBOR head boundary — there a content of exactly
`reserve_size` bytes does not fit (the flow then ends in the error, not in a longer result). -/
theorem daPlaceholder_le (r : Nat) (hr : 1 ≤ r) : daPlaceholder r ≤ r := by
  unfold daPlaceholder str
  rcases hdr_cases r with h | h | h | h | h <;>
  rcases hdr_cases (r - hdr r) with g | g | g | g | g <;> omega

theorem daPlaceholder_short_iff (r : Nat) (hr : 1 ≤ r) :
    daPlaceholder r < r ↔
      (r = 24 ∨ r = 25 ∨ r = 256 ∨ r = 257 ∨ r = 258 ∨ (65536 ≤ r ∧ r ≤ 65540) ∨
       (4294967296 ≤ r ∧ r ≤ 4294967304)) := by
  unfold daPlaceholder str
  rcases hdr_cases r with h | h | h | h | h <;>
  rcases hdr_cases (r - hdr r) with g | g | g | g | g <;> omega

end C2pa.C15
