import C2paModel.Model.C15
/-
C15 — property theorems. The statement (properties.jsonl):

  In the placeholder workflow for data-hash formats, the signed manifest returned after
  hashing has exactly the same length as the placeholder previously returned, or signing
  fails with an error. It never returns longer or shorter bytes that would overwrite media
  data or leave stale bytes when patched in place, and a patched asset reads back Valid.

The theorems quantify over every flow: any pre-added DataHash, any exclusion list (any
length, any values), any dynamic assertions (any reserve, content size and content kind), any
`base`. `sign_embeddable`'s three-way size handling is characterised completely
(`embeddable_contract_iff`): the contract holds for every signed size exactly when the
placeholder length is still recorded in the Builder value *and* the binding is guarded
(DataHash or BoxHash). The two ways out are stated as theorems about the same model
(`flow_lost_unpadded`, `unguarded_may_be_longer`) and replayed on the implementation.
(Read-back validity is observed end to end by the correspondence harness.)
-/
namespace C2pa.C15

theorem hdr_cases (n : Nat) :
    (n < 24 ∧ hdr n = 1) ∨ (24 ≤ n ∧ n < 256 ∧ hdr n = 2) ∨ (256 ≤ n ∧ n < 65536 ∧ hdr n = 3) ∨
    (65536 ≤ n ∧ n < 4294967296 ∧ hdr n = 5) ∨ (4294967296 ≤ n ∧ hdr n = 9) := by
  unfold hdr
  by_cases h1 : n < 24
  · simp [h1]
  · by_cases h2 : n < 256
    · simp [h1, h2]; omega
    · by_cases h3 : n < 65536
      · simp [h1, h2, h3]; omega
      · by_cases h4 : n < 4294967296
        · simp [h1, h2, h3, h4]; omega
        · simp [h1, h2, h3, h4]; omega

theorem hdr_pos (n : Nat) : 1 ≤ hdr n := by
  rcases hdr_cases n with h | h | h | h | h <;> omega

theorem hdr_le (n : Nat) : hdr n ≤ 9 := by
  rcases hdr_cases n with h | h | h | h | h <;> omega

/-! ### `sign_embeddable` -/

/-- **embeddable_len.** With a placeholder recorded and a DataHash binding, the result is
an error or has exactly the placeholder length — for every size of the signed JUMBF. -/
theorem embeddable_len (len jumbf : Nat) :
    signEmbeddable (some len) true jumbf = .tooLarge ∨
    signEmbeddable (some len) true jumbf = .ok len := by
  unfold signEmbeddable
  by_cases h1 : jumbf > len
  · left; simp [h1]
  · right
    by_cases h2 : jumbf < len
    · simp [h1, h2]
    · have : jumbf = len := by omega
      simp [h1, h2, this]

/-- **fits_iff.** It succeeds exactly when the signed JUMBF is not larger than the placeholder. -/
theorem fits_iff (len jumbf : Nat) :
    signEmbeddable (some len) true jumbf = .ok len ↔ jumbf ≤ len := by
  unfold signEmbeddable
  by_cases h1 : jumbf > len
  · simp [h1]
  · by_cases h2 : jumbf < len
    · simp [h1, h2]; omega
    · have : jumbf = len := by omega
      simp [this]

/-- Without the guard (BMFF placeholder workflow: the caller reserves room for Merkle leaves
beyond the placeholder) a longer manifest is returned as it is — the size contract is specific
to data-hash formats. -/
theorem bmff_may_be_longer : signEmbeddable (some 100) false 140 = .ok 140 := by decide

/-- **unguarded_may_be_longer.** Every signed JUMBF longer than the placeholder is returned
unchanged when the binding is not guarded. -/
theorem unguarded_may_be_longer (len j : Nat) (h : len < j) :
    signEmbeddable (some len) false j = .ok j := by
  unfold signEmbeddable
  have h2 : ¬ j < len := by omega
  simp [h2]

/-- **lost_len_not_padded.** A Builder value without a recorded placeholder length ("Mode 2":
`placeholder()` never ran on it, e.g. it was rebuilt from its JSON definition) returns the
signed JUMBF unpadded, whatever its size and binding. -/
theorem lost_len_not_padded (g : Bool) (j : Nat) : signEmbeddable none g j = .ok j := rfl

/-- **embeddable_contract_iff.** "For every size of the signed JUMBF the result is an error or
has exactly length `L`" holds iff the length `L` is recorded and the binding is guarded. -/
theorem embeddable_contract_iff (p : Option Nat) (g : Bool) (L : Nat) :
    (∀ j, signEmbeddable p g j = .tooLarge ∨ signEmbeddable p g j = .ok L) ↔
      (p = some L ∧ g = true) := by
  constructor
  · intro h
    cases p with
    | none =>
      have := h (L + 1)
      simp [signEmbeddable] at this
    | some len =>
      have h0 := h 0
      have hlen : len = L := by
        by_cases hz : 0 < len
        · simp [signEmbeddable, hz] at h0; exact h0
        · have : len = 0 := by omega
          subst this
          simp [signEmbeddable] at h0; exact h0
      subst hlen
      cases g with
      | true => exact ⟨rfl, rfl⟩
      | false =>
        have := h (len + 1)
        rw [unguarded_may_be_longer len (len + 1) (by omega)] at this
        simp at this
  · rintro ⟨rfl, rfl⟩ j
    exact embeddable_len L j

example : signEmbeddable (some 248) true 107 = .ok 248 := by decide
example : signEmbeddable (some 248) true 249 = .tooLarge := by decide

/-! ### whole flows -/

/-- **flow_len.** Every run of the placeholder workflow ends in an error or returns exactly
as many JUMBF bytes as `placeholder` did (hence the same number of composed bytes). -/
theorem flow_len (f : Flow) (hk : f.lost = false) :
    f.run = .tooLarge ∨ f.run = .ok f.placeholderLen := by
  unfold Flow.run Flow.recorded
  rw [hk]
  exact embeddable_len _ _

/-- **flow_lost_unpadded.** When the recorded length is lost the flow returns the signed JUMBF
as it is (never an error, never padded). -/
theorem flow_lost_unpadded (f : Flow) (hk : f.lost = true) : f.run = .ok f.signedLen := by
  unfold Flow.run Flow.recorded
  rw [hk]
  rfl

/-- **flow_fits_iff.** It succeeds iff the final DataHash assertion plus the dynamic
assertion contents are not larger than what the placeholder reserved for them; `base`,
i.e. everything else in the manifest, does not matter. -/
theorem flow_fits_iff (f : Flow) (hk : f.lost = false) :
    f.run = .ok f.placeholderLen ↔
      dhSize f.dhFinal + (f.das.map daFinal).sum ≤
        dhSize f.dh0 + (f.das.map (fun d => daPlaceholder d.reserve)).sum := by
  unfold Flow.run Flow.recorded
  rw [hk]
  simp only [Bool.false_eq_true, if_false]
  rw [fits_iff]
  unfold Flow.signedLen Flow.placeholderLen
  omega

example : (⟨0, 6, 32, none, some [⟨2, 3349⟩], true, [], false⟩ : Flow).run = .ok 248 := by decide
-- a pre-added DataHash (one exclusion, 20 bytes of padding) and two dynamic assertions
example : (⟨0, 6, 32, some ⟨some [⟨0, 2⟩], some 14, some 6, 32, 20, none⟩, some [⟨2, 3349⟩], true,
    [⟨500, 480, .cbor⟩, ⟨64, 70, .binary⟩], false⟩ : Flow).run = .ok 688 := by decide
example : (⟨0, 6, 32, some ⟨some [⟨0, 2⟩], some 14, some 6, 32, 0, none⟩, some [⟨2, 3349⟩], true,
    [], false⟩ : Flow).run = .tooLarge := by decide

/-! ### closed form for exclusion lists against the SDK's own placeholder -/

theorem placeholder_exclSize : exclSize (List.replicate 10 ⟨0, 2⟩) = 161 := by decide

theorem dhSize_placeholder (a d : Nat) :
    dhSize (placeholderDH a d) =
      173 + optField 4 (some 14) + optField 3 (some a) + (5 + str d) + (4 + str 0) := by
  show 1 + (11 + exclSize (List.replicate 10 ⟨0, 2⟩)) + optField 4 (some 14) + optField 3 (some a) +
      (5 + str d) + (4 + str 0) + optField 4 none = _
  rw [placeholder_exclSize]
  simp [optField]

/-- The documented flow: `placeholder` (no pre-added DataHash), `set_data_hash_exclusions l`,
`update_hash_from_stream`, no dynamic assertions. -/
def documented (base algLen digestLen : Nat) (l : List Range) : Flow :=
  { base := base, defAlgLen := algLen, digestLen := digestLen, pre := none,
    excl := some l, rehash := true, das := [], lost := false }

/-- **exclusions_fit_iff.** In the documented flow a non-empty exclusion list fits iff the
CBOR of the list is at most the 161 bytes of the ten dummy ranges:
`hdr |l| + Σ (14 + hdr start + hdr length) ≤ 161`. -/
theorem exclusions_fit_iff (base algLen digestLen : Nat) (l : List Range) (hne : l ≠ []) :
    (documented base algLen digestLen l).run = .ok (documented base algLen digestLen l).placeholderLen ↔
      exclSize l ≤ 161 := by
  rw [flow_fits_iff _ rfl]
  have hemp : l.isEmpty = false := by
    cases l with
    | nil => exact absurd rfl hne
    | cons a t => rfl
  have hfinal : dhSize (documented base algLen digestLen l).dhFinal =
      1 + (11 + exclSize l) + optField 4 (some 14) + optField 3 (some algLen) +
        (5 + str digestLen) + (4 + str 0) + 0 := by
    simp [documented, Flow.dhFinal, Flow.dh0, setExclusions, updateHash, newWith, placeholderDH,
      dhSize, hemp, optField]
  have h0 : dhSize (documented base algLen digestLen l).dh0 =
      173 + optField 4 (some 14) + optField 3 (some algLen) + (5 + str digestLen) + (4 + str 0) :=
    dhSize_placeholder algLen digestLen
  rw [hfinal, h0]
  simp only [documented, List.map_nil, List.sum_nil]
  omega

/-- An empty list always fits (the `exclusions` field is omitted altogether). -/
theorem no_exclusions_fit (base algLen digestLen : Nat) :
    (documented base algLen digestLen []).run =
      .ok (documented base algLen digestLen []).placeholderLen := by
  rw [flow_fits_iff _ rfl]
  have h0 : dhSize (documented base algLen digestLen []).dh0 =
      173 + optField 4 (some 14) + optField 3 (some algLen) + (5 + str digestLen) + (4 + str 0) :=
    dhSize_placeholder algLen digestLen
  have hfinal : dhSize (documented base algLen digestLen []).dhFinal =
      1 + 0 + optField 4 (some 14) + optField 3 (some algLen) +
        (5 + str digestLen) + (4 + str 0) + 0 := by
    simp [documented, Flow.dhFinal, Flow.dh0, setExclusions, updateHash, newWith, placeholderDH,
      dhSize, optField]
  rw [hfinal, h0]
  simp only [documented, List.map_nil, List.sum_nil]
  omega

theorem rangeSize_le (r : Range) : rangeSize r ≤ 32 := by
  have := hdr_le r.start; have := hdr_le r.length
  unfold rangeSize; omega

theorem sum_rangeSize_le (l : List Range) : (l.map rangeSize).sum ≤ 32 * l.length := by
  induction l with
  | nil => simp
  | cons a t ih =>
    have := rangeSize_le a
    simp only [List.map_cons, List.sum_cons, List.length_cons]
    omega

/-- **Up to five exclusions always fit**, whatever their offsets and lengths (each range
takes at most 32 bytes). In particular the documented single exclusion
`(offset, placeholder length)` can never overflow the placeholder. -/
theorem up_to_five_exclusions_fit (base algLen digestLen : Nat) (l : List Range)
    (hne : l ≠ []) (h5 : l.length ≤ 5) :
    (documented base algLen digestLen l).run =
      .ok (documented base algLen digestLen l).placeholderLen := by
  rw [exclusions_fit_iff _ _ _ _ hne]
  have hs := sum_rangeSize_le l
  have hh : hdr l.length = 1 := by simp [hdr]; omega
  unfold exclSize
  omega

example : ([⟨2, 3349⟩] : List Range) ≠ [] ∧ ([⟨2, 3349⟩] : List Range).length ≤ 5 := by decide

theorem sum_rangeSize_small (l : List Range)
    (h : ∀ r ∈ l, r.start < 24 ∧ r.length < 24) : (l.map rangeSize).sum = 16 * l.length := by
  induction l with
  | nil => simp
  | cons a t ih =>
    have ha := h a (List.mem_cons_self ..)
    have h1 : hdr a.start = 1 := by simp [hdr, ha.1]
    have h2 : hdr a.length = 1 := by simp [hdr, ha.2]
    have iht := ih (fun r hr => h r (List.mem_cons_of_mem _ hr))
    simp only [List.map_cons, List.sum_cons, List.length_cons, iht, rangeSize, h1, h2]
    omega

/-- **Ten exclusions fit only while every value is below 24** — the placeholder reserves
16 bytes per range, i.e. one-byte integers. -/
theorem ten_small_exclusions_fit (base algLen digestLen : Nat) (l : List Range)
    (hne : l ≠ []) (h10 : l.length ≤ 10) (h : ∀ r ∈ l, r.start < 24 ∧ r.length < 24) :
    (documented base algLen digestLen l).run =
      .ok (documented base algLen digestLen l).placeholderLen := by
  rw [exclusions_fit_iff _ _ _ _ hne]
  have hs := sum_rangeSize_small l h
  have hh : hdr l.length = 1 := by simp [hdr]; omega
  unfold exclSize
  omega

/-- The input on which the unrepaired code returned more bytes than the placeholder (ten
exclusions `(24, 1)`: 171 > 161 bytes): the repaired code reports an error. -/
theorem ten_exclusions_24_1_too_large (base algLen digestLen : Nat) :
    (documented base algLen digestLen (List.replicate 10 ⟨24, 1⟩)).run = .tooLarge := by
  have hne : List.replicate 10 (⟨24, 1⟩ : Range) ≠ [] := by decide
  have hnot : ¬ exclSize (List.replicate 10 ⟨24, 1⟩) ≤ 161 := by decide
  rcases flow_len (documented base algLen digestLen (List.replicate 10 ⟨24, 1⟩)) rfl with h | h
  · exact h
  · exact absurd ((exclusions_fit_iff _ _ _ _ hne).1 h) hnot


/-! ### sharpness of the exclusion-list bounds -/

theorem rangeSize_ge (r : Range) : 16 ≤ rangeSize r := by
  have := hdr_pos r.start; have := hdr_pos r.length
  unfold rangeSize; omega

theorem sum_rangeSize_ge (l : List Range) : 16 * l.length ≤ (l.map rangeSize).sum := by
  induction l with
  | nil => simp
  | cons a t ih =>
    have := rangeSize_ge a
    simp only [List.map_cons, List.sum_cons, List.length_cons]
    omega

theorem rangeSize_eq_16_iff (r : Range) : rangeSize r = 16 ↔ r.start < 24 ∧ r.length < 24 := by
  unfold rangeSize
  rcases hdr_cases r.start with h | h | h | h | h <;>
  rcases hdr_cases r.length with g | g | g | g | g <;> omega

/-- The sum is minimal (16 per range) iff every value is below 24. -/
theorem sum_rangeSize_min_iff (l : List Range) :
    (l.map rangeSize).sum = 16 * l.length ↔ ∀ r ∈ l, r.start < 24 ∧ r.length < 24 := by
  induction l with
  | nil => simp
  | cons a t ih =>
    have ha := rangeSize_ge a
    have ht := sum_rangeSize_ge t
    simp only [List.map_cons, List.sum_cons, List.length_cons, List.mem_cons, forall_eq_or_imp]
    rw [← ih, ← rangeSize_eq_16_iff]
    omega

/-- **ten_exclusions_fit_iff.** Exactly ten exclusions fit iff every start and every length is
below 24 — the two directions of "the placeholder reserves one-byte integers". -/
theorem ten_exclusions_fit_iff (base algLen digestLen : Nat) (l : List Range) (h10 : l.length = 10) :
    (documented base algLen digestLen l).run =
        .ok (documented base algLen digestLen l).placeholderLen ↔
      ∀ r ∈ l, r.start < 24 ∧ r.length < 24 := by
  have hne : l ≠ [] := by intro h; simp [h] at h10
  rw [exclusions_fit_iff _ _ _ _ hne, ← sum_rangeSize_min_iff]
  have hs := sum_rangeSize_ge l
  have hh : hdr l.length = 1 := by simp [hdr, h10]
  unfold exclSize
  omega

/-- **eleven_or_more_too_large.** More than ten exclusions never fit the SDK's own
placeholder, whatever their values: the result is the error. -/
theorem eleven_or_more_too_large (base algLen digestLen : Nat) (l : List Range)
    (h11 : 11 ≤ l.length) :
    (documented base algLen digestLen l).run = .tooLarge := by
  have hne : l ≠ [] := by intro h; simp [h] at h11
  have hnot : ¬ exclSize l ≤ 161 := by
    have hs := sum_rangeSize_ge l
    have := hdr_pos l.length
    unfold exclSize
    omega
  rcases flow_len (documented base algLen digestLen l) rfl with h | h
  · exact h
  · exact absurd ((exclusions_fit_iff _ _ _ _ hne).1 h) hnot

/-- **six_may_overflow.** `up_to_five_exclusions_fit` is sharp: six ranges with 64-bit values
(32 bytes each, 193 > 161) end in the error. -/
theorem six_may_overflow (base algLen digestLen : Nat) :
    (documented base algLen digestLen (List.replicate 6 ⟨4294967296, 4294967296⟩)).run = .tooLarge := by
  have hne : List.replicate 6 (⟨4294967296, 4294967296⟩ : Range) ≠ [] := by decide
  have hnot : ¬ exclSize (List.replicate 6 ⟨4294967296, 4294967296⟩) ≤ 161 := by decide
  rcases flow_len (documented base algLen digestLen (List.replicate 6 ⟨4294967296, 4294967296⟩)) rfl with h | h
  · exact h
  · exact absurd ((exclusions_fit_iff _ _ _ _ hne).1 h) hnot

/-- The documented flow on a Builder rebuilt from its JSON definition: no error and a result
*shorter* than the placeholder by exactly the unused part of the dummy exclusions. -/
theorem documented_lost_shorter (base algLen digestLen : Nat) (l : List Range) (hne : l ≠ [])
    (hlt : exclSize l < 161) :
    let f := { documented base algLen digestLen l with lost := true }
    f.run = .ok f.signedLen ∧ f.signedLen + (161 - exclSize l) = f.placeholderLen := by
  intro f
  refine ⟨flow_lost_unpadded f rfl, ?_⟩
  have hemp : l.isEmpty = false := by
    cases l with
    | nil => exact absurd rfl hne
    | cons a t => rfl
  have hfinal : dhSize f.dhFinal =
      1 + (11 + exclSize l) + optField 4 (some 14) + optField 3 (some algLen) +
        (5 + str digestLen) + (4 + str 0) + 0 := by
    simp [f, documented, Flow.dhFinal, Flow.dh0, setExclusions, updateHash, newWith, placeholderDH,
      dhSize, hemp, optField]
  have h0 : dhSize f.dh0 =
      173 + optField 4 (some 14) + optField 3 (some algLen) + (5 + str digestLen) + (4 + str 0) :=
    dhSize_placeholder algLen digestLen
  show f.base + dhSize f.dhFinal + (f.das.map daFinal).sum + (161 - exclSize l) =
    f.base + dhSize f.dh0 + (f.das.map (fun d => daPlaceholder d.reserve)).sum
  rw [hfinal, h0]
  simp only [f, documented, List.map_nil, List.sum_nil]
  omega

/-- the documented single exclusion `(2, 3349)`: 142 bytes short -/
example : ({ documented 0 6 32 [⟨2, 3349⟩] with lost := true } : Flow).run = .ok 106 ∧
    ({ documented 0 6 32 [⟨2, 3349⟩] with lost := true } : Flow).placeholderLen = 248 := by decide

/-! ### dynamic assertions -/

/-- The placeholder of a dynamic assertion is never larger than its `reserve_size`, and it
is *smaller* exactly just past a CBOR head boundary — there a content of exactly
`reserve_size` bytes does not fit (the flow then ends in the error, not in a longer result). -/
theorem daPlaceholder_le (r : Nat) (hr : 1 ≤ r) : daPlaceholder r ≤ r := by
  unfold daPlaceholder str
  rcases hdr_cases r with h | h | h | h | h <;>
  rcases hdr_cases (r - hdr r) with g | g | g | g | g <;> omega

theorem daPlaceholder_short_iff (r : Nat) (hr : 1 ≤ r) :
    daPlaceholder r < r ↔
      (r = 24 ∨ r = 25 ∨ r = 256 ∨ r = 257 ∨ r = 258 ∨ (65536 ≤ r ∧ r ≤ 65540) ∨
       (4294967296 ≤ r ∧ r ≤ 4294967304)) := by
  unfold daPlaceholder str
  rcases hdr_cases r with h | h | h | h | h <;>
  rcases hdr_cases (r - hdr r) with g | g | g | g | g <;> omega

/-- **da_within_placeholder_fits.** When the final DataHash is not larger than the placeholder's
and every dynamic assertion's final payload is within its placeholder slot, the flow succeeds
with the placeholder length. -/
theorem da_within_placeholder_fits (f : Flow) (hk : f.lost = false)
    (hdh : dhSize f.dhFinal ≤ dhSize f.dh0)
    (hda : ∀ d ∈ f.das, daFinal d ≤ daPlaceholder d.reserve) :
    f.run = .ok f.placeholderLen := by
  rw [flow_fits_iff f hk]
  have : (f.das.map daFinal).sum ≤ (f.das.map (fun d => daPlaceholder d.reserve)).sum := by
    generalize f.das = l at hda
    induction l with
    | nil => simp
    | cons a t ih =>
      have ha := hda a (List.mem_cons_self ..)
      have iht := ih (fun d hd => hda d (List.mem_cons_of_mem _ hd))
      simp only [List.map_cons, List.sum_cons]
      omega
  omega

/-- A dropped `Binary` content always fits: the placeholder slot itself stays. -/
theorem daFinal_binary (r c : Nat) : daFinal ⟨r, c, .binary⟩ = daPlaceholder r := rfl

/-- **da_single_fits_iff.** One dynamic assertion with CBOR or JSON content, DataHash of the
placeholder's size: the flow succeeds iff the content is at most `daPlaceholder reserve`. -/
theorem da_single_fits_iff (f : Flow) (hk : f.lost = false) (d : Da) (hd : f.das = [d])
    (hkind : d.kind ≠ .binary) (hdh : dhSize f.dhFinal = dhSize f.dh0) :
    f.run = .ok f.placeholderLen ↔ d.content ≤ daPlaceholder d.reserve := by
  rw [flow_fits_iff f hk, hd, hdh]
  have : daFinal d = d.content := by
    unfold daFinal
    cases hq : d.kind <;> simp_all
  simp only [List.map_cons, List.map_nil, List.sum_cons, List.sum_nil, this]
  omega

/-- **da_exact_reserve_fits_iff.** A dynamic assertion that returns exactly `reserve_size`
bytes fits iff the reserve is not just past a CBOR head boundary; on 24, 25, 256, 257, 258,
65536..65540, 2^32..2^32+8 the flow ends in the error (`da_exact_reserve_too_large`). -/
theorem da_exact_reserve_fits_iff (f : Flow) (hk : f.lost = false) (r : Nat) (k : DaKind)
    (hr : 1 ≤ r) (hd : f.das = [⟨r, r, k⟩]) (hkind : k ≠ .binary)
    (hdh : dhSize f.dhFinal = dhSize f.dh0) :
    f.run = .ok f.placeholderLen ↔
      ¬ (r = 24 ∨ r = 25 ∨ r = 256 ∨ r = 257 ∨ r = 258 ∨ (65536 ≤ r ∧ r ≤ 65540) ∨
         (4294967296 ≤ r ∧ r ≤ 4294967304)) := by
  rw [da_single_fits_iff f hk ⟨r, r, k⟩ hd hkind hdh, ← daPlaceholder_short_iff r hr]
  have := daPlaceholder_le r hr
  show r ≤ daPlaceholder r ↔ _
  omega

theorem da_exact_reserve_too_large (f : Flow) (hk : f.lost = false) (r : Nat) (k : DaKind)
    (hd : f.das = [⟨r, r, k⟩]) (hkind : k ≠ .binary) (hdh : dhSize f.dhFinal = dhSize f.dh0)
    (hr : r = 24 ∨ r = 25 ∨ r = 256 ∨ r = 257 ∨ r = 258) :
    f.run = .tooLarge := by
  have hr1 : 1 ≤ r := by omega
  rcases flow_len f hk with h | h
  · exact h
  · have := (da_exact_reserve_fits_iff f hk r k hr1 hd hkind hdh).1 h
    exact absurd (by omega) this

/-- the SDK placeholder kept as it is (no `set_data_hash_exclusions`, no rehash), one dynamic
assertion returning exactly its reserve of 256 bytes -/
example : (⟨0, 6, 32, none, none, false, [⟨256, 256, .cbor⟩], false⟩ : Flow).run = .tooLarge := by decide
example : (⟨0, 6, 32, none, none, false, [⟨255, 255, .json⟩], false⟩ : Flow).run = .ok 503 := by decide

/-! ### caller-supplied BoxHash / BmffHash binding -/

/-- **oflow_len.** With a guarded binding (BoxHash) the result is an error or has exactly the
placeholder length, however much the binding assertion grew when the asset was hashed. -/
theorem oflow_len (f : OFlow) (hg : f.guarded = true) :
    f.run = .tooLarge ∨ f.run = .ok f.placeholderLen := by
  unfold OFlow.run
  rw [hg]
  exact embeddable_len _ _

theorem oflow_fits_iff (f : OFlow) (hg : f.guarded = true) :
    f.run = .ok f.placeholderLen ↔
      f.size1 + (f.das.map daFinal).sum ≤
        f.size0 + (f.das.map (fun d => daPlaceholder d.reserve)).sum := by
  unfold OFlow.run
  rw [hg, fits_iff]
  unfold OFlow.signedLen OFlow.placeholderLen
  omega

/-- An empty BoxHash (3 bytes of CBOR) that grows to 1175 bytes when the asset's boxes are
hashed: the error — before the repair `fixes/C15-embeddable-boxhash-too-large.patch` this
returned 1172 bytes more than the placeholder. -/
example : (⟨2000, true, 3, 1175, []⟩ : OFlow).run = .tooLarge := by decide
example : (⟨2000, true, 1500, 1175, []⟩ : OFlow).run = .ok 3500 := by decide

/-- Not guarded (BmffHash): a grown binding yields a longer result. -/
theorem oflow_unguarded_longer (f : OFlow) (hg : f.guarded = false)
    (h : f.placeholderLen < f.signedLen) : f.run = .ok f.signedLen := by
  unfold OFlow.run
  rw [hg]
  exact unguarded_may_be_longer _ _ h

/-! ### the legacy pair `data_hashed_placeholder` / `sign_data_hashed_embeddable` -/

/-- Same contract (by construction of `pad_to_size`: exact size or `JumbfCreationError`). -/
theorem legacy_len (f : Legacy) (ph : Nat) : f.run ph = .tooLarge ∨ f.run ph = .ok ph := by
  unfold Legacy.run
  by_cases h : dhSize f.adjusted ≤ dhSize f.dh0
  · right; simp [h]
  · left; simp [h]

/-- **legacy_fits_iff.** Against the SDK's own legacy placeholder (ten dummy ranges, *no* hash
reserved) a non-empty exclusion list fits iff
`exclSize l + str algLen + str hashLen ≤ 169` — with sha256 that is `exclSize l ≤ 128`: at most
seven one-byte ranges, not the ten the placeholder is documented to hold. -/
theorem legacy_fits_iff (algLen hashLen ph : Nat) (l : List Range) (hne : l ≠ []) :
    (⟨algLen, none, l, hashLen⟩ : Legacy).run ph = .ok ph ↔
      exclSize l + str algLen + str hashLen ≤ 169 := by
  have hemp : l.isEmpty = false := by
    cases l with
    | nil => exact absurd rfl hne
    | cons a t => rfl
  have hadj : dhSize (⟨algLen, none, l, hashLen⟩ : Legacy).adjusted =
      1 + (11 + exclSize l) + optField 4 (some 14) + optField 3 (some algLen) +
        (5 + str hashLen) + (4 + str 0) + 0 := by
    simp [Legacy.adjusted, newWith, dhSize, hemp, optField]
  have h0 : dhSize (⟨algLen, none, l, hashLen⟩ : Legacy).dh0 =
      173 + optField 4 (some 14) + optField 3 (some 6) + (5 + str 0) + (4 + str 0) :=
    dhSize_placeholder 6 0
  unfold Legacy.run
  rw [hadj, h0]
  have e1 : optField 3 (some algLen) = 1 + 3 + str algLen := rfl
  have e2 : optField 3 (some 6) = 11 := by decide
  have e3 : str 0 = 1 := by decide
  rw [e1, e2, e3]
  constructor
  · intro h
    by_cases hc : 1 + (11 + exclSize l) + optField 4 (some 14) + (1 + 3 + str algLen) +
        (5 + str hashLen) + (4 + 1) + 0 ≤ 173 + optField 4 (some 14) + 11 + (5 + 1) + (4 + 1)
    · omega
    · simp [hc] at h
  · intro h
    have hc : 1 + (11 + exclSize l) + optField 4 (some 14) + (1 + 3 + str algLen) +
        (5 + str hashLen) + (4 + 1) + 0 ≤ 173 + optField 4 (some 14) + 11 + (5 + 1) + (4 + 1) := by
      omega
    simp [hc]

example : (⟨6, none, List.replicate 7 ⟨0, 2⟩, 32⟩ : Legacy).run 5 = .ok 5 := by decide
example : (⟨6, none, List.replicate 8 ⟨0, 2⟩, 32⟩ : Legacy).run 5 = .tooLarge := by decide

end C2pa.C15
