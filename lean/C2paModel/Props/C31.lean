import C2paModel.Lemmas.C31
/-
C31 — property theorems. The statement (properties.jsonl):

  For any sequence of C API calls, passing NULL, a freed handle, a handle of the wrong
  type, or a pointer not produced by the library returns an error indicator with a
  retrievable error message instead of crashing. Every handle the library returns is
  released exactly once by a single free call, and a second free of the same handle
  reports an error unless the library has since reissued that address for a new handle.

All theorems quantify over every world, every call sequence, every argument vector and
every answer of an adversarial allocator (any address that is not live).  Theorems about
"the exported functions" go through the regenerated `Gen.ffiGuards` table.
-/
namespace C2pa.C31

/-! ## 1. The registry refines the abstract live-handle map -/

inductive RegOp
  | track (a : Nat) (e : Entry) | validate (a : Nat) (t : Ty) | untrack (a : Nat) (t : Ty)
  /-- `t = .none`: `PointerRegistry::free`; otherwise `PointerRegistry::free_typed` -/
  | free (a : Nat) (t : Ty)

inductive RegRes
  | done | found (e : Entry) | freed (e : Option Entry) | err (x : RegErr)
  deriving DecidableEq

def regStep (r : Reg) : RegOp → Reg × RegRes
  | .track a e => (track r a e, .done)
  | .validate a t => match validate r a t with
    | .ok e => (r, .found e) | .error x => (r, .err x)
  | .untrack a t => match untrack r a t with
    | .ok (r', e) => (r', .found e) | .error x => (r, .err x)
  | .free a t => match free r a t with
    | .ok (r', e) => (r', .freed e) | .error x => (r, .err x)

/-- The abstract machine: a total map from addresses to live handles. -/
abbrev AMap := Nat → Option Entry

def AMap.set (m : AMap) (a : Nat) (v : Option Entry) : AMap := fun b => if b = a then v else m b

def absCheck (m : AMap) (a : Nat) (t : Ty) : Except RegErr Entry :=
  if a = 0 then .error .null
  else match m a with
    | some e => if e.ty = t then .ok e else .error .wrongType
    | none => .error .untracked

def absStep (m : AMap) : RegOp → AMap × RegRes
  | .track a e => (if a = 0 then m else m.set a (some e), .done)
  | .validate a t => match absCheck m a t with
    | .ok e => (m, .found e) | .error x => (m, .err x)
  | .untrack a t => match absCheck m a t with
    | .ok e => (m.set a none, .found e) | .error x => (m, .err x)
  | .free a t =>
    if a = 0 then (m, .freed none)
    else match m a with
      | some e => if t = .none ∨ e.ty = t then (m.set a none, .freed (some e)) else (m, .err .wrongType)
      | none => (m, .err .untracked)

def runReg : Reg → List RegOp → Reg × List RegRes
  | r, [] => (r, [])
  | r, o :: os => let (r1, x) := regStep r o; let (r2, xs) := runReg r1 os; (r2, x :: xs)

def runAbs : AMap → List RegOp → AMap × List RegRes
  | m, [] => (m, [])
  | m, o :: os => let (m1, x) := absStep m o; let (m2, xs) := runAbs m1 os; (m2, x :: xs)

theorem regStep_refines (r : Reg) (m : AMap) (h : ∀ a, r.get a = m a) (o : RegOp) :
    (regStep r o).2 = (absStep m o).2 ∧ ∀ a, (regStep r o).1.get a = (absStep m o).1 a := by
  cases o with
  | track a e =>
    simp only [regStep, absStep, track]
    refine ⟨trivial, ?_⟩
    by_cases ha : a = 0
    · simp [ha, h]
    · intro b; simp only [ha, if_false, Reg.get_insert, AMap.set, h]
  | validate a t =>
    simp only [regStep, absStep, validate, absCheck, h a]
    by_cases ha : a = 0
    · simp [ha, h]
    · cases hm : m a with
      | none => simp [ha, h]
      | some e => by_cases ht : e.ty = t <;> simp [ha, ht, h]
  | untrack a t =>
    simp only [regStep, absStep, untrack, absCheck, h a]
    by_cases ha : a = 0
    · simp [ha, h]
    · cases hm : m a with
      | none => simp [ha, h]
      | some e =>
        by_cases ht : e.ty = t
        · simp only [ha, ht, if_false, if_true, true_and]
          intro b; rw [Reg.get_remove]; simp [AMap.set, h]
        · simp [ha, ht, h]
  | free a t =>
    simp only [regStep, absStep, free, h a]
    by_cases ha : a = 0
    · simp [ha, h]
    · cases hm : m a with
      | none => simp [ha, h]
      | some e =>
        by_cases ht : t = .none ∨ e.ty = t
        · simp only [ha, ht, if_false, if_true, true_and]
          intro b; rw [Reg.get_remove]; simp [AMap.set, h]
        · simp [ha, ht, h]

/-- **Any sequence of registry operations behaves like the abstract live-handle map**:
same answers, and the registry content is the map. -/
theorem registry_refines_map (ops : List RegOp) (r : Reg) (m : AMap) (h : ∀ a, r.get a = m a) :
    (runReg r ops).2 = (runAbs m ops).2 ∧ ∀ a, (runReg r ops).1.get a = (runAbs m ops).1 a := by
  induction ops generalizing r m with
  | nil => exact ⟨rfl, h⟩
  | cons o os ih =>
    obtain ⟨h1, h2⟩ := regStep_refines r m h o
    obtain ⟨h3, h4⟩ := ih (regStep r o).1 (absStep m o).1 h2
    simp only [runReg, runAbs]
    exact ⟨by rw [h1, h3], h4⟩

/-- From the empty registry. -/
theorem registry_refines_map_init (ops : List RegOp) :
    (runReg [] ops).2 = (runAbs (fun _ => none) ops).2 ∧
    ∀ a, (runReg [] ops).1.get a = (runAbs (fun _ => none) ops).1 a :=
  registry_refines_map ops [] (fun _ => none) (fun _ => rfl)

example :
    (runReg [] [.track 5 ⟨.reader, 0⟩, .validate 5 .builder, .free 5 .builder, .free 5 .reader, .free 5 .none,
                .track 5 ⟨.builder, 1⟩, .free 5 .none]).2
      = [.done, .err .wrongType, .err .wrongType, .freed (some ⟨.reader, 0⟩), .err .untracked, .done,
         .freed (some ⟨.builder, 1⟩)] := by
  decide


/-! ## 2. Exactly-once release -/

/-- A trace on which the model's idealisations hold: no undefined behaviour was reached and
every address the allocator answered was not live (it may be any freed address). -/
def Clean (os : List Outcome) : Prop := ∀ o ∈ os, o.ub = false ∧ o.allocBad = false

theorem run_inv (cs : List Call) (w : World) (hi : Inv w) (hc : Clean (run w cs).2) :
    Inv (run w cs).1 := by
  induction cs generalizing w with
  | nil => exact hi
  | cons c cs ih =>
    simp only [run] at hc ⊢
    have h1 : (step w c).2.allocBad = false := (hc _ (List.mem_cons_self ..)).2
    exact ih _ (step_inv w c hi h1) (fun o ho => hc o (List.mem_cons_of_mem _ ho))

/-- **Cleanup of an allocation runs at most once, and exactly once when it has been released**:
after any call sequence (any arguments, any allocator answers that avoid live addresses), the
list of executed cleanups has no duplicate allocation, and an allocation has been cleaned up
iff it was handed out and is no longer tracked (nor a live string array). -/
theorem free_once (cs : List Call) (hc : Clean (run {} cs).2) :
    let w := (run {} cs).1
    (w.cleanups.map (·.1)).Nodup ∧
    ∀ i, i ∈ w.cleanups.map (·.1) ↔
      (i < w.next ∧ i ∉ w.reg.map (·.2.alloc) ∧ i ∉ w.arrays.map (·.alloc)) := by
  intro w
  have hi : Inv w := run_inv cs {} Inv.empty hc
  have hnd := hi.nodup
  simp only [World.ids] at hnd
  have hnd2 := (List.nodup_append.1 hnd)
  have hnd3 := (List.nodup_append.1 hnd2.2.1)
  refine ⟨hnd3.2.1, ?_⟩
  intro i
  constructor
  · intro hm
    refine ⟨(hi.lt i).1 (by simp [World.ids, hm]), ?_, ?_⟩
    · intro h; exact hnd2.2.2 i h i (by simp [hm]) rfl
    · intro h; exact hnd3.2.2 i h i hm rfl
  · rintro ⟨hlt, h1, h2⟩
    have := (hi.lt i).2 hlt
    simp only [World.ids, List.mem_append] at this
    rcases this with h | h | h
    · exact absurd h h1
    · exact absurd h h2
    · exact h

/-- Releasing a tracked handle runs *its* cleanup now, and it had not run before. -/
theorem release_runs_cleanup_now (w : World) (hi : Inv w) (a : Nat) (ent : Entry)
    (hg : w.reg.get a = some ent) : ent.alloc ∉ w.cleanups.map (·.1) := by
  intro hm
  have hmem : ent.alloc ∈ w.reg.map (·.2.alloc) := by
    have hp := Reg.allocs_remove_perm w.reg a ent hi.keys hg
    exact hp.mem_iff.2 (List.mem_cons_self ..)
  have hnd := hi.nodup
  simp only [World.ids] at hnd
  exact (List.nodup_append.1 hnd).2.2 _ hmem _ (by simp [hm]) rfl

-- non-vacuity: a clean trace with a release, a consumed handle and an in-call reissue
example :
    let row (ev : List Event) (r : RKind) (t : Ty) : FnRow :=
      { name := "", cfgGated := false, params := [⟨"p", .handle, .reader, false⟩], events := ev, ret := r, retTy := t }
    let cs : List Call :=
      [ ⟨row [] .handle .reader, [], true, [7]⟩,
        ⟨row [⟨0, .untrack, .reader⟩] .handle .reader, [⟨7, false⟩], true, [7]⟩,
        ⟨row [⟨0, .free, .none⟩] .int .none, [⟨7, false⟩], true, []⟩ ]
    (run {} cs).1.cleanups = [(1, 7), (0, 7)] ∧ (run {} cs).2.all (fun o => !o.ub && !o.allocBad) = true := by
  decide

/-- The allocator hypothesis is needed: if a live address is answered, `track` replaces the
entry and the old allocation's cleanup is lost (`allocBad` flags exactly this). -/
example :
    let row : FnRow := { name := "", cfgGated := false, params := [], events := [], ret := .handle, retTy := .reader }
    ((run {} [⟨row, [], true, [7]⟩, ⟨row, [], true, [7]⟩]).2.map (·.allocBad)) = [false, true] := by
  decide

/-! ## 3. Double free -/

/-- A release call: one parameter that goes to `cimpl_free`, nothing else (all `*_free`,
`c2pa_release_*`, `c2pa_free`, `cimpl_free`). -/
def isReleaseRow (row : FnRow) : Bool :=
  !row.freesArray && !row.setsLast && (row.ret == .unit || row.ret == .int) &&
  row.events.all (fun e => (e.use == .free && e.p == 0) || e.use == .opaque) &&
  row.events.any (fun e => e.use == .free)

theorem evStep_free_untracked (row : FnRow) (args : List Arg) (w : World) (e : Event)
    (hu : e.use = .free) (ha : (argOf args e.p).a ≠ 0) (hg : w.reg.get (argOf args e.p).a = none) :
    evStep row args w e = .error (.err .untracked) := by
  unfold evStep
  simp only [hu, free, ha, if_false, hg]
  rfl

theorem evStep_free_wrongType (row : FnRow) (args : List Arg) (w : World) (e : Event) (ent : Entry)
    (hu : e.use = .free) (ha : (argOf args e.p).a ≠ 0) (hg : w.reg.get (argOf args e.p).a = some ent)
    (ht : e.ty ≠ .none) (hne : ent.ty ≠ e.ty) :
    evStep row args w e = .error (.err .wrongType) := by
  unfold evStep
  have hno : ¬ (e.ty = .none ∨ ent.ty = e.ty) := by
    rintro (h | h)
    · exact ht h
    · exact hne h
  simp only [hu, free, ha, if_false, hg, hno]
  rfl

/-- A release row whose release event is refused stops there with the world untouched
(only `opaque` uses can precede it). -/
theorem runEvents_release_stop (row : FnRow) (args : List Arg) (es : List Event) (w : World) (fr : List Nat)
    (s : Stop)
    (hall : es.all (fun e => (e.use == .free && e.p == 0) || e.use == .opaque) = true)
    (hany : es.any (fun e => e.use == .free) = true)
    (hstop : ∀ e ∈ es, e.use = .free → e.p = 0 → evStep row args w e = .error s) :
    runEvents row args w fr es = (w, fr, some s) := by
  induction es generalizing fr with
  | nil => simp at hany
  | cons e es ih =>
    simp only [List.all_cons, Bool.and_eq_true, Bool.or_eq_true, beq_iff_eq] at hall
    obtain ⟨he, hrest⟩ := hall
    rcases he with ⟨hu, hp⟩ | hu
    · unfold runEvents
      rw [hstop e (List.mem_cons_self ..) hu hp]
    · unfold runEvents
      have : evStep row args w e = .ok (w, []) := by unfold evStep; simp only [hu]
      rw [this]
      simp only [List.append_nil]
      have hany' : es.any (fun e => e.use == .free) = true := by
        simp only [List.any_cons, Bool.or_eq_true, beq_iff_eq] at hany
        rcases hany with h | h
        · rw [hu] at h; cases h
        · exact h
      exact ih fr hrest hany' (fun e' he' => hstop e' (List.mem_cons_of_mem _ he'))

/-- Releasing an address that is not tracked: error value, `UntrackedPointer` stored, no
cleanup runs, nothing changes. -/
theorem release_untracked_errors (w : World) (c : Call) (hr : isReleaseRow c.row = true)
    (ha : (argOf c.args 0).a ≠ 0) (hg : w.reg.get (argOf c.args 0).a = none) :
    step w c = (w, { fail := true, err := .untracked, freed := [] }) := by
  unfold isReleaseRow at hr
  simp only [Bool.and_eq_true] at hr
  obtain ⟨⟨_, hall⟩, hany⟩ := hr
  unfold step
  rw [runEvents_release_stop c.row c.args c.row.events w [] (.err .untracked) hall hany
    (fun e _ hu hp => evStep_free_untracked c.row c.args w e hu (by rw [hp]; exact ha) (by rw [hp]; exact hg))]

/-- **A type-specific release function refuses a handle of another type**: the error value is
returned with `WrongPointerType` stored, no cleanup runs and the handle stays tracked (it can
still be used and released through the right function).  `t` is the type check carried by the
row's release event (`cimpl_free!(p, T)`); `table_typed_release_checked` shows which rows
carry which. -/
theorem typed_release_wrong_type_errors (w : World) (c : Call) (t : Ty) (ent : Entry)
    (hr : isReleaseRow c.row = true)
    (ht : ∀ e ∈ c.row.events, e.use = .free → e.ty = t) (htn : t ≠ .none)
    (ha : (argOf c.args 0).a ≠ 0) (hg : w.reg.get (argOf c.args 0).a = some ent) (hne : ent.ty ≠ t) :
    step w c = (w, { fail := true, err := .wrongType, freed := [] }) := by
  unfold isReleaseRow at hr
  simp only [Bool.and_eq_true] at hr
  obtain ⟨⟨_, hall⟩, hany⟩ := hr
  unfold step
  rw [runEvents_release_stop c.row c.args c.row.events w [] (.err .wrongType) hall hany
    (fun e he hu hp => evStep_free_wrongType c.row c.args w e ent hu (by rw [hp]; exact ha)
      (by rw [hp]; exact hg) (by rw [ht e he hu]; exact htn) (by rw [ht e he hu]; exact hne))]

theorem finish_get_none (w : World) (c : Call) (fr : List Nat) (a : Nat) (ha : a ≠ 0)
    (hna : a ∉ c.allocs) (hg : w.reg.get a = none) : (finish w c fr).1.reg.get a = none := by
  have hD : c.allocs.getD 0 0 ≠ a := by
    intro h
    cases hl : c.allocs with
    | nil => simp [hl] at h; exact ha h.symm
    | cons x xs => simp [hl] at h; apply hna; rw [hl, ← h]; exact List.mem_cons_self ..
  have hAT : ∀ (w : World) (t : Ty) (b : Nat), b ≠ a → w.reg.get a = none →
      (allocTracked w b t).1.reg.get a = none := by
    intro w t b hb hg
    unfold allocTracked
    by_cases hb0 : b = 0
    · simpa [hb0] using hg
    · simp only [hb0, if_false, track, Reg.get_insert]
      have : ¬ a = b := fun h => hb h.symm
      simp [this, hg]
  have hAS : ∀ (l : List Nat) (w : World), a ∉ l → w.reg.get a = none →
      (allocStrings w l).1.reg.get a = none := by
    intro l
    induction l with
    | nil => intro w _ hg; exact hg
    | cons b bs ih =>
      intro w hl hg
      simp only [allocStrings]
      have hb : b ≠ a := fun h => hl (h ▸ List.mem_cons_self ..)
      exact ih _ (fun h => hl (List.mem_cons_of_mem _ h)) (hAT w _ b hb hg)
  have hFE : ∀ (t : Ty) (l : List Nat) (w : World), w.reg.get a = none → (freeElems t w l).1.reg.get a = none := by
    intro t l
    induction l with
    | nil => intro w hg; exact hg
    | cons b bs ih =>
      intro w hg
      unfold freeElems
      cases hf : free w.reg b t with
      | error x => simpa using ih w hg
      | ok p =>
        obtain ⟨r, oe⟩ := p
        rcases (free_ok_iff _ _ _ _ _).1 hf with ⟨_, _, ho⟩ | ⟨_, ent, _, ho, hr, _⟩
        · subst ho; simpa using ih w hg
        · subst ho; subst hr
          have : Reg.get (w.reg.remove b) a = none := by rw [Reg.get_remove]; simp [hg]
          simpa using ih { w with reg := w.reg.remove b, cleanups := (ent.alloc, b) :: w.cleanups } this
  unfold finish
  by_cases hfa : c.row.freesArray = true
  · simp only [hfa, if_true]
    cases har : w.arrayAt (argOf c.args 0).a with
    | none => exact hg
    | some ar => exact hFE c.row.elemTy ar.elems w hg
  · have hfa' : c.row.freesArray = false := by simpa using hfa
    simp only [hfa', Bool.false_eq_true, if_false]
    cases hr : c.row.ret <;> simp only
    case unit => exact hg
    case int => exact hg
    case bool => exact hg
    case handle => exact hAT w _ _ hD hg
    case cstring => exact hAT w _ _ hD hg
    case cstringOpt => exact hAT w _ _ hD hg
    case bytes => exact hAT w _ _ hD hg
    case int64 =>
      cases hob : c.row.outBytes with
      | none => exact hg
      | some p =>
        simp only
        by_cases hz : (argOf c.args p).a = 0
        · simpa [hz] using hg
        · simp only [hz, if_false]; exact hAT w _ _ hD hg
    case strarray =>
      cases hrev : c.allocs.reverse with
      | nil => exact hg
      | cons arr revElems =>
        simp only
        apply hAS _ _ _ hg
        intro hm
        apply hna
        have : a ∈ c.allocs.reverse := by rw [hrev]; exact List.mem_cons_of_mem _ (List.mem_reverse.1 hm)
        exact List.mem_reverse.1 this

/-- An untracked address stays untracked through any call in which the allocator does not
answer that address. -/
theorem step_get_none (w : World) (c : Call) (a : Nat) (ha : a ≠ 0) (hna : a ∉ c.allocs)
    (hg : w.reg.get a = none) : (step w c).1.reg.get a = none := by
  have hre : (runEvents c.row c.args w [] c.row.events).1.reg.get a = none := by
    rcases runEvents_get c.row c.args c.row.events w [] a with h | h
    · exact h
    · rw [h]; exact hg
  unfold step
  rcases hrun : runEvents c.row c.args w [] c.row.events with ⟨w1, fr, st⟩
  rw [hrun] at hre
  simp only at hre
  cases st with
  | none =>
    simp only
    by_cases hin : c.inner = true
    · simp only [hin, if_true]; exact finish_get_none _ _ _ _ ha hna hre
    · simp only [hin]; exact hre
  | some s =>
    cases s with
    | err e => exact hre
    | silent => exact hre
    | okEarly => exact hre
    | ub => exact hg
    | alt =>
      simp only
      by_cases hin : c.inner = true
      · simp only [hin, if_true]; exact finish_get_none _ _ _ _ ha hna hre
      · simp only [hin]; exact hre

theorem run_get_none (cs : List Call) (w : World) (a : Nat) (ha : a ≠ 0)
    (hna : ∀ c ∈ cs, a ∉ c.allocs) (hg : w.reg.get a = none) : (run w cs).1.reg.get a = none := by
  induction cs generalizing w with
  | nil => exact hg
  | cons c cs ih =>
    simp only [run]
    exact ih _ (fun c' hc' => hna c' (List.mem_cons_of_mem _ hc'))
      (step_get_none w c a ha (hna c (List.mem_cons_self ..)) hg)

/-- After a release call on `a` that was not refused for its type, `a` is not tracked (it was
released now, or it was not tracked before). -/
theorem release_then_untracked (w : World) (c : Call) (hr : isReleaseRow c.row = true)
    (ha : (argOf c.args 0).a ≠ 0) (hwt : (step w c).2.err ≠ .wrongType) :
    (step w c).1.reg.get (argOf c.args 0).a = none := by
  cases hg : w.reg.get (argOf c.args 0).a with
  | none => rw [release_untracked_errors w c hr ha hg]; exact hg
  | some ent =>
    unfold isReleaseRow at hr
    simp only [Bool.and_eq_true, Bool.not_eq_true', Bool.or_eq_true, beq_iff_eq] at hr
    obtain ⟨⟨⟨⟨hfa, _⟩, hret⟩, hall⟩, hany⟩ := hr
    -- after the guard events either `a` is untracked or the sequence stopped on the type check;
    -- a release row tracks nothing afterwards
    have key : ∀ (es : List Event) (w : World) (fr : List Nat),
        es.all (fun e => (e.use == .free && e.p == 0) || e.use == .opaque) = true →
        (es.any (fun e => e.use == .free) = true ∨ w.reg.get (argOf c.args 0).a = none) →
        (runEvents c.row c.args w fr es).1.reg.get (argOf c.args 0).a = none ∨
        (runEvents c.row c.args w fr es).2.2 = some (.err .wrongType) := by
      intro es
      induction es with
      | nil =>
        intro w fr _ h
        rcases h with h | h
        · simp at h
        · exact Or.inl h
      | cons e es ih =>
        intro w fr hall h
        simp only [List.all_cons, Bool.and_eq_true, Bool.or_eq_true, beq_iff_eq] at hall
        obtain ⟨he, hrest⟩ := hall
        unfold runEvents
        rcases he with ⟨hu, hp⟩ | hu
        · cases hev : evStep c.row c.args w e with
          | error s =>
            -- release refused: `a` was untracked already, or it has another type
            unfold evStep at hev
            simp only [hu, hp] at hev
            cases hf : free w.reg (argOf c.args 0).a e.ty with
            | error x =>
              obtain ⟨_, h1 | h1⟩ := free_err _ _ _ _ hf
              · exact Or.inl h1.2
              · right
                simp only [hf, Except.error.injEq] at hev
                subst hev
                rw [h1.1]
                rfl
            | ok p => obtain ⟨r, oe⟩ := p; cases oe <;> simp [hf] at hev
          | ok p =>
            obtain ⟨w', f⟩ := p
            apply ih w' (fr ++ f) hrest
            right
            have heff := evStep_ok _ _ _ _ _ _ hev
            rw [hp] at heff
            cases heff with
            | same =>
              -- free succeeded without releasing: only possible for NULL
              unfold evStep at hev
              simp only [hu, hp] at hev
              cases hf : free w.reg (argOf c.args 0).a e.ty with
              | error x => simp [hf] at hev
              | ok p =>
                obtain ⟨r, oe⟩ := p
                rcases (free_ok_iff _ _ _ _ _).1 hf with ⟨h0, _, _⟩ | ⟨_, ent', _, ho, _⟩
                · exact absurd h0 ha
                · subst ho; simp [hf] at hev
            | released ent' _ _ => simp [Reg.get_remove]
        · have : evStep c.row c.args w e = .ok (w, []) := by unfold evStep; simp only [hu]
          rw [this]
          apply ih w (fr ++ []) hrest
          rcases h with h | h
          · left
            simp only [List.any_cons, Bool.or_eq_true, beq_iff_eq] at h
            rcases h with h | h
            · rw [hu] at h; cases h
            · exact h
          · right; exact h
    have hre := key c.row.events w [] hall (Or.inl hany)
    unfold step at hwt ⊢
    rcases hrun : runEvents c.row c.args w [] c.row.events with ⟨w1, fr, st⟩
    rw [hrun] at hre hwt
    simp only at hre hwt
    have hfin : ∀ fr, (finish w1 c fr).1 = w1 := by
      intro fr
      unfold finish
      simp only [hfa, Bool.false_eq_true, if_false]
      rcases hret with h | h <;> simp [h]
    cases st with
    | none =>
      have hre' : w1.reg.get (argOf c.args 0).a = none := by
        rcases hre with h | h
        · exact h
        · cases h
      simp only
      by_cases hin : c.inner = true
      · simp only [hin, if_true, hfin]; exact hre'
      · simp only [hin]; exact hre'
    | some s =>
      cases s with
      | err e =>
        rcases hre with h | h
        · exact h
        · simp only [Option.some.injEq, Stop.err.injEq] at h
          subst h
          exact absurd rfl hwt
      | silent =>
        rcases hre with h | h
        · exact h
        · cases h
      | okEarly =>
        rcases hre with h | h
        · exact h
        · cases h
      | ub =>
        -- a release row has no raw use, `ub` cannot be the result
        exfalso
        have : ∀ (es : List Event) (w : World) (fr : List Nat),
            es.all (fun e => (e.use == .free && e.p == 0) || e.use == .opaque) = true →
            (runEvents c.row c.args w fr es).2.2 ≠ some .ub := by
          intro es
          induction es with
          | nil => intro w fr _; simp [runEvents]
          | cons e es ih =>
            intro w fr hall
            simp only [List.all_cons, Bool.and_eq_true, Bool.or_eq_true, beq_iff_eq] at hall
            obtain ⟨he, hrest⟩ := hall
            unfold runEvents
            cases hev : evStep c.row c.args w e with
            | error s =>
              simp only
              intro hs
              injection hs with hs
              subst hs
              unfold evStep at hev
              rcases he with ⟨hu, _⟩ | hu
              · simp only [hu] at hev
                cases hf : free w.reg (argOf c.args e.p).a e.ty with
                | error x => simp [hf] at hev
                | ok p => obtain ⟨r, oe⟩ := p; cases oe <;> simp [hf] at hev
              · simp only [hu] at hev; cases hev
            | ok p => obtain ⟨w', f⟩ := p; exact ih w' (fr ++ f) hrest
        have h2 := this c.row.events w [] hall
        rw [hrun] at h2
        exact h2 rfl
      | alt =>
        have hre' : w1.reg.get (argOf c.args 0).a = none := by
          rcases hre with h | h
          · exact h
          · cases h
        simp only
        by_cases hin : c.inner = true
        · simp only [hin, if_true, hfin]; exact hre'
        · simp only [hin]; exact hre'

/-- A release call that succeeds stores no error (in particular it was not refused for its type). -/
theorem release_ok_no_error (w : World) (c : Call) (hr : isReleaseRow c.row = true)
    (hok : (step w c).2.fail = false) : (step w c).2.err = .none := by
  unfold isReleaseRow at hr
  simp only [Bool.and_eq_true, Bool.not_eq_true', Bool.or_eq_true, beq_iff_eq] at hr
  obtain ⟨⟨⟨⟨hfa, hsl⟩, hret⟩, _⟩, _⟩ := hr
  have hfin : ∀ w fr, (finish w c fr).2.err = .none := by
    intro w fr
    unfold finish
    simp only [hfa, Bool.false_eq_true, if_false]
    rcases hret with h | h <;> simp [h, hsl]
  unfold step at hok ⊢
  rcases hrun : runEvents c.row c.args w [] c.row.events with ⟨w1, fr, st⟩
  rw [hrun] at hok
  cases st with
  | none =>
    simp only at hok ⊢
    by_cases hin : c.inner = true
    · simp only [hin, if_true, hfin]
    · simp [hin] at hok
  | some s =>
    cases s with
    | err e => simp at hok
    | silent => simp at hok
    | okEarly => rfl
    | ub => rfl
    | alt =>
      simp only at hok ⊢
      by_cases hin : c.inner = true
      · simp only [hin, if_true, hfin]
      · simp [hin] at hok

/-- **A second free of the same handle reports an error unless the address has been reissued**
— for every handle that lives in the registry (all handle types, strings, byte arrays).
`_partial`: the statement also speaks about the string arrays of
`c2pa_*_supported_mime_types`, for which the code falsifies it (section 8,
`double_free_errors_everywhere_false`).
After a release call on `a` that was not refused for the type of `a` (`hwt`; a refused call
released nothing and is not a "first free", see `typed_release_wrong_type_errors`), and after
any further calls during which the allocator never answers `a` again, another release call on
`a` — through any release function — returns the error value with `UntrackedPointer` stored,
runs no cleanup and changes nothing. -/
theorem double_free_errors_unless_reissued_partial (w : World) (c1 c2 : Call) (mid : List Call) (a : Nat)
    (h1 : isReleaseRow c1.row = true) (h2 : isReleaseRow c2.row = true)
    (ha : a ≠ 0) (ha1 : (argOf c1.args 0).a = a) (ha2 : (argOf c2.args 0).a = a)
    (hwt : (step w c1).2.err ≠ .wrongType)
    (hmid : ∀ c ∈ mid, a ∉ c.allocs) :
    let w2 := (run (step w c1).1 mid).1
    step w2 c2 = (w2, { fail := true, err := .untracked, freed := [] }) := by
  intro w2
  have hg1 : (step w c1).1.reg.get a = none := by
    have := release_then_untracked w c1 h1 (by rw [ha1]; exact ha) hwt
    rwa [ha1] at this
  have hg2 : w2.reg.get a = none := run_get_none mid _ a ha hmid hg1
  exact release_untracked_errors w2 c2 h2 (by rw [ha2]; exact ha) (by rw [ha2]; exact hg2)

/-- The reading "the first free succeeded": same conclusion. -/
theorem double_free_after_successful_free_errors (w : World) (c1 c2 : Call) (mid : List Call) (a : Nat)
    (h1 : isReleaseRow c1.row = true) (h2 : isReleaseRow c2.row = true)
    (ha : a ≠ 0) (ha1 : (argOf c1.args 0).a = a) (ha2 : (argOf c2.args 0).a = a)
    (hok : (step w c1).2.fail = false)
    (hmid : ∀ c ∈ mid, a ∉ c.allocs) :
    let w2 := (run (step w c1).1 mid).1
    step w2 c2 = (w2, { fail := true, err := .untracked, freed := [] }) :=
  double_free_errors_unless_reissued_partial w c1 c2 mid a h1 h2 ha ha1 ha2
    (by rw [release_ok_no_error w c1 h1 hok]; decide) hmid

/-- The "unless": once the allocator has reissued the address, the same call releases the
new handle (and the first release did release the first one). -/
example :
    let mk : FnRow := { name := "", cfgGated := false, params := [], events := [], ret := .handle, retTy := .reader }
    let rel : FnRow := { name := "", cfgGated := false, params := [⟨"p", .opaque, .none, false⟩], events := [⟨0, .free, .none⟩], ret := .int, retTy := .none }
    isReleaseRow rel = true ∧
    ((run {} [⟨mk, [], true, [9]⟩, ⟨rel, [⟨9, false⟩], true, []⟩, ⟨rel, [⟨9, false⟩], true, []⟩,
              ⟨mk, [], true, [9]⟩, ⟨rel, [⟨9, false⟩], true, []⟩]).2.map (fun o => (o.fail, o.freed)))
      = [(false, []), (false, [9]), (true, []), (false, []), (false, [9])] := by
  decide


/-! ## 4. A guarded parameter is dereferenced only if live with the right type -/

theorem rawDefined_caller (w : World) (k : Param) (a : Nat) (hk : k.kind.isLibraryOwned = false)
    (ha : a ≠ 0) : rawDefined w k a = true := by
  unfold rawDefined
  cases hkk : k.kind <;> simp [hkk, PKind.isLibraryOwned] at hk ⊢ <;> exact ha

theorem evStep_stops_nonnull (row : FnRow) (args : List Arg) (w w' : World) (e : Event) (f : List Nat)
    (hs : e.use.stopsOnNull = true) (h : evStep row args w e = .ok (w', f)) : (argOf args e.p).a ≠ 0 := by
  intro h0
  unfold evStep at h
  cases hu : e.use <;> simp [hu, Use.stopsOnNull] at hs <;> simp [hu, h0] at h

theorem runEvents_no_ub (row : FnRow) (args : List Arg) (es : List Event) (seen : List Nat)
    (w : World) (fr : List Nat)
    (hsafe : eventsSafe row seen es = true) (hseen : ∀ p ∈ seen, (argOf args p).a ≠ 0) :
    ∀ s, (runEvents row args w fr es).2.2 = some s → s ≠ .ub := by
  induction es generalizing seen w fr with
  | nil => intro s h; simp [runEvents] at h
  | cons e es ih =>
    unfold eventsSafe at hsafe
    simp only [Bool.and_eq_true] at hsafe
    obtain ⟨hhere, hrest⟩ := hsafe
    unfold runEvents
    cases hev : evStep row args w e with
    | error st =>
      intro s hs
      simp only [Option.some.injEq] at hs
      subst hs
      intro hub
      subst hub
      -- a `.ub` stop can only come from a raw use, which `eventsSafe` protects
      unfold evStep at hev
      cases hu : e.use <;> simp only [hu] at hev
      case validate => cases hv : validate w.reg (argOf args e.p).a e.ty <;> simp [hv] at hev
      case validateNonnull =>
        split at hev
        · cases hev
        · cases hv : validate w.reg (argOf args e.p).a e.ty <;> simp [hv] at hev
      case untrack =>
        cases hv : untrack w.reg (argOf args e.p).a e.ty with
        | error x => simp [hv] at hev
        | ok p => simp [hv] at hev
      case free =>
        cases hv : free w.reg (argOf args e.p).a e.ty with
        | error x => simp [hv] at hev
        | ok p => obtain ⟨r, oe⟩ := p; cases oe <;> simp [hv] at hev
      case nullck => split at hev <;> cases hev
      case nullretOk => split at hev <;> cases hev
      case nullretSilent => split at hev <;> cases hev
      case nullbranch => split at hev <;> cases hev
      case cstr => split at hev <;> cases hev
      case bytes =>
        split at hev
        · cases hev
        · split at hev <;> cases hev
      case ifnonnull => cases hev
      case cstropt => cases hev
      case cstrarr => cases hev
      case «opaque» => cases hev
      case scalar => cases hev
      all_goals
        first
        | (simp only [hu, Use.isRaw, Use.isRawNonnull, if_true, Bool.and_eq_true, Bool.not_eq_true',
              List.contains_iff_mem] at hhere
           have hd := rawDefined_caller w (paramOf row e.p) (argOf args e.p).a hhere.1
             (hseen _ (by simpa using hhere.2))
           simp [hd] at hev)
        | (simp only [hu, Use.isRaw, Use.isRawNonnull, if_true, Bool.false_eq_true, if_false,
              Bool.not_eq_true'] at hhere
           split at hev
           · cases hev
           · rename_i hnz
             have hd := rawDefined_caller w (paramOf row e.p) (argOf args e.p).a hhere hnz
             simp [hd] at hev)
    | ok p =>
      obtain ⟨w', f⟩ := p
      apply ih _ w' (fr ++ f) hrest
      by_cases hs : e.use.stopsOnNull = true
      · simp only [hs, if_true]
        intro q hq
        rcases List.mem_cons.1 hq with rfl | hq
        · exact evStep_stops_nonnull row args w w' e f hs hev
        · exact hseen q hq
      · simp only [hs]
        exact hseen

/-- **A call on a guarded row never uses a pointer it has not checked**: whatever the world,
the arguments (NULL, dead, wrong type, foreign, …), the inner result and the allocator do,
no undefined behaviour is reached.  `rowGuarded` is the decidable condition evaluated on the
regenerated table: every raw use is of caller memory after a NULL guard; handles are only
ever used through `validate`/`untrack`/`free`. -/
theorem wrong_type_or_dead_never_deref (w : World) (c : Call) (hg : rowGuarded c.row = true) :
    (step w c).2.ub = false := by
  have hno := runEvents_no_ub c.row c.args c.row.events [] w [] hg (by intro p hp; cases hp)
  unfold step
  rcases hrun : runEvents c.row c.args w [] c.row.events with ⟨w1, fr, st⟩
  rw [hrun] at hno
  have hfin : ∀ w fr, (finish w c fr).2.ub = false := by
    intro w fr
    unfold finish
    split
    · split <;> rfl
    · split <;> try rfl
      · split <;> rfl
      · split
        · split <;> rfl
        · rfl
  cases st with
  | none =>
    simp only
    split
    · exact hfin _ _
    · rfl
  | some s =>
    cases s with
    | err e => rfl
    | silent => rfl
    | okEarly => rfl
    | ub => exact absurd rfl (hno _ rfl)
    | alt =>
      simp only
      split
      · exact hfin _ _
      · rfl

/-- What passing a registry guard means (the dereference that follows it is of a live handle
of the named type). -/
theorem guard_pass_means_live (r : Reg) (a : Nat) (t : Ty) (e : Entry) (h : validate r a t = .ok e) :
    a ≠ 0 ∧ r.get a = some e ∧ e.ty = t := (validate_ok_iff r a t e).1 h

/-! ## 5. The table: every pointer parameter of every exported function is guarded -/

/-- Decided on the regenerated table. -/
def tableGuarded : Bool :=
  Gen.ffiGuards.all fun row =>
    (List.range row.params.length).all fun i => (paramOf row i).exc || paramGuarded row i

theorem tableGuarded_holds : tableGuarded = true := by decide +kernel

/-- **Every pointer parameter of handle type of every exported function is validated against
the registry (type included) before use, consumed handles are untracked before
`Box::from_raw`, and every other pointer parameter is NULL-checked before a raw use** —
except the parameters in the reviewed exception list (`exc`). -/
theorem all_handle_params_guarded (row : FnRow) (hrow : row ∈ Gen.ffiGuards) (i : Nat)
    (hi : i < row.params.length) (hexc : (paramOf row i).exc = false) : paramGuarded row i = true := by
  have h := tableGuarded_holds
  unfold tableGuarded at h
  have h1 := (List.all_eq_true.1 h) row hrow
  have h2 := (List.all_eq_true.1 h1) i (List.mem_range.2 hi)
  simpa [hexc] using h2

/-- The reviewed exception list has exactly one entry (`c2pa_free_string_array.ptr`). -/
theorem exception_list_size :
    ((Gen.ffiGuards.flatMap (·.params)).filter (·.exc)).length = 1 := by decide +kernel

/-- Rows none of whose parameters is an exception never reach an unchecked use. -/
def tableRowsGuarded : Bool :=
  Gen.ffiGuards.all fun row => row.params.any (·.exc) || rowGuarded row

theorem tableRowsGuarded_holds : tableRowsGuarded = true := by decide +kernel

theorem exported_calls_never_ub (w : World) (c : Call) (hrow : c.row ∈ Gen.ffiGuards)
    (hexc : c.row.params.any (·.exc) = false) : (step w c).2.ub = false := by
  have h := tableRowsGuarded_holds
  unfold tableRowsGuarded at h
  have h1 := (List.all_eq_true.1 h) c.row hrow
  rw [hexc] at h1
  exact wrong_type_or_dead_never_deref w c (by simpa using h1)

/-! ## 6. Errors are retrievable -/

theorem runEvents_err_ne_none (row : FnRow) (args : List Arg) (es : List Event) (w : World) (fr : List Nat)
    (e : LastErr) (h : (runEvents row args w fr es).2.2 = some (.err e)) : e ≠ .none := by
  induction es generalizing w fr with
  | nil => simp [runEvents] at h
  | cons ev es ih =>
    unfold runEvents at h
    cases hev : evStep row args w ev with
    | ok p => obtain ⟨w', f⟩ := p; rw [hev] at h; exact ih w' (fr ++ f) h
    | error st =>
      rw [hev] at h
      simp only [Option.some.injEq] at h
      subst h
      unfold evStep at hev
      cases hu : ev.use <;> simp only [hu] at hev
      case validate =>
        cases hv : validate w.reg (argOf args ev.p).a ev.ty with
        | ok x => simp [hv] at hev
        | error x => simp [hv] at hev; subst hev; cases x <;> simp [RegErr.toLast]
      case validateNonnull =>
        split at hev
        · cases hev
        · cases hv : validate w.reg (argOf args ev.p).a ev.ty with
          | ok x => simp [hv] at hev
          | error x => simp [hv] at hev; subst hev; cases x <;> simp [RegErr.toLast]
      case untrack =>
        cases hv : untrack w.reg (argOf args ev.p).a ev.ty with
        | ok x => simp [hv] at hev
        | error x => simp [hv] at hev; subst hev; cases x <;> simp [RegErr.toLast]
      case free =>
        cases hv : free w.reg (argOf args ev.p).a ev.ty with
        | ok p => obtain ⟨r, oe⟩ := p; cases oe <;> simp [hv] at hev
        | error x => simp [hv] at hev; subst hev; cases x <;> simp [RegErr.toLast]
      case nullck => split at hev <;> simp at hev; subst hev; simp
      case cstr => split at hev <;> simp at hev; subst hev; simp
      case bytes =>
        split at hev
        · simp at hev; subst hev; simp
        · split at hev <;> simp at hev; subst hev; simp
      all_goals (first | (split at hev <;> first | cases hev | (split at hev <;> cases hev)) | cases hev)

theorem runEvents_silent (row : FnRow) (args : List Arg) (es : List Event) (w : World) (fr : List Nat)
    (hs : es.all (fun e => e.use != .nullretSilent) = true) :
    (runEvents row args w fr es).2.2 ≠ some .silent := by
  induction es generalizing w fr with
  | nil => simp [runEvents]
  | cons ev es ih =>
    simp only [List.all_cons, Bool.and_eq_true, bne_iff_ne, ne_eq] at hs
    unfold runEvents
    cases hev : evStep row args w ev with
    | ok p => obtain ⟨w', f⟩ := p; exact ih w' (fr ++ f) hs.2
    | error st =>
      simp only [ne_eq, Option.some.injEq]
      intro h; subst h
      unfold evStep at hev
      cases hu : ev.use <;> simp only [hu] at hev
      case nullretSilent => exact hs.1 hu
      case validate => cases hv : validate w.reg (argOf args ev.p).a ev.ty <;> simp [hv] at hev
      case validateNonnull =>
        split at hev
        · cases hev
        · cases hv : validate w.reg (argOf args ev.p).a ev.ty <;> simp [hv] at hev
      case untrack =>
        cases hv : untrack w.reg (argOf args ev.p).a ev.ty with
        | ok x => simp [hv] at hev
        | error x => simp [hv] at hev
      case free =>
        cases hv : free w.reg (argOf args ev.p).a ev.ty with
        | ok p => obtain ⟨r, oe⟩ := p; cases oe <;> simp [hv] at hev
        | error x => simp [hv] at hev
      all_goals (first | (split at hev <;> first | cases hev | (split at hev <;> cases hev)) | cases hev)

/-- **An error return always leaves a retrievable message**: for a row without a silent
NULL return, whenever the error value is returned, `set_last` has stored an error. -/
theorem error_sets_last (w : World) (c : Call) (hs : c.row.silentFree = true)
    (hf : (step w c).2.fail = true) : (step w c).2.err ≠ .none := by
  have h1 := runEvents_silent c.row c.args c.row.events w [] hs
  have h2 := runEvents_err_ne_none c.row c.args c.row.events w []
  unfold step at hf ⊢
  rcases hrun : runEvents c.row c.args w [] c.row.events with ⟨w1, fr, st⟩
  rw [hrun] at hf h1 h2
  have hfin : ∀ w fr, (finish w c fr).2.fail = false := by
    intro w fr
    unfold finish
    split
    · split <;> rfl
    · split <;> try rfl
      · split <;> rfl
      · split
        · split <;> rfl
        · rfl
  cases st with
  | none =>
    simp only at hf ⊢
    split at hf
    · rw [hfin] at hf; cases hf
    · rename_i hin; simp [hin]
  | some s =>
    cases s with
    | err e => exact h2 e rfl
    | silent => exact absurd rfl h1
    | okEarly => simp at hf
    | ub => simp at hf
    | alt =>
      simp only at hf ⊢
      split at hf
      · rw [hfin] at hf; cases hf
      · rename_i hin; simp [hin]

theorem table_no_silent_error : Gen.ffiGuards.all FnRow.silentFree = true := by decide +kernel

/-! ## 7. Bad handle ⇒ error indicator + message, no crash -/

theorem validate_fail_mono (r r' : Reg) (a : Nat) (t : Ty)
    (hm : r'.get a = none ∨ r'.get a = r.get a)
    (hbad : ∀ e, validate r a t ≠ .ok e) : ∀ e, validate r' a t ≠ .ok e := by
  intro e h
  obtain ⟨ha, hg, ht⟩ := (validate_ok_iff _ _ _ _).1 h
  rcases hm with hm | hm
  · rw [hm] at hg; cases hg
  · rw [hm] at hg; exact hbad e ((validate_ok_iff _ _ _ _).2 ⟨ha, hg, ht⟩)

theorem untrack_of_validate_fail (r : Reg) (a : Nat) (t : Ty) (hbad : ∀ e, validate r a t ≠ .ok e) :
    ∀ p, untrack r a t ≠ .ok p := by
  intro p h
  obtain ⟨r', e⟩ := p
  obtain ⟨ha, hg, ht, _⟩ := (untrack_ok_iff _ _ _ _ _).1 h
  exact hbad e ((validate_ok_iff _ _ _ _).2 ⟨ha, hg, ht⟩)

/-- Core of section 7: if the guard event `g` occurs in `es`, its argument fails validation,
no raw use is unprotected and no silent/early/alternative return precedes a registry guard,
then the guard sequence stops with a stored error. -/
theorem runEvents_bad_handle (row : FnRow) (args : List Arg) (g : Event)
    (hgu : g.use.isRegistryGuard = true) (es : List Event) (seen : List Nat) (w : World) (fr : List Nat)
    (hmem : g ∈ es)
    (hsafe : eventsSafe row seen es = true) (hseen : ∀ p ∈ seen, (argOf args p).a ≠ 0)
    (hnb : noBypass false es = true)
    (hbad : ∀ e, validate w.reg (argOf args g.p).a g.ty ≠ .ok e) :
    ∃ e, (runEvents row args w fr es).2.2 = some (.err e) := by
  induction es generalizing seen w fr with
  | nil => cases hmem
  | cons ev es ih =>
    unfold eventsSafe at hsafe
    simp only [Bool.and_eq_true] at hsafe
    unfold noBypass at hnb
    simp only [Bool.and_eq_true, Bool.false_or] at hnb
    unfold runEvents
    cases hev : evStep row args w ev with
    | error st =>
      -- stopped here: it is an error stop (not ub: safe; not silent/early/alt: those uses
      -- would make `noBypass` false for the registry guard `g` that is still to come or is `ev`)
      have hnoub := runEvents_no_ub row args (ev :: es) seen w fr
        (by unfold eventsSafe; simp only [Bool.and_eq_true]; exact hsafe) hseen
      have hst : (runEvents row args w fr (ev :: es)).2.2 = some st := by
        unfold runEvents; rw [hev]
      cases st with
      | err e => exact ⟨e, rfl⟩
      | ub => exact absurd rfl (hnoub _ hst)
      | silent | okEarly | alt =>
        exfalso
        -- `ev` is a leavesWithoutError use
        have hl : ev.use.leavesWithoutError = true := by
          unfold evStep at hev
          cases hu : ev.use <;> simp only [hu] at hev <;> try rfl
          case validate => cases hv : validate w.reg (argOf args ev.p).a ev.ty <;> simp [hv] at hev
          case validateNonnull =>
            split at hev
            · cases hev
            · cases hv : validate w.reg (argOf args ev.p).a ev.ty <;> simp [hv] at hev
          case untrack =>
            cases hv : untrack w.reg (argOf args ev.p).a ev.ty with
            | ok x => simp [hv] at hev
            | error x => simp [hv] at hev
          case free =>
            cases hv : free w.reg (argOf args ev.p).a ev.ty with
            | ok p => obtain ⟨r, oe⟩ := p; cases oe <;> simp [hv] at hev
            | error x => simp [hv] at hev
          all_goals (first | (split at hev <;> first | cases hev | (split at hev <;> cases hev)) | cases hev)
        -- then `g ≠ ev` (g is a registry guard) and `g ∈ es`, but `noBypass true es` forbids it
        have hne : g ≠ ev := by
          intro h; subst h
          cases hu : g.use <;> simp [hu, Use.isRegistryGuard, Use.leavesWithoutError] at hgu hl
        have hges : g ∈ es := by
          rcases List.mem_cons.1 hmem with h | h
          · exact absurd h hne
          · exact h
        have hnb2 := hnb.2
        rw [hl] at hnb2
        have : ∀ (l : List Event), g ∈ l → noBypass true l = true → False := by
          intro l
          induction l with
          | nil => intro h; cases h
          | cons x xs ihx =>
            intro hm hn
            unfold noBypass at hn
            simp only [Bool.and_eq_true, Bool.true_or] at hn
            rcases List.mem_cons.1 hm with h | h
            · subst h; simp [hgu] at hn
            · exact ihx h hn.2
        exact this es hges hnb2
    | ok p =>
      obtain ⟨w', f⟩ := p
      have heff := evStep_ok _ _ _ _ _ _ hev
      -- `ev` passed, so it is not the failing guard `g`
      have hne : g ≠ ev := by
        intro h; subst h
        unfold evStep at hev
        cases hu : g.use <;> simp [hu, Use.isRegistryGuard] at hgu
        · simp only [hu] at hev
          cases hv : validate w.reg (argOf args g.p).a g.ty with
          | ok x => exact hbad x hv
          | error x => simp [hv] at hev
        · simp only [hu] at hev
          cases hv : untrack w.reg (argOf args g.p).a g.ty with
          | ok x => exact untrack_of_validate_fail _ _ _ hbad x hv
          | error x => simp [hv] at hev
      have hges : g ∈ es := by
        rcases List.mem_cons.1 hmem with h | h
        · exact absurd h hne
        · exact h
      -- `ev` is not a leavesWithoutError use that fired, but it may be one that passed;
      -- in that case a registry guard later would contradict `noBypass`
      by_cases hl : ev.use.leavesWithoutError = true
      · exfalso
        have hnb2 := hnb.2
        rw [hl] at hnb2
        have : ∀ (l : List Event), g ∈ l → noBypass true l = true → False := by
          intro l
          induction l with
          | nil => intro h; cases h
          | cons x xs ihx =>
            intro hm hn
            unfold noBypass at hn
            simp only [Bool.and_eq_true, Bool.true_or] at hn
            rcases List.mem_cons.1 hm with h | h
            · subst h; simp [hgu] at hn
            · exact ihx h hn.2
        exact this es hges hnb2
      · have hl' : ev.use.leavesWithoutError = false := by simpa using hl
        have hnb2 := hnb.2
        rw [hl'] at hnb2
        apply ih _ w' (fr ++ f) hges hsafe.2 ?_ hnb2
        · exact validate_fail_mono _ _ _ _ (heff.get _) hbad
        · by_cases hs : ev.use.stopsOnNull = true
          · simp only [hs, if_true]
            intro q hq
            rcases List.mem_cons.1 hq with rfl | hq
            · exact evStep_stops_nonnull row args w w' ev f hs hev
            · exact hseen q hq
          · simp only [hs]; exact hseen

/-- **Passing NULL, a freed handle, a handle of the wrong type or a foreign pointer for a
registry-guarded parameter returns the error value with a retrievable message and reaches
no undefined behaviour.**  `g` is the `deref_or_return!`/`untrack_or_return!` use of the
parameter in the row; "bad" is stated on the world at the time of the call: the argument is
NULL, or not tracked (freed and not reissued, or never produced by the library), or tracked
with another type. -/
theorem bad_handle_arg_returns_error (w : World) (c : Call) (g : Event)
    (hmem : g ∈ c.row.events) (hgu : g.use.isRegistryGuard = true)
    (hguard : rowGuarded c.row = true) (hnb : noBypass false c.row.events = true)
    (hbad : (argOf c.args g.p).a = 0 ∨ w.reg.get (argOf c.args g.p).a = none ∨
            ∃ e, w.reg.get (argOf c.args g.p).a = some e ∧ e.ty ≠ g.ty) :
    (step w c).2.fail = true ∧ (step w c).2.err ≠ .none ∧ (step w c).2.ub = false ∧
    (step w c).2.newH = [] := by
  have hbad' : ∀ e, validate w.reg (argOf c.args g.p).a g.ty ≠ .ok e := by
    intro e h
    obtain ⟨ha, hg, ht⟩ := (validate_ok_iff _ _ _ _).1 h
    rcases hbad with h0 | hn | ⟨e', he', hty⟩
    · exact ha h0
    · rw [hn] at hg; cases hg
    · rw [he'] at hg; cases hg; exact hty ht
  obtain ⟨e, he⟩ := runEvents_bad_handle c.row c.args g hgu c.row.events [] w [] hmem hguard
    (by intro p hp; cases hp) hnb hbad'
  have hne := runEvents_err_ne_none c.row c.args c.row.events w [] e he
  unfold step
  rcases hrun : runEvents c.row c.args w [] c.row.events with ⟨w1, fr, st⟩
  rw [hrun] at he
  simp only at he
  subst he
  exact ⟨rfl, hne, rfl, rfl⟩

/-- Table side of section 7: no exported function can leave its guard sequence without an
error before a registry guard, and every registry guard names the declared type of its
parameter (the latter is part of `paramGuarded`). -/
theorem table_no_bypass : Gen.ffiGuards.all (fun row => noBypass false row.events) = true := by
  decide +kernel

/-- Every handle parameter of the table is accounted for: checked by `validate`/`untrack`
(covered by `bad_handle_arg_returns_error`), released by `free`, NULL-tolerant validation
(`asset`), or an exception. -/
theorem table_handle_params_accounted :
    (Gen.ffiGuards.all fun row => (List.range row.params.length).all fun i =>
      (paramOf row i).kind != .handle || (paramOf row i).exc || handleParamChecked row i) = true := by
  decide +kernel

-- non-vacuity of `bad_handle_arg_returns_error` on a real row
example :
    let c : Call := ⟨Gen.fn_c2pa_reader_json, [⟨0, false⟩], true, []⟩
    (step {} c).2.fail = true ∧ (step {} c).2.err = .null := by decide

example :
    let w : World := { reg := [(5, ⟨.builder, 0⟩)], next := 1 }
    let c : Call := ⟨Gen.fn_c2pa_reader_json, [⟨5, false⟩], true, []⟩
    (step w c).2.fail = true ∧ (step w c).2.err = .wrongType := by decide

/-! ## 8. What the code does *not* guarantee: the untracked string array -/

/-- The full double-free statement, also for string arrays: a release of something that is
not live reports an error. -/
def ReleaseOfDeadReportsError (row : FnRow) : Prop :=
  ∀ (w : World) (c : Call), c.row = row → (argOf c.args 0).a ≠ 0 → w.live (argOf c.args 0).a = false →
    (step w c).2.ub = false ∧ (step w c).2.err ≠ .none

/-- Holds for the registry release calls … -/
theorem release_of_dead_reports_error (row : FnRow) (hr : isReleaseRow row = true) :
    ReleaseOfDeadReportsError row := by
  intro w c hc ha hl
  subst hc
  obtain ⟨hg, _⟩ := World.live_false w _ hl
  rw [release_untracked_errors w c hr ha hg]
  exact ⟨rfl, by simp⟩

/-- … and is **false for `c2pa_free_string_array`** (DESIGN §5 F14, known finding): the second
release of the same array is undefined behaviour — in practice a double free. The harness
replays exactly this witness in a forked child. -/
theorem string_array_double_free_counterexample :
    ¬ ReleaseOfDeadReportsError Gen.fn_c2pa_free_string_array := by
  intro h
  have := h (run {} [⟨Gen.fn_c2pa_reader_supported_mime_types, [⟨1, false⟩], true, [2, 3, 4]⟩,
                     ⟨Gen.fn_c2pa_free_string_array, [⟨4, false⟩, ⟨1, false⟩], true, []⟩]).1
    ⟨Gen.fn_c2pa_free_string_array, [⟨4, false⟩, ⟨1, false⟩], true, []⟩ rfl (by decide) (by decide)
  exact absurd this.1 (by decide)

/-- The full statement over every release function of the API … -/
def DoubleFreeErrorsEverywhere : Prop :=
  ∀ row ∈ Gen.ffiGuards, (isReleaseRow row = true ∨ row.freesArray = true) → ReleaseOfDeadReportsError row

/-- … is falsified by the code. -/
theorem double_free_errors_everywhere_false : ¬ DoubleFreeErrorsEverywhere := by
  intro h
  exact string_array_double_free_counterexample
    (h Gen.fn_c2pa_free_string_array (by simp [Gen.ffiGuards]) (Or.inr rfl))

/-- The first release of the array is fine and releases the strings and the array once. -/
example :
    ((run {} [⟨Gen.fn_c2pa_reader_supported_mime_types, [⟨1, false⟩], true, [2, 3, 4]⟩,
              ⟨Gen.fn_c2pa_free_string_array, [⟨4, false⟩, ⟨1, false⟩], true, []⟩,
              ⟨Gen.fn_c2pa_free_string_array, [⟨4, false⟩, ⟨1, false⟩], true, []⟩]).2.map
        (fun o => (o.ub, o.freed))) = [(false, []), (false, [2, 3, 4]), (true, [])] := by decide

/-! ## 9. Type check of the release functions -/

/-- The type a release function's pointer parameter is declared with: handle types as
declared, `char*` = a library string, `unsigned char*` = library bytes; `void*` (`c2pa_free`,
`cimpl_free`) declares none. -/
def declaredReleaseTy (p : Param) : Ty :=
  match p.kind with
  | .handle => p.ty
  | .anyptr => .cstring
  | .bytes => .bytes
  | _ => .none

/-- Decided on the regenerated table: every release function checks, in the registry, exactly
the type its parameter is declared with; only the `void*` functions are universal. -/
theorem table_typed_release_checked :
    (Gen.ffiGuards.all fun row => !isReleaseRow row ||
      row.events.all (fun e => e.use != .free || decide (e.ty = declaredReleaseTy (paramOf row 0)))) = true := by
  decide +kernel

/-- **A handle of the wrong type passed to an exported type-specific release function returns
the error value with `WrongPointerType` stored; nothing is released and the handle stays
live.** -/
theorem exported_typed_release_rejects_wrong_type (w : World) (c : Call) (ent : Entry)
    (hrow : c.row ∈ Gen.ffiGuards) (hr : isReleaseRow c.row = true)
    (htn : declaredReleaseTy (paramOf c.row 0) ≠ .none)
    (ha : (argOf c.args 0).a ≠ 0) (hg : w.reg.get (argOf c.args 0).a = some ent)
    (hne : ent.ty ≠ declaredReleaseTy (paramOf c.row 0)) :
    step w c = (w, { fail := true, err := .wrongType, freed := [] }) := by
  have h := (List.all_eq_true.1 table_typed_release_checked) c.row hrow
  rw [hr] at h
  simp only [Bool.not_true, Bool.false_or, List.all_eq_true, Bool.or_eq_true, bne_iff_ne, ne_eq,
    decide_eq_true_eq] at h
  refine typed_release_wrong_type_errors w c _ ent hr ?_ htn ha hg hne
  intro e he hu
  rcases h e he with h1 | h1
  · exact absurd hu h1
  · exact h1

-- non-vacuity on real rows: `c2pa_reader_free(builder)` is refused and the builder survives;
-- `c2pa_builder_free` then releases it
example :
    let w : World := { reg := [(5, ⟨.builder, 0⟩)], next := 1 }
    let c : Call := ⟨Gen.fn_c2pa_reader_free, [⟨5, false⟩], true, []⟩
    let c' : Call := ⟨Gen.fn_c2pa_builder_free, [⟨5, false⟩], true, []⟩
    isReleaseRow c.row = true ∧ declaredReleaseTy (paramOf c.row 0) = .reader ∧
    (step w c).2.fail = true ∧ (step w c).2.err = .wrongType ∧ (step w c).2.freed = [] ∧
    (step w c).1.reg.get 5 = some ⟨.builder, 0⟩ ∧
    (step (step w c).1 c').2.fail = false ∧ (step (step w c).1 c').2.freed = [5] := by decide

/-- The universal release functions (`void*` parameter: `c2pa_free`, `cimpl_free`) do not look
at the type — by design and by their declaration ("frees any pointer allocated by this
library"): there is no declared type a handle could be wrong for. -/
theorem universal_release_ignores_type :
    ∃ (w : World) (c : Call), c.row = Gen.fn_c2pa_free ∧ isReleaseRow c.row = true ∧
      declaredReleaseTy (paramOf c.row 0) = .none ∧
      w.reg.get (argOf c.args 0).a = some ⟨.builder, 0⟩ ∧
      (step w c).2.fail = false ∧ (step w c).2.freed = [(argOf c.args 0).a] :=
  ⟨{ reg := [(5, ⟨.builder, 0⟩)], next := 1 }, ⟨Gen.fn_c2pa_free, [⟨5, false⟩], true, []⟩,
    rfl, by decide, by decide, by decide, by decide, by decide⟩

/-! ## 10. Exactly-once release over the exported functions -/

theorem run_never_ub (cs : List Call) (w : World)
    (ht : ∀ c ∈ cs, c.row ∈ Gen.ffiGuards ∧ c.row.params.any (·.exc) = false) :
    ∀ o ∈ (run w cs).2, o.ub = false := by
  induction cs generalizing w with
  | nil => intro o ho; simp [run] at ho
  | cons c cs ih =>
    intro o ho
    simp only [run] at ho
    rcases List.mem_cons.1 ho with h | h
    · subst h
      exact exported_calls_never_ub w c (ht c (List.mem_cons_self ..)).1 (ht c (List.mem_cons_self ..)).2
    · exact ih _ (fun c' hc' => ht c' (List.mem_cons_of_mem _ hc')) o h

/-- **`free_once` for sequences over the exported functions** (every row of the regenerated
table except the one with the reviewed exception, `c2pa_free_string_array`): no hypothesis
about undefined behaviour is left — only the allocator assumption (`allocBad = false`: every
address the allocator answered was not live at that moment; `allocTracked_ok_iff`). -/
theorem free_once_table (cs : List Call)
    (ht : ∀ c ∈ cs, c.row ∈ Gen.ffiGuards ∧ c.row.params.any (·.exc) = false)
    (ha : ∀ o ∈ (run {} cs).2, o.allocBad = false) :
    let w := (run {} cs).1
    (w.cleanups.map (·.1)).Nodup ∧
    ∀ i, i ∈ w.cleanups.map (·.1) ↔
      (i < w.next ∧ i ∉ w.reg.map (·.2.alloc) ∧ i ∉ w.arrays.map (·.alloc)) :=
  free_once cs (fun o ho => ⟨run_never_ub cs {} ht o ho, ha o ho⟩)

/-- What the flag `allocBad` of a single tracked allocation says about the allocator's answer. -/
theorem allocTracked_ok_iff (w : World) (a : Nat) (t : Ty) :
    (allocTracked w a t).2 = true ↔ a = 0 ∨ w.live a = false := by
  unfold allocTracked
  by_cases ha : a = 0
  · simp [ha]
  · simp [ha]

-- non-vacuity of `free_once_table`: create, consume, release through real rows
example :
    let cs : List Call :=
      [ ⟨Gen.fn_c2pa_reader_new, [], true, [7]⟩,
        ⟨Gen.fn_c2pa_builder_from_json, [⟨1, false⟩], true, [8]⟩,
        ⟨Gen.fn_c2pa_reader_free, [⟨8, false⟩], true, []⟩,
        ⟨Gen.fn_c2pa_builder_free, [⟨8, false⟩], true, []⟩,
        ⟨Gen.fn_c2pa_free, [⟨7, false⟩], true, []⟩,
        ⟨Gen.fn_c2pa_free, [⟨7, false⟩], true, []⟩ ]
    cs.all (fun c => Gen.ffiGuards.any (fun r => r.name == c.row.name) && !c.row.params.any (·.exc)) = true ∧
    (run {} cs).2.all (fun o => !o.allocBad) = true ∧
    (run {} cs).1.cleanups = [(0, 7), (1, 8)] ∧
    (run {} cs).2.map (·.fail) = [false, false, true, false, false, true] := by decide

/-! ## 11. What a failed call leaves behind -/

/-- A passing use other than `untrack_or_return!` / `cimpl_free` changes nothing. -/
theorem evStep_ok_same (row : FnRow) (args : List Arg) (w w' : World) (e : Event) (f : List Nat)
    (hn : e.use ≠ .untrack) (hf : e.use ≠ .free)
    (h : evStep row args w e = .ok (w', f)) : w' = w ∧ f = [] := by
  unfold evStep at h
  cases hu : e.use <;> simp only [hu] at h
  case untrack => exact absurd hu hn
  case free => exact absurd hu hf
  case validate =>
    cases hv : validate w.reg (argOf args e.p).a e.ty <;> simp [hv] at h
    exact ⟨h.1.symm, h.2⟩
  case validateNonnull =>
    by_cases ha : (argOf args e.p).a = 0
    · simp [ha] at h; exact ⟨h.1.symm, h.2⟩
    · cases hv : validate w.reg (argOf args e.p).a e.ty <;> simp [ha, hv] at h
      exact ⟨h.1.symm, h.2⟩
  case nullck => split at h <;> simp at h; exact ⟨h.1.symm, h.2⟩
  case nullretOk => split at h <;> simp at h; exact ⟨h.1.symm, h.2⟩
  case nullretSilent => split at h <;> simp at h; exact ⟨h.1.symm, h.2⟩
  case nullbranch => split at h <;> simp at h; exact ⟨h.1.symm, h.2⟩
  case cstr => split at h <;> simp at h; exact ⟨h.1.symm, h.2⟩
  case bytes =>
    split at h
    · simp at h
    · split at h <;> simp at h; exact ⟨h.1.symm, h.2⟩
  case ifnonnull => simp at h; exact ⟨h.1.symm, h.2⟩
  case cstropt => simp at h; exact ⟨h.1.symm, h.2⟩
  case cstrarr => simp at h; exact ⟨h.1.symm, h.2⟩
  case «opaque» => simp at h; exact ⟨h.1.symm, h.2⟩
  case scalar => simp at h; exact ⟨h.1.symm, h.2⟩
  case raw => split at h <;> simp at h; exact ⟨h.1.symm, h.2⟩
  case rawwrite => split at h <;> simp at h; exact ⟨h.1.symm, h.2⟩
  case fieldread => split at h <;> simp at h; exact ⟨h.1.symm, h.2⟩
  case rawNonnull =>
    split at h
    · simp at h; exact ⟨h.1.symm, h.2⟩
    · split at h <;> simp at h; exact ⟨h.1.symm, h.2⟩
  case writeNonnull =>
    split at h
    · simp at h; exact ⟨h.1.symm, h.2⟩
    · split at h <;> simp at h; exact ⟨h.1.symm, h.2⟩

theorem runEvents_noconsume (row : FnRow) (args : List Arg) (es : List Event) (w : World) (fr : List Nat)
    (hn : es.all (fun e => e.use != .untrack && e.use != .free) = true) :
    (runEvents row args w fr es).1 = w := by
  induction es generalizing fr with
  | nil => rfl
  | cons e es ih =>
    simp only [List.all_cons, Bool.and_eq_true, bne_iff_ne, ne_eq] at hn
    unfold runEvents
    cases hev : evStep row args w e with
    | error s => rfl
    | ok p =>
      obtain ⟨w', f⟩ := p
      obtain ⟨h1, _⟩ := evStep_ok_same row args w w' e f hn.1.1 hn.1.2 hev
      subst h1
      exact ih (fr ++ f) (by simpa [List.all_eq_true] using hn.2)

theorem finish_not_fail (w : World) (c : Call) (fr : List Nat) : (finish w c fr).2.fail = false := by
  unfold finish
  split
  · split <;> rfl
  · split <;> try rfl
    · split <;> rfl
    · split
      · split <;> rfl
      · rfl

/-- **A call that returns the error value and consumes nothing by design has no effect at
all**: for a row without `untrack_or_return!` / `cimpl_free` uses, a failed call leaves the
registry, the string arrays and the cleanup history exactly as they were. -/
theorem failed_call_no_effect (w : World) (c : Call)
    (hn : c.row.events.all (fun e => e.use != .untrack && e.use != .free) = true)
    (hf : (step w c).2.fail = true) : (step w c).1 = w := by
  have hw := runEvents_noconsume c.row c.args c.row.events w [] hn
  unfold step at hf ⊢
  rcases hrun : runEvents c.row c.args w [] c.row.events with ⟨w1, fr, st⟩
  rw [hrun] at hw hf
  simp only at hw
  subst hw
  cases st with
  | none =>
    simp only at hf ⊢
    by_cases hin : c.inner = true
    · simp only [hin, if_true, finish_not_fail] at hf; cases hf
    · simp [hin]
  | some s =>
    cases s with
    | err e => rfl
    | silent => rfl
    | okEarly => simp at hf
    | ub => rfl
    | alt =>
      simp only at hf ⊢
      by_cases hin : c.inner = true
      · simp only [hin, if_true, finish_not_fail] at hf; cases hf
      · simp [hin]

theorem evStep_ok_use (row : FnRow) (args : List Arg) (w w' : World) (e : Event) (f : List Nat)
    (h : evStep row args w e = .ok (w', f)) :
    (w' = w ∧ f = []) ∨ ((e.use = .untrack ∨ e.use = .free) ∧ EvEffect w (argOf args e.p).a w' f) := by
  by_cases hu : e.use = .untrack
  · exact Or.inr ⟨Or.inl hu, evStep_ok _ _ _ _ _ _ h⟩
  · by_cases hf : e.use = .free
    · exact Or.inr ⟨Or.inr hf, evStep_ok _ _ _ _ _ _ h⟩
    · exact Or.inl (evStep_ok_same _ _ _ _ _ _ hu hf h)

theorem runEvents_freed_mono (row : FnRow) (args : List Arg) (es : List Event) (w : World) (fr : List Nat)
    (b : Nat) (hb : b ∈ fr) : b ∈ (runEvents row args w fr es).2.1 := by
  induction es generalizing w fr with
  | nil => exact hb
  | cons e es ih =>
    unfold runEvents
    cases hev : evStep row args w e with
    | error s => exact hb
    | ok p => obtain ⟨w', f⟩ := p; exact ih w' (fr ++ f) (List.mem_append_left _ hb)

/-- Whatever the guard sequence does to the registry entry of an address: nothing, or the
address was the argument of a passing `untrack_or_return!` / `cimpl_free` use and is reported
as released. -/
theorem runEvents_consumed (row : FnRow) (args : List Arg) (es : List Event) (w : World) (fr : List Nat)
    (b : Nat) :
    (runEvents row args w fr es).1.reg.get b = w.reg.get b ∨
    ((runEvents row args w fr es).1.reg.get b = none ∧ b ∈ (runEvents row args w fr es).2.1 ∧
      ∃ e ∈ es, (e.use = .untrack ∨ e.use = .free) ∧ (argOf args e.p).a = b) := by
  induction es generalizing w fr with
  | nil => exact Or.inl rfl
  | cons e es ih =>
    unfold runEvents
    cases hev : evStep row args w e with
    | error s => exact Or.inl rfl
    | ok p =>
      obtain ⟨w', f⟩ := p
      rcases ih w' (fr ++ f) with h1 | ⟨h1, h2, e', he', h3⟩
      · rcases evStep_ok_use _ _ _ _ _ _ hev with ⟨hw, _⟩ | ⟨hu, heff⟩
        · left; rw [h1, hw]
        · cases heff with
          | same => left; exact h1
          | released ent ha hg =>
            by_cases hb : b = (argOf args e.p).a
            · right
              refine ⟨?_, ?_, e, List.mem_cons_self .., hu, hb.symm⟩
              · rw [h1]; simp [Reg.get_remove, hb]
              · exact runEvents_freed_mono _ _ _ _ _ _ (by simp [hb])
            · left; rw [h1]; simp [Reg.get_remove, hb]
      · right; exact ⟨h1, h2, e', List.mem_cons_of_mem _ he', h3⟩

/-- **What a call that returns the error value may have done**: the string arrays and the
allocation counter are untouched, and a registry entry differs only if its address was the
argument of an `untrack_or_return!` (ownership taken before a later guard or the SDK operation
failed — the documented consuming functions) or `cimpl_free` use that passed; that address is
then reported as released, exactly once (`free_once`).  Every other handle — in particular the
bad one that made the call fail — is as it was. -/
theorem failed_call_only_consumes_args (w : World) (c : Call) (hf : (step w c).2.fail = true) :
    (step w c).1.arrays = w.arrays ∧ (step w c).1.next = w.next ∧
    ∀ b, (step w c).1.reg.get b = w.reg.get b ∨
      ((step w c).1.reg.get b = none ∧ b ∈ (step w c).2.freed ∧
        ∃ e ∈ c.row.events, (e.use = .untrack ∨ e.use = .free) ∧ (argOf c.args e.p).a = b) := by
  have ha := runEvents_arrays c.row c.args c.row.events w []
  have hc := runEvents_consumed c.row c.args c.row.events w []
  unfold step at hf ⊢
  rcases hrun : runEvents c.row c.args w [] c.row.events with ⟨w1, fr, st⟩
  rw [hrun] at ha hc hf
  simp only at ha hc
  cases st with
  | none =>
    simp only at hf ⊢
    by_cases hin : c.inner = true
    · simp only [hin, if_true, finish_not_fail] at hf; cases hf
    · simp only [hin, Bool.false_eq_true, if_false]; exact ⟨ha.1, ha.2, hc⟩
  | some s =>
    cases s with
    | err e => exact ⟨ha.1, ha.2, hc⟩
    | silent => exact ⟨ha.1, ha.2, hc⟩
    | okEarly => simp at hf
    | ub => simp at hf
    | alt =>
      simp only at hf ⊢
      by_cases hin : c.inner = true
      · simp only [hin, if_true, finish_not_fail] at hf; cases hf
      · simp only [hin, Bool.false_eq_true, if_false]; exact ⟨ha.1, ha.2, hc⟩

/-- Table side: every exported function is of one of three kinds — it consumes nothing
(`failed_call_no_effect`), it is a release function (a refused release changes nothing:
`release_untracked_errors`, `typed_release_wrong_type_errors`), or it takes ownership of a
handle with `untrack_or_return!` (`failed_call_only_consumes_args`) — and there are exactly
nine of the last kind. -/
theorem table_failure_effect_classes :
    (Gen.ffiGuards.all fun row =>
      row.events.all (fun e => e.use != .untrack && e.use != .free) ||
      isReleaseRow row || row.events.any (fun e => e.use == .untrack)) = true ∧
    (Gen.ffiGuards.filter fun row => row.events.any (fun e => e.use == .untrack)).length = 9 := by
  constructor <;> decide +kernel

-- non-vacuity: `c2pa_reader_with_stream(reader, format, bad stream)` fails and has consumed the reader
example :
    let w : World := { reg := [(5, ⟨.reader, 0⟩)], next := 1 }
    let c : Call := ⟨Gen.fn_c2pa_reader_with_stream, [⟨5, false⟩, ⟨1, false⟩, ⟨9, false⟩], true, []⟩
    (step w c).2.fail = true ∧ (step w c).2.err = .untracked ∧ (step w c).2.freed = [5] ∧
    (step w c).1.reg.get 5 = none := by decide

end C2pa.C31
