import C2paModel.Model.C10
import C2paModel.Gen.C10AllocSites
import C2paModel.Props.C18
import C2paModel.Props.C13
import C2paModel.Props.C14
import C2paModel.Props.C19
import C2paModel.Props.C34
/-
C10 — untrusted input never crashes, hangs or exhausts memory  *(partial by nature)*

Statement: reading, validating or ingesting any byte string as any supported format returns a
result or an error; it never panics, never overflows the stack, never runs unboundedly long and
never allocates far beyond the input size or the configured decompression limit.

What is *proved* is the conjunction over the parsers and limits that are modelled in this
project (`modelled_parsers_total`): each is total on every input, its recursion depth is bounded
by its constant, and every allocation it requests is bounded by the remaining input or by the
configured limit. Everything else the statement covers (third-party parsers, CBOR/COSE/X.509
decoders, real stack and heap, wall-clock) is *searched*, not proved: the harness drives
structure-aware mutants of every format through the public entry points in forked workers with a
time and an address-space budget.
-/
namespace C2pa.C10

/-! ### allocation guards -/

/-- `safe_vec` reserves exactly what is asked or refuses. -/
theorem safeVec_exact (n avail c : Nat) (h : safeVec n avail = .ok c) :
    c = n ∧ n ≤ avail ∧ n ≤ isizeMax := by
  unfold safeVec at h
  split at h
  · cases h
  · split at h
    · cases h
    · simp only [Except.ok.injEq] at h; omega

/-- **`read_to_vec` never asks the allocator for more than what is left in the stream** — for
every position, stream length, declared length and allocator state. -/
theorem readToVec_alloc_le_remaining (pos len dataLen avail a r : Nat)
    (h : readToVec pos len dataLen avail = .ok (a, r)) :
    a = dataLen ∧ r = dataLen ∧ pos + dataLen ≤ len ∧ a ≤ len - pos := by
  unfold readToVec at h
  by_cases h1 : pos + dataLen > u64Max
  · simp [h1] at h
  · by_cases h2 : pos + dataLen > len
    · simp [h1, h2] at h
    · simp only [h1, h2, if_false] at h
      cases hs : safeVec dataLen avail with
      | error e => rw [hs] at h; cases h
      | ok c =>
        rw [hs] at h
        simp only [Except.ok.injEq, Prod.mk.injEq] at h
        have := (safeVec_exact _ _ _ hs).1
        omega

/-- `read_to_vec` is total: a result or one of two error kinds; a declared length beyond the
end of the stream (including `u64` overflow of `pos + len`) is `BadParam` *before* any allocation. -/
theorem readToVec_total (pos len dataLen avail : Nat) :
    (∃ a r, readToVec pos len dataLen avail = .ok (a, r)) ∨
    readToVec pos len dataLen avail = .error .badParam ∨
    readToVec pos len dataLen avail = .error .insufficientMemory := by
  unfold readToVec safeVec
  by_cases h1 : pos + dataLen > u64Max
  · simp [h1]
  · by_cases h2 : pos + dataLen > len
    · simp [h1, h2]
    · by_cases h3 : dataLen > isizeMax
      · simp [h1, h2, h3]
      · by_cases h4 : dataLen > avail <;> simp [h1, h2, h3, h4]

theorem readToVec_past_end_rejected (pos len dataLen avail : Nat) (h : len < pos + dataLen) :
    readToVec pos len dataLen avail = .error .badParam := by
  unfold readToVec
  by_cases h1 : pos + dataLen > u64Max
  · simp [h1]
  · have h2 : pos + dataLen > len := h
    simp [h1, h2]

/-- **`read_to_vec` succeeds exactly when the declared length fits in what is left of the
stream (and the allocator provides it)** — both directions, on the inputs of the function. -/
theorem readToVec_ok_iff (pos len dataLen avail a r : Nat) :
    readToVec pos len dataLen avail = .ok (a, r) ↔
      a = dataLen ∧ r = dataLen ∧ pos + dataLen ≤ len ∧ pos + dataLen ≤ u64Max ∧
      dataLen ≤ isizeMax ∧ dataLen ≤ avail := by
  unfold readToVec safeVec
  by_cases h1 : pos + dataLen > u64Max
  · simp [h1] <;> omega
  · by_cases h2 : pos + dataLen > len
    · simp [h1, h2] <;> omega
    · by_cases h3 : dataLen > isizeMax
      · simp [h1, h2, h3] <;> omega
      · by_cases h4 : dataLen > avail
        · simp [h1, h2, h3, h4] <;> omega
        · simp [h1, h2, h3, h4] <;> omega

/-- The refusal *before* any allocation is exactly "the declared length does not fit". -/
theorem readToVec_badParam_iff (pos len dataLen avail : Nat) :
    readToVec pos len dataLen avail = .error .badParam ↔
      (pos + dataLen > u64Max ∨ pos + dataLen > len) := by
  unfold readToVec safeVec
  by_cases h1 : pos + dataLen > u64Max
  · simp [h1]
  · by_cases h2 : pos + dataLen > len
    · simp [h1, h2]
    · by_cases h3 : dataLen > isizeMax
      · simp [h1, h2, h3]
      · by_cases h4 : dataLen > avail <;> simp [h1, h2, h3, h4]

/-- **`safe_vec::<T>` reserves `n · size_of::<T>()` bytes or refuses** — for every element size:
it succeeds exactly when that byte count is at most `isize::MAX` and what the allocator gives. -/
theorem safeVecT_ok_iff (elemSize n avail : Nat) (fill : Bool) (b l : Nat) :
    safeVecT elemSize n avail fill = .ok (b, l) ↔
      b = n * elemSize ∧ l = (if fill then n else 0) ∧ n * elemSize ≤ isizeMax ∧
      n * elemSize ≤ avail := by
  unfold safeVecT
  by_cases h1 : n * elemSize > isizeMax
  · simp [h1] <;> omega
  · by_cases h2 : n * elemSize > avail
    · simp [h1, h2] <;> omega
    · have h1' : n * elemSize ≤ isizeMax := by omega
      have h2' : n * elemSize ≤ avail := by omega
      simp only [h1, h2, if_false, Except.ok.injEq, Prod.mk.injEq]
      constructor
      · rintro ⟨rfl, rfl⟩; exact ⟨rfl, rfl, h1', h2'⟩
      · rintro ⟨rfl, rfl, _, _⟩; exact ⟨rfl, rfl⟩

/-- `safe_vec` never panics on a count whose byte size overflows: it is the refusal. -/
theorem safeVecT_overflow_refused (elemSize n avail : Nat) (fill : Bool)
    (h : n * elemSize > isizeMax) : safeVecT elemSize n avail fill = .error .insufficientMemory := by
  unfold safeVecT; simp [h]

/-- the `u8` model used by `read_to_vec` / `BoundedVecWriter` is the `elemSize = 1` case -/
theorem safeVec_eq_safeVecT (n avail : Nat) :
    safeVec n avail = (safeVecT 1 n avail false).map (·.1) := by
  unfold safeVec safeVecT
  by_cases h1 : n > isizeMax
  · simp [h1, Except.map]
  · by_cases h2 : n > avail <;> simp [h1, h2, Except.map]

/-! ### bounded decompression -/

theorem two_isize : isizeMax + isizeMax < u64Max := by decide

theorem write_len_le (w w' : BVW) (n : Nat) (hw : w.len ≤ w.maxLen) (hm : w.maxLen ≤ isizeMax)
    (hn : n ≤ isizeMax)
    (h : w.write n = .ok w') : w'.len = w.len + n ∧ w'.len ≤ w'.maxLen ∧ w'.maxLen = w.maxLen := by
  have h2 := two_isize
  unfold BVW.write at h
  split at h
  · cases h
  · rename_i hle
    simp only [Except.ok.injEq] at h
    subst h
    unfold satAdd at hle
    split at hle <;> simp <;> omega

/-- **The decompression sink never holds more than the configured limit** — for every sequence of
output chunks (every decompressor, every compressed input; a Rust slice is at most `isize::MAX`
long, and `new` only succeeds for `max_len ≤ isize::MAX`), at every point, whether the run ends
normally or with the refusal. -/
theorem bvw_run_bounded (chunks : List Nat) (hch : ∀ n, n ∈ chunks → n ≤ isizeMax) :
    ∀ (w : BVW), w.len ≤ w.maxLen → w.maxLen ≤ isizeMax →
      match w.run chunks with
      | .ok w' => w'.len ≤ w.maxLen ∧ w'.len = w.len + chunks.sum
      | .error (_, w') => w'.len ≤ w.maxLen ∧ w.maxLen < w.len + chunks.sum := by
  have h2 := two_isize
  induction chunks with
  | nil => intro w hw _; simp [BVW.run]; exact hw
  | cons n rest ih =>
    intro w hw hm
    have hn : n ≤ isizeMax := hch n (List.mem_cons_self ..)
    have ih := ih (fun m hm' => hch m (List.mem_cons_of_mem _ hm'))
    unfold BVW.run
    cases hwr : w.write n with
    | error e =>
      simp only
      refine ⟨hw, ?_⟩
      unfold BVW.write at hwr
      split at hwr
      · rename_i hgt
        unfold satAdd at hgt
        simp only [List.sum_cons]
        split at hgt <;> omega
      · cases hwr
    | ok w' =>
      simp only
      obtain ⟨hl, hb, hmx⟩ := write_len_le w w' n hw hm hn hwr
      have := ih w' hb (by omega)
      cases hr : w'.run rest with
      | ok w'' =>
        rw [hr] at this
        simp only [List.sum_cons] at this ⊢
        omega
      | error p =>
        obtain ⟨e, w''⟩ := p
        rw [hr] at this
        simp only [List.sum_cons] at this ⊢
        omega

/-- **A decompression bomb is refused**: output longer than the limit always ends in the error,
with at most `max_len` bytes held; the only allocation is the `max_len` reserved by `new`. -/
theorem bomb_refused (maxLen avail : Nat) (chunks : List Nat) (hch : ∀ n, n ∈ chunks → n ≤ isizeMax)
    (hbig : maxLen < chunks.sum) (w : BVW) (cap : Nat) (hnew : BVW.new maxLen avail = .ok (w, cap)) :
    cap = maxLen ∧ ∃ e w', w.run chunks = .error (e, w') ∧ w'.len ≤ maxLen := by
  unfold BVW.new at hnew
  cases hs : safeVec maxLen avail with
  | error e => rw [hs] at hnew; cases hnew
  | ok c =>
    rw [hs] at hnew
    simp only [Except.ok.injEq, Prod.mk.injEq] at hnew
    obtain ⟨rfl, rfl⟩ := hnew
    refine ⟨(safeVec_exact _ _ _ hs).1, ?_⟩
    have := bvw_run_bounded chunks hch ⟨0, maxLen⟩ (Nat.zero_le _) (safeVec_exact _ _ _ hs).2.2
    cases hr : (BVW.run ⟨0, maxLen⟩ chunks) with
    | ok w' => rw [hr] at this; simp at this; omega
    | error p =>
      obtain ⟨e, w'⟩ := p
      rw [hr] at this
      exact ⟨e, w', rfl, this.1⟩

/-- **The sink accepts a decompressor's output exactly when its total is within the limit** —
input-level characterisation (both directions) for a fresh writer. -/
theorem bvw_run_ok_iff (maxLen : Nat) (chunks : List Nat) (hm : maxLen ≤ isizeMax)
    (hch : ∀ n, n ∈ chunks → n ≤ isizeMax) (w' : BVW) :
    (BVW.mk 0 maxLen).run chunks = .ok w' ↔ chunks.sum ≤ maxLen ∧ w' = ⟨chunks.sum, maxLen⟩ := by
  have := bvw_run_bounded chunks hch ⟨0, maxLen⟩ (Nat.zero_le _) hm
  have hmax : ∀ (cs : List Nat) (w v : BVW), w.run cs = .ok v → v.maxLen = w.maxLen := by
    intro cs
    induction cs with
    | nil => intro w v h; simp [BVW.run] at h; subst h; rfl
    | cons n rest ih =>
      intro w v h
      unfold BVW.run at h
      cases hwr : w.write n with
      | error e => rw [hwr] at h; cases h
      | ok w1 =>
        rw [hwr] at h
        have h1 := ih w1 v h
        unfold BVW.write at hwr
        split at hwr
        · cases hwr
        · simp only [Except.ok.injEq] at hwr; subst hwr; simpa using h1
  cases hr : (BVW.run ⟨0, maxLen⟩ chunks) with
  | ok v =>
    rw [hr] at this
    simp only at this
    have hv := hmax chunks ⟨0, maxLen⟩ v hr
    constructor
    · intro h
      simp only [Except.ok.injEq] at h
      subst h
      refine ⟨by omega, ?_⟩
      cases v with
      | mk l m => simp at this hv ⊢; omega
    · rintro ⟨_, rfl⟩
      cases v with
      | mk l m => simp at this hv ⊢; omega
  | error p =>
    obtain ⟨e, v⟩ := p
    rw [hr] at this
    simp only at this
    constructor
    · intro h; cases h
    · rintro ⟨hle, _⟩; omega

/-! ### the manifest-store loop: one reservation per compressed manifest -/

def StoreIn.isBrob : StoreIn → Bool
  | .brob _ => true
  | .plain _ => false

/-- decompressed (or plain) size of a manifest box -/
def StoreIn.size : StoreIn → Nat
  | .plain s => s
  | .brob ch => ch.sum

/-- all decompressor chunks are slices (`≤ isize::MAX`) -/
def StoreIn.wf : StoreIn → Prop
  | .plain _ => True
  | .brob ch => ∀ n, n ∈ ch → n ≤ isizeMax

def brobCount (ss : List StoreIn) : Nat := (ss.filter StoreIn.isBrob).length

@[simp] theorem brobCount_nil : brobCount [] = 0 := rfl
@[simp] theorem brobCount_plain (s : Nat) (rest : List StoreIn) :
    brobCount (.plain s :: rest) = brobCount rest := by simp [brobCount, StoreIn.isBrob]
@[simp] theorem brobCount_brob (ch : List Nat) (rest : List StoreIn) :
    brobCount (.brob ch :: rest) = brobCount rest + 1 := by
  unfold brobCount
  rw [List.filter_cons_of_pos (by rfl)]
  rfl

theorem BVW_new_ok (maxLen avail : Nat) (hm : maxLen ≤ isizeMax) (ha : maxLen ≤ avail) :
    BVW.new maxLen avail = .ok (⟨0, maxLen⟩, maxLen) := by
  unfold BVW.new safeVec
  have h1 : ¬ maxLen > isizeMax := by omega
  have h2 : ¬ maxLen > avail := by omega
  simp [h1, h2]

/-- **Never more reservations than compressed manifests, whatever the outcome** — the number of
`max_manifest_size` reservations made by the store loop is at most the number of `brob` manifest
boxes of the input (so the bytes reserved in total are at most `brobCount · max_manifest_size`,
one at a time). -/
theorem loadStores_reservations_le (maxLen avail : Nat) (ss : List StoreIn) :
    ∀ r l, (loadStores maxLen avail ss r l).1 ≤ r + brobCount ss := by
  induction ss with
  | nil => intro r l; simp [loadStores]
  | cons s rest ih =>
    intro r l
    cases s with
    | plain sz =>
      have := ih r (l ++ [sz])
      simpa [loadStores] using this
    | brob ch =>
      unfold loadStores
      rw [brobCount_brob]
      cases hn : BVW.new maxLen avail with
      | error e => simp only; omega
      | ok p =>
        obtain ⟨w, c⟩ := p
        simp only
        cases hr : w.run ch with
        | error q => obtain ⟨e, v⟩ := q; simp only; omega
        | ok w' =>
          have := ih (r + 1) (l ++ [w'.len])
          simp only
          omega

/-- **The store loads exactly when every compressed manifest decompresses to at most the limit**;
then it made one reservation per compressed manifest and holds each manifest at its
(decompressed) size. Input-level, both directions, every number and order of manifests. -/
theorem loadStores_ok_iff (maxLen avail : Nat) (hm : maxLen ≤ isizeMax) (ha : maxLen ≤ avail)
    (ss : List StoreIn) (hwf : ∀ s, s ∈ ss → s.wf) :
    ∀ r l r' l', loadStores maxLen avail ss r l = (r', .ok l') ↔
      ((∀ s, s ∈ ss → s.isBrob = true → s.size ≤ maxLen) ∧
        r' = r + brobCount ss ∧ l' = l ++ ss.map StoreIn.size) := by
  induction ss with
  | nil =>
    intro r l r' l'
    simp only [loadStores, Prod.mk.injEq, Except.ok.injEq, brobCount_nil, List.map_nil,
      List.append_nil, List.not_mem_nil, false_imp_iff, implies_true, true_and, Nat.add_zero]
    constructor
    · rintro ⟨rfl, rfl⟩; exact ⟨rfl, rfl⟩
    · rintro ⟨rfl, rfl⟩; exact ⟨rfl, rfl⟩
  | cons s rest ih =>
    intro r l r' l'
    have ih := ih (fun t ht => hwf t (List.mem_cons_of_mem _ ht))
    cases s with
    | plain sz =>
      have := ih r (l ++ [sz]) r' l'
      simp only [loadStores]
      rw [this, brobCount_plain]
      simp only [List.mem_cons, List.map_cons, StoreIn.size, List.append_assoc, List.singleton_append]
      constructor
      · rintro ⟨h1, h2, h3⟩
        refine ⟨?_, h2, h3⟩
        intro s hs hb
        rcases hs with rfl | hs
        · simp [StoreIn.isBrob] at hb
        · exact h1 s hs hb
      · rintro ⟨h1, h2, h3⟩
        exact ⟨fun s hs hb => h1 s (Or.inr hs) hb, h2, h3⟩
    | brob ch =>
      have hch : ∀ n, n ∈ ch → n ≤ isizeMax := hwf (.brob ch) (List.mem_cons_self ..)
      have hiff := bvw_run_ok_iff maxLen ch hm hch
      unfold loadStores
      rw [BVW_new_ok maxLen avail hm ha, brobCount_brob]
      simp only
      cases hr : (BVW.run ⟨0, maxLen⟩ ch) with
      | error q =>
        obtain ⟨e, v⟩ := q
        simp only
        constructor
        · intro h; simp only [Prod.mk.injEq] at h; cases h.2
        · rintro ⟨hall, _, _⟩
          have hle : ch.sum ≤ maxLen := by
            have := hall (.brob ch) (List.mem_cons_self ..) rfl
            simpa [StoreIn.size] using this
          have := (hiff ⟨ch.sum, maxLen⟩).2 ⟨hle, rfl⟩
          rw [hr] at this; cases this
      | ok w' =>
        simp only
        have hw := (hiff w').1 hr
        obtain ⟨hle, rfl⟩ := hw
        rw [ih (r + 1) (l ++ [ch.sum]) r' l']
        simp only [List.mem_cons, List.map_cons, StoreIn.size, List.append_assoc,
          List.singleton_append]
        constructor
        · rintro ⟨h1, h2, h3⟩
          refine ⟨?_, by omega, h3⟩
          intro s hs hb
          rcases hs with rfl | hs
          · simpa [StoreIn.size] using hle
          · exact h1 s hs hb
        · rintro ⟨h1, h2, h3⟩
          exact ⟨fun s hs hb => h1 s (Or.inr hs) hb, by omega, h3⟩

/-- bytes of the uncompressed manifest boxes of the input -/
def plainBytes : List StoreIn → Nat
  | [] => 0
  | .plain s :: rest => s + plainBytes rest
  | .brob _ :: rest => plainBytes rest

/-- **What a loaded store holds is bounded by the uncompressed input plus
`max_manifest_size` per compressed manifest** (not by one `max_manifest_size`). -/
theorem loadStores_held_le (maxLen avail : Nat) (hm : maxLen ≤ isizeMax) (ha : maxLen ≤ avail)
    (ss : List StoreIn) (hwf : ∀ s, s ∈ ss → s.wf) (r' : Nat) (l' : List Nat)
    (h : loadStores maxLen avail ss 0 [] = (r', .ok l')) :
    l'.sum ≤ plainBytes ss + brobCount ss * maxLen := by
  obtain ⟨hall, -, rfl⟩ := (loadStores_ok_iff maxLen avail hm ha ss hwf 0 [] r' l').1 h
  simp only [List.nil_append]
  clear h hwf
  induction ss with
  | nil => simp [plainBytes]
  | cons s rest ih =>
    have ih := ih (fun t ht hb => hall t (List.mem_cons_of_mem _ ht) hb)
    cases s with
    | plain sz =>
      rw [brobCount_plain]
      simp only [List.map_cons, List.sum_cons, StoreIn.size, plainBytes]
      omega
    | brob ch =>
      have := hall (.brob ch) (List.mem_cons_self ..) rfl
      rw [brobCount_brob, Nat.add_mul]
      simp only [List.map_cons, List.sum_cons, StoreIn.size, plainBytes, Nat.one_mul] at ih this ⊢
      omega

/-- The aggregate is **not** bounded by the configured limit itself: `n` compressed manifests that
each decompress to exactly the limit are all accepted, and the store then holds `n · limit`.
(The statement's "configured decompression limit" is a per-manifest limit in the code.) -/
theorem aggregate_exceeds_single_limit (maxLen : Nat) (hm : maxLen ≤ isizeMax) (n : Nat) :
    loadStores maxLen isizeMax (List.replicate n (.brob [maxLen])) 0 [] =
      (n, .ok (List.replicate n maxLen)) := by
  have hwf : ∀ s, s ∈ List.replicate n (StoreIn.brob [maxLen]) → s.wf := by
    intro s hs
    rw [List.eq_of_mem_replicate hs]
    intro k hk
    simp at hk; omega
  rw [loadStores_ok_iff maxLen isizeMax hm hm _ hwf]
  refine ⟨?_, ?_, ?_⟩
  · intro s hs _
    rw [List.eq_of_mem_replicate hs]; simp [StoreIn.size]
  · have : ∀ n, brobCount (List.replicate n (StoreIn.brob [maxLen])) = n := by
      intro n; induction n with
      | zero => rfl
      | succ n ih => rw [List.replicate_succ, brobCount_brob, ih]
    rw [this]; omega
  · simp [StoreIn.size]

/-- The full reading of "never allocates far beyond … the configured decompression limit" for
a store: what is held is bounded by the uncompressed input plus **one** limit. False of the
code (`store_held_within_one_limit_false`); `loadStores_held_le` is the part that holds
(`brobCount · limit`). Replayed on the implementation by the harness probe
`brob-limit-sized xN` (known finding `*:multi-brob`). -/
def StoreHeldWithinOneLimit : Prop :=
  ∀ (maxLen : Nat) (ss : List StoreIn) (r' : Nat) (l' : List Nat), maxLen ≤ isizeMax →
    (∀ s, s ∈ ss → s.wf) → loadStores maxLen isizeMax ss 0 [] = (r', .ok l') →
    l'.sum ≤ plainBytes ss + maxLen

theorem store_held_within_one_limit_false : ¬ StoreHeldWithinOneLimit := by
  intro h
  have hw := aggregate_exceeds_single_limit 10 (by decide) 3
  have := h 10 (List.replicate 3 (.brob [10])) 3 (List.replicate 3 10) (by decide)
    (by
      intro s hs
      rw [List.eq_of_mem_replicate hs]
      intro k hk
      simp at hk; subst hk; decide)
    hw
  simp [plainBytes, List.replicate] at this

/-! ### assertion-count limits -/

/-- The reader's assertion loop runs at most `MAX_ASSERTIONS` times, whatever count the manifest
declares. -/
theorem assertion_loop_bounded (n k : Nat) (h : readAssertionLoop n = .ok k) :
    k = n ∧ k ≤ MAX_ASSERTIONS := by
  unfold readAssertionLoop at h
  split at h
  · cases h
  · simp only [Except.ok.injEq] at h; omega

theorem assertion_loop_total (n : Nat) :
    readAssertionLoop n = .ok n ∨ readAssertionLoop n = .error .tooManyAssertions := by
  unfold readAssertionLoop; split <;> simp

/-- both directions: the loop is entered exactly for counts within the limit, and then runs
`n` times -/
theorem assertion_loop_iff (n k : Nat) :
    readAssertionLoop n = .ok k ↔ k = n ∧ n ≤ MAX_ASSERTIONS := by
  unfold readAssertionLoop
  by_cases h : n > MAX_ASSERTIONS
  · simp [h] <;> omega
  · simp [h] <;> omega

/-- Starting **within** the limit, `add_assertion` never takes the builder beyond
`MAX_ASSERTIONS`, whatever number of adds is attempted. The hypothesis is necessary
(`builder_definition_unbounded`): a definition is loaded without the check. -/
theorem builder_assertions_bounded (k : Nat) :
    ∀ count, count ≤ MAX_ASSERTIONS → builderAdds count k ≤ MAX_ASSERTIONS := by
  induction k with
  | zero => intro c h; exact h
  | succ k ih =>
    intro c h
    unfold builderAdds builderAdd
    split
    · rename_i c' heq
      split at heq
      · cases heq
      · simp only [Except.ok.injEq] at heq; subst heq; exact ih _ (by omega)
    · exact ih _ h

/-- closed form of any number of add attempts from any starting count -/
theorem builderAdds_eq (k : Nat) : ∀ count,
    builderAdds count k = if count ≥ MAX_ASSERTIONS then count else min (count + k) MAX_ASSERTIONS := by
  induction k with
  | zero => intro c; simp [builderAdds] <;> omega
  | succ k ih =>
    intro c
    unfold builderAdds builderAdd
    by_cases h : c ≥ MAX_ASSERTIONS
    · simp only [h, if_true]; rw [ih c]; simp [h]
    · simp only [h, if_false]; rw [ih (c + 1)]
      by_cases h2 : c + 1 ≥ MAX_ASSERTIONS
      · simp [h2] <;> omega
      · simp [h2] <;> omega

/-- The full statement "the builder never holds more than `MAX_ASSERTIONS`": false of the code,
because `with_definition` / `from_json` / `with_archive` fill `definition.assertions` without
`check_assertion_limit`. -/
def BuilderBoundedFull : Prop := ∀ n k, builderAdds (builderLoad n) k ≤ MAX_ASSERTIONS

/-- the reviewer's witness: a definition with more than the limit stays as it is -/
theorem builder_definition_unbounded :
    ∃ c k, c > MAX_ASSERTIONS ∧ builderAdds (builderLoad c) k = c :=
  ⟨MAX_ASSERTIONS + 1, 3, by decide, by rw [builderAdds_eq]; simp [builderLoad]⟩

theorem builder_bounded_full_false : ¬ BuilderBoundedFull := by
  intro h
  have := h (MAX_ASSERTIONS + 1) 0
  simp only [builderAdds, builderLoad] at this
  omega

/-- **`k` adds to a claim succeed exactly while the total stays within the limit** (both
directions, every starting count) -/
theorem claimAdds_ok_iff (k : Nat) : ∀ count c',
    claimAdds count k = .ok c' ↔ c' = count + k ∧ (k = 0 ∨ count + k ≤ MAX_ASSERTIONS) := by
  induction k with
  | zero => intro c c'; simp [claimAdds] <;> omega
  | succ k ih =>
    intro c c'
    unfold claimAdds claimAdd
    by_cases h : c ≥ MAX_ASSERTIONS
    · simp [h] <;> omega
    · simp only [h, if_false]; rw [ih (c + 1) c']; omega

/-- **What `Builder::sign` puts into a claim is bounded whatever the definition held**: a fresh
claim (`Claim::new`: empty assertion store) after any number of `add_assertion` calls — the
definition's assertions plus everything `to_claim` adds itself — holds at most `MAX_ASSERTIONS`;
more is the `TooManyAssertions` error. No hypothesis about the definition. -/
theorem claim_assertions_bounded (k c' : Nat) (h : claimAdds 0 k = .ok c') :
    c' = k ∧ c' ≤ MAX_ASSERTIONS := by
  have := (claimAdds_ok_iff k 0 c').1 h
  omega

theorem claim_refuses_oversize (k : Nat) (h : k > MAX_ASSERTIONS) :
    claimAdds 0 k = .error .tooManyAssertions := by
  cases hr : claimAdds 0 k with
  | ok c => have := (claimAdds_ok_iff k 0 c).1 hr; omega
  | error e =>
    -- the only error `claimAdd` produces
    have herr : ∀ k c e, claimAdds c k = .error e → e = .tooManyAssertions := by
      intro k
      induction k with
      | zero => intro c e h; simp [claimAdds] at h
      | succ k ih =>
        intro c e h
        unfold claimAdds claimAdd at h
        by_cases hc : c ≥ MAX_ASSERTIONS
        · simp [hc] at h; exact h.symm
        · simp only [hc, if_false] at h; exact ih _ _ h
    rw [herr k 0 e hr]

/-! ### the C10-level statement over everything that is modelled -/

/-- **Every modelled parser / limit is total, depth-bounded and allocation-bounded.**
  1. JUMBF box reader (C18): result or error on every byte string, nesting ≤ `MAX_JUMB_DEPTH`,
     no arithmetic panic, no runaway loop;
  2. range hashing arithmetic (C13): no `u64` overflow/underflow, the chunk loop terminates, no
     read past the end — for all ranges including `u64::MAX`. **Not** "no panic at all": the
     `u32` progress counters of that code do overflow (a panic in overflow-checked builds) once
     a run needs more than `u32::MAX` chunks (`C13.counter_overflow_witness`,
     `C13.no_counter_overflow_full_false`); what is stated here is the conditional form — no
     counter panic whenever the chunk count fits `u32` (at the production chunk size: every
     stream shorter than 2^60 bytes);
  3. COSE / DataHash padding (C14): no `usize` underflow, loops terminate;
  4. ingredient validation walk (C19): recursion depth ≤ the configured limit + 1 and the whole
     store walk terminates on every ingredient graph, cyclic ones included;
  5. JUMBF URI / label helpers (C34): no out-of-range index or slice on any string;
  6. `read_to_vec` (here): the allocation is bounded by the remaining stream;
  7. bounded decompression (here): per compressed manifest the sink holds at most the limit, and
     the store loop makes at most one limit-sized reservation per compressed manifest of the
     input (the aggregate is `brobCount · limit`, see `aggregate_exceeds_single_limit`);
  8. assertion counts (here): the reader's loop and a claim built by `sign` are bounded by
     `MAX_ASSERTIONS` without any hypothesis; the builder's own list only from a start within
     the limit (`builder_bounded_full_false`).
The `≠ fuelOut / outOfFuel / .panic .fuel` conjuncts say that the *model's* loops finish within a
fuel that is computed from the input — a termination statement about the model, carried to the
code only by the differential runs of C13/C14/C19 (same results on the same inputs), not a bound
on wall-clock time. -/
theorem modelled_parsers_total :
    (∀ x : C18.Bytes, (∃ er, C18.parse x = .err er) ∨
        (∃ b e, C18.parse x = .ok (b, e) ∧ b.height ≤ C18.MAX_JUMB_DEPTH)) ∧
    (∀ (alg : String) (data : List UInt8) (hr : Option (List C13.HashRange)) (isExcl : Bool)
        (buf : Nat) (c : Option Nat), data.length ≤ C13.u64Max → 0 < buf →
        C13.hashModel alg data hr isExcl buf c ≠ .panic .arith ∧
        C13.hashModel alg data hr isExcl buf c ≠ .panic .fuel ∧
        ((∀ ps, C13.buildPieces data.length hr isExcl = .ok ps → C13.chunkCount buf ps ≤ C13.u32Max) →
          C13.hashModel alg data hr isExcl buf c ≠ .panic .counter)) ∧
    (∀ (s : C14.Sign1) (e : Option Nat), C14.padCoseSig s e ≠ .panic ∧ C14.padCoseSig s e ≠ .fuelOut) ∧
    (∀ (d : C14.DH) (want : Nat), C14.padToSize d want ≠ .fuelOut) ∧
    (∀ (lim : Nat) (s : C19.Store) (root : Nat) (st : C19.ISt),
        (C19.ic lim s (lim + 1) 0 root st).1 ≠ .outOfFuel) ∧
    (∀ (lim : Nat) (s : C19.Store) (root : Nat), (C19.validate lim s root).out ≠ .outOfFuel) ∧
    (∀ (s m : C34.Str) (n : Nat), (C34.toNormalizedUri s).isSome ∧ (C34.toAbsoluteUri m s).isSome ∧
        (C34.manifestLabelFromUri s).isSome ∧ (C34.assertionLabelFromUri s).isSome ∧
        (C34.labelWithInstance s n).isSome) ∧
    (∀ pos len dataLen avail a r, readToVec pos len dataLen avail = .ok (a, r) → a ≤ len - pos) ∧
    (∀ (maxLen : Nat) (chunks : List Nat), maxLen ≤ isizeMax → (∀ n, n ∈ chunks → n ≤ isizeMax) →
        match (BVW.mk 0 maxLen).run chunks with
        | .ok w' => w'.len ≤ maxLen
        | .error (_, w') => w'.len ≤ maxLen) ∧
    (∀ (maxLen avail : Nat) (ss : List StoreIn),
        (loadStores maxLen avail ss 0 []).1 ≤ brobCount ss) ∧
    (∀ n k, readAssertionLoop n = .ok k → k ≤ MAX_ASSERTIONS) ∧
    (∀ k c, claimAdds 0 k = .ok c → c ≤ MAX_ASSERTIONS) := by
  refine ⟨C18.parse_total_depth_bounded, ?_, C14.cose_no_panic, C14.datahash_terminates, ?_,
    C19.validate_terminates, ?_, ?_, ?_, ?_, ?_, ?_⟩
  · intro alg data hr isExcl buf c hl hb
    have := C13.no_panic alg data hr isExcl buf c hl hb
    exact ⟨this.1, this.2.1, fun hcnt => C13.no_counter_overflow_partial alg data hr isExcl buf c hl hb hcnt⟩
  · intro lim s root st; exact (C19.ic_depth_bounded lim s root st).1
  · intro s m n
    have := C34.no_panic s m n
    exact ⟨this.1, this.2.1, this.2.2.2.1, this.2.2.2.2.1, this.2.2.2.2.2.2.2.1⟩
  · intro pos len dataLen avail a r h
    exact (readToVec_alloc_le_remaining pos len dataLen avail a r h).2.2.2
  · intro maxLen chunks hm hch
    have := bvw_run_bounded chunks hch ⟨0, maxLen⟩ (Nat.zero_le _) hm
    cases hr : (BVW.run ⟨0, maxLen⟩ chunks) with
    | ok w' => rw [hr] at this; exact this.1
    | error p => obtain ⟨e, w'⟩ := p; rw [hr] at this; exact this.1
  · intro maxLen avail ss
    have := loadStores_reservations_le maxLen avail ss 0 []
    omega
  · intro n k h; exact (assertion_loop_bounded n k h).2
  · intro k c h; exact (claim_assertions_bounded k c h).2

/-! ### the source tables (regenerated from sdk/src on every run by translators/c10_alloc_sites.py)

Everything above is about the three modelled guards. For the *other* allocations of the SDK the
claim is structural and re-decided on the current source: every allocation whose size is an
expression, every `read_to_end` / `read_to_string` and every decompressor call of the non-test
code is listed with what bounds it; a site with no recognised bound (`Bound.none`) makes this
theorem — and the check — fail. The classes and the reviewed entries (each with a guard pattern
that must still be present in the function) are in the translator; translator and review file
are part of the trusted base. -/

/-- **Every sized allocation of the SDK has a recognised bound**, except the downloads listed
in `uncapped_sites_listed`. -/
theorem alloc_sites_guarded :
    (Gen.allocSites.all fun s => s.guarded || s.bound == Gen.Bound.uncappedRemote) = true := by
  decide +kernel

/-- the sites that are known **not** to be bounded (kept visible, not hidden in a class) -/
theorem uncapped_sites_listed :
    (Gen.allocSites.filter fun s => s.bound == Gen.Bound.uncappedRemote).map (·.fn) =
      ["fetch_remote_manifest"] := by
  decide +kernel

theorem no_stale_reviews : Gen.staleReviews = 0 := by decide

/-- **Every place that grows an assertion list is dominated by the `MAX_ASSERTIONS` check**:
the builder's `push` by `check_assertion_limit`, the claim's `push` by the check in
`add_assertion_impl`, the loader's unchecked push only from `Store::from_jumbf_impl` after the
count check in front of its loop — and there is no other way (`extend`, `insert`, …) in the
source. This is what lets `claimAdd` / `readAssertionLoop` stand for *all* growth of a claim. -/
theorem limit_sites_guarded : (Gen.limitSites.all fun r => r.2.2.2) = true := by decide +kernel

theorem limit_sites_complete :
    (Gen.limitSites.map fun r => r.2.2.1) =
      ["builder-list-push", "limit-definition", "claim-list-push", "loader-push", "loader-push-call"] := by
  decide +kernel

/-! ### Non-vacuity -/
example : readToVec 10 100 50 isizeMax = .ok (50, 50) := by rfl
example : readToVec 10 100 91 isizeMax = .error .badParam := by rfl
example : readToVec 10 100 (u64Max) isizeMax = .error .badParam := by rfl
example : (BVW.mk 0 10).run [4, 4, 4] = .error (.io, ⟨8, 10⟩) := by rfl
example : (BVW.mk 0 10).run [4, 6] = .ok ⟨10, 10⟩ := by rfl
example : readAssertionLoop 100001 = .error .tooManyAssertions := by rfl
example : builderAdds 99999 5 = 100000 := by rfl
example : builderAdds (builderLoad 100007) 5 = 100007 := by rw [builderAdds_eq]; rfl
example : claimAdds 0 3 = .ok 3 := by rfl
example : safeVecT 8 5 isizeMax true = .ok (40, 5) := by rfl
example : safeVecT 8 (2 ^ 60) isizeMax false = .error .insufficientMemory := by rfl
example : safeVecT 4 (2 ^ 61 - 1) isizeMax false = .ok (2 ^ 63 - 4, 0) := by rfl
-- one manifest within the limit, an uncompressed one, one over it: two reservations, then the refusal
example : loadStores 10 isizeMax [.brob [4, 6], .plain 99, .brob [4, 4, 4], .brob [1]] 0 [] =
    (2, .error .io) := by rfl
example : loadStores 10 isizeMax [.brob [4, 6], .plain 99, .brob [1]] 0 [] = (2, .ok [10, 99, 1]) := by rfl
example : StoreIn.wf (.brob [4, 6]) := by intro n hn; simp at hn; rcases hn with rfl | rfl <;> decide

end C2pa.C10
