import C2paModel.Model.C10
import C2paModel.Props.C18
import C2paModel.Props.C13
import C2paModel.Props.C14
import C2paModel.Props.C19
import C2paModel.Props.C34
import C2paModel.Props.C35
/-
C10 — untrusted input never crashes, hangs or exhausts memory  *(partial by nature)*

Statement: reading, validating or ingesting any byte string as any supported format returns a
result or an error; it never panics, never overflows the stack, never runs unboundedly long and
never allocates far beyond the input size or the configured decompression limit.

What is *proved* is the conjunction over the parsers and limits that are modelled in this
project (`modelled_parsers_total`): each is total on every input, its recursion depth is bounded
by its constant, and every allocation it requests is bounded by the remaining input or by the
configured limit. Everything else the statement covers (third-party parsers, CBOR/COSE/X.509
decoders, real stack and heap, wall-clock) is *searched*, not proved: the harness drives
structure-aware mutants of every format through the public entry points in forked workers with a
time and an address-space budget.
-/
namespace C2pa.C10

/-! ### allocation guards -/

/-- `safe_vec` reserves exactly what is asked or refuses. -/
theorem safeVec_exact (n avail c : Nat) (h : safeVec n avail = .ok c) :
    c = n ∧ n ≤ avail ∧ n ≤ isizeMax := by
  unfold safeVec at h
  split at h
  · cases h
  · split at h
    · cases h
    · simp only [Except.ok.injEq] at h; omega

/-- **`read_to_vec` never asks the allocator for more than what is left in the stream** — for
every position, stream length, declared length and allocator state. -/
theorem readToVec_alloc_le_remaining (pos len dataLen avail a r : Nat)
    (h : readToVec pos len dataLen avail = .ok (a, r)) :
    a = dataLen ∧ r = dataLen ∧ pos + dataLen ≤ len ∧ a ≤ len - pos := by
  unfold readToVec at h
  by_cases h1 : pos + dataLen > u64Max
  · simp [h1] at h
  · by_cases h2 : pos + dataLen > len
    · simp [h1, h2] at h
    · simp only [h1, h2, if_false] at h
      cases hs : safeVec dataLen avail with
      | error e => rw [hs] at h; cases h
      | ok c =>
        rw [hs] at h
        simp only [Except.ok.injEq, Prod.mk.injEq] at h
        have := (safeVec_exact _ _ _ hs).1
        omega

/-- `read_to_vec` is total: a result or one of two error kinds; a declared length beyond the
end of the stream (including `u64` overflow of `pos + len`) is `BadParam` *before* any allocation. -/
theorem readToVec_total (pos len dataLen avail : Nat) :
    (∃ a r, readToVec pos len dataLen avail = .ok (a, r)) ∨
    readToVec pos len dataLen avail = .error .badParam ∨
    readToVec pos len dataLen avail = .error .insufficientMemory := by
  unfold readToVec safeVec
  by_cases h1 : pos + dataLen > u64Max
  · simp [h1]
  · by_cases h2 : pos + dataLen > len
    · simp [h1, h2]
    · by_cases h3 : dataLen > isizeMax
      · simp [h1, h2, h3]
      · by_cases h4 : dataLen > avail <;> simp [h1, h2, h3, h4]

theorem readToVec_past_end_rejected (pos len dataLen avail : Nat) (h : len < pos + dataLen) :
    readToVec pos len dataLen avail = .error .badParam := by
  unfold readToVec
  by_cases h1 : pos + dataLen > u64Max
  · simp [h1]
  · have h2 : pos + dataLen > len := h
    simp [h1, h2]

/-! ### bounded decompression -/

theorem two_isize : isizeMax + isizeMax < u64Max := by decide

theorem write_len_le (w w' : BVW) (n : Nat) (hw : w.len ≤ w.maxLen) (hm : w.maxLen ≤ isizeMax)
    (hn : n ≤ isizeMax)
    (h : w.write n = .ok w') : w'.len = w.len + n ∧ w'.len ≤ w'.maxLen ∧ w'.maxLen = w.maxLen := by
  have h2 := two_isize
  unfold BVW.write at h
  split at h
  · cases h
  · rename_i hle
    simp only [Except.ok.injEq] at h
    subst h
    unfold satAdd at hle
    split at hle <;> simp <;> omega

/-- **The decompression sink never holds more than the configured limit** — for every sequence of
output chunks (every decompressor, every compressed input; a Rust slice is at most `isize::MAX`
long, and `new` only succeeds for `max_len ≤ isize::MAX`), at every point, whether the run ends
normally or with the refusal. -/
theorem bvw_run_bounded (chunks : List Nat) (hch : ∀ n, n ∈ chunks → n ≤ isizeMax) :
    ∀ (w : BVW), w.len ≤ w.maxLen → w.maxLen ≤ isizeMax →
      match w.run chunks with
      | .ok w' => w'.len ≤ w.maxLen ∧ w'.len = w.len + chunks.sum
      | .error (_, w') => w'.len ≤ w.maxLen ∧ w.maxLen < w.len + chunks.sum := by
  have h2 := two_isize
  induction chunks with
  | nil => intro w hw _; simp [BVW.run]; exact hw
  | cons n rest ih =>
    intro w hw hm
    have hn : n ≤ isizeMax := hch n (List.mem_cons_self ..)
    have ih := ih (fun m hm' => hch m (List.mem_cons_of_mem _ hm'))
    unfold BVW.run
    cases hwr : w.write n with
    | error e =>
      simp only
      refine ⟨hw, ?_⟩
      unfold BVW.write at hwr
      split at hwr
      · rename_i hgt
        unfold satAdd at hgt
        simp only [List.sum_cons]
        split at hgt <;> omega
      · cases hwr
    | ok w' =>
      simp only
      obtain ⟨hl, hb, hmx⟩ := write_len_le w w' n hw hm hn hwr
      have := ih w' hb (by omega)
      cases hr : w'.run rest with
      | ok w'' =>
        rw [hr] at this
        simp only [List.sum_cons] at this ⊢
        omega
      | error p =>
        obtain ⟨e, w''⟩ := p
        rw [hr] at this
        simp only [List.sum_cons] at this ⊢
        omega

/-- **A decompression bomb is refused**: output longer than the limit always ends in the error,
with at most `max_len` bytes held; the only allocation is the `max_len` reserved by `new`. -/
theorem bomb_refused (maxLen avail : Nat) (chunks : List Nat) (hch : ∀ n, n ∈ chunks → n ≤ isizeMax)
    (hbig : maxLen < chunks.sum) (w : BVW) (cap : Nat) (hnew : BVW.new maxLen avail = .ok (w, cap)) :
    cap = maxLen ∧ ∃ e w', w.run chunks = .error (e, w') ∧ w'.len ≤ maxLen := by
  unfold BVW.new at hnew
  cases hs : safeVec maxLen avail with
  | error e => rw [hs] at hnew; cases hnew
  | ok c =>
    rw [hs] at hnew
    simp only [Except.ok.injEq, Prod.mk.injEq] at hnew
    obtain ⟨rfl, rfl⟩ := hnew
    refine ⟨(safeVec_exact _ _ _ hs).1, ?_⟩
    have := bvw_run_bounded chunks hch ⟨0, maxLen⟩ (Nat.zero_le _) (safeVec_exact _ _ _ hs).2.2
    cases hr : (BVW.run ⟨0, maxLen⟩ chunks) with
    | ok w' => rw [hr] at this; simp at this; omega
    | error p =>
      obtain ⟨e, w'⟩ := p
      rw [hr] at this
      exact ⟨e, w', rfl, this.1⟩

/-! ### assertion-count limits -/

/-- The reader's assertion loop runs at most `MAX_ASSERTIONS` times, whatever count the manifest
declares. -/
theorem assertion_loop_bounded (n k : Nat) (h : readAssertionLoop n = .ok k) :
    k = n ∧ k ≤ MAX_ASSERTIONS := by
  unfold readAssertionLoop at h
  split at h
  · cases h
  · simp only [Except.ok.injEq] at h; omega

theorem assertion_loop_total (n : Nat) :
    readAssertionLoop n = .ok n ∨ readAssertionLoop n = .error .tooManyAssertions := by
  unfold readAssertionLoop; split <;> simp

/-- The builder never holds more than `MAX_ASSERTIONS` assertions, whatever number of adds is
attempted. -/
theorem builder_assertions_bounded (k : Nat) :
    ∀ count, count ≤ MAX_ASSERTIONS → builderAdds count k ≤ MAX_ASSERTIONS := by
  induction k with
  | zero => intro c h; exact h
  | succ k ih =>
    intro c h
    unfold builderAdds builderAdd
    split
    · rename_i c' heq
      split at heq
      · cases heq
      · simp only [Except.ok.injEq] at heq; subst heq; exact ih _ (by omega)
    · exact ih _ h

/-! ### the C10-level statement over everything that is modelled -/

/-- **Every modelled parser / limit is total, depth-bounded and allocation-bounded.**
  1. JUMBF box reader (C18): result or error on every byte string, nesting ≤ `MAX_JUMB_DEPTH`,
     no arithmetic panic, no runaway loop;
  2. range hashing arithmetic (C13): no `u64` overflow/underflow, the chunk loop terminates, no
     read past the end — for all ranges including `u64::MAX`;
  3. COSE / DataHash padding (C14): no `usize` underflow, loops terminate;
  4. ingredient validation walk (C19): recursion depth ≤ the configured limit + 1 and the whole
     store walk terminates on every ingredient graph, cyclic ones included;
  5. JUMBF URI / label helpers (C34): no out-of-range index or slice on any string;
  6. `read_to_vec` (C35 + here): an I/O fault is an error, and the allocation is bounded by the
     remaining stream;
  7. bounded decompression and assertion counts (here). -/
theorem modelled_parsers_total :
    (∀ x : C18.Bytes, (∃ er, C18.parse x = .err er) ∨
        (∃ b e, C18.parse x = .ok (b, e) ∧ b.height ≤ C18.MAX_JUMB_DEPTH)) ∧
    (∀ (alg : String) (data : List UInt8) (hr : Option (List C13.HashRange)) (isExcl : Bool)
        (buf : Nat) (c : Option Nat), data.length ≤ C13.u64Max → 0 < buf →
        C13.hashModel alg data hr isExcl buf c ≠ .panic .arith ∧
        C13.hashModel alg data hr isExcl buf c ≠ .panic .fuel) ∧
    (∀ (s : C14.Sign1) (e : Option Nat), C14.padCoseSig s e ≠ .panic ∧ C14.padCoseSig s e ≠ .fuelOut) ∧
    (∀ (d : C14.DH) (want : Nat), C14.padToSize d want ≠ .fuelOut) ∧
    (∀ (lim : Nat) (s : C19.Store) (root : Nat) (st : C19.ISt),
        (C19.ic lim s (lim + 1) 0 root st).1 ≠ .outOfFuel) ∧
    (∀ (lim : Nat) (s : C19.Store) (root : Nat), (C19.validate lim s root).out ≠ .outOfFuel) ∧
    (∀ (s m : C34.Str) (n : Nat), (C34.toNormalizedUri s).isSome ∧ (C34.toAbsoluteUri m s).isSome ∧
        (C34.manifestLabelFromUri s).isSome ∧ (C34.assertionLabelFromUri s).isSome ∧
        (C34.labelWithInstance s n).isSome) ∧
    (∀ pos len dataLen avail a r, readToVec pos len dataLen avail = .ok (a, r) → a ≤ len - pos) ∧
    (∀ (maxLen : Nat) (chunks : List Nat), maxLen ≤ isizeMax → (∀ n, n ∈ chunks → n ≤ isizeMax) →
        match (BVW.mk 0 maxLen).run chunks with
        | .ok w' => w'.len ≤ maxLen
        | .error (_, w') => w'.len ≤ maxLen) ∧
    (∀ n k, readAssertionLoop n = .ok k → k ≤ MAX_ASSERTIONS) := by
  refine ⟨C18.parse_total_depth_bounded, ?_, C14.cose_no_panic, C14.datahash_terminates, ?_,
    C19.validate_terminates, ?_, ?_, ?_, ?_⟩
  · intro alg data hr isExcl buf c hl hb
    have := C13.no_panic alg data hr isExcl buf c hl hb
    exact ⟨this.1, this.2.1⟩
  · intro lim s root st; exact (C19.ic_depth_bounded lim s root st).1
  · intro s m n
    have := C34.no_panic s m n
    exact ⟨this.1, this.2.1, this.2.2.2.1, this.2.2.2.2.1, this.2.2.2.2.2.2.2.1⟩
  · intro pos len dataLen avail a r h
    exact (readToVec_alloc_le_remaining pos len dataLen avail a r h).2.2.2
  · intro maxLen chunks hm hch
    have := bvw_run_bounded chunks hch ⟨0, maxLen⟩ (Nat.zero_le _) hm
    cases hr : (BVW.run ⟨0, maxLen⟩ chunks) with
    | ok w' => rw [hr] at this; exact this.1
    | error p => obtain ⟨e, w'⟩ := p; rw [hr] at this; exact this.1
  · intro n k h; exact (assertion_loop_bounded n k h).2

/-! ### Non-vacuity -/
example : readToVec 10 100 50 isizeMax = .ok (50, 50) := by rfl
example : readToVec 10 100 91 isizeMax = .error .badParam := by rfl
example : readToVec 10 100 (u64Max) isizeMax = .error .badParam := by rfl
example : (BVW.mk 0 10).run [4, 4, 4] = .error (.io, ⟨8, 10⟩) := by rfl
example : (BVW.mk 0 10).run [4, 6] = .ok ⟨10, 10⟩ := by rfl
example : readAssertionLoop 100001 = .error .tooManyAssertions := by rfl
example : builderAdds 99999 5 = 100000 := by rfl

end C2pa.C10
