import C2paModel.Lemmas.C01Data
import C2paModel.Lemmas.C01Rebase
import C2paModel.Lemmas.C01Box
import C2paModel.Props.C04
/-
C01 — tamper evidence of the asset content. The statement (properties.jsonl):

  For any asset signed by the SDK, any byte-level modification (flip, insertion, deletion,
  truncation, append) that leaves the reader reporting the manifest as Valid or Trusted must be
  confined to bytes that the signed hard-binding assertion itself declares excluded, and must
  leave the reported manifest content unchanged. Equivalently, the protected media content of a
  Valid asset is byte-identical to what was signed. This holds for every writable format and
  every hard-binding kind (data hash, box hash, BMFF hash, including update manifests).

Shape of the argument. The signed assertion fixes, under idealisation **H-free** (a digest is
its preimage; DESIGN §3), a byte string `pre` (per box for the box hash). The theorems say what
`verify… = ok` on an asset means in terms of that asset's bytes; two assets that verify against
the same signed assertion therefore agree on everything that is not declared excluded
(`…_binds`), and an asset that differs there does not verify (`…_detects`): the reader logs
`assertion.{dataHash,boxesHash,bmffHash}.mismatch`, a non-tolerated failure, and by C04 the
state is Invalid (`mismatch_code_invalid`).

What is *not* in these theorems: that the report is unchanged when the modification lies inside
the excluded manifest store (that is C02), the per-format layout maps that produce the box map /
the BMFF exclusion list (C12 / C07; here they are inputs), Merkle-tree BMFF hashing (C16/C17).
The correspondence run checks the statement directly on the implementation for every writable
format × binding kind.
-/
namespace C2pa.C01
open C2pa.C13

/-! ### data hash -/

/-- what `verifyData = ok` means: the algorithm is known and the hasher accepted the stream and
absorbed exactly the signed preimage -/
theorem verifyData_ok {dh : DataHash} {calg : Option String} {a : List UInt8} {buf : Nat}
    (h : verifyData dh calg a buf = .ok) :
    dh.remote = false ∧ ∃ alg prog, hashModel alg a dh.excl true buf none = .ok dh.pre prog := by
  unfold verifyData at h
  by_cases hr : dh.remote = true
  · simp [hr] at h
  · have hr' : dh.remote = false := by simpa using hr
    refine ⟨hr', ?_⟩
    simp only [hr', Bool.false_eq_true, if_false] at h
    split at h
    · simp at h
    · rename_i alg _
      obtain ⟨prog, hp⟩ := compareHash_ok h
      exact ⟨alg, prog, hp⟩

/-- **Data hash, selection form.** If verification succeeds with a non-empty signed exclusion
list, the bytes of the asset selected by the position-wise specification (every position not
covered by an exclusion, in order) are exactly the signed preimage, and every exclusion lies
inside the asset. -/
theorem datahash_selected (dh : DataHash) (calg : Option String) (a : List UInt8) (buf : Nat)
    (ex : List HashRange) (hex : dh.excl = some ex) (hne : ex ≠ [])
    (h : verifyData dh calg a buf = .ok) : exclSpec a ex = dh.pre ∧ Within ex a.length := by
  obtain ⟨_, alg, prog, hh⟩ := verifyData_ok h
  rw [hex] at hh
  refine ⟨(excl_digest alg a ex buf none dh.pre prog hne hh).symm, ?_⟩
  obtain ⟨ps, hb, _⟩ := ok_absorbed hh
  exact buildPieces_ok_within hb

/-- **`datahash_binds`.** Two assets that verify against the same signed data hash (H-free) have
the same length and the same byte at every position that no signed exclusion covers. Trailing
data, insertions and deletions change the length or shift a non-excluded byte, so they are
covered by this statement: nothing outside the declared exclusions can differ. -/
theorem datahash_binds (dh : DataHash) (calg calg' : Option String) (a a' : List UInt8)
    (buf buf' : Nat) (ex : List HashRange) (hex : dh.excl = some ex) (hne : ex ≠ [])
    (hp : Plain ex) (h : verifyData dh calg a buf = .ok) (h' : verifyData dh calg' a' buf' = .ok) :
    a.length = a'.length ∧ ∀ x, excluded ex x = false → a[x]? = a'[x]? := by
  obtain ⟨h1, w1⟩ := datahash_selected dh calg a buf ex hex hne h
  obtain ⟨h2, w2⟩ := datahash_selected dh calg' a' buf' ex hex hne h'
  exact exclSpec_plain_binds a a' ex hp w1 w2 (h1.trans h2.symm)

/-- without exclusions (`None` or an empty list — sidecar / remote manifests) the whole asset
is the preimage: the two assets are equal -/
theorem datahash_binds_whole (dh : DataHash) (calg calg' : Option String) (a a' : List UInt8)
    (buf buf' : Nat) (hex : dh.excl = none ∨ dh.excl = some [])
    (h : verifyData dh calg a buf = .ok) (h' : verifyData dh calg' a' buf' = .ok) : a = a' := by
  obtain ⟨_, alg, prog, hh⟩ := verifyData_ok h
  obtain ⟨_, alg', prog', hh'⟩ := verifyData_ok h'
  have e1 := whole_digest alg a dh.excl true buf none dh.pre prog hex hh
  have e2 := whole_digest alg' a' dh.excl true buf' none dh.pre prog' hex hh'
  exact e1.symm.trans e2

/-- **`datahash_detects`** (contrapositive): if the signed asset verifies, any asset that
differs from it in length or at a non-excluded position does not verify. -/
theorem datahash_detects (dh : DataHash) (calg calg' : Option String) (a a' : List UInt8)
    (buf buf' : Nat) (ex : List HashRange) (hex : dh.excl = some ex) (hne : ex ≠ [])
    (hp : Plain ex) (h : verifyData dh calg a buf = .ok)
    (hd : a.length ≠ a'.length ∨ ∃ x, excluded ex x = false ∧ a[x]? ≠ a'[x]?) :
    verifyData dh calg' a' buf' ≠ .ok := by
  intro h'
  obtain ⟨hl, hb⟩ := datahash_binds dh calg calg' a a' buf buf' ex hex hne hp h h'
  rcases hd with hd | ⟨x, hx, hne'⟩
  · exact hd hl
  · exact hne' (hb x hx)

/-- the verdict of `verify_hash_binding` is `match` only if `verifyData` succeeded on the
(re-based) exclusions -/
theorem bindData_matched {dh : DataHash} {calg : Option String} {upd : Bool}
    {range : Option HashRange} {a : List UInt8} {buf : Nat} {e : Bool}
    (h : bindData dh calg upd range a buf = .matched e) :
    ∃ excl, verifyData { dh with excl := excl } calg a buf = .ok ∧
      ((upd = false ∧ excl = dh.excl) ∨
       (upd = true ∧ dh.excl = none ∧ excl = none) ∨
       (upd = true ∧ ∃ ex ex', dh.excl = some ex ∧ rebase ex range = some ex' ∧ excl = some ex')) := by
  unfold bindData at h
  cases upd with
  | false =>
    simp only [Bool.false_eq_true, if_false] at h
    refine ⟨dh.excl, ?_, Or.inl ⟨rfl, rfl⟩⟩
    split at h
    · cases h
    · split at h <;> first | (rename_i hv; exact hv) | cases h
  | true =>
    simp only [if_true] at h
    cases hx : dh.excl with
    | none =>
      rw [hx] at h
      refine ⟨none, ?_, Or.inr (Or.inl ⟨rfl, rfl, rfl⟩)⟩
      simp only at h
      split at h
      · cases h
      · split at h <;> first | (rename_i hv; exact hv) | cases h
    | some ex =>
      rw [hx] at h
      cases hr : rebase ex range with
      | none => simp [hr] at h
      | some ex' =>
        simp only [hr, Option.map_some] at h
        refine ⟨some ex', ?_, Or.inr (Or.inr ⟨rfl, ex, ex', rfl, hr, rfl⟩)⟩
        split at h
        · cases h
        · split at h <;> first | (rename_i hv; exact hv) | cases h

theorem setAt_length (r : HashRange) : ∀ (n : Nat) (l : List HashRange), (setAt r n l).length = l.length := by
  intro n l
  induction l generalizing n with
  | nil => cases n <;> simp [setAt]
  | cons x xs ih => cases n <;> simp [setAt, ih]

theorem shiftAfter_length (s adj : Nat) : ∀ (l l' : List HashRange), shiftAfter s adj l = some l' →
    l'.length = l.length
  | [], l', h => by simp [shiftAfter] at h; rw [← h]
  | x :: xs, l', h => by
    unfold shiftAfter at h
    cases hr : shiftAfter s adj xs with
    | none => simp [hr] at h
    | some ys =>
      have ih := shiftAfter_length s adj xs ys hr
      simp only [hr] at h
      split at h
      · split at h
        · cases h
        · cases h; simp [ih]
      · cases h; simp [ih]

/-- re-basing never changes the number of exclusions -/
theorem rebase_length {ex ex' : List HashRange} {range : Option HashRange}
    (h : rebase ex range = some ex') : ex'.length = ex.length := by
  unfold rebase at h
  cases range with
  | none => cases h; rfl
  | some rg =>
    simp only at h
    cases hf : findStart rg.start ex with
    | none => simp [hf] at h; rw [← h]
    | some pos =>
      simp only [hf] at h
      split at h
      · rw [shiftAfter_length _ _ _ _ h, setAt_length]
      · cases h; rw [setAt_length]

/-! ### update manifests: re-based exclusions select the signed bytes

`rebase_sound_complete` (Lemmas/C01Rebase.lean): with the store grown from `M` to `M'`,
`exclSpec (pre ++ M' ++ post) (rebase ex …) = exclSpec (pre ++ M ++ post) ex`. Together with
`datahash_selected` this gives the update-manifest form of the binding: -/

/-- **Update manifest.** If the original asset `pre ++ M ++ post` verifies with the signed list
`ex` and the asset `pre' ++ M' ++ post'` (any content, store range `(|pre|, |M'|)` found at the
same offset) verifies with the re-based list, then `pre' = pre`-bytes and `post' = post`-bytes
agree outside the signed exclusions: formally the updated asset and `pre ++ M' ++ post` have
equal length and agree at every position not excluded by the re-based list. -/
theorem update_binds (dh : DataHash) (calg calg' : Option String) (pre M M' post b : List UInt8)
    (buf buf' : Nat) (ex : List HashRange) (hex : dh.excl = some ex) (hp : Plain ex)
    (hpre : 0 < pre.length) (hM0 : 0 < M.length) (hM : M.length ≤ M'.length)
    (i : Nat) (hfind : findStart pre.length ex = some i)
    (hi : ex[i]? = some ⟨pre.length, M.length, none⟩)
    (hother : ∀ j r, ex[j]? = some r → j ≠ i →
      r.length = 0 ∨ r.start + r.length ≤ pre.length ∨ pre.length + M.length ≤ r.start)
    (hfit : ∀ r ∈ ex, r.start + (M'.length - M.length) ≤ u64Max)
    (h : verifyData dh calg (pre ++ M ++ post) buf = .ok)
    (e : Bool) (h' : bindData dh calg' true (some ⟨pre.length, M'.length, none⟩) b buf' = .matched e) :
    ∃ ex', rebase ex (some ⟨pre.length, M'.length, none⟩) = some ex' ∧
      exclSpec b ex' = exclSpec (pre ++ M' ++ post) ex' := by
  obtain ⟨ex', hr, hsel⟩ := rebase_sound_complete pre M M' post ex hp hpre hM0 hM i hfind hi hother hfit
  refine ⟨ex', hr, ?_⟩
  have hne : ex ≠ [] := by
    intro hnil; rw [hnil] at hi; simp at hi
  obtain ⟨h1, _⟩ := datahash_selected dh calg _ buf ex hex hne h
  obtain ⟨excl, hv, hc⟩ := bindData_matched h'
  rcases hc with ⟨hu, _⟩ | ⟨_, hn, _⟩ | ⟨_, ex0, ex0', he0, hr0, hx⟩
  · cases hu
  · rw [hex] at hn; cases hn
  · rw [hex] at he0; cases he0
    rw [hr] at hr0; cases hr0
    have hne' : ex' ≠ [] := by
      intro hnil
      have := rebase_length hr
      rw [hnil] at this
      exact hne (List.eq_nil_of_length_eq_zero this.symm)
    obtain ⟨h2, _⟩ := datahash_selected { dh with excl := excl } calg' b buf' ex' (by rw [hx]) hne' hv
    rw [h2, hsel, h1]

/-! ### BMFF file-level hash -/

/-- **`bmff_binds`, selection form.** A successful file-level BMFF verification means the
position-wise selection (with the 8-byte offset markers) of the asset under the exclusion list
*resolved on that asset* is the signed preimage. -/
theorem bmff_selected (pre : List UInt8) (alg : String) (ex : List HashRange) (a : List UInt8)
    (buf : Nat) (hne : ex ≠ []) (h : verifyBmff pre alg (some ex) a buf = .ok) :
    exclSpec a ex = pre := by
  unfold verifyBmff at h
  obtain ⟨prog, hp⟩ := compareHash_ok h
  exact (excl_digest alg a ex buf none pre prog hne hp).symm

/-- **`bmff_binds`.** Two assets that verify against the same signed BMFF hash have equal
selections under their own resolved exclusions; when the resolved lists coincide and the
lengths are equal (the layout did not move) they agree at every position that is not excluded. -/
theorem bmff_binds (pre : List UInt8) (alg alg' : String) (ex ex' : List HashRange)
    (a a' : List UInt8) (buf buf' : Nat) (hne : ex ≠ []) (hne' : ex' ≠ [])
    (h : verifyBmff pre alg (some ex) a buf = .ok)
    (h' : verifyBmff pre alg' (some ex') a' buf' = .ok) :
    exclSpec a ex = exclSpec a' ex' ∧
      (ex = ex' → a.length = a'.length → ∀ x, excluded ex x = false → a[x]? = a'[x]?) := by
  have h1 := bmff_selected pre alg ex a buf hne h
  have h2 := bmff_selected pre alg' ex' a' buf' hne' h'
  refine ⟨h1.trans h2.symm, ?_⟩
  intro he hl
  subst he
  exact exclSpec_eq_bytes a a' ex hl (h1.trans h2.symm)

/-- a failing exclusion resolver is a verification failure -/
theorem bmff_resolver_failure (pre : List UInt8) (alg : String) (a : List UInt8) (buf : Nat) :
    verifyBmff pre alg none a buf = .err .handler := rfl

/-! ### box hash

`verifyBox_ok`, `spans_cover`, `boxhash_same_layout` are in Lemmas/C01Box.lean. -/

/-- **`boxhash_binds`.** Two assets of equal length that verify against the same signed box
hash under the same tiling box map agree at every position outside the C2PA / excluded entries
(and outside a PNG signature box the assertion does not list — its eight bytes are fixed by the
format). The consumed-all and coverage checks of the fix are what make this true: see
`boxhash_needs_cover` below for the unchecked variant. -/
theorem boxhash_binds (boxes : List BoxEntry) (calg calg' : Option String) (src : List SrcBox)
    (a a' : List UInt8) (buf buf' : Nat) (hlen : a.length = a'.length)
    (hw : Tiles src 0 a.length) (hn : a.length ≤ u64Max)
    (h : verifyBox boxes calg (some src) a buf = .ok)
    (h' : verifyBox boxes calg' (some src) a' buf' = .ok) :
    ∃ sts, spansOf src boxes (idx0 boxes src) = .ok sts ∧
      ∀ x, x < a.length → unprotected boxes sts x = false → inSkippedPngh boxes src x = false →
        a[x]? = a'[x]? :=
  boxhash_same_layout boxes calg calg' src a a' buf buf' hlen hw hn h h'

/-- the box-hash verification **before the fix** (no consumed-all / coverage check) -/
def verifyBoxUnchecked (boxes : List BoxEntry) (claimAlg : Option String) (src : List SrcBox)
    (data : List UInt8) (buf : Nat) : VRes :=
  if boxes.isEmpty then .err .noBoxes
  else
    match boxLoop src claimAlg data buf boxes (idx0 boxes src) with
    | .error e => .err e
    | .ok _ => .ok

def f5Src : List SrcBox := [⟨["IHDR"], 0, 2⟩, ⟨["C2PA"], 2, 1⟩, ⟨["IEND"], 3, 2⟩]
def f5Boxes : List BoxEntry :=
  [⟨["IHDR"], some "sha256", [1, 2], none⟩, ⟨["C2PA"], none, [], none⟩,
   ⟨["IEND"], some "sha256", [4, 5], none⟩]

/-- **F5 (DESIGN §5), on the model**: with the handler box map stopping at the last chunk,
appended bytes verified before the fix … -/
theorem boxhash_needs_cover :
    verifyBoxUnchecked f5Boxes none f5Src [1, 2, 9, 4, 5, 0xde, 0xad] 4 = .ok := by decide

/-- … and are rejected now. -/
theorem boxhash_append_rejected :
    verifyBox f5Boxes none (some f5Src) [1, 2, 9, 4, 5, 0xde, 0xad] 4 = .err .unconsumed := by
  decide

/-- a box that the assertion does not list (a well-formed extra chunk after the last listed one)
is rejected as well -/
theorem boxhash_extra_box_rejected :
    verifyBox f5Boxes none (some (f5Src ++ [⟨["tEXt"], 5, 2⟩])) [1, 2, 9, 4, 5, 0xde, 0xad] 4 =
      .err .unknownBox := by decide

/-! ### composition with C04: a mismatch makes the manifest Invalid -/

def cDataMismatch : C04.Code := "assertion.dataHash.mismatch".toList
def cBoxMismatch : C04.Code := "assertion.boxesHash.mismatch".toList
def cBmffMismatch : C04.Code := "assertion.bmffHash.mismatch".toList

/-- **Detection ⇒ Invalid.** The three hard-binding mismatch codes are not tolerated failure
codes; logging any of them (active manifest or ingredient delta) gives `Invalid`, whatever else
the results contain. -/
theorem mismatch_code_invalid (r : C04.Results) (s : C04.Status) (hk : s.kind = .failure)
    (hc : s.code = cDataMismatch ∨ s.code = cBoxMismatch ∨ s.code = cBmffMismatch) :
    C04.state (C04.addStatus r s) = .invalid := by
  apply C04.add_nontolerated_failure_invalid r s hk
  rcases hc with h | h | h <;> rw [h] <;> decide

/-- **Tamper evidence for the data hash, end to end on the model.** The signed asset verifies;
a modified asset differs in length or at a non-excluded position; then `verify_hash_binding`
does not log `match`: it logs the mismatch failure (or the read fails), and with the failure
logged the validation state is Invalid. -/
theorem tamper_detected_data (dh : DataHash) (calg calg' : Option String) (a a' : List UInt8)
    (buf buf' : Nat) (ex : List HashRange) (hex : dh.excl = some ex) (hne : ex ≠ [])
    (hp : Plain ex) (h : verifyData dh calg a buf = .ok)
    (hd : a.length ≠ a'.length ∨ ∃ x, excluded ex x = false ∧ a[x]? ≠ a'[x]?) :
    (∀ e, bindData dh calg' false none a' buf' ≠ .matched e) ∧
    ∀ (r : C04.Results) (uri : Option (List Char)),
      C04.state (C04.addStatus r ⟨cDataMismatch, .failure, uri⟩) = .invalid := by
  refine ⟨?_, fun r uri => mismatch_code_invalid r _ rfl (Or.inl rfl)⟩
  intro e hm
  obtain ⟨excl, hv, hc⟩ := bindData_matched hm
  rcases hc with ⟨_, hx⟩ | ⟨hu, _⟩ | ⟨hu, _⟩
  · subst hx
    exact datahash_detects dh calg calg' a a' buf buf' ex hex hne hp h hd hv
  · cases hu
  · cases hu

/-! ### non-vacuity -/

def exData : List UInt8 := [10, 11, 12, 13, 14, 15, 16, 17]
def exDh : DataHash := ⟨false, some "sha256", some [⟨2, 3, none⟩], [10, 11, 15, 16, 17]⟩

example : verifyData exDh none exData 3 = .ok := by decide
example : Plain [(⟨2, 3, none⟩ : HashRange)] := by intro r hr; simp at hr; rw [hr]
/-- a change inside the exclusion is accepted, outside it is not, nor is appended data -/
example : verifyData exDh none [10, 11, 99, 98, 97, 15, 16, 17] 3 = .ok := by decide
example : verifyData exDh none [10, 11, 12, 13, 14, 15, 16, 18] 3 = .err .mismatch := by decide
example : verifyData exDh none (exData ++ [0]) 3 = .err .mismatch := by decide
example : bindData exDh none false none (exData ++ [0]) 3 = .mismatched false := by decide
/-- update manifest: the store grew from 3 to 5 bytes -/
example : bindData exDh none true (some ⟨2, 5, none⟩) [10, 11, 1, 2, 3, 4, 5, 15, 16, 17] 3 =
    .matched false := by decide
example : rebase [⟨2, 3, none⟩, ⟨6, 1, none⟩] (some ⟨2, 5, none⟩) =
    some [⟨2, 5, none⟩, ⟨8, 1, none⟩] := by decide
example : verifyBox f5Boxes none (some f5Src) [1, 2, 9, 4, 5] 4 = .ok := by decide
example : verifyBox f5Boxes none (some f5Src) [1, 2, 77, 4, 5] 4 = .ok := by decide
example : verifyBox f5Boxes none (some f5Src) [1, 2, 9, 4, 6] 4 = .err .mismatch := by decide
example : Tiles f5Src 0 5 := by simp [Tiles, f5Src]
example : verifyBmff ([1] ++ be64 1 ++ [2]) "sha256" (some [⟨2, 2, none⟩, ⟨1, 1, some 1⟩]) [1, 2, 3, 4] 3 =
    .ok := by decide

end C2pa.C01
