import C2paModel.Lemmas.C01Data
import C2paModel.Lemmas.C01Rebase
import C2paModel.Lemmas.C01Box
import C2paModel.Props.C04
/-
C01 — tamper evidence of the asset content. The statement (properties.jsonl):

  For any asset signed by the SDK, any byte-level modification (flip, insertion, deletion,
  truncation, append) that leaves the reader reporting the manifest as Valid or Trusted must be
  confined to bytes that the signed hard-binding assertion itself declares excluded, and must
  leave the reported manifest content unchanged. Equivalently, the protected media content of a
  Valid asset is byte-identical to what was signed. This holds for every writable format and
  every hard-binding kind (data hash, box hash, BMFF hash, including update manifests).

Shape of the argument. The signed assertion fixes, under idealisation **H-free** (a digest is
its preimage; DESIGN §3), a byte string `pre` (per box for the box hash). The theorems say what
`verify… = ok` on an asset means in terms of that asset's bytes; two assets that verify against
the same signed assertion therefore agree on everything that is not declared excluded
(`…_binds`), and an asset that differs there does not verify (`…_detects`): the reader logs
`assertion.{dataHash,boxesHash,bmffHash}.mismatch`, a non-tolerated failure, and by C04 the
state is Invalid (`mismatch_code_invalid`).

What is *not* in these theorems: that the report is unchanged when the modification lies inside
the excluded manifest store (that is C02), the per-format layout maps that produce the box map /
the BMFF exclusion list (C12 / C07; here they are inputs), Merkle-tree BMFF hashing (C16/C17).
The correspondence run checks the statement directly on the implementation for every writable
format × binding kind.

Map of the statements (second round):
* data hash — `datahash_binds` / `datahash_detects` (length and bytes), `bindData_accepted_iff`,
  `tamper_detected_data` (verdict, logged code, Invalid);
* update manifest — `update_binds_positions` (length and bytes, for every store length the
  validated asset makes the reader find), on `rebase_sound_complete`;
* BMFF — `bmff_selected` (own resolved list), `bmff_binds_same_list` (length and bytes with
  offset markers, no length premise), `bmff_binds_whole`, `tamper_detected_bmff`;
* box hash — on any box map: `boxhash_protected`, `boxhash_binds_any_layout` (layout may move),
  `boxhash_extra_box_rejected_all`, `boxhash_length_fixed`; for the assertion form the SDK signs
  (one name per entry) with no layout hypothesis: `boxhash_every_byte`, `boxhash_binds_single`,
  `tamper_detected_box`; for grouped entries over a tiling map: `boxhash_binds`;
* verdict → code → state for all three arms: `bind{Data,Box,Bmff}_accepted_iff`,
  `rejected_logs_invalid`.
-/
namespace C2pa.C01
open C2pa.C13

/-! ### data hash -/

/-- what `verifyData = ok` means: the algorithm is known and the hasher accepted the stream and
absorbed exactly the signed preimage -/
theorem verifyData_ok {dh : DataHash} {calg : Option String} {a : List UInt8} {buf : Nat}
    (h : verifyData dh calg a buf = .ok) :
    dh.remote = false ∧ ∃ alg prog, hashModel alg a dh.excl true buf none = .ok dh.pre prog := by
  unfold verifyData at h
  by_cases hr : dh.remote = true
  · simp [hr] at h
  · have hr' : dh.remote = false := by simpa using hr
    refine ⟨hr', ?_⟩
    simp only [hr', Bool.false_eq_true, if_false] at h
    split at h
    · simp at h
    · rename_i alg _
      obtain ⟨prog, hp⟩ := compareHash_ok h
      exact ⟨alg, prog, hp⟩

/-- **Data hash, selection form.** If verification succeeds with a non-empty signed exclusion
list, the bytes of the asset selected by the position-wise specification (every position not
covered by an exclusion, in order) are exactly the signed preimage, and every exclusion lies
inside the asset. -/
theorem datahash_selected (dh : DataHash) (calg : Option String) (a : List UInt8) (buf : Nat)
    (ex : List HashRange) (hex : dh.excl = some ex) (hne : ex ≠ [])
    (h : verifyData dh calg a buf = .ok) : exclSpec a ex = dh.pre ∧ Within ex a.length := by
  obtain ⟨_, alg, prog, hh⟩ := verifyData_ok h
  rw [hex] at hh
  refine ⟨(excl_digest alg a ex buf none dh.pre prog hne hh).symm, ?_⟩
  obtain ⟨ps, hb, _⟩ := ok_absorbed hh
  exact buildPieces_ok_within hb

/-- **`datahash_binds`.** Two assets that verify against the same signed data hash (H-free) have
the same length and the same byte at every position that no signed exclusion covers. Trailing
data, insertions and deletions change the length or shift a non-excluded byte, so they are
covered by this statement: nothing outside the declared exclusions can differ. -/
theorem datahash_binds (dh : DataHash) (calg calg' : Option String) (a a' : List UInt8)
    (buf buf' : Nat) (ex : List HashRange) (hex : dh.excl = some ex) (hne : ex ≠ [])
    (hp : Plain ex) (h : verifyData dh calg a buf = .ok) (h' : verifyData dh calg' a' buf' = .ok) :
    a.length = a'.length ∧ ∀ x, excluded ex x = false → a[x]? = a'[x]? := by
  obtain ⟨h1, w1⟩ := datahash_selected dh calg a buf ex hex hne h
  obtain ⟨h2, w2⟩ := datahash_selected dh calg' a' buf' ex hex hne h'
  exact exclSpec_plain_binds a a' ex hp w1 w2 (h1.trans h2.symm)

/-- without exclusions (`None` or an empty list — sidecar / remote manifests) the whole asset
is the preimage: the two assets are equal -/
theorem datahash_binds_whole (dh : DataHash) (calg calg' : Option String) (a a' : List UInt8)
    (buf buf' : Nat) (hex : dh.excl = none ∨ dh.excl = some [])
    (h : verifyData dh calg a buf = .ok) (h' : verifyData dh calg' a' buf' = .ok) : a = a' := by
  obtain ⟨_, alg, prog, hh⟩ := verifyData_ok h
  obtain ⟨_, alg', prog', hh'⟩ := verifyData_ok h'
  have e1 := whole_digest alg a dh.excl true buf none dh.pre prog hex hh
  have e2 := whole_digest alg' a' dh.excl true buf' none dh.pre prog' hex hh'
  exact e1.symm.trans e2

/-- **`datahash_detects`** (contrapositive): if the signed asset verifies, any asset that
differs from it in length or at a non-excluded position does not verify. -/
theorem datahash_detects (dh : DataHash) (calg calg' : Option String) (a a' : List UInt8)
    (buf buf' : Nat) (ex : List HashRange) (hex : dh.excl = some ex) (hne : ex ≠ [])
    (hp : Plain ex) (h : verifyData dh calg a buf = .ok)
    (hd : a.length ≠ a'.length ∨ ∃ x, excluded ex x = false ∧ a[x]? ≠ a'[x]?) :
    verifyData dh calg' a' buf' ≠ .ok := by
  intro h'
  obtain ⟨hl, hb⟩ := datahash_binds dh calg calg' a a' buf buf' ex hex hne hp h h'
  rcases hd with hd | ⟨x, hx, hne'⟩
  · exact hd hl
  · exact hne' (hb x hx)

/-- the verdict of `verify_hash_binding` is `match` only if `verifyData` succeeded on the
(re-based) exclusions -/
theorem bindData_matched {dh : DataHash} {calg : Option String} {upd : Bool}
    {range : Option HashRange} {a : List UInt8} {buf : Nat} {e : Bool}
    (h : bindData dh calg upd range a buf = .matched e) :
    ∃ excl, verifyData { dh with excl := excl } calg a buf = .ok ∧
      ((upd = false ∧ excl = dh.excl) ∨
       (upd = true ∧ dh.excl = none ∧ excl = none) ∨
       (upd = true ∧ ∃ ex ex', dh.excl = some ex ∧ rebase ex range = some ex' ∧ excl = some ex')) := by
  unfold bindData at h
  cases upd with
  | false =>
    simp only [Bool.false_eq_true, if_false] at h
    refine ⟨dh.excl, ?_, Or.inl ⟨rfl, rfl⟩⟩
    split at h
    · cases h
    · split at h <;> first | (rename_i hv; exact hv) | cases h
  | true =>
    simp only [if_true] at h
    cases hx : dh.excl with
    | none =>
      rw [hx] at h
      refine ⟨none, ?_, Or.inr (Or.inl ⟨rfl, rfl, rfl⟩)⟩
      simp only at h
      split at h
      · cases h
      · split at h <;> first | (rename_i hv; exact hv) | cases h
    | some ex =>
      rw [hx] at h
      cases hr : rebase ex range with
      | none => simp [hr] at h
      | some ex' =>
        simp only [hr, Option.map_some] at h
        refine ⟨some ex', ?_, Or.inr (Or.inr ⟨rfl, ex, ex', rfl, hr, rfl⟩)⟩
        split at h
        · cases h
        · split at h <;> first | (rename_i hv; exact hv) | cases h

theorem setAt_length (r : HashRange) : ∀ (n : Nat) (l : List HashRange), (setAt r n l).length = l.length := by
  intro n l
  induction l generalizing n with
  | nil => cases n <;> simp [setAt]
  | cons x xs ih => cases n <;> simp [setAt, ih]

theorem shiftAfter_length (s adj : Nat) : ∀ (l l' : List HashRange), shiftAfter s adj l = some l' →
    l'.length = l.length
  | [], l', h => by simp [shiftAfter] at h; rw [← h]
  | x :: xs, l', h => by
    unfold shiftAfter at h
    cases hr : shiftAfter s adj xs with
    | none => simp [hr] at h
    | some ys =>
      have ih := shiftAfter_length s adj xs ys hr
      simp only [hr] at h
      split at h
      · split at h
        · cases h
        · cases h; simp [ih]
      · cases h; simp [ih]

/-- re-basing never changes the number of exclusions -/
theorem rebase_length {ex ex' : List HashRange} {range : Option HashRange}
    (h : rebase ex range = some ex') : ex'.length = ex.length := by
  unfold rebase at h
  cases range with
  | none => cases h; rfl
  | some rg =>
    simp only at h
    cases hf : findStart rg.start ex with
    | none => simp [hf] at h; rw [← h]
    | some pos =>
      simp only [hf] at h
      split at h
      · rw [shiftAfter_length _ _ _ _ h, setAt_length]
      · cases h; rw [setAt_length]

/-! ### update manifests: re-based exclusions select the signed bytes

`rebase_sound_complete` (Lemmas/C01Rebase.lean): with the store grown from `M` to `M'`,
`exclSpec (pre ++ M' ++ post) (rebase ex …) = exclSpec (pre ++ M ++ post) ex`. Together with
`datahash_selected` this gives the update-manifest form of the binding: -/

/-- **Update manifest.** If the original asset `pre ++ M ++ post` verifies with the signed list
`ex` and the asset `pre' ++ M' ++ post'` (any content, store range `(|pre|, |M'|)` found at the
same offset) verifies with the re-based list, then `pre' = pre`-bytes and `post' = post`-bytes
agree outside the signed exclusions: formally the updated asset and `pre ++ M' ++ post` have
equal length and agree at every position not excluded by the re-based list. -/
theorem update_binds (dh : DataHash) (calg calg' : Option String) (pre M M' post b : List UInt8)
    (buf buf' : Nat) (ex : List HashRange) (hex : dh.excl = some ex) (hp : Plain ex)
    (hpre : 0 < pre.length) (hM0 : 0 < M.length) (hM : M.length ≤ M'.length)
    (i : Nat) (hfind : findStart pre.length ex = some i)
    (hi : ex[i]? = some ⟨pre.length, M.length, none⟩)
    (hother : ∀ j r, ex[j]? = some r → j ≠ i →
      r.length = 0 ∨ r.start + r.length ≤ pre.length ∨ pre.length + M.length ≤ r.start)
    (hfit : ∀ r ∈ ex, r.start + (M'.length - M.length) ≤ u64Max)
    (h : verifyData dh calg (pre ++ M ++ post) buf = .ok)
    (e : Bool) (h' : bindData dh calg' true (some ⟨pre.length, M'.length, none⟩) b buf' = .matched e) :
    ∃ ex', rebase ex (some ⟨pre.length, M'.length, none⟩) = some ex' ∧
      exclSpec b ex' = exclSpec (pre ++ M' ++ post) ex' := by
  obtain ⟨ex', hr, hsel⟩ := rebase_sound_complete pre M M' post ex hp hpre hM0 hM i hfind hi hother hfit
  refine ⟨ex', hr, ?_⟩
  have hne : ex ≠ [] := by
    intro hnil; rw [hnil] at hi; simp at hi
  obtain ⟨h1, _⟩ := datahash_selected dh calg _ buf ex hex hne h
  obtain ⟨excl, hv, hc⟩ := bindData_matched h'
  rcases hc with ⟨hu, _⟩ | ⟨_, hn, _⟩ | ⟨_, ex0, ex0', he0, hr0, hx⟩
  · cases hu
  · rw [hex] at hn; cases hn
  · rw [hex] at he0; cases he0
    rw [hr] at hr0; cases hr0
    have hne' : ex' ≠ [] := by
      intro hnil
      have := rebase_length hr
      rw [hnil] at this
      exact hne (List.eq_nil_of_length_eq_zero this.symm)
    obtain ⟨h2, _⟩ := datahash_selected { dh with excl := excl } calg' b buf' ex' (by rw [hx]) hne' hv
    rw [h2, hsel, h1]

/-- **`update_binds_positions` — update manifest, byte level.** The original asset
`pre ++ M ++ post` verifies against the signed list `ex`; the reader finds the manifest store of
the validated asset `b` at the same offset `|pre|` with *any* length `|M'| ≥ |M|` (the range is
recomputed from `b`, so the party that produced `b` chooses it) and `verify_hash_binding` logs
`match` on the re-based list `ex'`. Then `b` has exactly the length `|pre| + |M'| + |post|` and
at every position that `ex'` does not exclude — i.e. outside the store range `(|pre|, |M'|)` and
outside the other signed exclusions moved by the growth of the store — it carries the signed
byte: whatever `M'` is, `b` agrees with `pre ++ M' ++ post`. `ex'` is marker-free and its only
entry that is not a (shifted) signed exclusion is the store range itself. -/
theorem update_binds_positions (dh : DataHash) (calg calg' : Option String)
    (pre M M' post b : List UInt8)
    (buf buf' : Nat) (ex : List HashRange) (hex : dh.excl = some ex) (hp : Plain ex)
    (hpre : 0 < pre.length) (hM0 : 0 < M.length) (hM : M.length ≤ M'.length)
    (i : Nat) (hfind : findStart pre.length ex = some i)
    (hi : ex[i]? = some ⟨pre.length, M.length, none⟩)
    (hother : ∀ j r, ex[j]? = some r → j ≠ i →
      r.length = 0 ∨ r.start + r.length ≤ pre.length ∨ pre.length + M.length ≤ r.start)
    (hfit : ∀ r ∈ ex, r.start + (M'.length - M.length) ≤ u64Max)
    (h : verifyData dh calg (pre ++ M ++ post) buf = .ok)
    (e : Bool) (h' : bindData dh calg' true (some ⟨pre.length, M'.length, none⟩) b buf' = .matched e) :
    ∃ ex', rebase ex (some ⟨pre.length, M'.length, none⟩) = some ex' ∧
      ex' = (setAt ⟨pre.length, M'.length, none⟩ i ex).map (shiftOne pre.length (M'.length - M.length)) ∧
      Plain ex' ∧
      b.length = (pre ++ M' ++ post).length ∧
      ∀ x, excluded ex' x = false → b[x]? = (pre ++ M' ++ post)[x]? := by
  obtain ⟨ex', hr, hsel⟩ := update_binds dh calg calg' pre M M' post b buf buf' ex hex hp hpre hM0 hM
    i hfind hi hother hfit h e h'
  have hexp := rebase_explicit pre.length M.length M'.length ex hpre i hfind hi hfit
  rw [hr] at hexp
  have hform := Option.some.inj hexp
  have hne : ex ≠ [] := by
    intro hnil; rw [hnil] at hi; simp at hi
  have hin : (⟨pre.length, M.length, none⟩ : HashRange) ∈ ex := List.mem_of_getElem? hi
  obtain ⟨_, w0⟩ := datahash_selected dh calg _ buf ex hex hne h
  have hplain : Plain ex' := by rw [hform]; exact rebased_plain _ _ _ _ _ hp
  have hw1 : Within ex' (pre ++ M' ++ post).length := by
    have := rebased_within pre.length M.length M'.length (pre ++ M ++ post).length i ex hM hin w0
    rw [hform]
    have e : (pre ++ M ++ post).length + (M'.length - M.length) = (pre ++ M' ++ post).length := by
      simp only [List.length_append]; omega
    rw [e] at this
    exact this
  -- `b` verified with the re-based list
  obtain ⟨excl, hv, hc⟩ := bindData_matched h'
  have hw2 : Within ex' b.length := by
    rcases hc with ⟨hu, _⟩ | ⟨_, hn, _⟩ | ⟨_, ex0, ex0', he0, hr0, hx⟩
    · cases hu
    · rw [hex] at hn; cases hn
    · rw [hex] at he0; cases he0
      rw [hr] at hr0; cases hr0
      have hne' : ex' ≠ [] := by
        intro hnil
        have := rebase_length hr
        rw [hnil] at this
        exact hne (List.eq_nil_of_length_eq_zero this.symm)
      exact (datahash_selected { dh with excl := excl } calg' b buf' ex' (by rw [hx]) hne' hv).2
  obtain ⟨hl, hb⟩ := exclSpec_plain_binds b (pre ++ M' ++ post) ex' hplain hw2 hw1 hsel
  exact ⟨ex', hr, hform, hplain, hl, hb⟩

/-- non-vacuity of the hypothesis set of `update_binds` / `update_binds_positions`: a store that
grew from 3 to 5 bytes at offset 2, with a second signed exclusion behind it -/
example : ∃ ex', rebase [⟨2, 3, none⟩, ⟨6, 1, none⟩] (some ⟨2, 5, none⟩) = some ex' ∧
    ([10, 11, 1, 2, 3, 4, 5, 15, 77, 17] : List UInt8).length = 10 ∧
    ∀ x, excluded ex' x = false →
      ([10, 11, 1, 2, 3, 4, 5, 15, 77, 17] : List UInt8)[x]? =
        (([10, 11] : List UInt8) ++ [0, 0, 0, 0, 0] ++ [15, 16, 17])[x]? := by
  have := update_binds_positions ⟨false, some "sha256", some [⟨2, 3, none⟩, ⟨6, 1, none⟩], [10, 11, 15, 17]⟩
    none none [10, 11] [12, 13, 14] [0, 0, 0, 0, 0] [15, 16, 17] [10, 11, 1, 2, 3, 4, 5, 15, 77, 17] 3 4
    [⟨2, 3, none⟩, ⟨6, 1, none⟩] rfl
    (by intro r hr; simp at hr; rcases hr with rfl | rfl <;> rfl)
    (by decide) (by decide) (by decide) 0 (by decide) (by decide)
    (by
      intro j r hj hne
      match j, hj, hne with
      | 0, _, hne => exact absurd rfl hne
      | 1, hj, _ => simp at hj; subst hj; right; right; decide
      | j + 2, hj, _ => simp at hj)
    (by intro r hr; simp at hr; rcases hr with rfl | rfl <;> decide)
    (by decide) true (by decide)
  obtain ⟨ex', hr, _, _, hl, hb⟩ := this
  exact ⟨ex', hr, by decide, hb⟩

/-! ### BMFF file-level hash -/

/-- **`bmff_binds`, selection form.** A successful file-level BMFF verification means the
position-wise selection (with the 8-byte offset markers) of the asset under the exclusion list
*resolved on that asset* is the signed preimage, and every resolved range lies inside the asset. -/
theorem bmff_selected (pre : List UInt8) (alg : String) (ex : List HashRange) (a : List UInt8)
    (buf : Nat) (hne : ex ≠ []) (h : verifyBmff pre alg (some ex) a buf = .ok) :
    exclSpec a ex = pre := by
  unfold verifyBmff at h
  obtain ⟨prog, hp⟩ := compareHash_ok h
  exact (excl_digest alg a ex buf none pre prog hne hp).symm

theorem bmff_within (pre : List UInt8) (alg : String) (ex : List HashRange) (a : List UInt8)
    (buf : Nat) (h : verifyBmff pre alg (some ex) a buf = .ok) : Within ex a.length := by
  unfold verifyBmff at h
  obtain ⟨prog, hp⟩ := compareHash_ok h
  obtain ⟨ps, hb, _⟩ := ok_absorbed hp
  exact buildPieces_ok_within hb

/-- **`bmff_binds`.** Two assets that verify against the same signed BMFF hash have equal
selections under their own resolved exclusions; when the resolved lists coincide and the
lengths are equal (the layout did not move) they agree at every position that is not excluded. -/
theorem bmff_binds (pre : List UInt8) (alg alg' : String) (ex ex' : List HashRange)
    (a a' : List UInt8) (buf buf' : Nat) (hne : ex ≠ []) (hne' : ex' ≠ [])
    (h : verifyBmff pre alg (some ex) a buf = .ok)
    (h' : verifyBmff pre alg' (some ex') a' buf' = .ok) :
    exclSpec a ex = exclSpec a' ex' ∧
      (ex = ex' → a.length = a'.length → ∀ x, excluded ex x = false → a[x]? = a'[x]?) := by
  have h1 := bmff_selected pre alg ex a buf hne h
  have h2 := bmff_selected pre alg' ex' a' buf' hne' h'
  refine ⟨h1.trans h2.symm, ?_⟩
  intro he hl
  subst he
  exact exclSpec_eq_bytes a a' ex hl (h1.trans h2.symm)

/-- **`bmff_binds_same_list`.** When the resolver returns the same list for both assets (the
box layout did not move: flips, and appended / removed bytes the resolver does not see), two
assets that verify against the same signed BMFF hash have the *same length* and the same byte at
every position that is not excluded — offset markers included, with no premise on the lengths.
`hany`: some byte of each asset is hashed (true of every BMFF asset: the exclusions are the
C2PA `uuid` box and a few named boxes). -/
theorem bmff_binds_same_list (pre : List UInt8) (alg alg' : String) (ex : List HashRange)
    (a a' : List UInt8) (buf buf' : Nat) (hne : ex ≠ [])
    (hany : ∃ y, y < a.length ∧ excluded ex y = false)
    (hany' : ∃ y, y < a'.length ∧ excluded ex y = false)
    (h : verifyBmff pre alg (some ex) a buf = .ok)
    (h' : verifyBmff pre alg' (some ex) a' buf' = .ok) :
    a.length = a'.length ∧ ∀ x, excluded ex x = false → a[x]? = a'[x]? := by
  have h1 := bmff_selected pre alg ex a buf hne h
  have h2 := bmff_selected pre alg' ex a' buf' hne h'
  have hl := exclSpec_markers_length a a' ex (bmff_within pre alg ex a buf h)
    (bmff_within pre alg' ex a' buf' h') hany hany' (h1.trans h2.symm)
  exact ⟨hl, exclSpec_eq_bytes a a' ex hl (h1.trans h2.symm)⟩

/-- contrapositive: under an unchanged resolved list, a change of length (append, truncate) or
of a non-excluded byte is rejected -/
theorem bmff_detects_same_list (pre : List UInt8) (alg alg' : String) (ex : List HashRange)
    (a a' : List UInt8) (buf buf' : Nat) (hne : ex ≠ [])
    (hany : ∃ y, y < a.length ∧ excluded ex y = false)
    (hany' : ∃ y, y < a'.length ∧ excluded ex y = false)
    (h : verifyBmff pre alg (some ex) a buf = .ok)
    (hd : a.length ≠ a'.length ∨ ∃ x, excluded ex x = false ∧ a[x]? ≠ a'[x]?) :
    verifyBmff pre alg' (some ex) a' buf' ≠ .ok := by
  intro h'
  obtain ⟨hl, hb⟩ := bmff_binds_same_list pre alg alg' ex a a' buf buf' hne hany hany' h h'
  rcases hd with hd | ⟨x, hx, hne'⟩
  · exact hd hl
  · exact hne' (hb x hx)

/-- an empty resolved list (no box of the asset matches any exclusion path): the whole asset is
the preimage, so the two assets are equal -/
theorem bmff_binds_whole (pre : List UInt8) (alg alg' : String) (a a' : List UInt8) (buf buf' : Nat)
    (h : verifyBmff pre alg (some []) a buf = .ok)
    (h' : verifyBmff pre alg' (some []) a' buf' = .ok) : a = a' := by
  unfold verifyBmff at h h'
  obtain ⟨prog, hp⟩ := compareHash_ok h
  obtain ⟨prog', hp'⟩ := compareHash_ok h'
  have e1 := whole_digest alg a (some []) true buf none pre prog (Or.inr rfl) hp
  have e2 := whole_digest alg' a' (some []) true buf' none pre prog' (Or.inr rfl) hp'
  exact e1.symm.trans e2

/-! ### BMFF exclusion resolution: a box shorter than the data pattern -/

/-- **A box shorter than a data pattern never satisfies the assertion's exclusion**: the
wording "bytes `offset ..` of the box equal `value`" cannot hold when the pattern does not fit. -/
theorem short_box_never_declared (file : List UInt8) (boxStart boxLen : Nat) (dms : List DataMap)
    (dm : DataMap) (hm : dm ∈ dms) (hs : boxLen < dm.off + dm.value.length) :
    dataMapsSpec file boxStart boxLen dms = false := by
  unfold dataMapsSpec
  rw [List.all_eq_false]
  exact ⟨dm, hm, by simp; intro h; omega⟩

/-- what a match of the code's loop means: every pattern equals the *file* bytes at
`boxStart + offset` (inside the box or not) -/
theorem dataMapsCode_match (file : List UInt8) (boxStart : Nat) : ∀ (dms : List DataMap),
    dataMapsCode file boxStart dms = some true →
    ∀ dm ∈ dms, (file.drop (boxStart + dm.off)).take dm.value.length = dm.value
  | [], _, dm, hm => by cases hm
  | d :: rest, h, dm, hm => by
    unfold dataMapsCode at h
    split at h
    · cases h
    · split at h
      · rename_i heq
        rcases List.mem_cons.1 hm with rfl | hm'
        · exact heq
        · exact dataMapsCode_match file boxStart rest h dm hm'
      · cases h

/-- **Code vs wording.** When every pattern fits in the box the code's loop decides exactly the
assertion's wording. (When one does not fit the code compares against the bytes that follow the
box; by `dataMapsCode_match` a match then forces those bytes and every byte of the box from
`offset` on to be pattern bytes — for the C2PA entry, offset 8 right after the box header, such a
box has no free byte.) -/
theorem dataMapsCode_spec (file : List UInt8) (boxStart boxLen : Nat) :
    ∀ (dms : List DataMap), (∀ dm ∈ dms, dm.off + dm.value.length ≤ boxLen) →
    boxStart + boxLen ≤ file.length →
    dataMapsCode file boxStart dms = some (dataMapsSpec file boxStart boxLen dms)
  | [], _, _ => rfl
  | d :: rest, hfit, hin => by
    have h1 := hfit d List.mem_cons_self
    have ih := dataMapsCode_spec file boxStart boxLen rest
      (fun dm hm => hfit dm (List.mem_cons_of_mem _ hm)) hin
    unfold dataMapsCode
    rw [if_neg (by omega)]
    by_cases he : (file.drop (boxStart + d.off)).take d.value.length = d.value
    · rw [if_pos he, ih]
      simp [dataMapsSpec, he, h1]
    · rw [if_neg he]
      simp [dataMapsSpec, he]

/-- the C2PA entry on a 23-byte `uuid` box: no match by the wording, whatever the bytes are -/
example (file : List UInt8) (st : Nat) (v : List UInt8) (hv : v.length = 16) :
    dataMapsSpec file st 23 [⟨8, v⟩] = false :=
  short_box_never_declared file st 23 _ ⟨8, v⟩ List.mem_cons_self (by simp [hv])

/-- a failing exclusion resolver is a verification failure -/
theorem bmff_resolver_failure (pre : List UInt8) (alg : String) (a : List UInt8) (buf : Nat) :
    verifyBmff pre alg none a buf = .err .handler := rfl

/-! ### box hash

`verifyBox_ok`, `spans_cover`, `boxhash_same_layout` are in Lemmas/C01Box.lean. -/

/-- **`boxhash_binds`** (grouped entries, tiling box map). Two assets that verify against the
same signed box hash under the same tiling box map have the same length (unless the asset is
nothing but the manifest store) and agree at every position outside the C2PA / excluded entries
(and outside a PNG signature box the assertion does not list — its eight bytes are fixed by the
format). Entries may list several names. The consumed-all and coverage checks of the fix are
what make this true: see `boxhash_needs_cover` below for the unchecked variant. For single-name
entries no tiling is needed (`boxhash_binds_single`); when the box map moves,
`boxhash_binds_any_layout`. -/
theorem boxhash_binds (boxes : List BoxEntry) (calg calg' : Option String) (src : List SrcBox)
    (a a' : List UInt8) (buf buf' : Nat)
    (hw : Tiles src 0 a.length) (hn : a.length ≤ u64Max)
    (h : verifyBox boxes calg (some src) a buf = .ok)
    (h' : verifyBox boxes calg' (some src) a' buf' = .ok) :
    (onlyC2pa src = false → a.length = a'.length) ∧
    ∃ sts, spansOf src boxes (idx0 boxes src) = .ok sts ∧
      ∀ x, x < a.length → unprotected boxes sts x = false → inSkippedPngh boxes src x = false →
        a[x]? = a'[x]? :=
  ⟨fun hno => boxhash_length_fixed boxes calg calg' src a a' buf buf' hno h h',
   boxhash_same_layout boxes calg calg' src a a' buf buf' hw hn h h'⟩

/-- the box-hash verification **before the fix** (no consumed-all / coverage check) -/
def verifyBoxUnchecked (boxes : List BoxEntry) (claimAlg : Option String) (src : List SrcBox)
    (data : List UInt8) (buf : Nat) : VRes :=
  if boxes.isEmpty then .err .noBoxes
  else
    match boxLoop src claimAlg data buf boxes (idx0 boxes src) with
    | .error e => .err e
    | .ok _ => .ok

def f5Src : List SrcBox := [⟨["IHDR"], 0, 2⟩, ⟨["C2PA"], 2, 1⟩, ⟨["IEND"], 3, 2⟩]
def f5Boxes : List BoxEntry :=
  [⟨["IHDR"], some "sha256", [1, 2], none⟩, ⟨["C2PA"], none, [], none⟩,
   ⟨["IEND"], some "sha256", [4, 5], none⟩]

/-- **F5 (DESIGN §5), on the model** (a sample; the general statements are
`boxhash_length_fixed` / `boxhash_append_rejected_all` / `boxhash_extra_box_rejected_all` in
Lemmas/C01Box.lean): with the handler box map stopping at the last chunk, appended bytes
verified before the fix … -/
theorem boxhash_needs_cover :
    verifyBoxUnchecked f5Boxes none f5Src [1, 2, 9, 4, 5, 0xde, 0xad] 4 = .ok := by decide

/-- … and are rejected now. -/
theorem boxhash_append_rejected :
    verifyBox f5Boxes none (some f5Src) [1, 2, 9, 4, 5, 0xde, 0xad] 4 = .err .unconsumed := by
  decide

/-- a box that the assertion does not list (a well-formed extra chunk after the last listed one)
is rejected as well -/
theorem boxhash_extra_box_rejected :
    verifyBox f5Boxes none (some (f5Src ++ [⟨["tEXt"], 5, 2⟩])) [1, 2, 9, 4, 5, 0xde, 0xad] 4 =
      .err .unknownBox := by decide

/-! ### composition with C04: a mismatch makes the manifest Invalid -/

def cDataMismatch : C04.Code := "assertion.dataHash.mismatch".toList
def cBoxMismatch : C04.Code := "assertion.boxesHash.mismatch".toList
def cBmffMismatch : C04.Code := "assertion.bmffHash.mismatch".toList

/-- **Detection ⇒ Invalid.** The three hard-binding mismatch codes are not tolerated failure
codes; logging any of them (active manifest or ingredient delta) gives `Invalid`, whatever else
the results contain. -/
theorem mismatch_code_invalid (r : C04.Results) (s : C04.Status) (hk : s.kind = .failure)
    (hc : s.code = cDataMismatch ∨ s.code = cBoxMismatch ∨ s.code = cBmffMismatch) :
    C04.state (C04.addStatus r s) = .invalid := by
  apply C04.add_nontolerated_failure_invalid r s hk
  rcases hc with h | h | h <;> rw [h] <;> decide

/-! ### the verdict of `verify_hash_binding`, what it logs, and the validation state -/

/-- the arm logged the `match` success entry -/
def Verdict.accepted : Verdict → Bool
  | .matched _ => true
  | _ => false

theorem verdictOf_accepted_iff (r : VRes) (e : Bool) :
    (verdictOf r e).accepted = true ↔ r = .ok := by
  cases r with
  | ok => simp [verdictOf, Verdict.accepted]
  | err er =>
    cases er with
    | hash e => cases e <;> simp [verdictOf, Verdict.accepted]
    | _ => simp [verdictOf, Verdict.accepted]

/-- the exclusion list the data-hash arm verifies with (`none`: the re-basing overflowed) -/
def effExcl (dh : DataHash) (upd : Bool) (range : Option HashRange) :
    Option (Option (List HashRange)) :=
  if upd then
    match dh.excl with
    | some ex => (rebase ex range).map some
    | none => some none
  else some dh.excl

def extraOf : Option (List HashRange) → Bool
  | some l => decide (l.length > 1)
  | none => false

/-- the data-hash arm maps the verifier's result exactly like the other two arms -/
theorem bindData_eq (dh : DataHash) (calg : Option String) (upd : Bool) (range : Option HashRange)
    (a : List UInt8) (buf : Nat) :
    bindData dh calg upd range a buf =
      match effExcl dh upd range with
      | none => .panic
      | some excl =>
        if dh.remote then .mismatched false
        else verdictOf (verifyData { dh with excl := excl } calg a buf) (extraOf excl) := by
  unfold bindData
  show (match effExcl dh upd range with
    | none => Verdict.panic
    | some excl => _) = _
  cases effExcl dh upd range with
  | none => rfl
  | some excl =>
    simp only
    by_cases hr : dh.remote = true
    · simp [hr]
    · simp only [hr, Bool.false_eq_true, if_false]
      cases excl <;>
        (cases verifyData _ calg a buf with
         | ok => rfl
         | err er =>
           cases er with
           | hash e => cases e <;> rfl
           | _ => rfl)

/-- **iff-characterisation of `match`, data hash** (all of: plain, update manifest, remote) -/
theorem bindData_accepted_iff (dh : DataHash) (calg : Option String) (upd : Bool)
    (range : Option HashRange) (a : List UInt8) (buf : Nat) :
    (bindData dh calg upd range a buf).accepted = true ↔
      ∃ excl, effExcl dh upd range = some excl ∧
        verifyData { dh with excl := excl } calg a buf = .ok := by
  rw [bindData_eq]
  cases effExcl dh upd range with
  | none => simp [Verdict.accepted]
  | some excl =>
    simp only [Option.some.injEq, exists_eq_left']
    by_cases hr : dh.remote = true
    · simp only [hr, if_true, Verdict.accepted, Bool.false_eq_true, false_iff]
      intro hv
      have := (verifyData_ok hv).1
      simp [hr] at this
    · simp only [hr, Bool.false_eq_true, if_false]
      exact verdictOf_accepted_iff _ _

/-- **iff-characterisation of `match`, box hash** -/
theorem bindBox_accepted_iff (hh : Bool) (boxes : List BoxEntry) (calg : Option String)
    (src : Option (List SrcBox)) (a : List UInt8) (buf : Nat) :
    (bindBox hh boxes calg src a buf).accepted = true ↔
      hh = true ∧ verifyBox boxes calg src a buf = .ok := by
  unfold bindBox
  cases hh with
  | false => simp [Verdict.accepted]
  | true => simpa using verdictOf_accepted_iff _ _

/-- **iff-characterisation of `match`, BMFF hash** -/
theorem bindBmff_accepted_iff (self : BmffSelf) (pre : List UInt8) (alg : String)
    (resolved : Option (List HashRange)) (a : List UInt8) (buf : Nat) :
    (bindBmff self pre alg resolved a buf).accepted = true ↔
      self = .ok ∧ verifyBmff pre alg resolved a buf = .ok := by
  unfold bindBmff
  cases self with
  | ok => simpa using verdictOf_accepted_iff _ _
  | remote => simp [Verdict.accepted]
  | malformed => simp [Verdict.accepted]

/-- **Not `match` ⇒ Invalid, through the verdict.** Whatever a hard-binding arm logs when its
verdict is not `match` is a failure entry whose code is not tolerated: with it in the results
(active manifest or ingredient delta) the validation state is `Invalid`, whatever else they
contain. When the arm logs nothing (`fatal` / `panic`) the validation call itself fails: there is
no report. Covers `assertion.{dataHash,boxesHash,bmffHash}.mismatch` and `.malformed`. -/
theorem rejected_logs_invalid (k : Kind) (v : Verdict) (hv : v.accepted = false)
    (c : String) (f : Bool) (hl : v.logged k = some (c, f)) :
    f = true ∧ ∀ (r : C04.Results) (uri : Option (List Char)),
      C04.state (C04.addStatus r ⟨c.toList, .failure, uri⟩) = .invalid := by
  cases v with
  | matched e => simp [Verdict.accepted] at hv
  | fatal => simp [Verdict.logged] at hl
  | panic => simp [Verdict.logged] at hl
  | mismatched e =>
    simp only [Verdict.logged, Option.some.injEq, Prod.mk.injEq] at hl
    obtain ⟨hc, hf⟩ := hl
    subst hc; subst hf
    refine ⟨rfl, fun r uri => ?_⟩
    cases k <;> exact C04.add_nontolerated_failure_invalid r _ rfl (by dsimp only; decide)
  | malformed =>
    simp only [Verdict.logged, Option.some.injEq, Prod.mk.injEq] at hl
    obtain ⟨hc, hf⟩ := hl
    subst hc; subst hf
    refine ⟨rfl, fun r uri => ?_⟩
    cases k <;> exact C04.add_nontolerated_failure_invalid r _ rfl (by dsimp only; decide)

/-- the logged codes are the ones the reader reports -/
example : (Verdict.mismatched false).logged .box = some ("assertion.boxesHash.mismatch", true) := rfl
example : Verdict.malformed.logged .bmff = some ("assertion.bmffHash.malformed", true) := rfl

/-- the range hasher without a cancellation callback never fails with an I/O error or a
cancellation: the arms' `fatal` branch is unreachable on an in-memory stream -/
theorem compareHash_not_fatal (pre : List UInt8) (alg : String) (a : List UInt8)
    (hr : Option (List HashRange)) (isExcl : Bool) (buf : Nat) (hlen : a.length ≤ u64Max)
    (hb : 0 < buf) :
    compareHash pre (hashModel alg a hr isExcl buf none) ≠ .err (.hash .io) ∧
    compareHash pre (hashModel alg a hr isExcl buf none) ≠ .err (.hash .cancelled) := by
  have := outcome_cases alg a hr isExcl buf none hlen hb
  simp only at this
  rcases this with h | h | h | ⟨ps, _, ⟨h, _⟩ | ⟨n, _, _, _, hc⟩ | ⟨h, _⟩⟩
  · rw [h]; exact ⟨by simp [compareHash], by simp [compareHash]⟩
  · rw [h]; exact ⟨by simp [compareHash], by simp [compareHash]⟩
  · rw [h]; exact ⟨by simp [compareHash], by simp [compareHash]⟩
  · rw [h]; exact ⟨by simp [compareHash], by simp [compareHash]⟩
  · cases hc
  · rw [h]
    unfold compareHash
    constructor <;> (simp only; split <;> simp)

theorem verdictOf_fatal {r : VRes} {e : Bool} (h : verdictOf r e = .fatal) :
    r = .err (.hash .io) ∨ r = .err (.hash .cancelled) := by
  cases r with
  | ok => simp [verdictOf] at h
  | err er =>
    cases er with
    | hash e => cases e <;> simp_all [verdictOf]
    | _ => simp [verdictOf] at h

theorem verifyData_not_fatal (dh : DataHash) (calg : Option String) (a : List UInt8) (buf : Nat)
    (hlen : a.length ≤ u64Max) (hb : 0 < buf) :
    verifyData dh calg a buf ≠ .err (.hash .io) ∧ verifyData dh calg a buf ≠ .err (.hash .cancelled) := by
  unfold verifyData
  by_cases hr : dh.remote = true
  · simp [hr]
  · simp only [hr, Bool.false_eq_true, if_false]
    split
    · simp
    · exact compareHash_not_fatal _ _ _ _ _ _ hlen hb

/-- the data-hash arm on an in-memory stream either logs (`match` / `mismatch`) or aborts on the
`u32` progress-counter overflow (C13): it never returns a fatal error -/
theorem bindData_not_fatal (dh : DataHash) (calg : Option String) (upd : Bool)
    (range : Option HashRange) (a : List UInt8) (buf : Nat) (hlen : a.length ≤ u64Max)
    (hb : 0 < buf) : bindData dh calg upd range a buf ≠ .fatal := by
  rw [bindData_eq]
  cases effExcl dh upd range with
  | none => simp
  | some excl =>
    simp only
    split
    · simp
    · intro hf
      have := verifyData_not_fatal { dh with excl := excl } calg a buf hlen hb
      rcases verdictOf_fatal hf with h | h
      · exact this.1 h
      · exact this.2 h

/-- **Tamper evidence for the data hash, end to end on the model.** The signed asset verifies; a
modified asset differs in length or at a non-excluded position. Then the verdict of
`verify_hash_binding` on the modified asset is not `match`; it is the `mismatch` verdict (or the
progress-counter abort), and what the verdict logs — the failure `assertion.dataHash.mismatch` —
makes the validation state Invalid. -/
theorem tamper_detected_data (dh : DataHash) (calg calg' : Option String) (a a' : List UInt8)
    (buf buf' : Nat) (ex : List HashRange) (hex : dh.excl = some ex) (hne : ex ≠ [])
    (hp : Plain ex) (h : verifyData dh calg a buf = .ok)
    (hd : a.length ≠ a'.length ∨ ∃ x, excluded ex x = false ∧ a[x]? ≠ a'[x]?)
    (hlen : a'.length ≤ u64Max) (hb : 0 < buf') :
    let v := bindData dh calg' false none a' buf'
    v.accepted = false ∧ ((∃ e, v = .mismatched e) ∨ v = .panic) ∧
    ∀ c f, v.logged .data = some (c, f) →
      c = "assertion.dataHash.mismatch" ∧ f = true ∧
      ∀ (r : C04.Results) (uri : Option (List Char)),
        C04.state (C04.addStatus r ⟨c.toList, .failure, uri⟩) = .invalid := by
  intro v
  have hacc : v.accepted = false := by
    rw [Bool.eq_false_iff]
    intro hv
    obtain ⟨excl, he, hok⟩ := (bindData_accepted_iff dh calg' false none a' buf').1 hv
    simp only [effExcl, Bool.false_eq_true, if_false, Option.some.injEq] at he
    subst he
    exact datahash_detects dh calg calg' a a' buf buf' ex hex hne hp h hd hok
  have hnf := bindData_not_fatal dh calg' false none a' buf' hlen hb
  have hshape : (∃ e, v = .mismatched e) ∨ v = .panic := by
    have hnm : v ≠ .malformed := by
      show bindData dh calg' false none a' buf' ≠ .malformed
      rw [bindData_eq]
      simp only [effExcl, Bool.false_eq_true, if_false]
      split
      · simp
      · cases verifyData { dh with excl := dh.excl } calg' a' buf' with
        | ok => simp [verdictOf]
        | err er =>
          cases er with
          | hash e => cases e <;> simp [verdictOf]
          | _ => simp [verdictOf]
    cases hv : v with
    | matched e => rw [hv] at hacc; simp [Verdict.accepted] at hacc
    | mismatched e => exact Or.inl ⟨e, rfl⟩
    | malformed => exact absurd hv hnm
    | fatal => exact absurd hv hnf
    | panic => exact Or.inr rfl
  refine ⟨hacc, hshape, ?_⟩
  intro c f hl
  obtain ⟨hf, hinv⟩ := rejected_logs_invalid .data v hacc c f hl
  refine ⟨?_, hf, hinv⟩
  rcases hshape with ⟨e, he⟩ | he
  · rw [he] at hl; simp [Verdict.logged] at hl; exact hl.1.symm
  · rw [he] at hl; simp [Verdict.logged] at hl

/-- **Tamper evidence for the box hash** (assertion in the form the SDK signs: one name per
entry; any box map, overlapping ones included). The signed asset verifies under the box map
`src`; a modified asset for which the handler produces the same box map differs in length or at
a position outside the C2PA / excluded entries and the unlisted PNG signature. Then the verdict
is not `match` and what it logs makes the state Invalid. (A modification that *changes* the box
map is covered by `boxhash_binds_any_layout` / `boxhash_every_byte`: the protected content of
whatever verifies is the signed content.) -/
theorem tamper_detected_box (hh : Bool) (boxes : List BoxEntry) (calg calg' : Option String)
    (src : List SrcBox) (a a' : List UInt8) (buf buf' : Nat)
    (h1 : ∀ bm ∈ boxes, bm.names.length = 1) (hno : onlyC2pa src = false)
    (h : verifyBox boxes calg (some src) a buf = .ok)
    (hd : a.length ≠ a'.length ∨ ∃ sts, spansOf src boxes (idx0 boxes src) = .ok sts ∧
      ∃ x, x < a.length ∧ unprotected boxes sts x = false ∧ inSkippedPngh boxes src x = false ∧
        a[x]? ≠ a'[x]?) :
    let v := bindBox hh boxes calg' (some src) a' buf'
    v.accepted = false ∧
    ∀ c f, v.logged .box = some (c, f) → f = true ∧
      ∀ (r : C04.Results) (uri : Option (List Char)),
        C04.state (C04.addStatus r ⟨c.toList, .failure, uri⟩) = .invalid := by
  intro v
  have hacc : v.accepted = false := by
    rw [Bool.eq_false_iff]
    intro hv
    obtain ⟨_, hok⟩ := (bindBox_accepted_iff hh boxes calg' (some src) a' buf').1 hv
    obtain ⟨hl, sts, hs, hb⟩ := boxhash_binds_single boxes calg calg' src a a' buf buf' h1 hno h hok
    rcases hd with hd | ⟨sts', hs', x, hx, hu, hpn, hne⟩
    · exact hd hl
    · rw [hs] at hs'; cases hs'
      exact hne (hb x hx hu hpn)
  exact ⟨hacc, fun c f hl => rejected_logs_invalid .box v hacc c f hl⟩

/-- **Tamper evidence for the BMFF hash** (file-level hash; the resolver returns the same list
on the modified asset). -/
theorem tamper_detected_bmff (pre : List UInt8) (alg alg' : String) (ex : List HashRange)
    (a a' : List UInt8) (buf buf' : Nat) (hne : ex ≠ [])
    (hany : ∃ y, y < a.length ∧ excluded ex y = false)
    (hany' : ∃ y, y < a'.length ∧ excluded ex y = false)
    (h : verifyBmff pre alg (some ex) a buf = .ok)
    (hd : a.length ≠ a'.length ∨ ∃ x, excluded ex x = false ∧ a[x]? ≠ a'[x]?) (self : BmffSelf) :
    let v := bindBmff self pre alg' (some ex) a' buf'
    v.accepted = false ∧
    ∀ c f, v.logged .bmff = some (c, f) → f = true ∧
      ∀ (r : C04.Results) (uri : Option (List Char)),
        C04.state (C04.addStatus r ⟨c.toList, .failure, uri⟩) = .invalid := by
  intro v
  have hacc : v.accepted = false := by
    rw [Bool.eq_false_iff]
    intro hv
    obtain ⟨_, hok⟩ := (bindBmff_accepted_iff self pre alg' (some ex) a' buf').1 hv
    exact bmff_detects_same_list pre alg alg' ex a a' buf buf' hne hany hany' h hd hok
  exact ⟨hacc, fun c f hl => rejected_logs_invalid .bmff v hacc c f hl⟩

/-! ### non-vacuity -/

def exData : List UInt8 := [10, 11, 12, 13, 14, 15, 16, 17]
def exDh : DataHash := ⟨false, some "sha256", some [⟨2, 3, none⟩], [10, 11, 15, 16, 17]⟩

example : verifyData exDh none exData 3 = .ok := by decide
example : Plain [(⟨2, 3, none⟩ : HashRange)] := by intro r hr; simp at hr; rw [hr]
/-- a change inside the exclusion is accepted, outside it is not, nor is appended data -/
example : verifyData exDh none [10, 11, 99, 98, 97, 15, 16, 17] 3 = .ok := by decide
example : verifyData exDh none [10, 11, 12, 13, 14, 15, 16, 18] 3 = .err .mismatch := by decide
example : verifyData exDh none (exData ++ [0]) 3 = .err .mismatch := by decide
example : bindData exDh none false none (exData ++ [0]) 3 = .mismatched false := by decide
/-- update manifest: the store grew from 3 to 5 bytes -/
example : bindData exDh none true (some ⟨2, 5, none⟩) [10, 11, 1, 2, 3, 4, 5, 15, 16, 17] 3 =
    .matched false := by decide
example : rebase [⟨2, 3, none⟩, ⟨6, 1, none⟩] (some ⟨2, 5, none⟩) =
    some [⟨2, 5, none⟩, ⟨8, 1, none⟩] := by decide
example : verifyBox f5Boxes none (some f5Src) [1, 2, 9, 4, 5] 4 = .ok := by decide
example : verifyBox f5Boxes none (some f5Src) [1, 2, 77, 4, 5] 4 = .ok := by decide
example : verifyBox f5Boxes none (some f5Src) [1, 2, 9, 4, 6] 4 = .err .mismatch := by decide
example : Tiles f5Src 0 5 := by simp [Tiles, f5Src]

/-- a JPEG-like box map that does **not** tile: `RST0` lies inside `SOS` -/
def jSrc : List SrcBox :=
  [⟨["SOI"], 0, 2⟩, ⟨["C2PA"], 2, 1⟩, ⟨["SOS"], 3, 4⟩, ⟨["RST0"], 5, 1⟩, ⟨["EOI"], 7, 1⟩]
def jBoxes : List BoxEntry :=
  [⟨["SOI"], some "sha256", [0xff, 0xd8], none⟩, ⟨["C2PA"], none, [], none⟩,
   ⟨["SOS"], some "sha256", [1, 2, 3, 4], none⟩, ⟨["RST0"], some "sha256", [3], none⟩,
   ⟨["EOI"], some "sha256", [9], none⟩]
/-- the hypotheses of `boxhash_every_byte` / `boxhash_binds_single` / `tamper_detected_box` hold
for it: verification succeeds, one name per entry, not only C2PA -/
example : verifyBox jBoxes none (some jSrc) [0xff, 0xd8, 7, 1, 2, 3, 4, 9] 4 = .ok := by decide
example : ∀ bm ∈ jBoxes, bm.names.length = 1 := by
  intro bm hb
  simp only [jBoxes, List.mem_cons, List.not_mem_nil, or_false] at hb
  rcases hb with rfl | rfl | rfl | rfl | rfl <;> rfl
example : onlyC2pa jSrc = false := by decide
example : ¬ Tiles jSrc 0 8 := by simp [Tiles, jSrc]
/-- a flip inside the scan, outside the restart marker, is caught by the `SOS` entry -/
example : verifyBox jBoxes none (some jSrc) [0xff, 0xd8, 7, 1, 2, 3, 5, 9] 4 = .err .mismatch := by
  decide
example : bindBox true jBoxes none (some jSrc) [0xff, 0xd8, 7, 1, 2, 3, 5, 9] 4 = .mismatched false := by
  decide
example : bindBox false jBoxes none (some jSrc) [0xff, 0xd8, 7, 1, 2, 3, 4, 9] 4 = .fatal := by decide
/-- BMFF: the hypotheses of `bmff_binds_same_list` (a hashed byte exists) and the arm's verdicts -/
example : ∃ y, y < ([1, 2, 3, 4] : List UInt8).length ∧
    excluded [⟨2, 2, none⟩, ⟨1, 1, some 1⟩] y = false := ⟨0, by decide, by decide⟩
example : bindBmff .ok ([1] ++ be64 1 ++ [2]) "sha256" (some [⟨2, 2, none⟩, ⟨1, 1, some 1⟩]) [1, 2, 3, 4, 5] 3 =
    .mismatched false := by decide
example : bindBmff .malformed [] "sha256" (some []) [1] 3 = .malformed := rfl
example : verifyBmff ([1] ++ be64 1 ++ [2]) "sha256" (some [⟨2, 2, none⟩, ⟨1, 1, some 1⟩]) [1, 2, 3, 4] 3 =
    .ok := by decide

end C2pa.C01
