import C2paModel.Props.C07
/-
C08 — same-size manifest replacement only changes the reported manifest region.

Statement: after a manifest is embedded, the region the handler reports as the manifest
location contains the embedded store, does not overlap any other reported region, and lies
within the file. Replacing the store with another store of the same length changes no byte
outside that region.

Layer A, for every container, store and format instance: the Cai region of `writeA F c s`
is `[caiOff F c, caiOff F c + |wrap s|)`.

Scope of the locality theorems. `same_size_patch_local` is about layer-A writers (`Fmt`), whose
bytes before and after the manifest container do not depend on the store at all. Real formats
with offset tables (TIFF IFD offsets, BMFF `stco`/`iloc`) re-lay-out their surroundings
depending on the container's *length*. `Layout` / `layout_same_size_patch_local` generalise
the theorem to every writer of the form `pre n ++ wrap s ++ post n` with `n = |wrap s|`
(surroundings may depend on the length, not on the content); `ser_writeA_eq_layout` shows the
`Fmt` case is the instance with constant `pre` / `post`. The hypothesis cannot be dropped:
`content_dependent_prefix_not_local` exhibits a writer whose prefix depends on the store
content and which changes a byte outside the manifest region. That a given real handler *is*
of the `Layout` form is a per-format obligation. It is discharged for PNG
(`Png.write_is_layout`, through the commuting square `Png.write_refines`) and for the sidecar
(trivially: no regions); for the other formats the property is observed, not proved, by the
differential harness's same-size patch checks.

Statements about the byte-exact handler model (section "PNG, byte-exact layer B" below):
`Png.locations_write_wf` (what `get_object_locations_from_stream` reports after `write_cai`:
the region holding the caBX chunk, inside the file, the store at offset 8 in it),
`Png.locations_eq_locsOf` (the commuting square with the layer-A regions),
`Png.same_size_rewrite_local` (the second, same-size `write_cai` on the embedded asset — the
existing-manifest splice branch — changes no byte outside the reported region and does not
move it), `Png.locations_fresh` (the placeholder regions reported without a manifest).
-/
namespace C2pa.C07

/-- The reported regions of the written asset (layer-A `locA` at the Cai offset). -/
def locsOf (F : Fmt) (c : List Seg) (s : Bytes) : List Loc :=
  locA (caiOff F c) (F.wrap s).length (ser (writeA F c s)).length

theorem length_ser_writeA (F : Fmt) (c : List Seg) (s : Bytes) :
    (ser (writeA F c s)).length = caiOff F c + (F.wrap s).length
      + (ser ((strip c).drop (insIdx F c))).length := by
  rw [ser_writeA]; simp only [List.length_append, caiOff, offAt]

/-- **locations_wf**: the Cai region lies within the file, holds exactly the wrapped store,
and the other two regions are inside the file, do not meet the Cai region, and together with
it tile the file. -/
theorem locations_wf (F : Fmt) (c : List Seg) (s : Bytes) :
    let out := ser (writeA F c s)
    let off := caiOff F c
    let len := (F.wrap s).length
    off + len ≤ out.length ∧
    slice out off len = F.wrap s ∧
    locsOf F c s = [⟨off, len, true⟩, ⟨0, off, false⟩, ⟨off + len, out.length - (off + len), false⟩] ∧
    (0 + off ≤ off) ∧ (off + len ≤ off + len) ∧
    off + len + (out.length - (off + len)) = out.length := by
  intro out off len
  have hl : out.length = off + len + (ser ((strip c).drop (insIdx F c))).length :=
    length_ser_writeA F c s
  refine ⟨by omega, ?_, rfl, by omega, by omega, by omega⟩
  show slice (ser (writeA F c s)) (caiOff F c) (F.wrap s).length = F.wrap s
  rw [ser_writeA]
  exact slice_mid _ _ _

/-- The Cai region contains the store: when the format's wrapping is `prefix ++ store ++
suffix`, the store bytes sit inside the Cai region at the prefix length. -/
theorem cai_contains_store (F : Fmt) (c : List Seg) (s pre suf : Bytes)
    (hw : F.wrap s = pre ++ s ++ suf) :
    slice (ser (writeA F c s)) (caiOff F c + pre.length) s.length = s := by
  rw [ser_writeA, hw]
  have : ser ((strip c).take (insIdx F c)) ++ (pre ++ s ++ suf) ++ ser ((strip c).drop (insIdx F c))
      = (ser ((strip c).take (insIdx F c)) ++ pre) ++ s ++ (suf ++ ser ((strip c).drop (insIdx F c))) := by
    simp [List.append_assoc]
  rw [this]
  have hlen : caiOff F c + pre.length = (ser ((strip c).take (insIdx F c)) ++ pre).length := by
    simp [caiOff, offAt]
  rw [hlen]
  exact slice_mid _ _ _

/-- **same_size_patch_local**: two stores whose wrappings have the same length give files of
the same length that agree on every byte outside the Cai region. -/
theorem same_size_patch_local (F : Fmt) (c : List Seg) (s₁ s₂ : Bytes)
    (hlen : (F.wrap s₁).length = (F.wrap s₂).length) :
    let o₁ := ser (writeA F c s₁)
    let o₂ := ser (writeA F c s₂)
    let off := caiOff F c
    let len := (F.wrap s₁).length
    o₁.length = o₂.length ∧ o₁.take off = o₂.take off ∧ o₁.drop (off + len) = o₂.drop (off + len) ∧
    ∀ j, (j < off ∨ off + len ≤ j) → o₁[j]? = o₂[j]? := by
  intro o₁ o₂ off len
  have h1 : o₁ = ser ((strip c).take (insIdx F c)) ++ F.wrap s₁ ++ ser ((strip c).drop (insIdx F c)) :=
    ser_writeA F c s₁
  have h2 : o₂ = ser ((strip c).take (insIdx F c)) ++ F.wrap s₂ ++ ser ((strip c).drop (insIdx F c)) :=
    ser_writeA F c s₂
  have hoff : off = (ser ((strip c).take (insIdx F c))).length := rfl
  have ht : o₁.take off = o₂.take off := by
    rw [h1, h2, hoff, take_pre, take_pre]
  have hd : o₁.drop (off + len) = o₂.drop (off + len) := by
    have e1 : o₁.drop (off + len) = ser ((strip c).drop (insIdx F c)) := by
      rw [h1, hoff]; exact drop_post _ _ _
    have e2 : o₂.drop (off + len) = ser ((strip c).drop (insIdx F c)) := by
      rw [h2, hoff]; show List.drop (_ + (F.wrap s₁).length) _ = _
      rw [hlen]; exact drop_post _ _ _
    rw [e1, e2]
  refine ⟨by rw [h1, h2]; simp [hlen], ht, hd, ?_⟩
  intro j hj
  rcases hj with hj | hj
  · have a1 : (o₁.take off)[j]? = o₁[j]? := by rw [List.getElem?_take]; simp [hj]
    have a2 : (o₂.take off)[j]? = o₂[j]? := by rw [List.getElem?_take]; simp [hj]
    rw [← a1, ← a2, ht]
  · obtain ⟨k, rfl⟩ : ∃ k, j = off + len + k := ⟨j - (off + len), by omega⟩
    have a1 : (o₁.drop (off + len))[k]? = o₁[off + len + k]? := List.getElem?_drop
    have a2 : (o₂.drop (off + len))[k]? = o₂[off + len + k]? := List.getElem?_drop
    rw [← a1, ← a2, hd]

/-- In-place patching of the Cai region with the new wrapped store is the same as writing
the new store. -/
theorem patch_eq_write (F : Fmt) (c : List Seg) (s₁ s₂ : Bytes)
    (hlen : (F.wrap s₁).length = (F.wrap s₂).length) :
    patchA (ser (writeA F c s₁)) (caiOff F c) (F.wrap s₂) = ser (writeA F c s₂) := by
  unfold patchA
  rw [ser_writeA F c s₁, ser_writeA F c s₂]
  have hoff : caiOff F c = (ser ((strip c).take (insIdx F c))).length := rfl
  rw [hoff, take_pre, ← hlen, drop_post]

/-- Replacing again with the same length keeps the Cai region where it was. -/
theorem cai_region_stable (F : Fmt) (c : List Seg) (s₁ : Bytes)
    (hpos : insIdx F (writeA F c s₁) = insIdx F c) :
    caiOff F (writeA F c s₁) = caiOff F c := by
  unfold caiOff
  rw [strip_writeA, hpos]

/-! ### length-dependent layouts -/

/-- A writer whose output is `pre n ++ wrap s ++ post n` with `n = |wrap s|`: the bytes around
the manifest container may depend on the container's length (offset tables, IFD counts, size
fields) but not on its content. -/
structure Layout where
  wrap : Bytes → Bytes
  pre : Nat → Bytes
  post : Nat → Bytes

def Layout.write (L : Layout) (s : Bytes) : Bytes :=
  L.pre (L.wrap s).length ++ L.wrap s ++ L.post (L.wrap s).length

def Layout.off (L : Layout) (s : Bytes) : Nat := (L.pre (L.wrap s).length).length

/-- The region `[off, off + |wrap s|)` lies in the written file and holds exactly the wrapped
store. -/
theorem layout_region_wf (L : Layout) (s : Bytes) :
    L.off s + (L.wrap s).length ≤ (L.write s).length ∧
    slice (L.write s) (L.off s) (L.wrap s).length = L.wrap s ∧
    (L.write s).length = L.off s + (L.wrap s).length + (L.post (L.wrap s).length).length := by
  refine ⟨?_, slice_mid _ _ _, ?_⟩ <;>
    simp only [Layout.write, Layout.off, List.length_append] <;> omega

/-- **layout_same_size_patch_local**: for a writer whose surroundings depend on the manifest
container only through its *length* (TIFF IFD offsets, BMFF `stco`/`iloc` fix-ups, RIFF size
fields, …), two stores whose wrappings have the same length give files of the same length,
with the manifest region at the same offset, that agree on every byte outside that region.
`same_size_patch_local` is the instance with constant `pre` / `post` (`ser_writeA_eq_layout`). -/
theorem layout_same_size_patch_local (L : Layout) (s₁ s₂ : Bytes)
    (hlen : (L.wrap s₁).length = (L.wrap s₂).length) :
    let o₁ := L.write s₁
    let o₂ := L.write s₂
    let off := L.off s₁
    let len := (L.wrap s₁).length
    o₁.length = o₂.length ∧ L.off s₁ = L.off s₂ ∧
    o₁.take off = o₂.take off ∧ o₁.drop (off + len) = o₂.drop (off + len) ∧
    ∀ j, (j < off ∨ off + len ≤ j) → o₁[j]? = o₂[j]? := by
  intro o₁ o₂ off len
  have h1 : o₁ = L.pre len ++ L.wrap s₁ ++ L.post len := rfl
  have h2 : o₂ = L.pre len ++ L.wrap s₂ ++ L.post len := by
    show L.write s₂ = _
    unfold Layout.write; rw [← hlen]
  have hoff : off = (L.pre len).length := rfl
  have hoff2 : L.off s₁ = L.off s₂ := by unfold Layout.off; rw [hlen]
  have ht : o₁.take off = o₂.take off := by
    rw [h1, h2, hoff, take_pre, take_pre]
  have hd : o₁.drop (off + len) = o₂.drop (off + len) := by
    have e1 : o₁.drop (off + len) = L.post len := by
      rw [h1, hoff]; exact drop_post _ _ _
    have e2 : o₂.drop (off + len) = L.post len := by
      rw [h2, hoff]; show List.drop (_ + (L.wrap s₁).length) _ = _
      rw [hlen]; exact drop_post _ _ _
    rw [e1, e2]
  refine ⟨by rw [h1, h2]; simp [hlen], hoff2, ht, hd, ?_⟩
  intro j hj
  rcases hj with hj | hj
  · have a1 : (o₁.take off)[j]? = o₁[j]? := by rw [List.getElem?_take]; simp [hj]
    have a2 : (o₂.take off)[j]? = o₂[j]? := by rw [List.getElem?_take]; simp [hj]
    rw [← a1, ← a2, ht]
  · obtain ⟨k, rfl⟩ : ∃ k, j = off + len + k := ⟨j - (off + len), by omega⟩
    have a1 : (o₁.drop (off + len))[k]? = o₁[off + len + k]? := List.getElem?_drop
    have a2 : (o₂.drop (off + len))[k]? = o₂[off + len + k]? := List.getElem?_drop
    rw [← a1, ← a2, hd]

/-- In-place patching of the manifest region with the new wrapped store of the same length is
the same as writing the new store, also when the surroundings depend on that length. -/
theorem layout_patch_eq_write (L : Layout) (s₁ s₂ : Bytes)
    (hlen : (L.wrap s₁).length = (L.wrap s₂).length) :
    patchA (L.write s₁) (L.off s₁) (L.wrap s₂) = L.write s₂ := by
  unfold patchA Layout.write Layout.off
  rw [take_pre, ← hlen, drop_post]

/-- A layer-A format on a given input container is a layout with constant surroundings. -/
def Fmt.layout (F : Fmt) (c : List Seg) : Layout :=
  ⟨F.wrap, fun _ => ser ((strip c).take (insIdx F c)), fun _ => ser ((strip c).drop (insIdx F c))⟩

theorem ser_writeA_eq_layout (F : Fmt) (c : List Seg) (s : Bytes) :
    ser (writeA F c s) = (F.layout c).write s := ser_writeA F c s

theorem caiOff_eq_layout_off (F : Fmt) (c : List Seg) (s : Bytes) :
    caiOff F c = (F.layout c).off s := rfl

/-- `same_size_patch_local` re-derived as the constant-surroundings instance of
`layout_same_size_patch_local`. -/
theorem same_size_patch_local_of_layout (F : Fmt) (c : List Seg) (s₁ s₂ : Bytes)
    (hlen : (F.wrap s₁).length = (F.wrap s₂).length) :
    (ser (writeA F c s₁)).length = (ser (writeA F c s₂)).length ∧
    ∀ j, (j < caiOff F c ∨ caiOff F c + (F.wrap s₁).length ≤ j) →
      (ser (writeA F c s₁))[j]? = (ser (writeA F c s₂))[j]? := by
  obtain ⟨h1, _, _, _, h5⟩ := layout_same_size_patch_local (F.layout c) s₁ s₂ hlen
  rw [ser_writeA_eq_layout, ser_writeA_eq_layout]
  exact ⟨h1, h5⟩

/-! ### non-vacuity: a genuinely length-dependent layout -/

/-- One-byte "offset field" in front (holding the container length), the container, and a
trailer whose length depends on the container length (padding to even + a length byte). -/
def exLayout : Layout :=
  ⟨fun s => 0xC2 :: s, fun n => [0xAA, UInt8.ofNat n], fun n => List.replicate (n % 2) 0 ++ [UInt8.ofNat n]⟩

example : exLayout.write [1, 2] = [0xAA, 3, 0xC2, 1, 2, 0, 3] := by decide
example : exLayout.write [1, 2, 3] = [0xAA, 4, 0xC2, 1, 2, 3, 4] := by decide
/-- the surroundings do change with the length … -/
example : (exLayout.write [1, 2]).take 2 ≠ (exLayout.write [1, 2, 3]).take 2 := by decide
/-- … and same-length stores differ only inside `[off, off + len) = [2, 5)`. -/
example : exLayout.write [9, 8] = [0xAA, 3, 0xC2, 9, 8, 0, 3] ∧ exLayout.off [9, 8] = 2 := by decide
example : patchA (exLayout.write [1, 2]) (exLayout.off [1, 2]) (exLayout.wrap [9, 8])
    = exLayout.write [9, 8] := by decide

/-! ### the converse warning: content-dependent surroundings are not local -/

/-- A writer that puts a checksum of the store in front of it (a prefix that depends on the
store's *content*, e.g. a container-level CRC or a digest field outside the reported region). -/
def exChecksumWriter (s : Bytes) : Bytes := s.foldl (· + ·) 0 :: 0xC2 :: s

/-- **Not every writer is local.** For a writer whose prefix depends on the store content,
two stores of the same length give files of the same length whose manifest region is
`[off, off + len) = [1, 1 + (|s| + 1))` in both, and yet byte 0 — outside that region —
differs. The hypothesis "surroundings depend on the length only" of
`layout_same_size_patch_local` is therefore needed; each format has to establish it. -/
theorem content_dependent_prefix_not_local :
    ∃ (w : Bytes → Bytes) (s₁ s₂ : Bytes) (off len j : Nat),
      s₁.length = s₂.length ∧ (w s₁).length = (w s₂).length ∧
      slice (w s₁) off len = 0xC2 :: s₁ ∧ slice (w s₂) off len = 0xC2 :: s₂ ∧
      (j < off ∨ off + len ≤ j) ∧ (w s₁)[j]? ≠ (w s₂)[j]? :=
  ⟨exChecksumWriter, [1], [2], 1, 2, 0, by decide⟩

/-- Such a writer is not of the `Layout` form with the same wrapping. -/
theorem checksum_writer_not_layout :
    ¬ ∃ L : Layout, L.wrap = (fun s => 0xC2 :: s) ∧ ∀ s, L.write s = exChecksumWriter s := by
  rintro ⟨L, hw, h⟩
  have e1 : L.pre 2 ++ [0xC2, 1] ++ L.post 2 = [1, 0xC2, 1] := by
    have := h [1]; rw [Layout.write, hw] at this; exact this
  have e2 : L.pre 2 ++ [0xC2, 2] ++ L.post 2 = [2, 0xC2, 2] := by
    have := h [2]; rw [Layout.write, hw] at this; exact this
  cases hp : L.pre 2 with
  | nil =>
    rw [hp] at e1
    have := (List.cons.inj e1).1
    exact absurd this (by decide)
  | cons a p =>
    rw [hp] at e1 e2
    have a1 : a = 1 := (List.cons.inj e1).1
    have a2 : a = 2 := (List.cons.inj e2).1
    rw [a1] at a2
    exact absurd a2 (by decide)

/-! ### PNG (layer A instance): equal store lengths suffice -/

theorem png_same_size_patch_local (c : List Seg) (s₁ s₂ : Bytes) (h : s₁.length = s₂.length) :
    let o₁ := ser (writeA Png.fmt c s₁)
    let o₂ := ser (writeA Png.fmt c s₂)
    let off := caiOff Png.fmt c
    o₁.length = o₂.length ∧ ∀ j, (j < off ∨ off + (s₁.length + 12) ≤ j) → o₁[j]? = o₂[j]? := by
  intro o₁ o₂ off
  have hw : (Png.fmt.wrap s₁).length = (Png.fmt.wrap s₂).length := Png.wrap_length_eq s₁ s₂ h
  obtain ⟨h1, _, _, h4⟩ := same_size_patch_local Png.fmt c s₁ s₂ hw
  refine ⟨h1, ?_⟩
  intro j hj
  apply h4
  have : (Png.fmt.wrap s₁).length = s₁.length + 12 := Png.wrap_length s₁
  rw [this]; exact hj

/-- The PNG Cai region holds the store at offset 8 (after length and chunk type). -/
theorem png_cai_contains_store (c : List Seg) (s : Bytes) :
    slice (ser (writeA Png.fmt c s)) (caiOff Png.fmt c + 8) s.length = s := by
  have := cai_contains_store Png.fmt c s (be32 s.length ++ Png.caBX) (be32 (crc32 (Png.caBX ++ s)))
    (Png.wrap_shape s)
  simpa [Png.be32_length, Png.caBX_length] using this

/-! ### PNG, byte-exact layer B (`Png.write`, `Png.locations`, `Png.patch`) -/

namespace Png

/-- **What the PNG handler reports after a write**: one Cai region `[off, off+|s|+12)` and the
two Other regions around it (`locA`), the Cai region lies in the file, holds exactly the caBX
chunk `wrap s`, and the store sits at offset 8 in it. `off` is the layer-A Cai offset. -/
theorem locations_write_wf {b s o : Bytes} {c : List Seg} (h : segs b = some c)
    (h1 : (manifests c).length ≤ 1) (hs : s.length < 4294967296) (hw : write b s = some o) :
    ∃ off, locations o = some (locA off (s.length + 12) o.length) ∧ off = caiOff fmt c ∧
      off + (s.length + 12) ≤ o.length ∧ slice o off (s.length + 12) = wrap s ∧
      slice o (off + 8) s.length = s := by
  have ho := write_refines h h1 hs hw
  have hwl : (fmt.wrap s).length = s.length + 12 := wrap_length s
  obtain ⟨hin, hsl, _⟩ := locations_wf fmt c s
  refine ⟨caiOff fmt c, locations_write h h1 hs hw, rfl, ?_, ?_, ?_⟩
  · rw [ho, ← hwl]; exact hin
  · rw [ho, ← hwl]; exact hsl
  · rw [ho]; exact png_cai_contains_store c s

/-- The commuting square for object locations, in the vocabulary of this file. -/
theorem locations_eq_locsOf {b s o : Bytes} {c : List Seg} (h : segs b = some c)
    (h1 : (manifests c).length ≤ 1) (hs : s.length < 4294967296) (hw : write b s = some o) :
    locations o = some (locsOf fmt c s) := by
  rw [locations_write h h1 hs hw, write_refines h h1 hs hw]
  show _ = some (locA _ (wrap s).length _)
  rw [wrap_length]

/-- **Same-size second write on the embedded asset** (the sign-then-patch flow; exercises
the existing-manifest branch of `write_cai`): the file length and the reported regions do
not change, no byte outside the reported Cai region changes, and the result is the file a
direct write of the second store would have produced. -/
theorem same_size_rewrite_local {b s₁ s₂ o₁ o₂ : Bytes} {c : List Seg} {off len : Nat}
    {rest : List Loc} (hlen : s₁.length = s₂.length) (h : segs b = some c)
    (h1 : (manifests c).length ≤ 1) (hs₁ : s₁.length < 4294967296)
    (hw₁ : write b s₁ = some o₁) (hw₂ : patch o₁ s₂ = some o₂)
    (hl : locations o₁ = some (⟨off, len, true⟩ :: rest)) :
    o₂.length = o₁.length ∧ locations o₂ = locations o₁ ∧
    (∀ j, (j < off ∨ off + len ≤ j) → o₁[j]? = o₂[j]?) ∧ write b s₂ = some o₂ := by
  have hs₂ : s₂.length < 4294967296 := by omega
  obtain ⟨hwd, _, _⟩ := write_write_bytes h h1 hs₁ hs₂ hw₁ hw₂
  have ho₁ := write_refines h h1 hs₁ hw₁
  have ho₂ := write_refines h h1 hs₂ hwd
  have hloc₁ := locations_write h h1 hs₁ hw₁
  have hloc₂ := locations_write h h1 hs₂ hwd
  rw [hloc₁] at hl
  injection hl with hl
  have hoff : caiOff fmt c = off := by
    have := (List.cons.inj hl).1; injection this
  have hlen' : s₁.length + 12 = len := by
    have := (List.cons.inj hl).1; injection this
  obtain ⟨e1, e2⟩ := png_same_size_patch_local c s₁ s₂ hlen
  have hl12 : o₂.length = o₁.length := by rw [ho₁, ho₂]; exact e1.symm
  refine ⟨hl12, ?_, ?_, hwd⟩
  · rw [hloc₁, hloc₂, hl12, hlen]
  · intro j hj
    rw [ho₁, ho₂]
    apply e2
    rw [hoff, hlen']; exact hj

/-- **PNG is of `Layout` form**: for a fixed input file, the bytes `write_cai` puts around the
caBX chunk do not depend on the store at all. -/
theorem write_is_layout {b : Bytes} {c : List Seg} (h : segs b = some c)
    (h1 : (manifests c).length ≤ 1) :
    ∃ L : Layout, L.wrap = wrap ∧
      ∀ s o, s.length < 4294967296 → write b s = some o → o = L.write s ∧ L.off s = caiOff fmt c :=
  ⟨fmt.layout c, rfl, fun s _ hs hw =>
    ⟨(write_refines h h1 hs hw).trans (ser_writeA_eq_layout fmt c s),
      (caiOff_eq_layout_off fmt c s).symm⟩⟩

end Png

/-- The sidecar handler reports no regions (the whole file is the container), and a second
write replaces the whole file: locality is vacuous. -/
theorem sidecar_locations (b : Bytes) : Sidecar.locations b = some [] := rfl

/-! ### non-vacuity -/

example : (Png.write exPng [1, 2, 3]).bind Png.locations
    = some [⟨20, 15, true⟩, ⟨0, 20, false⟩, ⟨35, 27, false⟩] := by decide
example : ((Png.write exPng [1, 2, 3]).bind (Png.patch · [7, 8, 9])).bind Png.locations
    = some [⟨20, 15, true⟩, ⟨0, 20, false⟩, ⟨35, 27, false⟩] := by decide
example : Png.locations exPng = some [⟨20, 12, true⟩, ⟨0, 20, false⟩, ⟨32, 27, false⟩] := by decide

def exFmt8 : Fmt := ⟨fun s => 7 :: s, fun w => w.tail?, fun _ => 1⟩

example : locsOf exFmt8 [⟨.header, "h", [1, 2]⟩, ⟨.media, "m", [3]⟩] [5, 6]
    = [⟨2, 3, true⟩, ⟨0, 2, false⟩, ⟨5, 1, false⟩] := by decide
example : (exFmt8.wrap [1, 2]).length = (exFmt8.wrap [8, 9]).length := rfl

end C2pa.C07
