import C2paModel.Lemmas.C07Png
/-
C08 — same-size manifest replacement only changes the reported manifest region.

Statement: after a manifest is embedded, the region the handler reports as the manifest
location contains the embedded store, does not overlap any other reported region, and lies
within the file. Replacing the store with another store of the same length changes no byte
outside that region.

Layer A, for every container, store and format instance: the Cai region of `writeA F c s`
is `[caiOff F c, caiOff F c + |wrap s|)`.
-/
namespace C2pa.C07

/-- The reported regions of the written asset (layer-A `locA` at the Cai offset). -/
def locsOf (F : Fmt) (c : List Seg) (s : Bytes) : List Loc :=
  locA (caiOff F c) (F.wrap s).length (ser (writeA F c s)).length

theorem length_ser_writeA (F : Fmt) (c : List Seg) (s : Bytes) :
    (ser (writeA F c s)).length = caiOff F c + (F.wrap s).length
      + (ser ((strip c).drop (insIdx F c))).length := by
  rw [ser_writeA]; simp only [List.length_append, caiOff, offAt]

/-- **locations_wf**: the Cai region lies within the file, holds exactly the wrapped store,
and the other two regions are inside the file, do not meet the Cai region, and together with
it tile the file. -/
theorem locations_wf (F : Fmt) (c : List Seg) (s : Bytes) :
    let out := ser (writeA F c s)
    let off := caiOff F c
    let len := (F.wrap s).length
    off + len ≤ out.length ∧
    slice out off len = F.wrap s ∧
    locsOf F c s = [⟨off, len, true⟩, ⟨0, off, false⟩, ⟨off + len, out.length - (off + len), false⟩] ∧
    (0 + off ≤ off) ∧ (off + len ≤ off + len) ∧
    off + len + (out.length - (off + len)) = out.length := by
  intro out off len
  have hl : out.length = off + len + (ser ((strip c).drop (insIdx F c))).length :=
    length_ser_writeA F c s
  refine ⟨by omega, ?_, rfl, by omega, by omega, by omega⟩
  show slice (ser (writeA F c s)) (caiOff F c) (F.wrap s).length = F.wrap s
  rw [ser_writeA]
  exact slice_mid _ _ _

/-- The Cai region contains the store: when the format's wrapping is `prefix ++ store ++
suffix`, the store bytes sit inside the Cai region at the prefix length. -/
theorem cai_contains_store (F : Fmt) (c : List Seg) (s pre suf : Bytes)
    (hw : F.wrap s = pre ++ s ++ suf) :
    slice (ser (writeA F c s)) (caiOff F c + pre.length) s.length = s := by
  rw [ser_writeA, hw]
  have : ser ((strip c).take (insIdx F c)) ++ (pre ++ s ++ suf) ++ ser ((strip c).drop (insIdx F c))
      = (ser ((strip c).take (insIdx F c)) ++ pre) ++ s ++ (suf ++ ser ((strip c).drop (insIdx F c))) := by
    simp [List.append_assoc]
  rw [this]
  have hlen : caiOff F c + pre.length = (ser ((strip c).take (insIdx F c)) ++ pre).length := by
    simp [caiOff, offAt]
  rw [hlen]
  exact slice_mid _ _ _

/-- **same_size_patch_local**: two stores whose wrappings have the same length give files of
the same length that agree on every byte outside the Cai region. -/
theorem same_size_patch_local (F : Fmt) (c : List Seg) (s₁ s₂ : Bytes)
    (hlen : (F.wrap s₁).length = (F.wrap s₂).length) :
    let o₁ := ser (writeA F c s₁)
    let o₂ := ser (writeA F c s₂)
    let off := caiOff F c
    let len := (F.wrap s₁).length
    o₁.length = o₂.length ∧ o₁.take off = o₂.take off ∧ o₁.drop (off + len) = o₂.drop (off + len) ∧
    ∀ j, (j < off ∨ off + len ≤ j) → o₁[j]? = o₂[j]? := by
  intro o₁ o₂ off len
  have h1 : o₁ = ser ((strip c).take (insIdx F c)) ++ F.wrap s₁ ++ ser ((strip c).drop (insIdx F c)) :=
    ser_writeA F c s₁
  have h2 : o₂ = ser ((strip c).take (insIdx F c)) ++ F.wrap s₂ ++ ser ((strip c).drop (insIdx F c)) :=
    ser_writeA F c s₂
  have hoff : off = (ser ((strip c).take (insIdx F c))).length := rfl
  have ht : o₁.take off = o₂.take off := by
    rw [h1, h2, hoff, take_pre, take_pre]
  have hd : o₁.drop (off + len) = o₂.drop (off + len) := by
    have e1 : o₁.drop (off + len) = ser ((strip c).drop (insIdx F c)) := by
      rw [h1, hoff]; exact drop_post _ _ _
    have e2 : o₂.drop (off + len) = ser ((strip c).drop (insIdx F c)) := by
      rw [h2, hoff]; show List.drop (_ + (F.wrap s₁).length) _ = _
      rw [hlen]; exact drop_post _ _ _
    rw [e1, e2]
  refine ⟨by rw [h1, h2]; simp [hlen], ht, hd, ?_⟩
  intro j hj
  rcases hj with hj | hj
  · have a1 : (o₁.take off)[j]? = o₁[j]? := by rw [List.getElem?_take]; simp [hj]
    have a2 : (o₂.take off)[j]? = o₂[j]? := by rw [List.getElem?_take]; simp [hj]
    rw [← a1, ← a2, ht]
  · obtain ⟨k, rfl⟩ : ∃ k, j = off + len + k := ⟨j - (off + len), by omega⟩
    have a1 : (o₁.drop (off + len))[k]? = o₁[off + len + k]? := List.getElem?_drop
    have a2 : (o₂.drop (off + len))[k]? = o₂[off + len + k]? := List.getElem?_drop
    rw [← a1, ← a2, hd]

/-- In-place patching of the Cai region with the new wrapped store is the same as writing
the new store. -/
theorem patch_eq_write (F : Fmt) (c : List Seg) (s₁ s₂ : Bytes)
    (hlen : (F.wrap s₁).length = (F.wrap s₂).length) :
    patchA (ser (writeA F c s₁)) (caiOff F c) (F.wrap s₂) = ser (writeA F c s₂) := by
  unfold patchA
  rw [ser_writeA F c s₁, ser_writeA F c s₂]
  have hoff : caiOff F c = (ser ((strip c).take (insIdx F c))).length := rfl
  rw [hoff, take_pre, ← hlen, drop_post]

/-- Replacing again with the same length keeps the Cai region where it was. -/
theorem cai_region_stable (F : Fmt) (c : List Seg) (s₁ : Bytes)
    (hpos : insIdx F (writeA F c s₁) = insIdx F c) :
    caiOff F (writeA F c s₁) = caiOff F c := by
  unfold caiOff
  rw [strip_writeA, hpos]

/-! ### PNG (byte-exact layer B): equal store lengths suffice -/

theorem png_same_size_patch_local (c : List Seg) (s₁ s₂ : Bytes) (h : s₁.length = s₂.length) :
    let o₁ := ser (writeA Png.fmt c s₁)
    let o₂ := ser (writeA Png.fmt c s₂)
    let off := caiOff Png.fmt c
    o₁.length = o₂.length ∧ ∀ j, (j < off ∨ off + (s₁.length + 12) ≤ j) → o₁[j]? = o₂[j]? := by
  intro o₁ o₂ off
  have hw : (Png.fmt.wrap s₁).length = (Png.fmt.wrap s₂).length := Png.wrap_length_eq s₁ s₂ h
  obtain ⟨h1, _, _, h4⟩ := same_size_patch_local Png.fmt c s₁ s₂ hw
  refine ⟨h1, ?_⟩
  intro j hj
  apply h4
  have : (Png.fmt.wrap s₁).length = s₁.length + 12 := Png.wrap_length s₁
  rw [this]; exact hj

/-- The PNG Cai region holds the store at offset 8 (after length and chunk type). -/
theorem png_cai_contains_store (c : List Seg) (s : Bytes) :
    slice (ser (writeA Png.fmt c s)) (caiOff Png.fmt c + 8) s.length = s := by
  have := cai_contains_store Png.fmt c s (be32 s.length ++ Png.caBX) (be32 (crc32 (Png.caBX ++ s)))
    (Png.wrap_shape s)
  simpa [Png.be32_length, Png.caBX_length] using this

/-! ### non-vacuity -/

def exFmt8 : Fmt := ⟨fun s => 7 :: s, fun w => w.tail?, fun _ => 1⟩

example : locsOf exFmt8 [⟨.header, "h", [1, 2]⟩, ⟨.media, "m", [3]⟩] [5, 6]
    = [⟨2, 3, true⟩, ⟨0, 2, false⟩, ⟨5, 1, false⟩] := by decide
example : (exFmt8.wrap [1, 2]).length = (exFmt8.wrap [8, 9]).length := rfl

end C2pa.C07
