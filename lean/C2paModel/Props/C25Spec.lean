import C2paModel.Props.C25
/-
C25 — the merge as an equation: `merge_json_depth` (a fold of the overlay's entries into the
target, with in-place upserts) equals the declarative recursive right-biased union
(`unionSpec`: map over the target's entries, then append the overlay's new entries), for all
values with unique keys, at every depth counter.
-/
namespace C2pa.C25

mutual
/-- Recursive right-biased union below the depth limit, replacement otherwise — written
target-first, recursing on the *target*. -/
def unionSpec (t o : Json) (d : Nat) : Json :=
  match t, o with
  | .obj tkvs, .obj okvs =>
    if d < mergeMaxDepth then
      .obj (unionOld tkvs okvs d ++ okvs.filter (fun kv => (lookup kv.1 tkvs).isNone))
    else .obj okvs
  | _, o => o
/-- the target's entries, each merged with the overlay's value for the same key if there is one -/
def unionOld (tkvs okvs : Fields) (d : Nat) : Fields :=
  match tkvs with
  | [] => []
  | (k, tv) :: rest =>
    (k, match lookup k okvs with
        | none => tv
        | some ov => unionSpec tv ov (d + 1)) :: unionOld rest okvs d
end

theorem unionSpec_left_not_obj (t o : Json) (d : Nat) (h : t.isObj = false) : unionSpec t o d = o := by
  cases t with
  | obj kvs => simp at h
  | _ => rw [unionSpec.eq_2]; intro tkvs okvs ht; cases ht

theorem unionSpec_right_not_obj (t o : Json) (d : Nat) (h : o.isObj = false) : unionSpec t o d = o := by
  cases o with
  | obj kvs => simp at h
  | _ => rw [unionSpec.eq_2]; intro tkvs okvs _ ho; cases ho

theorem keys_append (a b : Fields) : keys (a ++ b) = keys a ++ keys b := by
  simp [keys]

theorem keys_unionOld (tkvs okvs : Fields) (d : Nat) : keys (unionOld tkvs okvs d) = keys tkvs := by
  induction tkvs with
  | nil => simp [unionOld]
  | cons hd t ih =>
    obtain ⟨k, v⟩ := hd
    simp [unionOld, ih]

theorem lookup_unionOld (tkvs okvs : Fields) (d : Nat) (k : String) :
    lookup k (unionOld tkvs okvs d) =
      match lookup k tkvs with
      | none => none
      | some tv =>
        some (match lookup k okvs with
              | none => tv
              | some ov => unionSpec tv ov (d + 1)) := by
  induction tkvs with
  | nil => simp [unionOld, lookup]
  | cons hd t ih =>
    obtain ⟨k0, v0⟩ := hd
    by_cases hk : k0 = k
    · subst hk; simp [unionOld, lookup]
    · simp [unionOld, lookup, hk, ih]

theorem lookup_append (k : String) (a b : Fields) :
    lookup k (a ++ b) = match lookup k a with | some v => some v | none => lookup k b := by
  induction a with
  | nil => simp [lookup]
  | cons hd t ih =>
    obtain ⟨k0, v0⟩ := hd
    by_cases hk : k0 = k
    · simp [lookup, hk]
    · simp [lookup, hk, ih]

theorem lookup_filter_new (k : String) (tkvs okvs : Fields) :
    lookup k (okvs.filter (fun kv => (lookup kv.1 tkvs).isNone)) =
      if (lookup k tkvs).isNone then lookup k okvs else none := by
  induction okvs with
  | nil => simp [lookup]
  | cons hd t ih =>
    obtain ⟨k0, v0⟩ := hd
    by_cases hk : k0 = k
    · subst hk
      by_cases hn : (lookup k0 tkvs).isNone = true
      · simp [hn, lookup]
      · simp only [Bool.not_eq_true] at hn
        simp [hn, ih]
    · by_cases hn : (lookup k0 tkvs).isNone = true
      · simp [hn, lookup, hk, ih]
      · simp only [Bool.not_eq_true] at hn
        simp [hn, lookup, hk, ih]

theorem keys_filter_new (tkvs okvs : Fields) :
    keys (okvs.filter (fun kv => (lookup kv.1 tkvs).isNone)) =
      (keys okvs).filter (fun k => decide (k ∉ keys tkvs)) := by
  induction okvs with
  | nil => simp
  | cons hd t ih =>
    obtain ⟨k0, v0⟩ := hd
    by_cases hm : k0 ∈ keys tkvs
    · have : (lookup k0 tkvs).isNone = false := by
        have := (lookup_isSome_iff k0 tkvs).2 hm
        cases h : lookup k0 tkvs with
        | none => rw [h] at this; cases this
        | some v => rfl
      simp [this, hm, ih]
    · have : (lookup k0 tkvs).isNone = true := by
        rw [(lookup_eq_none_iff _ _).2 hm]; rfl
      simp [this, hm, ih]

/-- two association lists with the same key sequence (without repetitions) and the same
lookups are equal -/
theorem fields_ext (a b : Fields) (hnd : (keys a).Nodup) (hk : keys a = keys b)
    (hl : ∀ k, lookup k a = lookup k b) : a = b := by
  induction a generalizing b with
  | nil =>
    cases b with
    | nil => rfl
    | cons hd t => simp [keys] at hk
  | cons hd t ih =>
    obtain ⟨k, v⟩ := hd
    cases b with
    | nil => simp [keys] at hk
    | cons hd' t' =>
      obtain ⟨k', v'⟩ := hd'
      simp only [keys_cons, List.cons.injEq] at hk
      obtain ⟨hkk, hkt⟩ := hk
      subst hkk
      simp only [keys_cons, List.nodup_cons] at hnd
      have hv : v = v' := by
        have := hl k
        simp [lookup] at this
        exact this
      subst hv
      congr 1
      apply ih _ hnd.2 hkt
      intro k0
      by_cases h0 : k = k0
      · subst h0
        rw [(lookup_eq_none_iff _ _).2 hnd.1, (lookup_eq_none_iff _ _).2 (hkt ▸ hnd.1)]
      · have := hl k0
        simpa [lookup, h0] using this

/-- **merge_eq_union.** For values with unique keys, `merge_json_depth` *is* the recursive
right-biased union — same keys, same order, same values — at every depth counter. -/
theorem merge_eq_union (t : Json) : ∀ (o : Json) (d : Nat), WF t → WF o →
    mergeDepth t o d = unionSpec t o d := by
  induction t using Json.induct with
  | hobj tkvs ih =>
    intro o d ht ho
    cases o with
    | obj okvs =>
      by_cases hd : d < mergeMaxDepth
      · rw [mergeDepth_obj_lt _ _ _ hd, unionSpec.eq_1, if_pos hd]
        have hwt := (WF_obj tkvs).1 ht
        have hwo := (WF_obj okvs).1 ho
        congr 1
        apply fields_ext
        · exact nodup_keys_mergeFields _ _ _ hwt.1
        · rw [keys_mergeFields _ _ _ hwo.1, keys_append, keys_unionOld, keys_filter_new]
        · intro k
          rw [lookup_mergeFields _ _ _ _ hwo.1, lookup_append, lookup_unionOld, lookup_filter_new]
          cases hlt : lookup k tkvs with
          | none =>
            cases hlo : lookup k okvs with
            | none => simp
            | some ov => simp [mergeDepth_null_left]
          | some tv =>
            cases hlo : lookup k okvs with
            | none => simp
            | some ov =>
              simp only [Option.getD_some, Option.some.injEq]
              exact ih (k, tv) (lookup_mem hlt) ov (d + 1) (hwt.2 _ (lookup_mem hlt))
                (hwo.2 _ (lookup_mem hlo))
      · rw [mergeDepth_obj_ge _ _ _ hd, unionSpec.eq_1, if_neg hd]
    | _ => rw [merge_right_not_obj _ _ _ rfl, unionSpec_right_not_obj _ _ _ rfl]
  | _ =>
    intro o d _ _
    rw [merge_left_not_obj _ _ _ rfl, unionSpec_left_not_obj _ _ _ rfl]

example :
    unionSpec (.obj [("verify", .obj [("a", .bool true), ("b", .bool true)]), ("v", .num "1")])
        (.obj [("n", .null), ("verify", .obj [("b", .bool false), ("c", .null)])]) 0
      = .obj [("verify", .obj [("a", .bool true), ("b", .bool false), ("c", .null)]), ("v", .num "1"),
          ("n", .null)] := by rfl

end C2pa.C25
