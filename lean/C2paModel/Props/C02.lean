import C2paModel.Model.C02
import C2paModel.Lemmas.C02A
import C2paModel.Lemmas.C02Walk
import C2paModel.Lemmas.C18Base
/-
C02 — tamper evidence of the manifest store. The statement (properties.jsonl):

  For any signed asset or manifest store, any modification of the embedded manifest store bytes
  (claim, assertions, signature, databoxes, and every ingredient/parent manifest in the same
  store) either makes reading fail, makes the validation state Invalid, or leaves the reported
  manifest content, signature information and validation codes exactly as before. A changed
  claim, assertion payload or signature is never reported Valid or Trusted.

Layer A theorems are about the model of the comparisons of `verify_claim` / `verify_internal` /
`ingredient_checks` (Model/C02.lean), which the correspondence run ties to the code at function
level (`verify` requests: a real, possibly tampered store is described to the model and the
model's failure list is compared with the log of the real `Store::verify_store`). Idealisations:
**Sig-free** (`Sig`), **H-free** (`pre` fields, `Pre`).

* `verifyClaim_nil_iff` (Lemmas/C02A) — a claim verification logs nothing **iff** the signature
  was made over exactly these claim bytes, every hashed URI is in this manifest and is either
  redacted (same manifest, label *and* instance) or equals the first box of its key, and the
  tracking multiset is used up.
* `every_assertion_bound` — under distinct (label, instance) of the hashed URIs of the (signed)
  claim, *every* assertion box present is bound: it has a hashed URI of its key and either that
  key is redacted or the box body is the signed preimage. `duplicate_uri_unbound` is the
  counter-example without the hypothesis; `duplicate_box_detected` says a second box of a key
  is always reported.
* `changed_assertion_detected` / `sibling_instance_still_bound` — a changed body of a declared,
  not redacted (label, instance) is always reported, whatever is redacted for *other* instances
  of the same label.
* `claim_binds`, `assertions_determined`, `ref_binds` — two manifests that verify under the same
  signature value have equal claims, equal assertion boxes (up to redacted keys), and their
  ingredient references pin the referenced claims.
* `walk_sound` + `chain_binds` — store level, reference paths of any length.

Layer B theorems (`uncovered_fields_enumerated`, `boxSegs_contig`, `classify_total`,
`sigPad_only_in_active_signature`) are about the byte classifier that the correspondence run
compares with the reader on every byte of real stores.

`order_not_covered` records what the code does *not* bind: the order of assertion boxes inside
the active manifest (known finding `edit-accepted-changed-report:assertion-swap`).
-/
namespace C2pa.C02
open C2pa.C18

/-! ### layer A: one claim -/

/-- **`every_assertion_bound`.** If the verification of a claim logs nothing and the hashed URIs
of the claim (decoded from the signed claim bytes) have distinct (label, instance), then every
assertion box present in the assertion store has a hashed URI of its own (label, instance), and
either exactly that (label, instance) of this manifest is redacted or the box body equals the
preimage of the URI's digest. -/
theorem every_assertion_bound (dec : Dec) (reds : List Redaction) (m : Manifest)
    (h : (verifyClaim dec reds m).log = [])
    (hnd : ((dec.decl m.claim).map (·.key)).Nodup) :
    ∀ a ∈ m.assertions, ∃ hu ∈ dec.decl m.claim, hu.key = a.key ∧
      (redactedBy reds m.label a.key = true ∨ a.body = hu.pre) := by
  obtain ⟨_, huri, htrack⟩ := (verifyClaim_nil_iff dec reds m).1 h
  intro a ha
  have h1 : 1 ≤ cnt a.key m.assertions := cnt_pos_of_mem ha rfl
  have h2 := cnt_track a.key (dec.decl m.claim) m.assertions
  rw [htrack] at h2
  have h3 : ucnt a.key (dec.decl m.claim) ≤ 1 := ucnt_le_one hnd
  have h4 : 1 ≤ ucnt a.key (dec.decl m.claim) := by simp [cnt] at h2; omega
  obtain ⟨hu, hmem, hk, _⟩ := mem_of_ucnt_pos h4
  refine ⟨hu, hmem, hk, ?_⟩
  obtain ⟨_, _, hor⟩ := huri hu hmem
  rcases hor with hr | ⟨a', hf, hb⟩
  · left; rw [← hk]; exact hr
  · right
    have hc : cnt hu.key m.assertions ≤ 1 := by rw [hk]; simp [cnt] at h2; omega
    have : a = a' := findBox_unique hf ha hk.symm hc
    rw [this]; exact hb

/-- a box is reported as undeclared as soon as there are more boxes of its (label, instance)
than hashed URIs of that (label, instance): the multiset reading of `ca_tracking_list` -/
theorem duplicate_box_detected (dec : Dec) (reds : List Redaction) (m : Manifest) (k : Key)
    (hc : ucnt k (dec.decl m.claim) < cnt k m.assertions) :
    Failure.assertionUndeclared m.label k ∈ (verifyClaim dec reds m).log ∧
      (verifyClaim dec reds m).stop = true := by
  have h2 := cnt_track k (dec.decl m.claim) m.assertions
  obtain ⟨a, ha, hk⟩ := mem_of_cnt_pos (k := k) (l := track (dec.decl m.claim) m.assertions) (by omega)
  constructor
  · unfold verifyClaim
    apply List.mem_append_right
    exact List.mem_map.2 ⟨a, ha, by rw [hk]⟩
  · rw [verifyClaim_stop_iff]
    intro h0; rw [h0] at ha; cases ha

/-- an assertion box whose (label, instance) no hashed URI declares is always reported -/
theorem undeclared_detected (dec : Dec) (reds : List Redaction) (m : Manifest) (a : AssertionBox)
    (ha : a ∈ m.assertions) (hn : ∀ hu ∈ dec.decl m.claim, hu.key ≠ a.key) :
    Failure.assertionUndeclared m.label a.key ∈ (verifyClaim dec reds m).log := by
  apply (duplicate_box_detected dec reds m a.key _).1
  have h0 : ucnt a.key (dec.decl m.claim) = 0 := by
    cases hz : ucnt a.key (dec.decl m.claim) with
    | zero => rfl
    | succ n =>
      obtain ⟨u, hu, hk, _⟩ := mem_of_ucnt_pos (k := a.key) (l := dec.decl m.claim) (by omega)
      exact absurd hk (hn u hu)
  have := cnt_pos_of_mem ha rfl
  omega

/-- **`sig_check_ignores_embedded_payload`.** The signature check — and with it the whole claim
verification — never depends on a payload embedded in the COSE_Sign1 of the signature box: two
decoders that agree on everything except the payload slot of the signature give the same result,
and a claim that differs from the signed bytes is reported whatever the payload slot holds (in
particular when it holds exactly the signed bytes). -/
theorem sig_check_ignores_embedded_payload (dec dec' : Dec) (reds : List Redaction) (m : Manifest)
    (hk : ∀ b, (dec.sigOf b).key = (dec'.sigOf b).key ∧ (dec.sigOf b).signed = (dec'.sigOf b).signed)
    (hd : dec.decl = dec'.decl) :
    verifyClaim dec reds m = verifyClaim dec' reds m ∧
    ((dec.sigOf m.sigBox).signed ≠ m.claim → Failure.sigMismatch m.label ∈ (verifyClaim dec reds m).log) := by
  constructor
  · unfold verifyClaim checkSig payloadUsed
    rw [(hk m.sigBox).2, hd]
  · intro h
    unfold verifyClaim checkSig payloadUsed
    simp [h]

/-- the forged store of the statement: payload slot = the signed bytes, claim changed -/
example : (verifyClaim ⟨fun _ => ⟨1, [7], some [7]⟩, fun _ => [], fun _ => [], fun _ => []⟩ []
    ⟨"m", 2, [8], [], [], []⟩).log = [.sigMismatch "m"] := by decide

/-- a changed claim under the same signature value is always reported -/
theorem claim_change_detected (dec : Dec) (reds : List Redaction) (m : Manifest)
    (h : (dec.sigOf m.sigBox).signed ≠ m.claim) : (verifyClaim dec reds m).log ≠ [] := by
  intro h0
  exact h ((verifyClaim_nil_iff dec reds m).1 h0).1

/-- **`changed_assertion_detected`.** A hashed URI of the claim whose exact (label, instance) is
not redacted for this manifest, and whose first box of that key has a body different from the
signed preimage (or is missing), always produces a failure. -/
theorem changed_assertion_detected (dec : Dec) (reds : List Redaction) (m : Manifest) (hu : HashedUri)
    (hmem : hu ∈ dec.decl m.claim) (hr : redactedBy reds m.label hu.key = false)
    (hb : ∀ a, findBox hu.key m.assertions = some a → a.body ≠ hu.pre) :
    (verifyClaim dec reds m).log ≠ [] := by
  intro h0
  obtain ⟨_, _, hor⟩ := ((verifyClaim_nil_iff dec reds m).1 h0).2.1 hu hmem
  rcases hor with h | ⟨a, hf, hbody⟩
  · rw [hr] at h; cases h
  · exact hb a hf hbody

/-- `redactedBy` looks at the manifest, the label *and* the instance -/
theorem redactedBy_iff (reds : List Redaction) (ml : String) (k : Key) :
    redactedBy reds ml k = true ↔ ∃ r ∈ reds, r.manifest = ml ∧ r.key.label = k.label ∧ r.key.inst = k.inst := by
  unfold redactedBy
  rw [List.any_eq_true]
  constructor
  · rintro ⟨r, hr, h⟩
    simp only [Bool.and_eq_true, decide_eq_true_eq] at h
    exact ⟨r, hr, h.1, by rw [h.2], by rw [h.2]⟩
  · rintro ⟨r, hr, h1, h2, h3⟩
    refine ⟨r, hr, ?_⟩
    simp only [Bool.and_eq_true, decide_eq_true_eq]
    refine ⟨h1, ?_⟩
    cases hk : r.key; cases k; simp_all

/-- **`sibling_instance_still_bound`.** Redactions that name *other* instances of a label (or
other manifests) do not switch off the comparison of this instance: if no redaction names this
manifest with this label and this instance, a changed body of `label__inst` is reported. -/
theorem sibling_instance_still_bound (dec : Dec) (reds : List Redaction) (m : Manifest) (hu : HashedUri)
    (hmem : hu ∈ dec.decl m.claim)
    (hother : ∀ r ∈ reds, r.manifest = m.label → r.key.label = hu.key.label → r.key.inst ≠ hu.key.inst)
    (hb : ∀ a, findBox hu.key m.assertions = some a → a.body ≠ hu.pre) :
    (verifyClaim dec reds m).log ≠ [] := by
  apply changed_assertion_detected dec reds m hu hmem _ hb
  cases hr : redactedBy reds m.label hu.key with
  | false => rfl
  | true =>
    obtain ⟨r, hrm, h1, h2, h3⟩ := (redactedBy_iff reds m.label hu.key).1 hr
    exact absurd h3 (hother r hrm h1 h2)

/-- **`claim_binds`.** Two manifests (in any two stores, under any redaction lists) that verify
without failure and carry the same signature value have equal claim bytes. -/
theorem claim_binds (dec : Dec) (reds reds' : List Redaction) (m m' : Manifest)
    (hv : (verifyClaim dec reds m).log = []) (hv' : (verifyClaim dec reds' m').log = [])
    (hsig : dec.sigOf m.sigBox = dec.sigOf m'.sigBox) : m.claim = m'.claim := by
  have h1 := ((verifyClaim_nil_iff dec reds m).1 hv).1
  have h1' := ((verifyClaim_nil_iff dec reds' m').1 hv').1
  rw [← h1, ← h1', hsig]

/-- **`assertions_determined`.** … and, when the hashed URIs of that claim have distinct
(label, instance), every assertion box of the one whose key is redacted on neither side is an
assertion box of the other (same key, same body): the assertion stores agree except for redacted
keys. -/
theorem assertions_determined (dec : Dec) (reds reds' : List Redaction) (m m' : Manifest)
    (hv : (verifyClaim dec reds m).log = []) (hv' : (verifyClaim dec reds' m').log = [])
    (hsig : dec.sigOf m.sigBox = dec.sigOf m'.sigBox)
    (hnd : ((dec.decl m.claim).map (·.key)).Nodup) :
    ∀ a ∈ m.assertions, redactedBy reds m.label a.key = false →
      redactedBy reds' m'.label a.key = false → a ∈ m'.assertions := by
  intro a ha hr hr'
  have hc := claim_binds dec reds reds' m m' hv hv' hsig
  obtain ⟨hu, hmem, hk, hor⟩ := every_assertion_bound dec reds m hv hnd a ha
  have hbody : a.body = hu.pre := by
    rcases hor with h | h
    · rw [hr] at h; cases h
    · exact h
  obtain ⟨_, _, hor'⟩ := ((verifyClaim_nil_iff dec reds' m').1 hv').2.1 hu (by rw [← hc]; exact hmem)
  rcases hor' with h | ⟨a', hf, hb⟩
  · rw [hk, hr'] at h; cases h
  · obtain ⟨hm', hk'⟩ := findBox_some hf
    have : a = a' := by
      cases a; cases a'
      simp only [AssertionBox.mk.injEq]
      exact ⟨by simpa using (hk.symm.trans hk'.symm), by simpa using (hbody.trans hb.symm)⟩
    rw [this]; exact hm'

/-! ### layer A: one ingredient reference -/

/-- a reference is *consistent* when its two digests were taken from the same manifest: the
`claimSignature` preimage is the signature box of the `activeManifest` preimage. (Both are
written by the signer of the referencing claim and covered by that claim's signature.) -/
def IngRef.Consistent (r : IngRef) : Prop :=
  ∀ b sg, r.manifestPre = .box b → r.sigPre = some sg → b.sigBox = sg

/-- **`ref_binds`.** One reference `r` (a value decoded from a bound assertion body), followed in
two stores to manifests `t` and `t'` that pass the hash comparisons of `ingredient_checks` and
verify themselves: the two manifests have equal claims — provided `r` is consistent and no v1
claim is mentioned by a redaction (for those nothing is compared: `v1_redacted_unbound`). -/
theorem ref_binds (dec : Dec) (reds reds' : List Redaction) (r : IngRef) (t t' : Manifest)
    (hc : r.Consistent)
    (h : (refFailures reds r t).log = []) (h' : (refFailures reds' r t').log = [])
    (hv : (verifyClaim dec reds t).log = []) (hv' : (verifyClaim dec reds' t').log = [])
    (h1 : hasRed reds r.target = true → t.version > 1)
    (h1' : hasRed reds' r.target = true → t'.version > 1)
    (hmix : hasRed reds r.target = hasRed reds' r.target ∨ ∃ b, r.manifestPre = .box b) :
    t.claim = t'.claim := by
  have key : t.claim = t'.claim ∨ t.sigBox = t'.sigBox := by
    unfold refFailures at h h'
    by_cases hr : hasRed reds r.target = true <;> by_cases hr' : hasRed reds' r.target = true
    · have v := h1 hr; have v' := h1' hr'
      simp only [hr, hr', Bool.not_true, Bool.false_eq_true, if_false, v, v', if_true] at h h'
      cases hs : r.sigPre with
      | none => simp [hs] at h
      | some s =>
        simp only [hs] at h h'
        right
        have e1 : t.sigBox = s := by by_cases e : t.sigBox = s; exact e; simp [e] at h
        have e2 : t'.sigBox = s := by by_cases e : t'.sigBox = s; exact e; simp [e] at h'
        rw [e1, e2]
    · have v := h1 hr
      simp only [hr, hr', Bool.not_true, Bool.not_false, Bool.false_eq_true, if_false, if_true, v] at h h'
      have e2 : r.manifestPre = .box t'.body ∨ r.manifestPre = .claim t'.claim := by
        by_cases e : r.manifestPre = .box t'.body ∨ r.manifestPre = .claim t'.claim; exact e; simp [e] at h'
      cases hs : r.sigPre with
      | none => simp [hs] at h
      | some s =>
        simp only [hs] at h
        have e1 : t.sigBox = s := by by_cases e : t.sigBox = s; exact e; simp [e] at h
        rcases hmix with hm | ⟨b, hb⟩
        · rw [hr] at hm; exact absurd hm.symm hr'
        · rcases e2 with e | e
          · right
            have := hc t'.body s e hs
            rw [e1]; exact this.symm
          · rw [hb] at e; cases e
    · have v' := h1' hr'
      simp only [hr, hr', Bool.not_true, Bool.not_false, Bool.false_eq_true, if_false, if_true, v'] at h h'
      have e1 : r.manifestPre = .box t.body ∨ r.manifestPre = .claim t.claim := by
        by_cases e : r.manifestPre = .box t.body ∨ r.manifestPre = .claim t.claim; exact e; simp [e] at h
      cases hs : r.sigPre with
      | none => simp [hs] at h'
      | some s =>
        simp only [hs] at h'
        have e2 : t'.sigBox = s := by by_cases e : t'.sigBox = s; exact e; simp [e] at h'
        rcases hmix with hm | ⟨b, hb⟩
        · rw [hm] at hr; exact absurd hr' hr
        · rcases e1 with e | e
          · right
            have := hc t.body s e hs
            rw [e2]; exact this
          · rw [hb] at e; cases e
    · simp only [hr, hr', Bool.not_false, if_true] at h h'
      have e1 : r.manifestPre = .box t.body ∨ r.manifestPre = .claim t.claim := by
        by_cases e : r.manifestPre = .box t.body ∨ r.manifestPre = .claim t.claim; exact e; simp [e] at h
      have e2 : r.manifestPre = .box t'.body ∨ r.manifestPre = .claim t'.claim := by
        by_cases e : r.manifestPre = .box t'.body ∨ r.manifestPre = .claim t'.claim; exact e; simp [e] at h'
      left
      rcases e1 with e | e <;> rcases e2 with e' | e'
      · have : t.body = t'.body := by rw [e] at e'; exact Pre.box.inj e'
        exact congrArg Body.claim this
      · rw [e] at e'; cases e'
      · rw [e] at e'; cases e'
      · rw [e] at e'; exact Pre.claim.inj e'
  rcases key with k | k
  · exact k
  · exact claim_binds dec reds reds' t t' hv hv' (by rw [k])


/-! ### layer A: the whole store, reference paths of any length -/

/-- pairs of manifests reached from the two active manifests along the same references (the
reference sits in an assertion box present in both) -/
inductive Linked (dec : Dec) (s s' : List Manifest) (root root' : Manifest) : Manifest → Manifest → Prop
  | root : Linked dec s s' root root' root root'
  | step {m m' t t' : Manifest} {a : AssertionBox} {r : IngRef} :
      Linked dec s s' root root' m m' → a ∈ m.assertions → a ∈ m'.assertions →
      r ∈ dec.refs a.body → r.zero = false →
      findManifest r.target s = some t → findManifest r.target s' = some t' →
      Linked dec s s' root root' t t'

theorem mem_allRefs {dec : Dec} {m : Manifest} {a : AssertionBox} {r : IngRef}
    (ha : a ∈ m.assertions) (hr : r ∈ dec.refs a.body) (hz : r.zero = false) : r ∈ allRefs dec m := by
  unfold allRefs
  rw [List.mem_filter]
  exact ⟨List.mem_flatMap.2 ⟨a, ha, hr⟩, by simp [hz]⟩

/-- **`chain_binds`.** Two stores whose verification logs nothing and does not stop, with the
same signature value on the active manifests: along every path of ingredient references, of any
length, the manifests reached in the two stores have been verified and have equal claim bytes
(hence, by `assertions_determined`, equal assertion boxes up to redacted keys, which is what the
next step of the path needs). Hypotheses on the signed data: references are consistent
(`IngRef.Consistent`); no v1 claim is mentioned by a redaction (`v1_redacted_unbound` shows that
nothing is compared for those); a legacy (claim-hash) reference is looked at under the same
"mentioned by a redaction" flag in both stores. -/
theorem chain_binds (dec : Dec) (s s' : List Manifest) (reds reds' : List Redaction)
    (root root' : Manifest)
    (hroot : findManifest root.label s = some root) (hroot' : findManifest root'.label s' = some root')
    (hok : verifyStoreWith dec s reds root = ⟨[], false⟩)
    (hok' : verifyStoreWith dec s' reds' root' = ⟨[], false⟩)
    (hsig : dec.sigOf root.sigBox = dec.sigOf root'.sigBox)
    (hcons : ∀ b, ∀ r ∈ dec.refs b, r.Consistent)
    (hv1 : ∀ t ∈ s, hasRed reds t.label = true → t.version > 1)
    (hv1' : ∀ t ∈ s', hasRed reds' t.label = true → t.version > 1)
    (hmix : ∀ b, ∀ r ∈ dec.refs b,
      hasRed reds r.target = hasRed reds' r.target ∨ ∃ bx, r.manifestPre = .box bx) :
    ∀ t t', Linked dec s s' root root' t t' →
      Reach dec s root t ∧ Reach dec s' root' t' ∧ t.claim = t'.claim := by
  have ws := walk_sound dec s reds root hroot hok
  have ws' := walk_sound dec s' reds' root' hroot' hok'
  intro t t' hl
  induction hl with
  | root =>
    exact ⟨.root, .root, claim_binds dec reds reds' root root' (ws root .root).1 (ws' root' .root).1 hsig⟩
  | @step m m' t t' a r _ ha ha' hr hz hf hf' ih =>
    obtain ⟨hm, hm', _⟩ := ih
    have hr1 := mem_allRefs (dec := dec) ha hr hz
    have hr2 := mem_allRefs (dec := dec) ha' hr hz
    have rt : Reach dec s root t := .step hm hr1 hf
    have rt' : Reach dec s' root' t' := .step hm' hr2 hf'
    obtain ⟨t0, hf0, hrf, _⟩ := (ws m hm).2 r hr1
    obtain ⟨t0', hf0', hrf', _⟩ := (ws' m' hm').2 r hr2
    have e : t0 = t := by rw [hf] at hf0; exact (Option.some.inj hf0).symm
    have e' : t0' = t' := by rw [hf'] at hf0'; exact (Option.some.inj hf0').symm
    subst e; subst e'
    obtain ⟨hin, hlab⟩ := findManifest_some hf
    obtain ⟨hin', hlab'⟩ := findManifest_some hf'
    refine ⟨rt, rt', ?_⟩
    exact ref_binds dec reds reds' r t0 t0' (hcons _ r hr) hrf hrf' (ws t0 rt).1 (ws' t0' rt').1
      (fun h => hv1 t0 hin (by rw [hlab]; exact h)) (fun h => hv1' t0' hin' (by rw [hlab']; exact h))
      (hmix _ r hr)

/-- the same for `verifyStore` (redactions collected from the reachable claims, as the code does) -/
theorem chain_binds_store (dec : Dec) (s s' : List Manifest) (root root' : Manifest)
    (hroot : findManifest root.label s = some root) (hroot' : findManifest root'.label s' = some root')
    (hok : verifyStore dec s root = ⟨[], false⟩) (hok' : verifyStore dec s' root' = ⟨[], false⟩)
    (hsig : dec.sigOf root.sigBox = dec.sigOf root'.sigBox)
    (hcons : ∀ b, ∀ r ∈ dec.refs b, r.Consistent)
    (hv1 : ∀ t ∈ s, hasRed (storeReds dec s root) t.label = true → t.version > 1)
    (hv1' : ∀ t ∈ s', hasRed (storeReds dec s' root') t.label = true → t.version > 1)
    (hmix : ∀ b, ∀ r ∈ dec.refs b,
      hasRed (storeReds dec s root) r.target = hasRed (storeReds dec s' root') r.target ∨
        ∃ bx, r.manifestPre = .box bx) :
    ∀ t t', Linked dec s s' root root' t t' → t.claim = t'.claim :=
  fun t t' hl => (chain_binds dec s s' _ _ root root' hroot hroot' hok hok' hsig hcons hv1 hv1' hmix t t' hl).2.2

/-! ### what layer A does not bind -/

/-- **`v1_redacted_unbound`.** For a referenced v1 claim whose label is mentioned by a redaction
the hash comparisons of `ingredient_checks` compare nothing: any manifest passes them. -/
theorem v1_redacted_unbound (reds : List Redaction) (r : IngRef) (t : Manifest)
    (hr : hasRed reds r.target = true) (hv : t.version ≤ 1) : refFailures reds r t = ⟨[], false⟩ := by
  unfold refFailures
  have : ¬ t.version > 1 := by omega
  simp [hr, this]

def exDec : Dec :=
  ⟨fun _ => ⟨1, [7], none⟩, fun _ => [⟨.relative, ⟨"a", 0⟩, [1]⟩, ⟨.relative, ⟨"b", 0⟩, [2]⟩], fun _ => [], fun _ => []⟩
def exM (as : List AssertionBox) : Manifest := ⟨"m", 2, [7], [], as, []⟩

/-- **`order_not_covered`**: the same boxes in a different order verify just as well (the reader
reports ingredients in box order: known finding). -/
theorem order_not_covered :
    verifyClaim exDec [] (exM [⟨⟨"a", 0⟩, [1]⟩, ⟨⟨"b", 0⟩, [2]⟩]) = ⟨[], false⟩ ∧
    verifyClaim exDec [] (exM [⟨⟨"b", 0⟩, [2]⟩, ⟨⟨"a", 0⟩, [1]⟩]) = ⟨[], false⟩ := by
  constructor <;> decide

example : verifyClaim exDec [] (exM [⟨⟨"a", 0⟩, [1]⟩, ⟨⟨"b", 0⟩, [3]⟩]) =
    ⟨[.assertionMismatch "m" ⟨"b", 0⟩], false⟩ := by decide
example : verifyClaim exDec [] (exM [⟨⟨"a", 0⟩, [1]⟩, ⟨⟨"b", 0⟩, [2]⟩, ⟨⟨"c", 0⟩, [2]⟩]) =
    ⟨[.assertionUndeclared "m" ⟨"c", 0⟩], true⟩ := by decide
/-- a second box with a declared key and another body: reported (the code's multiset tracking) -/
example : verifyClaim exDec [] (exM [⟨⟨"a", 0⟩, [1]⟩, ⟨⟨"b", 0⟩, [2]⟩, ⟨⟨"b", 0⟩, [9]⟩]) =
    ⟨[.assertionUndeclared "m" ⟨"b", 0⟩], true⟩ := by decide

/-- hashed URIs with a repeated (label, instance) -/
def dupDec : Dec :=
  ⟨fun _ => ⟨1, [7], none⟩, fun _ => [⟨.relative, ⟨"a", 0⟩, [1]⟩, ⟨.relative, ⟨"a", 0⟩, [1]⟩], fun _ => [], fun _ => []⟩

/-- **`duplicate_uri_unbound`**: without the distinctness hypothesis `every_assertion_bound`
fails — a claim that lists the same (label, instance) twice lets a second box of that key with
any body pass (each URI takes one box off the tracking list, both compare the *first* box). The
claim is signed, so this needs a signer that emits such a claim; the SDK's builder never does. -/
theorem duplicate_uri_unbound :
    verifyClaim dupDec [] (exM [⟨⟨"a", 0⟩, [1]⟩, ⟨⟨"a", 0⟩, [9]⟩]) = ⟨[], false⟩ ∧
    ¬ ∃ hu ∈ dupDec.decl [7], hu.key = ⟨"a", 0⟩ ∧ ([9] : Bytes) = hu.pre := by
  constructor
  · decide
  · decide

/-- redaction of instance 1 of a label, and a changed instance 2 of the same label: reported
(non-vacuity of `sibling_instance_still_bound`) -/
example : (verifyClaim
    ⟨fun _ => ⟨1, [7], none⟩, fun _ => [⟨.relative, ⟨"n", 1⟩, [1]⟩, ⟨.relative, ⟨"n", 2⟩, [2]⟩], fun _ => [], fun _ => []⟩
    [⟨"self#jumbf=/c2pa/m/c2pa.assertions/n__1", "m", ⟨"n", 1⟩⟩]
    (exM [⟨⟨"n", 1⟩, [0]⟩, ⟨⟨"n", 2⟩, [9]⟩])).log = [.assertionMismatch "m" ⟨"n", 2⟩] := by decide
/-- … while the redacted instance itself may carry anything -/
example : (verifyClaim
    ⟨fun _ => ⟨1, [7], none⟩, fun _ => [⟨.relative, ⟨"n", 1⟩, [1]⟩, ⟨.relative, ⟨"n", 2⟩, [2]⟩], fun _ => [], fun _ => []⟩
    [⟨"self#jumbf=/c2pa/m/c2pa.assertions/n__1", "m", ⟨"n", 1⟩⟩]
    (exM [⟨⟨"n", 1⟩, [0]⟩, ⟨⟨"n", 2⟩, [2]⟩])).log = [] := by decide

/-- non-vacuity of `every_assertion_bound` / `assertions_determined` / `claim_binds` -/
example : (verifyClaim exDec [] (exM [⟨⟨"a", 0⟩, [1]⟩, ⟨⟨"b", 0⟩, [2]⟩])).log = [] ∧
    ((exDec.decl (exM []).claim).map (·.key)).Nodup := by decide

/-! ### layer B: the classifier -/

/-- **`uncovered_fields_enumerated`**: the classes for which an accepted read with an unchanged
report is a permitted outcome are exactly these nine; for every other class the only permitted
outcome of a change is detection. -/
theorem uncovered_fields_enumerated (c : Cls) :
    (c.free = true ↔ c = .lbox ∨ c = .toggles ∨ c = .rootLabel ∨ c = .claimVersion ∨ c = .sigPad ∨
      c = .dataUuid ∨ c = .credLabel ∨ c = .bfdbToggles ∨ c = .cborStrHead) ∧
    (c.free = false → ∀ o, allowed c o = true → o = 'd' ∨ o = '-') := by
  constructor
  · cases c <;> simp [Cls.free]
  · intro hf o ha
    unfold allowed at ha
    rw [hf] at ha
    simp at ha
    rcases ha with h | h
    · exact Or.inr h
    · exact Or.inl h

/-- the segments follow one another from `a` to `b` without gap or overlap -/
def Contig : List Seg → Nat → Nat → Prop
  | [], a, b => a = b
  | s :: ss, a, b => s.start = a ∧ Contig ss (a + s.len) b

theorem contig_append : ∀ {l l' : List Seg} {a m b : Nat}, Contig l a m → Contig l' m b →
    Contig (l ++ l') a b
  | [], _, _, _, _, h, h' => by cases h; exact h'
  | s :: ss, l', a, m, b, h, h' => by
    obtain ⟨h1, h2⟩ := h
    exact ⟨h1, contig_append h2 h'⟩

theorem labelSegs_contig (root cred : Bool) (off : Nat) (label : Bytes) :
    Contig (labelSegs root cred off label) off (off + labelLen label) := by
  unfold labelSegs labelLen
  by_cases h : strNonEmpty label = true
  · simp only [h, if_true]
    by_cases hr : root = true
    · simp [hr, Contig]; omega
    · by_cases hd : cred = true
      · simp [hr, hd, Contig]; omega
      · by_cases hc : claimPrefix.isPrefixOf label = true
        · have hle : claimPrefix.length ≤ label.length := (List.isPrefixOf_iff_prefix.1 hc).length_le
          simp [hr, hd, hc, Contig]; omega
        · simp [hr, hd, hc, Contig]; omega
  · simp [h, Contig]

theorem descSegs_contig (ctx : Ctx) (off : Nat) (d : Desc) :
    Contig (descSegs ctx off d) off (off + (8 + (descPayload d).length)) := by
  have hlen : (descPayload d).length = d.uuid.length + 1 + labelLen d.label
      + ((match d.boxId with | some _ => 4 | none => 0) + (optBytes d.sig).length)
      + (match d.salt with | some s => 8 + s.length | none => 0) := by
    unfold descPayload labelLen serSalt
    cases d.boxId <;> cases d.salt <;> by_cases h : strNonEmpty d.label = true <;>
      simp [h, be32_length] <;> omega
  unfold descSegs
  simp only [List.cons_append, List.nil_append, Contig, true_and]
  apply contig_append (m := off + 8 + d.uuid.length + 1 + labelLen d.label)
  · exact labelSegs_contig (decide (ctx = .root)) (decide (ctx = .credChild)) (off + 8 + d.uuid.length + 1) d.label
  · rw [hlen]
    cases d.boxId <;> cases d.salt <;> simp [Contig] <;> omega

mutual
/-- **`segs_tile`**: the classifier's segments tile the serialised box exactly -/
theorem boxSegs_contig (ctx : Ctx) (off : Nat) : (b : Box) →
    Contig (boxSegs ctx off b) off (off + b.size)
  | .super d cs => by
    unfold boxSegs Box.size
    refine ⟨rfl, rfl, ?_⟩
    apply contig_append (m := off + 8 + (8 + (descPayload d).length))
    · have := descSegs_contig ctx (off + 8) d
      rw [show off + 4 + 4 = off + 8 by omega]
      exact this
    · have := listSegs_contig (childCtx ctx d.label) (off + 8 + (8 + (descPayload d).length)) cs
      rw [show off + (8 + (8 + (descPayload d).length) + sizeList cs) =
        off + 8 + (8 + (descPayload d).length) + sizeList cs by omega]
      exact this
  | .leaf _ data => by
    unfold boxSegs Box.size
    simp only [Contig, true_and]; omega
  | .uuid u data => by
    unfold boxSegs Box.size
    simp only [Contig, true_and]; omega
  | .bfdb t m _ => by
    unfold boxSegs Box.size
    have : (bfdbPayload t m).length ≥ 1 := by simp [bfdbPayload]
    simp only [Contig, true_and]; omega
theorem listSegs_contig (ctx : Ctx) (off : Nat) : (bs : List Box) →
    Contig (listSegs ctx off bs) off (off + sizeList bs)
  | [] => by unfold listSegs sizeList Contig; omega
  | b :: bs => by
    unfold listSegs sizeList
    apply contig_append (boxSegs_contig ctx off b)
    have := listSegs_contig ctx (off + b.size) bs
    rw [show off + (b.size + sizeList bs) = off + b.size + sizeList bs by omega]
    exact this
end

theorem contig_cover : ∀ {l : List Seg} {a b : Nat}, Contig l a b → ∀ p, a ≤ p → p < b →
    ∃ s ∈ l, s.start ≤ p ∧ p < s.start + s.len
  | [], a, b, h, p, h1, h2 => by
    have : a = b := h
    omega
  | s :: ss, a, b, h, p, h1, h2 => by
    obtain ⟨hs, hr⟩ := h
    by_cases hp : p < a + s.len
    · exact ⟨s, List.mem_cons_self .., by omega, by omega⟩
    · obtain ⟨t, ht, h3⟩ := contig_cover hr p (by omega) h2
      exact ⟨t, List.mem_cons_of_mem _ ht, h3⟩

/-- **`classify_total`**: every byte position of the serialised store has a class -/
theorem classify_total (t : Box) (p : Nat) (hp : p < t.size) :
    (clsAt (boxSegs .root 0 t) p).isSome = true := by
  obtain ⟨s, hs, h1, h2⟩ := contig_cover (boxSegs_contig .root 0 t) p (Nat.zero_le _) (by omega)
  unfold clsAt
  have hf : ((boxSegs .root 0 t).find? (fun s => decide (s.start ≤ p) && decide (p < s.start + s.len))).isSome
      = true := by
    rw [List.find?_isSome]
    exact ⟨s, hs, by simp [h1, h2]⟩
  cases hq : (boxSegs .root 0 t).find? (fun s => decide (s.start ≤ p) && decide (p < s.start + s.len)) with
  | none => rw [hq] at hf; cases hf
  | some x => rfl


/-! #### the pad locator cannot widen the free bytes beyond the active signature box -/

/-- **`sigPad_only_in_active_signature`**: a byte is classified `sigPad` only if it is a content
byte, lies in a pad range handed in by the harness *and* lies inside the `c2pa.signature` box of
the active manifest (`sigSpan`, located by the model on the parsed tree). -/
theorem labelSegs_no_sigPad (root cred : Bool) (off : Nat) (label : Bytes) :
    ∀ s ∈ labelSegs root cred off label, s.cls ≠ .sigPad := by
  intro s hs
  unfold labelSegs at hs
  by_cases h : strNonEmpty label = true
  · simp only [h, if_true] at hs
    by_cases hr : root = true
    · simp only [hr, if_true, List.cons_append, List.nil_append, List.mem_cons, List.not_mem_nil, or_false] at hs
      rcases hs with rfl | rfl <;> simp
    · by_cases hd : cred = true
      · simp only [hr, hd, if_true, Bool.false_eq_true, if_false, List.cons_append, List.nil_append,
          List.mem_cons, List.not_mem_nil, or_false] at hs
        rcases hs with rfl | rfl <;> simp
      · by_cases hc : claimPrefix.isPrefixOf label = true
        · simp only [hr, hd, hc, if_true, Bool.false_eq_true, if_false, List.cons_append, List.nil_append,
            List.mem_cons, List.not_mem_nil, or_false] at hs
          rcases hs with rfl | rfl | rfl <;> simp
        · simp only [hr, hd, hc, Bool.false_eq_true, if_false, List.cons_append, List.nil_append,
            List.mem_cons, List.not_mem_nil, or_false] at hs
          rcases hs with rfl | rfl <;> simp
  · simp [h] at hs

theorem descSegs_no_sigPad (ctx : Ctx) (off : Nat) (d : Desc) :
    ∀ s ∈ descSegs ctx off d, s.cls ≠ .sigPad := by
  intro s hs
  unfold descSegs at hs
  simp only [List.cons_append, List.nil_append, List.mem_cons, List.mem_append, List.not_mem_nil,
    or_false] at hs
  rcases hs with rfl | rfl | rfl | h | rfl | rfl
  · simp
  · by_cases hc : ctx = .dataChild ∨ ctx = .credChild <;> simp [hc]
  · simp
  · exact labelSegs_no_sigPad _ _ _ _ s h
  · simp
  · simp

mutual
theorem boxSegs_no_sigPad (ctx : Ctx) (off : Nat) : (b : Box) →
    ∀ s ∈ boxSegs ctx off b, s.cls ≠ .sigPad
  | .super d cs => by
    intro s hs
    unfold boxSegs at hs
    simp only [List.cons_append, List.nil_append, List.mem_cons, List.mem_append] at hs
    rcases hs with rfl | rfl | h | h
    · simp
    · simp
    · exact descSegs_no_sigPad _ _ _ s h
    · exact listSegs_no_sigPad _ _ cs s h
  | .leaf _ data => by
    intro s hs
    unfold boxSegs at hs
    simp only [List.mem_cons, List.not_mem_nil, or_false] at hs
    rcases hs with rfl | rfl | rfl
    · simp
    · simp
    · by_cases hc : ctx = .dataInner <;> simp [hc]
  | .uuid u data => by
    intro s hs
    unfold boxSegs at hs
    simp only [List.mem_cons, List.not_mem_nil, or_false] at hs
    rcases hs with rfl | rfl | rfl <;> simp
  | .bfdb t m _ => by
    intro s hs
    unfold boxSegs at hs
    simp only [List.mem_cons, List.not_mem_nil, or_false] at hs
    rcases hs with rfl | rfl | rfl | rfl <;> simp
theorem listSegs_no_sigPad (ctx : Ctx) (off : Nat) : (bs : List Box) →
    ∀ s ∈ listSegs ctx off bs, s.cls ≠ .sigPad
  | [] => by intro s hs; simp [listSegs] at hs
  | b :: bs => by
    intro s hs
    unfold listSegs at hs
    rcases List.mem_append.1 hs with h | h
    · exact boxSegs_no_sigPad ctx off b s h
    · exact listSegs_no_sigPad _ _ bs s h
end

theorem clsAt_ne_sigPad (t : Box) (p : Nat) : clsAt (boxSegs .root 0 t) p ≠ some .sigPad := by
  unfold clsAt
  cases hf : (boxSegs .root 0 t).find? (fun s => decide (s.start ≤ p) && decide (p < s.start + s.len)) with
  | none => simp
  | some s =>
    have := boxSegs_no_sigPad .root 0 t s (List.mem_of_find?_eq_some hf)
    simpa using this

theorem sigPad_only_in_active_signature (t : Box) (pads : List (Nat × Nat)) (heads : List Nat) (p : Nat)
    (h : classify t pads heads p = some .sigPad) :
    ∃ o n, sigSpan t = some (o, n) ∧ o ≤ p ∧ p < o + n ∧
      clsAt (boxSegs .root 0 t) p = some .content ∧ inRanges pads p = true := by
  unfold classify classifyWith at h
  cases hc : clsAt (boxSegs .root 0 t) p with
  | none => simp [hc] at h
  | some c =>
    cases c with
    | content =>
      simp only [hc] at h
      by_cases hi : (inSpan (sigSpan t) p && inRanges pads p) = true
      · rw [Bool.and_eq_true] at hi
        obtain ⟨h1, h2⟩ := hi
        unfold inSpan at h1
        cases hs : sigSpan t with
        | none => simp [hs] at h1
        | some on =>
          obtain ⟨o, n⟩ := on
          simp only [hs, Bool.and_eq_true, decide_eq_true_eq] at h1
          exact ⟨o, n, rfl, h1.1, h1.2, rfl, h2⟩
      · simp [hi] at h
    | sigPad => exact absurd hc (clsAt_ne_sigPad t p)
    | dataContent =>
      simp only [hc] at h
      split at h <;> cases h
    | _ => simp only [hc] at h; cases h

theorem lastChildSpan_size : ∀ {cs : List Box} {off o n : Nat} {b : Box},
    lastChildSpan off cs = some (o, n) → lastChild cs = some b →
      n = b.size ∧ off ≤ o ∧ o + n = off + sizeList cs
  | [x], off, o, n, b, h, hb => by
    simp only [lastChildSpan, Option.some.injEq, Prod.mk.injEq] at h
    simp only [lastChild, Option.some.injEq] at hb
    subst hb
    simp only [sizeList]
    omega
  | x :: y :: ys, off, o, n, b, h, hb => by
    simp only [lastChildSpan] at h
    simp only [lastChild] at hb
    have := lastChildSpan_size (cs := y :: ys) h hb
    simp only [sizeList] at this ⊢
    omega

theorem labelledSpan_bound (l : Bytes) : ∀ {bs : List Box} {off o n : Nat},
    labelledSpan l off bs = some (o, n) → off ≤ o ∧ o + n ≤ off + sizeList bs
  | b :: bs, off, o, n, h => by
    cases b with
    | super d cs =>
      simp only [labelledSpan] at h
      by_cases hl : d.label = l
      · simp only [hl, if_true, Option.some.injEq, Prod.mk.injEq] at h
        simp only [sizeList]
        omega
      · simp only [hl, if_false] at h
        have := labelledSpan_bound l h
        simp only [sizeList]
        omega
    | leaf k data =>
      simp only [labelledSpan] at h
      have := labelledSpan_bound l h
      simp only [sizeList]
      omega
    | uuid u data =>
      simp only [labelledSpan] at h
      have := labelledSpan_bound l h
      simp only [sizeList]
      omega
    | bfdb tg mt fn =>
      simp only [labelledSpan] at h
      have := labelledSpan_bound l h
      simp only [sizeList]
      omega

/-- the located signature box lies inside the active manifest -/
theorem sigSpan_in_active (t : Box) (o n : Nat) (h : sigSpan t = some (o, n)) :
    ∃ ao an, activeSpan t = some (ao, an) ∧ ao ≤ o ∧ o + n ≤ ao + an := by
  cases t with
  | super d cs =>
    unfold sigSpan at h
    cases hs : lastChildSpan (8 + (8 + (descPayload d).length)) cs with
    | none => simp [hs] at h
    | some sp =>
      obtain ⟨ao, an⟩ := sp
      cases hb : lastChild cs with
      | none => simp [hs, hb] at h
      | some b =>
        cases b with
        | super dm parts =>
          simp only [hs, hb] at h
          obtain ⟨h1, _, _⟩ := lastChildSpan_size hs hb
          have h2 := labelledSpan_bound signatureLabel h
          refine ⟨ao, an, by simp [activeSpan, hs], by omega, ?_⟩
          rw [h1]
          simp only [Box.size]
          omega
        | leaf k data => simp [hs, hb] at h
        | uuid u data => simp [hs, hb] at h
        | bfdb tg mt fn => simp [hs, hb] at h
  | leaf k data => simp [sigSpan] at h
  | uuid u data => simp [sigSpan] at h
  | bfdb tg mt fn => simp [sigSpan] at h

end C2pa.C02
