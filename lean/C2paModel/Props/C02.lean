import C2paModel.Model.C02
import C2paModel.Lemmas.C18Base
/-
C02 — tamper evidence of the manifest store. The statement (properties.jsonl):

  For any signed asset or manifest store, any modification of the embedded manifest store bytes
  (claim, assertions, signature, databoxes, and every ingredient/parent manifest in the same
  store) either makes reading fail, makes the validation state Invalid, or leaves the reported
  manifest content, signature information and validation codes exactly as before. A changed
  claim, assertion payload or signature is never reported Valid or Trusted.

Layer A theorems (`store_binds`, `undeclared_detected`) are about the coverage structure:
under **Sig-free** and **H-free** a manifest that verifies under a given signature value has
exactly the signed claim bytes, exactly the declared assertion bodies, and its ingredient
references pin the bodies (and signature boxes) of the referenced manifests; an assertion box
that the claim does not declare is always reported.

Layer B theorems (`uncovered_fields_enumerated`, `segs_tile`, `classify_total`) are about the
byte classifier that the correspondence run compares with the reader on every byte of real
stores: the classes tile the serialised store without gap or overlap, and the only classes for
which "accepted with an unchanged report" is a permitted outcome are the five enumerated ones.
That a change of a free byte does leave the report unchanged, and that the re-built boxes the
hashes run over contain every non-free field, is what only the correspondence run checks.

`order_not_covered` records what the code does *not* bind: the order of assertion boxes inside
the active manifest (known finding `edit-accepted-changed-report:assertion-swap`).
-/
namespace C2pa.C02
open C2pa.C18

/-! ### layer A -/

theorem findAssertion_some {l : String} {as : List AssertionBox} {a : AssertionBox}
    (h : findAssertion l as = some a) : a ∈ as ∧ a.label = l := by
  induction as with
  | nil => simp [findAssertion] at h
  | cons x xs ih =>
    unfold findAssertion at h
    by_cases hx : x.label = l
    · simp [hx] at h; subst h; exact ⟨List.mem_cons_self .., hx⟩
    · simp [hx] at h
      obtain ⟨h1, h2⟩ := ih h
      exact ⟨List.mem_cons_of_mem _ h1, h2⟩

theorem findManifest_some {l : String} {ms : List Manifest} {m : Manifest}
    (h : findManifest l ms = some m) : m ∈ ms ∧ m.label = l := by
  induction ms with
  | nil => simp [findManifest] at h
  | cons x xs ih =>
    unfold findManifest at h
    by_cases hx : x.label = l
    · simp [hx] at h; subst h; exact ⟨List.mem_cons_self .., hx⟩
    · simp [hx] at h
      obtain ⟨h1, h2⟩ := ih h
      exact ⟨List.mem_cons_of_mem _ h1, h2⟩

theorem checkDeclared_nil {m : Manifest} : ∀ {l : List HashedUri}, checkDeclared m l = [] →
    ∀ hu ∈ l, ∃ a, findAssertion hu.label m.assertions = some a ∧ a.body = hu.pre
  | [], _, hu, hmem => by cases hmem
  | x :: xs, h, hu, hmem => by
    unfold checkDeclared at h
    obtain ⟨h1, h2⟩ := List.append_eq_nil_iff.1 h
    rcases List.mem_cons.1 hmem with rfl | hm
    · cases hf : findAssertion hu.label m.assertions with
      | none => simp [hf] at h1
      | some a =>
        simp only [hf] at h1
        by_cases hb : a.body = hu.pre
        · exact ⟨a, rfl, hb⟩
        · simp [hb] at h1
    · exact checkDeclared_nil h2 hu hm

theorem checkRefs_nil {store : List Manifest} {m : Manifest} : ∀ {l : List IngRef},
    checkRefs store m l = [] →
    ∀ r ∈ l, ∃ t, findManifest r.target store = some t ∧ t.body = r.manifestPre ∧
      ∀ s, r.sigPre = some s → t.sigBox = s
  | [], _, r, hmem => by cases hmem
  | x :: xs, h, r, hmem => by
    unfold checkRefs at h
    obtain ⟨h1, h2⟩ := List.append_eq_nil_iff.1 h
    rcases List.mem_cons.1 hmem with rfl | hm
    · cases hf : findManifest r.target store with
      | none => simp [hf] at h1
      | some t =>
        simp only [hf] at h1
        obtain ⟨h3, h4⟩ := List.append_eq_nil_iff.1 h1
        refine ⟨t, rfl, ?_, ?_⟩
        · by_cases hb : t.body = r.manifestPre
          · exact hb
          · simp [hb] at h3
        · intro s hs
          rw [hs] at h4
          by_cases hb : t.sigBox = s
          · exact hb
          · simp [hb] at h4
    · exact checkRefs_nil h2 r hm

/-- the parts of a failure-free verification -/
theorem verifyManifest_nil {dec : Dec} {store : List Manifest} {m : Manifest}
    (h : verifyManifest dec store m = []) :
    m.sig.signed = m.claim ∧ checkDeclared m (dec.decl m.claim) = [] ∧
      checkUndeclared m (dec.decl m.claim) m.assertions = [] ∧
      checkRefs store m (allRefs dec m) = [] := by
  unfold verifyManifest at h
  obtain ⟨h123, h4⟩ := List.append_eq_nil_iff.1 h
  obtain ⟨h12, h3⟩ := List.append_eq_nil_iff.1 h123
  obtain ⟨h1, h2⟩ := List.append_eq_nil_iff.1 h12
  refine ⟨?_, h2, h3, h4⟩
  unfold checkSig at h1
  by_cases hs : m.sig.signed = m.claim
  · exact hs
  · simp [hs] at h1

/-- **`store_binds`.** Two manifests (in any two stores) that both verify without failure under
the same signature value have: equal claim bytes; for every hashed URI the claim declares, an
assertion box of that label in each with equal bodies; and for every ingredient reference made
by an assertion body they share, referenced manifests of that label in both stores with equal
manifest bodies and (when the reference carries `claimSignature`) equal signature boxes.
Idealisations: Sig-free (`Sig`), H-free (`pre` fields). -/
theorem store_binds (dec : Dec) (s s' : List Manifest) (m m' : Manifest)
    (hv : verifyManifest dec s m = []) (hv' : verifyManifest dec s' m' = [])
    (hsig : m.sig = m'.sig) :
    m.claim = m'.claim ∧
    (∀ hu ∈ dec.decl m.claim, ∃ a ∈ m.assertions, ∃ a' ∈ m'.assertions,
      a.label = hu.label ∧ a'.label = hu.label ∧ a.body = hu.pre ∧ a'.body = hu.pre) ∧
    (∀ a ∈ m.assertions, ∀ a' ∈ m'.assertions, a.body = a'.body → ∀ r ∈ dec.refs a.body,
      ∃ t ∈ s, ∃ t' ∈ s', t.label = r.target ∧ t'.label = r.target ∧ t.body = t'.body ∧
        (∀ sg, r.sigPre = some sg → t.sigBox = t'.sigBox)) := by
  obtain ⟨h1, h2, _, h4⟩ := verifyManifest_nil hv
  obtain ⟨h1', h2', _, h4'⟩ := verifyManifest_nil hv'
  have hc : m.claim = m'.claim := by rw [← h1, ← h1', hsig]
  refine ⟨hc, ?_, ?_⟩
  · intro hu hmem
    obtain ⟨a, ha, hb⟩ := checkDeclared_nil h2 hu hmem
    obtain ⟨a', ha', hb'⟩ := checkDeclared_nil h2' hu (by rw [← hc]; exact hmem)
    obtain ⟨m1, l1⟩ := findAssertion_some ha
    obtain ⟨m2, l2⟩ := findAssertion_some ha'
    exact ⟨a, m1, a', m2, l1, l2, hb, hb'⟩
  · intro a ha a' ha' hbody r hr
    have hr1 : r ∈ allRefs dec m := List.mem_flatMap.2 ⟨a, ha, hr⟩
    have hr2 : r ∈ allRefs dec m' := List.mem_flatMap.2 ⟨a', ha', by rw [← hbody]; exact hr⟩
    obtain ⟨t, ht, hb, hs⟩ := checkRefs_nil h4 r hr1
    obtain ⟨t', ht', hb', hs'⟩ := checkRefs_nil h4' r hr2
    obtain ⟨m1, l1⟩ := findManifest_some ht
    obtain ⟨m2, l2⟩ := findManifest_some ht'
    refine ⟨t, m1, t', m2, l1, l2, by rw [hb, hb'], ?_⟩
    intro sg hsg
    rw [hs sg hsg, hs' sg hsg]

/-- a changed claim under the same signature value is always reported -/
theorem claim_change_detected (dec : Dec) (s : List Manifest) (m : Manifest)
    (h : m.sig.signed ≠ m.claim) : Failure.sigMismatch m.label ∈ verifyManifest dec s m := by
  unfold verifyManifest checkSig
  simp [h]

theorem checkUndeclared_mem (m : Manifest) (decl : List HashedUri) : ∀ (as : List AssertionBox)
    (a : AssertionBox), a ∈ as → (∀ hu ∈ decl, hu.label ≠ a.label) →
    Failure.assertionUndeclared m.label a.label ∈ checkUndeclared m decl as
  | [], a, h, _ => by cases h
  | x :: xs, a, h, hn => by
    unfold checkUndeclared
    rcases List.mem_cons.1 h with rfl | hm
    · have : decl.any (fun hu => hu.label == a.label) = false := by
        rw [Bool.eq_false_iff]
        intro hh
        obtain ⟨hu, hmem, he⟩ := List.any_eq_true.1 hh
        exact hn hu hmem (by simpa using he)
      simp [this]
    · exact List.mem_append_right _ (checkUndeclared_mem m decl xs a hm hn)

/-- **`undeclared_detected`.** An assertion box in the assertion store whose label no hashed URI
of the claim declares always produces the `assertion.undeclared` failure. -/
theorem undeclared_detected (dec : Dec) (s : List Manifest) (m : Manifest) (a : AssertionBox)
    (ha : a ∈ m.assertions) (hn : ∀ hu ∈ dec.decl m.claim, hu.label ≠ a.label) :
    Failure.assertionUndeclared m.label a.label ∈ verifyManifest dec s m := by
  unfold verifyManifest
  apply List.mem_append_left
  apply List.mem_append_right
  exact checkUndeclared_mem m _ _ a ha hn

/-- a declared assertion whose body differs from the signed preimage is always reported -/
theorem assertion_change_detected (dec : Dec) (s : List Manifest) (m : Manifest) (hu : HashedUri)
    (hmem : hu ∈ dec.decl m.claim)
    (hb : ∀ a, findAssertion hu.label m.assertions = some a → a.body ≠ hu.pre) :
    verifyManifest dec s m ≠ [] := by
  intro h
  obtain ⟨_, h2, _, _⟩ := verifyManifest_nil h
  obtain ⟨a, ha, hbody⟩ := checkDeclared_nil h2 hu hmem
  exact hb a ha hbody

/-! ### what layer A does not bind: the order of the assertion boxes -/

def exDec : Dec := ⟨fun _ => [⟨"a", [1]⟩, ⟨"b", [2]⟩], fun _ => []⟩
def exM (as : List AssertionBox) : Manifest := ⟨"m", [7], ⟨1, [7]⟩, [], as, []⟩

/-- **`order_not_covered`**: the same boxes in a different order verify just as well (the reader
reports ingredients in box order: known finding). -/
theorem order_not_covered :
    verifyManifest exDec [] (exM [⟨"a", [1]⟩, ⟨"b", [2]⟩]) = [] ∧
    verifyManifest exDec [] (exM [⟨"b", [2]⟩, ⟨"a", [1]⟩]) = [] := by
  constructor <;> decide

example : verifyManifest exDec [] (exM [⟨"a", [1]⟩, ⟨"b", [3]⟩]) = [.assertionMismatch "m" "b"] := by
  decide
example : verifyManifest exDec [] (exM [⟨"a", [1]⟩, ⟨"b", [2]⟩, ⟨"c", [2]⟩]) =
    [.assertionUndeclared "m" "c"] := by decide

/-! ### layer B: the classifier -/

/-- **`uncovered_fields_enumerated`**: the classes for which an accepted read with an unchanged
report is a permitted outcome are exactly these five; for every other class the only permitted
outcome of a change is detection. -/
theorem uncovered_fields_enumerated (c : Cls) :
    (c.free = true ↔ c = .lbox ∨ c = .toggles ∨ c = .rootLabel ∨ c = .claimVersion ∨ c = .sigPad) ∧
    (c.free = false → ∀ o, allowed c o = true → o = 'd' ∨ o = '-') := by
  constructor
  · cases c <;> simp [Cls.free]
  · intro hf o ha
    unfold allowed at ha
    rw [hf] at ha
    simp at ha
    rcases ha with h | h
    · exact Or.inr h
    · exact Or.inl h

/-- the segments follow one another from `a` to `b` without gap or overlap -/
def Contig : List Seg → Nat → Nat → Prop
  | [], a, b => a = b
  | s :: ss, a, b => s.start = a ∧ Contig ss (a + s.len) b

theorem contig_append : ∀ {l l' : List Seg} {a m b : Nat}, Contig l a m → Contig l' m b →
    Contig (l ++ l') a b
  | [], _, _, _, _, h, h' => by cases h; exact h'
  | s :: ss, l', a, m, b, h, h' => by
    obtain ⟨h1, h2⟩ := h
    exact ⟨h1, contig_append h2 h'⟩

theorem labelSegs_contig (root : Bool) (off : Nat) (label : Bytes) :
    Contig (labelSegs root off label) off (off + labelLen label) := by
  unfold labelSegs labelLen
  by_cases h : strNonEmpty label = true
  · simp only [h, if_true]
    by_cases hr : root = true
    · simp [hr, Contig]; omega
    · by_cases hc : claimPrefix.isPrefixOf label = true
      · have hle : claimPrefix.length ≤ label.length := (List.isPrefixOf_iff_prefix.1 hc).length_le
        simp [hr, hc, Contig]; omega
      · simp [hr, hc, Contig]; omega
  · simp [h, Contig]

theorem descSegs_contig (root : Bool) (off : Nat) (d : Desc) :
    Contig (descSegs root off d) off (off + (8 + (descPayload d).length)) := by
  have hlen : (descPayload d).length = d.uuid.length + 1 + labelLen d.label
      + ((match d.boxId with | some _ => 4 | none => 0) + (optBytes d.sig).length)
      + (match d.salt with | some s => 8 + s.length | none => 0) := by
    unfold descPayload labelLen serSalt
    cases d.boxId <;> cases d.salt <;> by_cases h : strNonEmpty d.label = true <;>
      simp [h, be32_length] <;> omega
  unfold descSegs
  simp only [List.cons_append, List.nil_append, Contig, true_and]
  apply contig_append (m := off + 8 + d.uuid.length + 1 + labelLen d.label)
  · exact labelSegs_contig root (off + 8 + d.uuid.length + 1) d.label
  · rw [hlen]
    cases d.boxId <;> cases d.salt <;> simp [Contig] <;> omega

mutual
/-- **`segs_tile`**: the classifier's segments tile the serialised box exactly -/
theorem boxSegs_contig (root : Bool) (off : Nat) : (b : Box) →
    Contig (boxSegs root off b) off (off + b.size)
  | .super d cs => by
    unfold boxSegs Box.size
    refine ⟨rfl, rfl, ?_⟩
    apply contig_append (m := off + 8 + (8 + (descPayload d).length))
    · have := descSegs_contig root (off + 8) d
      rw [show off + 4 + 4 = off + 8 by omega]
      exact this
    · have := listSegs_contig (off + 8 + (8 + (descPayload d).length)) cs
      rw [show off + (8 + (8 + (descPayload d).length) + sizeList cs) =
        off + 8 + (8 + (descPayload d).length) + sizeList cs by omega]
      exact this
  | .leaf _ data => by
    unfold boxSegs Box.size
    simp only [Contig, true_and]; omega
  | .uuid u data => by
    unfold boxSegs Box.size
    simp only [Contig, true_and]; omega
  | .bfdb t m _ => by
    unfold boxSegs Box.size
    simp only [Contig, true_and]; omega
theorem listSegs_contig (off : Nat) : (bs : List Box) →
    Contig (listSegs off bs) off (off + sizeList bs)
  | [] => by unfold listSegs sizeList Contig; omega
  | b :: bs => by
    unfold listSegs sizeList
    apply contig_append (boxSegs_contig false off b)
    have := listSegs_contig (off + b.size) bs
    rw [show off + (b.size + sizeList bs) = off + b.size + sizeList bs by omega]
    exact this
end

theorem contig_cover : ∀ {l : List Seg} {a b : Nat}, Contig l a b → ∀ p, a ≤ p → p < b →
    ∃ s ∈ l, s.start ≤ p ∧ p < s.start + s.len
  | [], a, b, h, p, h1, h2 => by
    have : a = b := h
    omega
  | s :: ss, a, b, h, p, h1, h2 => by
    obtain ⟨hs, hr⟩ := h
    by_cases hp : p < a + s.len
    · exact ⟨s, List.mem_cons_self .., by omega, by omega⟩
    · obtain ⟨t, ht, h3⟩ := contig_cover hr p (by omega) h2
      exact ⟨t, List.mem_cons_of_mem _ ht, h3⟩

/-- **`classify_total`**: every byte position of the serialised store has a class -/
theorem classify_total (t : Box) (p : Nat) (hp : p < t.size) :
    (clsAt (boxSegs true 0 t) p).isSome = true := by
  obtain ⟨s, hs, h1, h2⟩ := contig_cover (boxSegs_contig true 0 t) p (Nat.zero_le _) (by omega)
  unfold clsAt
  have hf : ((boxSegs true 0 t).find? (fun s => decide (s.start ≤ p) && decide (p < s.start + s.len))).isSome
      = true := by
    rw [List.find?_isSome]
    exact ⟨s, hs, by simp [h1, h2]⟩
  cases hq : (boxSegs true 0 t).find? (fun s => decide (s.start ≤ p) && decide (p < s.start + s.len)) with
  | none => rw [hq] at hf; cases hf
  | some x => rfl

end C2pa.C02
