import C2paModel.Lemmas.C16
import C2paModel.Lemmas.C16Place
/-
C16 — Merkle proofs accept exactly the committed leaves.  Statement (properties.jsonl):

  For any number of leaves and any stored tree row, the proof the SDK generates for each leaf
  verifies against the stored hashes at that leaf's index. No other leaf value, index, or
  altered proof verifies.

All theorems are over every leaf list (any length), every leaf index, every `max_proof_len`
(`d`; the stored row is layer `min d (layers-1)`, so every row of the tree is covered), every
candidate value and every candidate proof, present (`some p`) or absent (`none`, the wire form
of the empty proof).  The positive half holds for every combining function.  The negative half
is stated three times, from the most abstract to the byte level:
  * `verifies_iff_committed_on` — for a combining function that is collision free relative to a
    class `D` of well-formed digests (`InjectiveOn2`); proof elements are *unrestricted*
    (wrong-length byte strings included), only the candidate value must be well formed;
  * `verifies_iff_committed` — `D = everything` (the free term algebra `Dig` is an instance);
  * `forged_acceptance_yields_collision` — nodes are byte strings, `comb a b = H (a ++ b)` exactly
    as `concat_and_hash` (no framing), `H` any function with outputs of length `L`: every accepted
    verification is either the committed leaf with (an extension of) the generated proof, or
    there are two different byte strings with the same `H`.  No unsatisfiable hypothesis.
The absent proof needs no assumption at all: `none_proof_iff`.

Reading of "no other index verifies" (DESIGN §5): verification at index `j` with value `v`
succeeds iff `v` is the committed leaf `j` — with duplicate leaves the literal reading is false
for every Merkle tree.  "Altered proof" is about the elements the playback consumes
(`check_merkle_tree` ignores trailing elements; the iff says exactly which proofs are accepted).

Defect found through this property and repaired (fixes/C16-none-proof-needs-no-sibling.patch):
before the repair the `None` arm halved the index per layer without testing for a sibling, so an
absent proof against a stored row above the leaves accepted the *inner node* `row[loc / 2^k]`
as the value of every leaf below it.  `pre_fix_none_arm_unsound` proves this of the model of the
old function (`checkMerkleTreePre`); the harness replays the witness on the implementation
(function level and through `BmffHash::verify_stream_hash`).

Second defect, asset level (fixes/C16-merkle-location-bound-to-chunk.patch): the validators took
the leaf index of a chunk from the `location` field of the chunk's `merkle` uuid box (outside
every hash) without comparing it with the position of the chunk, so any sequence of committed
chunks, each followed by its own box, verified (`pre_fix_every_rearrangement_accepted`,
`pre_fix_placement_unsound`).  Repaired code: `accepted_mdats_chunks_are_committed`,
`accepted_fragments_are_committed` (accepted ⇒ the chunk sequence is the committed leaf
sequence), `moved_chunk_acceptance_yields_collision` (byte level), `honest_stream_accepted`.
-/
namespace C2pa.C16

variable {α : Type}

/-- The stored row a proof of depth `d` is checked against. -/
def Tree.row (t : Tree α) (d : Nat) : Option (List α) :=
  t.layers[min d (t.layers.length - 1)]?

theorem fromLeaves_row (comb : α → α → α) (leaves : List α) (d : Nat) :
    (Tree.fromLeaves comb leaves).row d = some (rowAt comb leaves d) :=
  genTree_row comb leaves d

/-- `to_layout(n)` (used by the verifier) is the list of layer sizes `generate_tree`
produces for `n` leaves. -/
theorem layout_matches_tree (comb : α → α → α) (leaves : List α) :
    layout leaves.length = (Tree.fromLeaves comb leaves).layers.map List.length :=
  layout_eq_map_length comb leaves

/-- Proof generation fails exactly for an index outside the leaf list. -/
theorem getProof_none_iff (comb : α → α → α) (leaves : List α) (i d : Nat) :
    (Tree.fromLeaves comb leaves).getProof i d = none ↔ leaves.length ≤ i := by
  simp only [Tree.getProof, Tree.fromLeaves]
  by_cases h : leaves.length ≤ i
  · simp [h]
  · have : leaves ≠ [] := by intro e; subst e; simp at h
    simp [h, this]

/-- **The generated proof verifies** — any number of leaves, any index, any `max_proof_len`
(hence any stored row), any combining function, also when followed by extra elements. -/
theorem proof_verifies [DecidableEq α] (comb : α → α → α) (leaves : List α) (i d : Nat)
    (hi : i < leaves.length) :
    ∃ p row, (Tree.fromLeaves comb leaves).getProof i d = some p
      ∧ (Tree.fromLeaves comb leaves).row d = some row
      ∧ checkMerkleTree comb leaves.length row leaves[i] i (some p) = true := by
  refine ⟨proofGo (genTree comb leaves) i d, rowAt comb leaves d, ?_, fromLeaves_row comb leaves d, ?_⟩
  · have : leaves ≠ [] := by intro e; subst e; simp at hi
    simp [Tree.getProof, Tree.fromLeaves, this, hi]
  · have hv : leaves[i]? = some leaves[i] := by simp [hi]
    obtain ⟨j, h, hp, hr⟩ := play_complete comb d leaves i leaves[i] [] hv
    simp only [List.append_nil] at hp
    simp only [checkMerkleTree, ge_iff_le, Nat.not_le.mpr hi, if_false, hp]
    exact (hashCheck_iff _ _ _).mpr hr

/-- The same for an explicitly chosen stored row `r` of the tree. -/
theorem proof_verifies_row [DecidableEq α] (comb : α → α → α) (leaves : List α) (i r : Nat)
    (hi : i < leaves.length) (row : List α)
    (hrow : (Tree.fromLeaves comb leaves).layers[r]? = some row) :
    ∃ p, (Tree.fromLeaves comb leaves).getProof i r = some p
      ∧ checkMerkleTree comb leaves.length row leaves[i] i (some p) = true := by
  obtain ⟨p, row', hp, hr, hc⟩ := proof_verifies comb leaves i r hi
  have hlen : r < (genTree comb leaves).length := by
    rcases List.getElem?_eq_some_iff.mp hrow with ⟨h, _⟩; exact h
  have e : min r ((genTree comb leaves).length - 1) = r := by omega
  have : row' = row := by
    simp only [Tree.row, Tree.fromLeaves, e] at hr
    simp only [Tree.fromLeaves] at hrow
    rw [hrow] at hr
    exact (Option.some.inj hr).symm
  subst this
  exact ⟨p, hp, hc⟩

/-! ### the absent proof is the empty proof -/

/-- Refinement between the two arms of `check_merkle_tree`: an absent proof is verified exactly
like the empty proof — for every stored row (also one that is not a row of the tree), count,
value, index and combining function. -/
theorem none_proof_eq_empty_proof [DecidableEq α] (comb : α → α → α) (count : Nat)
    (hashes : List α) (v : α) (loc : Nat) :
    checkMerkleTree comb count hashes v loc none
      = checkMerkleTree comb count hashes v loc (some []) := by
  simp only [checkMerkleTree, playProof_nil]
  split
  · rfl
  · cases playEmpty (layout count) hashes.length loc <;> simp

theorem check_option_eq [DecidableEq α] (comb : α → α → α) (count : Nat)
    (hashes : List α) (v : α) (loc : Nat) (proof : Option (List α)) :
    checkMerkleTree comb count hashes v loc proof
      = checkMerkleTree comb count hashes v loc (some (proof.getD [])) := by
  cases proof with
  | none => exact none_proof_eq_empty_proof comb count hashes v loc
  | some p => rfl

/-- **Wire form of the generated proof verifies**: producers store `hashes = None` when the
generated proof is empty (bmff_hash.rs `if !proof.is_empty() { mm.hashes = Some(..) }`); what
reaches the verifier verifies, for every combining function. -/
theorem wire_proof_verifies [DecidableEq α] (comb : α → α → α) (leaves : List α) (i d : Nat)
    (hi : i < leaves.length) :
    checkMerkleTree comb leaves.length (rowAt comb leaves d) leaves[i] i
      (if (proofGo (genTree comb leaves) i d).isEmpty then none
        else some (proofGo (genTree comb leaves) i d)) = true := by
  have hv : leaves[i]? = some leaves[i] := by simp [hi]
  obtain ⟨j, h, hp, hr⟩ := play_complete comb d leaves i leaves[i] [] hv
  simp only [List.append_nil] at hp
  have hsome : checkMerkleTree comb leaves.length (rowAt comb leaves d) leaves[i] i
      (some (proofGo (genTree comb leaves) i d)) = true := by
    simp only [checkMerkleTree, ge_iff_le, Nat.not_le.mpr hi, if_false, hp]
    exact (hashCheck_iff _ _ _).mpr hr
  split
  · rename_i he
    rw [none_proof_eq_empty_proof]
    rw [List.isEmpty_iff.mp he] at hsome
    exact hsome
  · exact hsome

/-! ### exactly the committed leaf verifies -/

/-- **Exactly the committed leaf verifies.**  `D` is the class of well-formed digests (think
"has the digest length"); `comb` produces well-formed digests and is collision free relative to
`D` (`InjectiveOn2`).  Leaves and the candidate value are well formed; the proof — present or
absent, with elements of *any* shape — is unrestricted.  Against the stored row of depth `d`,
verification at index `loc` of value `v` succeeds iff `v` is the committed leaf `loc` and the
proof starts with the generated proof for `loc`. -/
theorem verifies_iff_committed_on [DecidableEq α] (comb : α → α → α) (D : α → Prop)
    (hD : ∀ a b, D (comb a b)) (hinj : InjectiveOn2 D comb)
    (leaves : List α) (hl : ∀ x ∈ leaves, D x) (d loc : Nat) (v : α) (hv : D v)
    (proof : Option (List α)) :
    checkMerkleTree comb leaves.length (rowAt comb leaves d) v loc proof = true
      ↔ leaves[loc]? = some v ∧ proofGo (genTree comb leaves) loc d <+: proof.getD [] := by
  rw [check_option_eq]
  generalize proof.getD [] = p
  constructor
  · intro hc
    simp only [checkMerkleTree, ge_iff_le] at hc
    by_cases hlt : loc < leaves.length
    · simp only [Nat.not_le.mpr hlt, if_false] at hc
      split at hc
      · rename_i j h hplay
        exact play_sound_on comb D hD hinj d leaves loc v p j h hlt hl hv hplay
          ((hashCheck_iff _ _ _).mp hc)
      · simp at hc
    · simp [Nat.le_of_not_lt hlt] at hc
  · rintro ⟨hv, hpre⟩
    obtain ⟨extra, rfl⟩ := hpre
    have hlt : loc < leaves.length := by
      rcases List.getElem?_eq_some_iff.mp hv with ⟨h, _⟩; exact h
    obtain ⟨j, h, hp, hr⟩ := play_complete comb d leaves loc v extra hv
    simp only [checkMerkleTree, ge_iff_le, Nat.not_le.mpr hlt, if_false, hp]
    exact (hashCheck_iff _ _ _).mpr hr

/-- The same for a `comb` that is injective on all pairs (no class needed). -/
theorem verifies_iff_committed [DecidableEq α] (comb : α → α → α) (hinj : Injective2 comb)
    (leaves : List α) (d loc : Nat) (v : α) (proof : Option (List α)) :
    checkMerkleTree comb leaves.length (rowAt comb leaves d) v loc proof = true
      ↔ leaves[loc]? = some v ∧ proofGo (genTree comb leaves) loc d <+: proof.getD [] :=
  verifies_iff_committed_on comb (fun _ => True) (fun _ _ => trivial)
    (fun a b c d _ _ _ h => hinj a b c d h) leaves (fun _ _ => trivial) d loc v trivial proof

/-- `verifies_iff_committed` for a present proof (the form used by the corollaries below). -/
theorem index_verifies_iff_committed [DecidableEq α] (comb : α → α → α) (hinj : Injective2 comb)
    (leaves : List α) (d loc : Nat) (v : α) (p : List α) :
    checkMerkleTree comb leaves.length (rowAt comb leaves d) v loc (some p) = true
      ↔ leaves[loc]? = some v ∧ proofGo (genTree comb leaves) loc d <+: p :=
  verifies_iff_committed comb hinj leaves d loc v (some p)

/-- **The absent proof, without any assumption on the combining function**: `None` against the
stored row of depth `d` is accepted iff the value is the committed leaf and that leaf needs no
sibling up to the stored row (its generated proof is empty: the stored row is the leaf row, or
the node is carried up unpaired).  In particular an inner node is never accepted as a leaf,
collisions or not. -/
theorem none_proof_iff [DecidableEq α] (comb : α → α → α) (leaves : List α) (d loc : Nat)
    (v : α) :
    checkMerkleTree comb leaves.length (rowAt comb leaves d) v loc none = true
      ↔ leaves[loc]? = some v ∧ proofGo (genTree comb leaves) loc d = [] := by
  rw [none_proof_eq_empty_proof]
  constructor
  · intro hc
    simp only [checkMerkleTree, ge_iff_le] at hc
    by_cases hlt : loc < leaves.length
    · simp only [Nat.not_le.mpr hlt, if_false] at hc
      split at hc
      · rename_i j h hplay
        exact play_sound_nil comb d leaves loc v j h hlt hplay ((hashCheck_iff _ _ _).mp hc)
      · simp at hc
    · simp [Nat.le_of_not_lt hlt] at hc
  · rintro ⟨hv, he⟩
    have hlt : loc < leaves.length := by
      rcases List.getElem?_eq_some_iff.mp hv with ⟨h, _⟩; exact h
    obtain ⟨j, h, hp, hr⟩ := play_complete comb d leaves loc v [] hv
    rw [he] at hp
    simp only [List.append_nil] at hp
    simp only [checkMerkleTree, ge_iff_le, Nat.not_le.mpr hlt, if_false, hp]
    exact (hashCheck_iff _ _ _).mpr hr

/-- Empty-proof playback against the leaf row (the path `validate_merkle_maps_mdat_boxes`
uses for mdat leaves): accepted iff the value is the committed leaf. No assumption on `comb`. -/
theorem none_proof_leaf_row_iff [DecidableEq α] (comb : α → α → α) (leaves : List α) (loc : Nat)
    (v : α) :
    checkMerkleTree comb leaves.length leaves v loc none = true ↔ leaves[loc]? = some v := by
  have h := none_proof_iff comb leaves 0 loc v
  have e : proofGo (genTree comb leaves) loc 0 = [] := by
    by_cases hb : 1 < leaves.length
    · rw [genTree_big comb leaves hb]; simp [proofGo]
    · rw [genTree_small comb leaves hb]; simp [proofGo]
  simpa [rowAt, e] using h

/-! ### corollaries (projections of the iff; kept as named helpers) -/

/-- A value that is not the committed leaf at `loc` is rejected, whatever the proof. -/
theorem wrong_leaf_rejected [DecidableEq α] (comb : α → α → α) (hinj : Injective2 comb)
    (leaves : List α) (d loc : Nat) (v : α) (proof : Option (List α))
    (hne : leaves[loc]? ≠ some v) :
    checkMerkleTree comb leaves.length (rowAt comb leaves d) v loc proof = false := by
  cases hc : checkMerkleTree comb leaves.length (rowAt comb leaves d) v loc proof with
  | false => rfl
  | true => exact absurd ((verifies_iff_committed comb hinj leaves d loc v proof).mp hc).1 hne

/-- A proof that differs from the generated proof in an element the playback consumes
(position `k` below the generated proof's length), or is shorter than it, is rejected. -/
theorem wrong_consumed_proof_elem_rejected [DecidableEq α] (comb : α → α → α)
    (hinj : Injective2 comb) (leaves : List α) (d loc : Nat) (v : α) (p : List α) (k : Nat)
    (hk : k < (proofGo (genTree comb leaves) loc d).length)
    (hne : p[k]? ≠ (proofGo (genTree comb leaves) loc d)[k]?) :
    checkMerkleTree comb leaves.length (rowAt comb leaves d) v loc (some p) = false := by
  cases hc : checkMerkleTree comb leaves.length (rowAt comb leaves d) v loc (some p) with
  | false => rfl
  | true =>
    obtain ⟨extra, rfl⟩ := ((index_verifies_iff_committed comb hinj leaves d loc v p).mp hc).2
    exact absurd (List.getElem?_append_left hk) hne

/-- Every accepted proof is the generated proof followed by ignored elements
(stated for the committed value; the other direction is `proof_verifies`). -/
theorem accepted_proofs_extend_honest [DecidableEq α] (comb : α → α → α) (hinj : Injective2 comb)
    (leaves : List α) (d loc : Nat) (v : α) (p : List α)
    (hc : checkMerkleTree comb leaves.length (rowAt comb leaves d) v loc (some p) = true) :
    ∃ extra, p = proofGo (genTree comb leaves) loc d ++ extra := by
  obtain ⟨extra, rfl⟩ := ((index_verifies_iff_committed comb hinj leaves d loc v p).mp hc).2
  exact ⟨extra, rfl⟩

/-- An index at or beyond `count` is rejected for every stored row, value and proof
(including the absent proof). -/
theorem out_of_range_rejected [DecidableEq α] (comb : α → α → α) (count : Nat) (hashes : List α)
    (v : α) (loc : Nat) (proof : Option (List α)) (h : count ≤ loc) :
    checkMerkleTree comb count hashes v loc proof = false := by
  simp [checkMerkleTree, h]

/-! ### byte level: `concat_and_hash` without framing -/

/-- `concat_and_hash(alg, left, Some(right))` = `hash_by_alg(alg, left ‖ right)`: plain
concatenation, no length prefix, no leaf/node domain separation. -/
def concatHash (H : List UInt8 → List UInt8) (a b : List UInt8) : List UInt8 := H (a ++ b)

/-- A collision-free `H` makes the unframed `concatHash` collision free relative to the byte
strings of one fixed length: the split point of `a ‖ b` is known as soon as one side has that
length. -/
theorem concatHash_injectiveOn (H : List UInt8 → List UInt8) (L : Nat)
    (hH : ∀ x y, H x = H y → x = y) :
    InjectiveOn2 (fun x => x.length = L) (concatHash H) := by
  intro a b c d hc hd hab h
  have e : a ++ b = c ++ d := hH _ _ h
  rcases hab with ha | hb
  · exact List.append_inj e (by rw [ha, hc])
  · exact List.append_inj' e (by rw [hb, hd])

/-- **Byte-level statement, no idealised hypothesis.**  Nodes are byte strings, the combining
function is the code's unframed `H (a ‖ b)`, `H` is *any* function with `L`-byte outputs (e.g.
SHA-256, `L = 32`), leaves and the candidate value are `L`-byte digests (at every call site the
value is `hash_stream_by_alg(alg, …)`), the proof is any option of any list of byte strings of
any lengths.  Then an accepted verification is the committed leaf with an extension of the
generated proof — or two different byte strings with the same `H` exist. -/
theorem forged_acceptance_yields_collision (H : List UInt8 → List UInt8) (L : Nat)
    (hL : ∀ x, (H x).length = L) (leaves : List (List UInt8)) (hl : ∀ x ∈ leaves, x.length = L)
    (d loc : Nat) (v : List UInt8) (hv : v.length = L) (proof : Option (List (List UInt8)))
    (hacc : checkMerkleTree (concatHash H) leaves.length (rowAt (concatHash H) leaves d) v loc
      proof = true) :
    (leaves[loc]? = some v ∧ proofGo (genTree (concatHash H) leaves) loc d <+: proof.getD [])
      ∨ ∃ x y, x ≠ y ∧ H x = H y := by
  by_cases hc : ∃ x y, x ≠ y ∧ H x = H y
  · exact Or.inr hc
  · have hH : ∀ x y, H x = H y → x = y := fun x y h =>
      Classical.byContradiction fun hne => hc ⟨x, y, hne, h⟩
    exact Or.inl ((verifies_iff_committed_on (concatHash H) (fun x => x.length = L)
      (fun a b => hL (a ++ b)) (concatHash_injectiveOn H L hH) leaves hl d loc v hv proof).mp hacc)

-- non-vacuity of the hypotheses of `forged_acceptance_yields_collision`: a 2-byte "hash"
example : ∃ H : List UInt8 → List UInt8, ∀ x, (H x).length = 2 :=
  ⟨fun x => [x.headD 0, (x.drop 1).headD 0], fun _ => rfl⟩

/-- The hypothesis "the candidate value is well formed" cannot be dropped for an unframed
`comb`: with plain concatenation as (perfectly collision-free) `H` and digests of length 2, the
1-element value `[4]` with the over-long proof element `[1,2,3]` verifies at index 1 of the tree
over `[1,2],[3,4]` although the committed leaf is `[3,4]`.  (Function-level only: no call site
passes a value that is not an `alg` digest.) -/
theorem value_length_hypothesis_needed :
    checkMerkleTree (concatHash id) 2 (rowAt (concatHash id) [[1, 2], [3, 4]] 1) [4] 1
      (some [[1, 2, 3]]) = true := by decide +kernel

/-! ### the defect of the unrepaired function -/

/-- The property clause for the `None` arm, about the function **before** the repair. -/
def PreFixNoneArmSound : Prop :=
  ∀ (leaves : List Dig) (d loc : Nat) (v : Dig),
    checkMerkleTreePre Dig.comb leaves.length (rowAt Dig.comb leaves d) v loc none = true →
      leaves[loc]? = some v

/-- Before the repair the clause was false: with two leaves and the root row stored, the root
`comb 0 1` was accepted as the value of leaf 0 (and of leaf 1) by an absent proof. -/
theorem pre_fix_none_arm_unsound : ¬ PreFixNoneArmSound := by
  intro h
  have := h [.leaf 0, .leaf 1] 1 0 (.comb (.leaf 0) (.leaf 1)) (by decide +kernel)
  exact absurd this (by decide)

/-- The repaired function rejects that witness. -/
theorem fixed_rejects_pre_fix_witness :
    checkMerkleTree Dig.comb 2 (rowAt Dig.comb [.leaf 0, .leaf 1] 1) (.comb (.leaf 0) (.leaf 1))
      0 none = false := by decide +kernel

/-- The two functions differ only in the `None` arm. -/
theorem pre_fix_same_on_present_proofs [DecidableEq α] (comb : α → α → α) (count : Nat)
    (hashes : List α) (v : α) (loc : Nat) (p : List α) :
    checkMerkleTreePre comb count hashes v loc (some p)
      = checkMerkleTree comb count hashes v loc (some p) := rfl

/-! ### the leaf index of a chunk is its position

Asset level.  `verifies_iff_committed_on` is about one call `check_merkle_tree(value, location,
proof)`; what the property needs of an asset is that the chunk standing at position `i` is the
committed leaf `i`.  Both `location` and the proof are read from the chunk's `merkle` uuid box,
which is outside every hash, so this holds only if the validator ties `location` to the position
it is hashing.  Repaired code (fixes/C16-merkle-location-bound-to-chunk.patch): `chunksGo`. -/

/-- The loop over the chunk positions, started at position `i`: every chunk it accepts is the
committed leaf of its own position — whatever the boxes (locations, proofs) say. -/
theorem chunksGo_sound [DecidableEq α] (comb : α → α → α) (D : α → Prop)
    (hD : ∀ a b, D (comb a b)) (hinj : InjectiveOn2 D comb)
    (leaves : List α) (hl : ∀ x ∈ leaves, D x) (d : Nat) :
    ∀ (chunks : List α) (boxes : List (Box α)) (i : Nat), (∀ c ∈ chunks, D c) →
      chunksGo comb leaves.length (rowAt comb leaves d) i chunks boxes = true →
        ∀ k c, chunks[k]? = some c → leaves[i + k]? = some c
  | [], _, _, _, _ => by simp
  | _ :: _, [], _, _, h => by simp [chunksGo] at h
  | c :: cs, b :: bs, i, hc, h => by
    simp only [chunksGo, ne_eq, ite_not] at h
    by_cases hloc : b.location = i
    · simp only [hloc, if_true] at h
      by_cases hchk : checkMerkleTree comb leaves.length (rowAt comb leaves d) c i b.hashes = true
      · simp only [hchk, if_true] at h
        have hhead := ((verifies_iff_committed_on comb D hD hinj leaves hl d i c
          (hc c List.mem_cons_self) b.hashes).mp hchk).1
        have htail := chunksGo_sound comb D hD hinj leaves hl d cs bs (i + 1)
          (fun x hx => hc x (List.mem_cons_of_mem _ hx)) h
        intro k c' hk
        cases k with
        | zero =>
          simp only [List.getElem?_cons_zero, Option.some.injEq] at hk
          subst hk
          simpa using hhead
        | succ k =>
          simp only [List.getElem?_cons_succ] at hk
          have := htail k c' hk
          rwa [show i + 1 + k = i + (k + 1) by omega] at this
      · simp [hchk] at h
    · simp [hloc] at h

/-- One mdat box with a group of exactly `count` boxes: accepted ⇒ the chunk sequence **is** the
committed leaf sequence (no chunk altered, moved, repeated, dropped or added). -/
theorem validateGroup_sound [DecidableEq α] (comb : α → α → α) (D : α → Prop)
    (hD : ∀ a b, D (comb a b)) (hinj : InjectiveOn2 D comb)
    (leaves : List α) (hl : ∀ x ∈ leaves, D x) (d : Nat) (m : Mdat α)
    (hcount : m.count = leaves.length) (hrow : m.hashes = rowAt comb leaves d)
    (hc : ∀ c ∈ m.chunks, D c) (group : List (Box α)) (hg : group.length = m.count)
    (hacc : validateGroup comb m group = true) : m.chunks = leaves := by
  simp only [validateGroup, ne_eq, ite_not] at hacc
  by_cases hlen : m.chunks.length = group.length
  · simp only [hlen, if_true, hcount, hrow] at hacc
    have hs := chunksGo_sound comb D hD hinj leaves hl d m.chunks group 0 hc hacc
    apply List.ext_getElem?
    intro k
    by_cases hk : k < m.chunks.length
    · have := hs k m.chunks[k] (by simp [hk])
      simp only [Nat.zero_add] at this
      rw [this]; simp [hk]
    · have h1 : m.chunks[k]? = none := by simp; omega
      have h2 : leaves[k]? = none := by simp; omega
      rw [h1, h2]
  · simp [hlen] at hacc

/-- **Asset level, mdat path with proof boxes (`validate_merkle_maps_mdat_boxes`).**  For any
number of mdat boxes / MerkleMaps, any `merkle` uuid boxes (any locations, any proofs — absent,
present, elements of any shape, any number of boxes): if the validator accepts, then for every
MerkleMap whose stored row is a row of the tree over its committed leaves, the chunks of its mdat
box are exactly the committed leaves, position by position.  Hypotheses are about inputs only:
the chunk digests and leaves are well-formed digests, `comb` is collision free relative to
them. -/
theorem accepted_mdats_chunks_are_committed [DecidableEq α] (comb : α → α → α) (D : α → Prop)
    (hD : ∀ a b, D (comb a b)) (hinj : InjectiveOn2 D comb)
    (mdats : List (Mdat α)) (boxes : List (Box α))
    (hacc : validateMdatsUuid comb mdats boxes = true)
    (m : Mdat α) (hm : m ∈ mdats) (leaves : List α) (hl : ∀ x ∈ leaves, D x) (d : Nat)
    (hcount : m.count = leaves.length) (hrow : m.hashes = rowAt comb leaves d)
    (hc : ∀ c ∈ m.chunks, D c) : m.chunks = leaves := by
  simp only [validateMdatsUuid] at hacc
  split at hacc
  · simp at hacc
  · rename_i groups hsplit
    by_cases hlen : mdats.length = groups.length
    · simp only [hlen, ne_eq, not_true_eq_false, if_false, List.all_eq_true] at hacc
      have hmm := hacc m hm
      obtain ⟨g, hlook, hglen⟩ := splitBoxes_group mdats boxes groups hsplit hlen m hm
      simp only [hlook] at hmm
      exact validateGroup_sound comb D hD hinj leaves hl d m hcount hrow hc g hglen hmm
    · simp [hlen] at hacc

/-- The fragmented single-file branch: accepted ⇒ the fragments are the committed leaves in
order. -/
theorem accepted_fragments_are_committed [DecidableEq α] (comb : α → α → α) (D : α → Prop)
    (hD : ∀ a b, D (comb a b)) (hinj : InjectiveOn2 D comb)
    (leaves : List α) (hl : ∀ x ∈ leaves, D x) (d : Nat) (chunks : List α)
    (hc : ∀ c ∈ chunks, D c) (boxes : List (Box α))
    (hacc : validateFragments comb leaves.length (rowAt comb leaves d) chunks boxes = true) :
    chunks = leaves := by
  simp only [validateFragments, ne_eq, Bool.or_eq_true, decide_eq_true_eq] at hacc
  by_cases hlen : chunks.length = leaves.length ∧ boxes.length = leaves.length
  · have hno : ¬ (¬ chunks.length = leaves.length ∨ ¬ boxes.length = leaves.length) := by
      intro h; rcases h with h | h
      · exact h hlen.1
      · exact h hlen.2
    simp only [hno, if_false] at hacc
    have hg : validateGroup comb ⟨0, leaves.length, rowAt comb leaves d, chunks⟩ boxes = true := by
      simp only [validateGroup, ne_eq, ite_not]
      rw [if_pos (by rw [hlen.1, hlen.2])]
      exact hacc
    exact validateGroup_sound comb D hD hinj leaves hl d
      ⟨0, leaves.length, rowAt comb leaves d, chunks⟩ rfl rfl hc boxes hlen.2 hg
  · have : ¬ chunks.length = leaves.length ∨ ¬ boxes.length = leaves.length := by
      by_cases h1 : chunks.length = leaves.length
      · exact Or.inr fun h2 => hlen ⟨h1, h2⟩
      · exact Or.inl h1
    simp [this] at hacc

/-- **Byte level, no idealised hypothesis** (the form of `forged_acceptance_yields_collision`):
nodes are byte strings, `comb a b = H (a ‖ b)`, `H` any function with `L`-byte outputs; chunk
digests are outputs of the hash (`L` bytes).  If the validator accepts the stream then the
chunks of every MerkleMap's mdat box are exactly its committed leaves — or two different byte
strings with the same `H` exist. -/
theorem moved_chunk_acceptance_yields_collision (H : List UInt8 → List UInt8) (L : Nat)
    (hL : ∀ x, (H x).length = L) (mdats : List (Mdat (List UInt8)))
    (boxes : List (Box (List UInt8)))
    (hacc : validateMdatsUuid (concatHash H) mdats boxes = true)
    (m : Mdat (List UInt8)) (hm : m ∈ mdats) (leaves : List (List UInt8))
    (hl : ∀ x ∈ leaves, x.length = L) (d : Nat) (hcount : m.count = leaves.length)
    (hrow : m.hashes = rowAt (concatHash H) leaves d) (hc : ∀ c ∈ m.chunks, c.length = L) :
    m.chunks = leaves ∨ ∃ x y, x ≠ y ∧ H x = H y := by
  by_cases hcol : ∃ x y, x ≠ y ∧ H x = H y
  · exact Or.inr hcol
  · have hH : ∀ x y, H x = H y → x = y := fun x y h =>
      Classical.byContradiction fun hne => hcol ⟨x, y, hne, h⟩
    exact Or.inl (accepted_mdats_chunks_are_committed (concatHash H) (fun x => x.length = L)
      (fun a b => hL (a ++ b)) (concatHash_injectiveOn H L hH) mdats boxes hacc m hm leaves hl d
      hcount hrow hc)

/-! #### the honest stream is accepted -/

theorem chunksGo_complete [DecidableEq α] (comb : α → α → α) (count : Nat) (hashes : List α) :
    ∀ (chunks : List α) (boxes : List (Box α)) (i : Nat), chunks.length = boxes.length →
      (∀ k c b, chunks[k]? = some c → boxes[k]? = some b →
        b.location = i + k ∧ checkMerkleTree comb count hashes c (i + k) b.hashes = true) →
      chunksGo comb count hashes i chunks boxes = true
  | [], _, _, _, _ => by simp [chunksGo]
  | _ :: _, [], _, h, _ => by simp at h
  | c :: cs, b :: bs, i, hlen, h => by
    have h0 := h 0 c b (by simp) (by simp)
    simp only [Nat.add_zero] at h0
    simp only [chunksGo, ne_eq, ite_not, h0.1, if_true, h0.2]
    apply chunksGo_complete comb count hashes cs bs (i + 1) (by simpa using hlen)
    intro k c' b' hc' hb'
    have := h (k + 1) c' b' (by simpa using hc') (by simpa using hb')
    rwa [show i + (k + 1) = i + 1 + k by omega] at this

/-- the box the SDK writes for leaf `i` (`create_merkle_map_for_mdat_box`: `location: i`,
`hashes` present only when the generated proof is not empty) -/
def honestBox (comb : α → α → α) (leaves : List α) (d i : Nat) : Box α :=
  { location := i
    hashes := if (proofGo (genTree comb leaves) i d).isEmpty then none
      else some (proofGo (genTree comb leaves) i d) }

/-- **The honest stream verifies** (one mdat box, any stored row, any combining function): the
committed chunks in order with the boxes the SDK writes are accepted. -/
theorem honest_stream_accepted [DecidableEq α] (comb : α → α → α) (leaves : List α)
    (d lid : Nat) :
    validateMdatsUuid comb [⟨lid, leaves.length, rowAt comb leaves d, leaves⟩]
      ((List.range leaves.length).map (honestBox comb leaves d)) = true := by
  have hsplit : splitBoxes [(⟨lid, leaves.length, rowAt comb leaves d, leaves⟩ : Mdat α)]
      ((List.range leaves.length).map (honestBox comb leaves d)) []
      = some [(lid, (List.range leaves.length).map (honestBox comb leaves d))] := by
    have ht : ((List.range leaves.length).map (honestBox comb leaves d)).take leaves.length
        = (List.range leaves.length).map (honestBox comb leaves d) :=
      List.take_of_length_le (by simp)
    simp [splitBoxes, mapInsert, ht]
  simp only [validateMdatsUuid, hsplit, List.length_cons, List.length_nil, ne_eq,
    not_true_eq_false, if_false, List.all_cons, List.all_nil, Bool.and_true]
  simp only [List.lookup, beq_self_eq_true, validateGroup, List.length_map, List.length_range,
    ne_eq, not_true_eq_false, if_false]
  apply chunksGo_complete comb _ _ leaves _ 0 (by simp)
  intro k c b hc hb
  have hk : k < leaves.length := by
    rcases List.getElem?_eq_some_iff.mp hc with ⟨h, _⟩; exact h
  have hb' : b = honestBox comb leaves d k := by
    simp [hk] at hb
    exact hb.symm
  have hc' : c = leaves[k] := by
    rcases List.getElem?_eq_some_iff.mp hc with ⟨_, h⟩; exact h.symm
  subst hb' hc'
  simp only [Nat.zero_add]
  exact ⟨rfl, wire_proof_verifies comb leaves k d hk⟩

/-! #### the defect of the unrepaired loop: `location` free ⇒ every rearrangement accepted -/

theorem chunksGoPre_complete [DecidableEq α] (comb : α → α → α) (count : Nat) (hashes : List α) :
    ∀ (ps : List (α × Box α)),
      (∀ p ∈ ps, checkMerkleTree comb count hashes p.1 p.2.location p.2.hashes = true) →
      chunksGoPre comb count hashes (ps.map Prod.fst) (ps.map Prod.snd) = true
  | [], _ => by simp [chunksGoPre]
  | p :: ps, h => by
    simp only [List.map_cons, chunksGoPre, h p List.mem_cons_self, if_true]
    exact chunksGoPre_complete comb count hashes ps fun q hq => h q (List.mem_cons_of_mem _ hq)

/-- **Before the repair**: take *any* sequence `js` of leaf indices (repetitions allowed, any
order, any length); put at position `k` the committed chunk `js[k]` together with the box the
SDK wrote for leaf `js[k]`.  The unrepaired loop accepted it, for every combining function —
nothing tied a chunk to its position. -/
theorem pre_fix_every_rearrangement_accepted [DecidableEq α] (comb : α → α → α)
    (leaves : List α) (d lid : Nat) (js : List (Fin leaves.length)) :
    validateGroupPre comb
      ⟨lid, leaves.length, rowAt comb leaves d, js.map fun j => leaves[j.val]⟩
      (js.map fun j => honestBox comb leaves d j.val) = true := by
  simp only [validateGroupPre, List.length_map, ne_eq, not_true_eq_false, if_false]
  have := chunksGoPre_complete comb leaves.length (rowAt comb leaves d)
    (js.map fun j => (leaves[j.val], honestBox comb leaves d j.val))
    (by
      intro p hp
      obtain ⟨j, _, rfl⟩ := List.mem_map.mp hp
      exact wire_proof_verifies comb leaves j.val d j.isLt)
  simpa [List.map_map, Function.comp_def] using this

/-- The placement clause about the loop **before** the repair. -/
def PreFixPlacementSound : Prop :=
  ∀ (leaves chunks : List Dig) (d : Nat) (group : List (Box Dig)),
    group.length = leaves.length →
    validateGroupPre Dig.comb ⟨0, leaves.length, rowAt Dig.comb leaves d, chunks⟩ group = true →
      chunks = leaves

/-- It was false, even in the free algebra (no collisions): three chunks, root row stored, all
three positions filled with chunk 0 and its box — accepted. -/
theorem pre_fix_placement_unsound : ¬ PreFixPlacementSound := by
  intro h
  have := h [.leaf 0, .leaf 1, .leaf 2] [.leaf 0, .leaf 0, .leaf 0] 2
    [⟨0, some [.leaf 1, .leaf 2]⟩, ⟨0, some [.leaf 1, .leaf 2]⟩, ⟨0, some [.leaf 1, .leaf 2]⟩]
    rfl (by decide +kernel)
  exact absurd this (by decide)

/-- The repaired validator rejects that witness (and the swap of two chunks with their boxes). -/
theorem fixed_rejects_placement_witness :
    validateMdatsUuid Dig.comb
      [⟨0, 3, rowAt Dig.comb [.leaf 0, .leaf 1, .leaf 2] 2, [.leaf 0, .leaf 0, .leaf 0]⟩]
      [⟨0, some [.leaf 1, .leaf 2]⟩, ⟨0, some [.leaf 1, .leaf 2]⟩, ⟨0, some [.leaf 1, .leaf 2]⟩]
      = false
    ∧ validateMdatsUuid Dig.comb
      [⟨0, 2, rowAt Dig.comb [.leaf 0, .leaf 1] 0, [.leaf 1, .leaf 0]⟩]
      [⟨1, none⟩, ⟨0, none⟩] = false := by
  constructor <;> decide +kernel

-- non-vacuity of `accepted_mdats_chunks_are_committed`: an accepted two-mdat stream whose
-- MerkleMaps have the local ids 17 and 12 (rows 1 and 0), boxes in file order
example :
    validateMdatsUuid Dig.comb
      [⟨17, 2, rowAt Dig.comb [.leaf 0, .leaf 1] 1, [.leaf 0, .leaf 1]⟩,
       ⟨12, 2, rowAt Dig.comb [.leaf 1000, .leaf 1001] 0, [.leaf 1000, .leaf 1001]⟩]
      [⟨0, some [.leaf 1]⟩, ⟨1, some [.leaf 0]⟩, ⟨0, none⟩, ⟨1, none⟩] = true := by
  decide +kernel

-- two MerkleMaps with the same local id: the second group overwrites the first, rejected
example :
    validateMdatsUuid Dig.comb
      [⟨5, 1, [.leaf 0], [.leaf 0]⟩, ⟨5, 1, [.leaf 0], [.leaf 0]⟩]
      [⟨0, none⟩, ⟨0, none⟩] = false := by
  decide +kernel

/-! ### the free algebra instance and non-vacuity -/

theorem Dig.comb_injective : Injective2 Dig.comb := by
  intro a b c d h
  cases h
  exact ⟨rfl, rfl⟩

/-- The statement for digests as free terms: a value verifies at `loc` iff it is the
committed leaf `loc` (and the proof extends the generated one). -/
theorem index_verifies_iff_committed_free (leaves : List Dig) (d loc : Nat) (v : Dig)
    (p : List Dig) :
    checkMerkleTree Dig.comb leaves.length (rowAt Dig.comb leaves d) v loc (some p) = true
      ↔ leaves[loc]? = some v ∧ proofGo (genTree Dig.comb leaves) loc d <+: p :=
  index_verifies_iff_committed Dig.comb Dig.comb_injective leaves d loc v p

/-- Injectivity is needed: with a collapsing `comb` a wrong leaf is accepted. -/
example :
    checkMerkleTree (fun _ _ => (0 : Nat)) 2 (rowAt (fun _ _ => 0) [1, 2] 1) 7 0 (some [9])
      = true := by decide +kernel

-- `InjectiveOn2` is satisfiable where `Injective2` is not: plain concatenation of byte
-- strings, relative to the strings of length 2 …
example : InjectiveOn2 (fun x : List UInt8 => x.length = 2) (concatHash id) :=
  concatHash_injectiveOn id 2 (fun _ _ h => h)

-- … is not injective on all pairs.
example : ¬ Injective2 (concatHash id) := by
  intro h
  have := h [1] [2, 3] [1, 2] [3] (by decide)
  exact absurd this.1 (by decide)

-- Non-vacuity: a 5-leaf tree (odd-node promotion on two levels), row 2, leaf 4 (promoted twice).
example :
    (Tree.fromLeaves Dig.comb ((List.range 5).map Dig.leaf)).layers.map List.length = [5, 3, 2, 1] := by
  decide +kernel

example :
    (Tree.fromLeaves Dig.comb ((List.range 5).map Dig.leaf)).getProof 4 9
      = some [.comb (.comb (.leaf 0) (.leaf 1)) (.comb (.leaf 2) (.leaf 3))] := by
  decide +kernel

-- leaf 4 of 5 against row 2 has the empty proof; its wire form `none` verifies, and `none`
-- for leaf 3 (which has siblings) or for the inner node above leaf 0 does not
example :
    checkMerkleTree Dig.comb 5 (rowAt Dig.comb ((List.range 5).map Dig.leaf) 2) (.leaf 4) 4 none
      = true := by decide +kernel

example :
    checkMerkleTree Dig.comb 5 (rowAt Dig.comb ((List.range 5).map Dig.leaf) 2) (.leaf 3) 3 none
      = false := by decide +kernel

example :
    checkMerkleTree Dig.comb 5 (rowAt Dig.comb ((List.range 5).map Dig.leaf) 2)
      (.comb (.comb (.leaf 0) (.leaf 1)) (.comb (.leaf 2) (.leaf 3))) 0 none = false := by
  decide +kernel

example :
    checkMerkleTree Dig.comb 5 (rowAt Dig.comb ((List.range 5).map Dig.leaf) 2) (.leaf 2) 2
      (some [.leaf 3, .comb (.leaf 0) (.leaf 1)]) = true := by decide +kernel

-- a wrong value, a wrong index and an altered consumed proof element are rejected
example :
    checkMerkleTree Dig.comb 5 (rowAt Dig.comb ((List.range 5).map Dig.leaf) 2) (.leaf 3) 2
      (some [.leaf 3, .comb (.leaf 0) (.leaf 1)]) = false := by decide +kernel

example :
    checkMerkleTree Dig.comb 5 (rowAt Dig.comb ((List.range 5).map Dig.leaf) 2) (.leaf 2) 0
      (some [.leaf 3, .comb (.leaf 0) (.leaf 1)]) = false := by decide +kernel

example :
    checkMerkleTree Dig.comb 5 (rowAt Dig.comb ((List.range 5).map Dig.leaf) 2) (.leaf 2) 2
      (some [.leaf 3, .comb (.leaf 1) (.leaf 0)]) = false := by decide +kernel

end C2pa.C16
