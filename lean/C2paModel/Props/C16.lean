import C2paModel.Lemmas.C16
/-
C16 — Merkle proofs accept exactly the committed leaves.  Statement (properties.jsonl):

  For any number of leaves and any stored tree row, the proof the SDK generates for each leaf
  verifies against the stored hashes at that leaf's index. No other leaf value, index, or
  altered proof verifies.

All theorems are over every leaf list (any length), every leaf index, every `max_proof_len`
(`d`; the stored row is layer `min d (layers-1)`, so every row of the tree is covered), every
candidate value and every candidate proof.  The positive half holds for every combining
function; the negative half assumes the combining function injective (`Injective2`, i.e. no
hash collisions — the free term algebra `Dig` is the canonical instance).

Reading of "no other index verifies" (DESIGN §5): verification at index `j` with value `v`
succeeds iff `v` is the committed leaf `j` — with duplicate leaves the literal reading is false
for every Merkle tree.  "Altered proof" is about the elements the playback consumes
(`check_merkle_tree` ignores trailing elements; `accepted_proofs_extend_honest` says exactly
which proofs are accepted).
-/
namespace C2pa.C16

variable {α : Type}

/-- The stored row a proof of depth `d` is checked against. -/
def Tree.row (t : Tree α) (d : Nat) : Option (List α) :=
  t.layers[min d (t.layers.length - 1)]?

theorem fromLeaves_row (comb : α → α → α) (leaves : List α) (d : Nat) :
    (Tree.fromLeaves comb leaves).row d = some (rowAt comb leaves d) :=
  genTree_row comb leaves d

/-- `to_layout(n)` (used by the verifier) is the list of layer sizes `generate_tree`
produces for `n` leaves. -/
theorem layout_matches_tree (comb : α → α → α) (leaves : List α) :
    layout leaves.length = (Tree.fromLeaves comb leaves).layers.map List.length :=
  layout_eq_map_length comb leaves

/-- Proof generation fails exactly for an index outside the leaf list. -/
theorem getProof_none_iff (comb : α → α → α) (leaves : List α) (i d : Nat) :
    (Tree.fromLeaves comb leaves).getProof i d = none ↔ leaves.length ≤ i := by
  simp only [Tree.getProof, Tree.fromLeaves]
  by_cases h : leaves.length ≤ i
  · simp [h]
  · have : leaves ≠ [] := by intro e; subst e; simp at h
    simp [h, this]

/-- **The generated proof verifies** — any number of leaves, any index, any `max_proof_len`
(hence any stored row), any combining function, also when followed by extra elements. -/
theorem proof_verifies [DecidableEq α] (comb : α → α → α) (leaves : List α) (i d : Nat)
    (hi : i < leaves.length) :
    ∃ p row, (Tree.fromLeaves comb leaves).getProof i d = some p
      ∧ (Tree.fromLeaves comb leaves).row d = some row
      ∧ checkMerkleTree comb leaves.length row leaves[i] i (some p) = true := by
  refine ⟨proofGo (genTree comb leaves) i d, rowAt comb leaves d, ?_, fromLeaves_row comb leaves d, ?_⟩
  · have : leaves ≠ [] := by intro e; subst e; simp at hi
    simp [Tree.getProof, Tree.fromLeaves, this, hi]
  · have hv : leaves[i]? = some leaves[i] := by simp [hi]
    obtain ⟨j, h, hp, hr⟩ := play_complete comb d leaves i leaves[i] [] hv
    simp only [List.append_nil] at hp
    simp only [checkMerkleTree, ge_iff_le, Nat.not_le.mpr hi, if_false, hp]
    exact (hashCheck_iff _ _ _).mpr hr

/-- The same for an explicitly chosen stored row `r` of the tree. -/
theorem proof_verifies_row [DecidableEq α] (comb : α → α → α) (leaves : List α) (i r : Nat)
    (hi : i < leaves.length) (row : List α)
    (hrow : (Tree.fromLeaves comb leaves).layers[r]? = some row) :
    ∃ p, (Tree.fromLeaves comb leaves).getProof i r = some p
      ∧ checkMerkleTree comb leaves.length row leaves[i] i (some p) = true := by
  obtain ⟨p, row', hp, hr, hc⟩ := proof_verifies comb leaves i r hi
  have hlen : r < (genTree comb leaves).length := by
    rcases List.getElem?_eq_some_iff.mp hrow with ⟨h, _⟩; exact h
  have e : min r ((genTree comb leaves).length - 1) = r := by omega
  have : row' = row := by
    simp only [Tree.row, Tree.fromLeaves, e] at hr
    simp only [Tree.fromLeaves] at hrow
    rw [hrow] at hr
    exact (Option.some.inj hr).symm
  subst this
  exact ⟨p, hp, hc⟩

/-- **Exactly the committed leaf verifies** (injective `comb`): against the stored row of
depth `d`, verification at index `loc` of value `v` with proof `p` succeeds iff `loc` is in
range, `v` is the committed leaf `loc`, and `p` starts with the generated proof for `loc`. -/
theorem index_verifies_iff_committed [DecidableEq α] (comb : α → α → α) (hinj : Injective2 comb)
    (leaves : List α) (d loc : Nat) (v : α) (p : List α) :
    checkMerkleTree comb leaves.length (rowAt comb leaves d) v loc (some p) = true
      ↔ leaves[loc]? = some v ∧ proofGo (genTree comb leaves) loc d <+: p := by
  constructor
  · intro hc
    simp only [checkMerkleTree, ge_iff_le] at hc
    by_cases hlt : loc < leaves.length
    · simp only [Nat.not_le.mpr hlt, if_false] at hc
      split at hc
      · rename_i j h hplay
        exact play_sound comb hinj d leaves loc v p j h hlt hplay ((hashCheck_iff _ _ _).mp hc)
      · simp at hc
    · simp [Nat.le_of_not_lt hlt] at hc
  · rintro ⟨hv, hpre⟩
    obtain ⟨extra, rfl⟩ := hpre
    have hlt : loc < leaves.length := by
      rcases List.getElem?_eq_some_iff.mp hv with ⟨h, _⟩; exact h
    obtain ⟨j, h, hp, hr⟩ := play_complete comb d leaves loc v extra hv
    simp only [checkMerkleTree, ge_iff_le, Nat.not_le.mpr hlt, if_false, hp]
    exact (hashCheck_iff _ _ _).mpr hr

/-- A value that is not the committed leaf at `loc` is rejected, whatever the proof. -/
theorem wrong_leaf_rejected [DecidableEq α] (comb : α → α → α) (hinj : Injective2 comb)
    (leaves : List α) (d loc : Nat) (v : α) (p : List α) (hne : leaves[loc]? ≠ some v) :
    checkMerkleTree comb leaves.length (rowAt comb leaves d) v loc (some p) = false := by
  cases hc : checkMerkleTree comb leaves.length (rowAt comb leaves d) v loc (some p) with
  | false => rfl
  | true => exact absurd ((index_verifies_iff_committed comb hinj leaves d loc v p).mp hc).1 hne

/-- A proof that differs from the generated proof in an element the playback consumes
(position `k` below the generated proof's length), or is shorter than it, is rejected. -/
theorem wrong_consumed_proof_elem_rejected [DecidableEq α] (comb : α → α → α)
    (hinj : Injective2 comb) (leaves : List α) (d loc : Nat) (v : α) (p : List α) (k : Nat)
    (hk : k < (proofGo (genTree comb leaves) loc d).length)
    (hne : p[k]? ≠ (proofGo (genTree comb leaves) loc d)[k]?) :
    checkMerkleTree comb leaves.length (rowAt comb leaves d) v loc (some p) = false := by
  cases hc : checkMerkleTree comb leaves.length (rowAt comb leaves d) v loc (some p) with
  | false => rfl
  | true =>
    obtain ⟨extra, rfl⟩ := ((index_verifies_iff_committed comb hinj leaves d loc v p).mp hc).2
    exact absurd (List.getElem?_append_left hk) hne

/-- Every accepted proof is the generated proof followed by ignored elements
(stated for the committed value; the other direction is `proof_verifies`). -/
theorem accepted_proofs_extend_honest [DecidableEq α] (comb : α → α → α) (hinj : Injective2 comb)
    (leaves : List α) (d loc : Nat) (v : α) (p : List α)
    (hc : checkMerkleTree comb leaves.length (rowAt comb leaves d) v loc (some p) = true) :
    ∃ extra, p = proofGo (genTree comb leaves) loc d ++ extra := by
  obtain ⟨extra, rfl⟩ := ((index_verifies_iff_committed comb hinj leaves d loc v p).mp hc).2
  exact ⟨extra, rfl⟩

/-- An index at or beyond `count` is rejected for every stored row, value and proof
(including the empty-proof playback). -/
theorem out_of_range_rejected [DecidableEq α] (comb : α → α → α) (count : Nat) (hashes : List α)
    (v : α) (loc : Nat) (proof : Option (List α)) (h : count ≤ loc) :
    checkMerkleTree comb count hashes v loc proof = false := by
  simp [checkMerkleTree, h]

theorem playEmpty_head (n idx : Nat) : playEmpty (layout n) n idx = idx := by
  by_cases h : 1 < n
  · rw [layout_big _ h]; simp [playEmpty]
  · rw [layout_small _ h]; simp [playEmpty]

/-- Empty-proof playback against the leaf row (the path `validate_merkle_maps_mdat_boxes`
uses for mdat leaves): accepted iff the value is the committed leaf. No assumption on `comb`. -/
theorem none_proof_leaf_row_iff [DecidableEq α] (comb : α → α → α) (leaves : List α) (loc : Nat)
    (v : α) :
    checkMerkleTree comb leaves.length leaves v loc none = true ↔ leaves[loc]? = some v := by
  simp only [checkMerkleTree, ge_iff_le, playEmpty_head]
  by_cases hlt : loc < leaves.length
  · simp only [Nat.not_le.mpr hlt, if_false]
    exact hashCheck_iff _ _ _
  · have : leaves[loc]? = none := List.getElem?_eq_none (Nat.le_of_not_lt hlt)
    simp [Nat.le_of_not_lt hlt]

/-! ### the free algebra instance and non-vacuity -/

theorem Dig.comb_injective : Injective2 Dig.comb := by
  intro a b c d h
  cases h
  exact ⟨rfl, rfl⟩

/-- The statement for digests as free terms: a value verifies at `loc` iff it is the
committed leaf `loc` (and the proof extends the generated one). -/
theorem index_verifies_iff_committed_free (leaves : List Dig) (d loc : Nat) (v : Dig)
    (p : List Dig) :
    checkMerkleTree Dig.comb leaves.length (rowAt Dig.comb leaves d) v loc (some p) = true
      ↔ leaves[loc]? = some v ∧ proofGo (genTree Dig.comb leaves) loc d <+: p :=
  index_verifies_iff_committed Dig.comb Dig.comb_injective leaves d loc v p

/-- Injectivity is needed: with a collapsing `comb` a wrong leaf is accepted. -/
example :
    checkMerkleTree (fun _ _ => (0 : Nat)) 2 (rowAt (fun _ _ => 0) [1, 2] 1) 7 0 (some [9])
      = true := by decide +kernel

-- Non-vacuity: a 5-leaf tree (odd-node promotion on two levels), row 2, leaf 4 (promoted twice).
example :
    (Tree.fromLeaves Dig.comb ((List.range 5).map Dig.leaf)).layers.map List.length = [5, 3, 2, 1] := by
  decide +kernel

example :
    (Tree.fromLeaves Dig.comb ((List.range 5).map Dig.leaf)).getProof 4 9
      = some [.comb (.comb (.leaf 0) (.leaf 1)) (.comb (.leaf 2) (.leaf 3))] := by
  decide +kernel

example :
    checkMerkleTree Dig.comb 5 (rowAt Dig.comb ((List.range 5).map Dig.leaf) 2) (.leaf 2) 2
      (some [.leaf 3, .comb (.leaf 0) (.leaf 1)]) = true := by decide +kernel

-- a wrong value, a wrong index and an altered consumed proof element are rejected
example :
    checkMerkleTree Dig.comb 5 (rowAt Dig.comb ((List.range 5).map Dig.leaf) 2) (.leaf 3) 2
      (some [.leaf 3, .comb (.leaf 0) (.leaf 1)]) = false := by decide +kernel

example :
    checkMerkleTree Dig.comb 5 (rowAt Dig.comb ((List.range 5).map Dig.leaf) 2) (.leaf 2) 0
      (some [.leaf 3, .comb (.leaf 0) (.leaf 1)]) = false := by decide +kernel

example :
    checkMerkleTree Dig.comb 5 (rowAt Dig.comb ((List.range 5).map Dig.leaf) 2) (.leaf 2) 2
      (some [.leaf 3, .comb (.leaf 1) (.leaf 0)]) = false := by decide +kernel

end C2pa.C16
