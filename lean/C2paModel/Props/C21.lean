import C2paModel.Model.C21
import C2paModel.Props.C20
/-
C21 — property theorems. The statement (properties.jsonl):

  An update manifest is reported Valid only if it has exactly one parentOf ingredient, no
  hard-binding assertion and only the actions allowed for update manifests, and the asset
  content bound by its parent manifest is unchanged. Any content change after an update
  manifest was added is detected.

`update_valid_iff_rules` characterises the rule block of `verify_internal` (after the repair
that moved the hard-binding test to where update manifests are actually seen) and closes a
violation with C04; `update_preserves_binding` is the soundness and completeness of the
exclusion re-basing (`rebase`): after the manifest store grew (or shrank with no later
exclusion), the re-based exclusions select exactly the bytes the parent manifest signed;
`content_change_detected` composes it with an injective hash and C04.
-/
namespace C2pa.C21
open C2pa.C34 C2pa.C20

/-! ### the rules -/

/-- the rules of the statement for an update manifest, as the code tests them -/
def UpdateRulesHold (c : C20.Claim) : Prop :=
  (∀ acts ∈ actionAssertions c, ∀ a ∈ acts, a.name ∈ allowedUpdateActions) ∧
  thumbCount c ≤ 1 ∧ hasBindingLabel c = false ∧ parentCount c = 1

/-- the rule is by label (`has_assertion_type` over `HASH_LABELS`), which covers everything
`hash_assertions()` returns — those are the created assertions whose label root is
`c2pa.hash.data`, `c2pa.hash.bmff` or `c2pa.hash.boxes` — and also collection data hashes,
multi-part hashes and gathered hash assertions -/
theorem hasBindingLabel_of_hasHash (c : C20.Claim)
    (hwl : ∀ a ∈ c.store, a.isHash = true → ∃ h ∈ hashLabels, h.isPrefixOf a.label = true)
    (h : hasHash c = true) : hasBindingLabel c = true := by
  unfold hasHash at h
  unfold hasBindingLabel
  obtain ⟨a, ha, hh⟩ := List.any_eq_true.1 h
  obtain ⟨l, hl, hp⟩ := hwl a ha hh
  exact List.any_eq_true.2 ⟨a, ha, List.any_eq_true.2 ⟨l, hl, hp⟩⟩

theorem disallowedActionEvents_nil_iff (c : C20.Claim) (ing : Bool) :
    disallowedActionEvents c ing = [] ↔
      ∀ acts ∈ actionAssertions c, ∀ a ∈ acts, a.name ∈ allowedUpdateActions := by
  unfold disallowedActionEvents
  simp only [List.flatMap_eq_nil_iff]
  constructor
  · intro h acts hacts a ha
    have := h acts hacts a ha
    by_cases hc : allowedUpdateActions.any (· == a.name) = true
    · obtain ⟨x, hx, hx'⟩ := List.any_eq_true.1 hc
      have : x = a.name := by simpa using hx'
      rw [← this]; exact hx
    · simp [hc] at this
  · intro h acts hacts a ha
    have hm := h acts hacts a ha
    have : allowedUpdateActions.any (· == a.name) = true :=
      List.any_eq_true.2 ⟨a.name, hm, by simp⟩
    simp [this]

theorem updateParentEvents_nil_iff (n : Nat) (ing : Bool) : updateParentEvents n ing = [] ↔ n = 1 := by
  unfold updateParentEvents
  match n with
  | 0 => simp
  | 1 => simp
  | n + 2 => simp

/-- **update_valid_iff_rules (rule block)** — for an update manifest the rule block of
`verify_internal` is silent iff every action is an allowed one, there is at most one claim
thumbnail (as coded), no hard-binding assertion and exactly one `parentOf` ingredient. -/
theorem update_valid_iff_rules (c : C20.Claim) (ing : Bool) (hu : c.update = true) :
    manifestRules c ing = [] ↔ UpdateRulesHold c := by
  unfold manifestRules UpdateRulesHold
  simp only [hu, if_true, List.append_eq_nil_iff, disallowedActionEvents_nil_iff,
    updateParentEvents_nil_iff]
  constructor
  · rintro ⟨⟨⟨h1, h2⟩, h3⟩, h4⟩
    refine ⟨h1, ?_, ?_, h4⟩
    · by_cases ht : thumbCount c > 1
      · simp [ht] at h2
      · omega
    · cases hh : hasBindingLabel c
      · rfl
      · simp [hh] at h3
  · rintro ⟨h1, h2, h3, h4⟩
    refine ⟨⟨⟨h1, ?_⟩, ?_⟩, h4⟩
    · have : ¬ thumbCount c > 1 := by omega
      simp [this]
    · simp [h3]

/-- an ordinary manifest: at most one `parentOf` -/
theorem nonupdate_rules_iff (c : C20.Claim) (ing : Bool) (hu : c.update = false) :
    manifestRules c ing = [] ↔ parentCount c ≤ 1 := by
  unfold manifestRules
  simp only [hu, Bool.false_eq_true, if_false]
  by_cases h : parentCount c > 1
  · simp [h] <;> omega
  · simp [h] <;> omega

def cUpdInvalid : Str := "manifest.update.invalid".toList
def cWrongParents : Str := "manifest.update.wrongParents".toList
def cMultipleParents : Str := "manifest.multipleParents".toList
def cDataHashMismatch : Str := "assertion.dataHash.mismatch".toList
def cBmffHashMismatch : Str := "assertion.bmffHash.mismatch".toList
def cBoxHashMismatch : Str := "assertion.boxesHash.mismatch".toList

theorem hash_mismatch_not_tolerated :
    C04.tolerated cDataHashMismatch = false ∧ C04.tolerated cBmffHashMismatch = false ∧
    C04.tolerated cBoxHashMismatch = false := by decide

theorem update_codes_not_tolerated :
    C04.tolerated cUpdInvalid = false ∧ C04.tolerated cWrongParents = false ∧
    C04.tolerated cMultipleParents = false ∧ C04.tolerated cDataHashMismatch = false := by decide

/-- every event of the rule block is a failure with one of the three codes -/
theorem manifestRules_failures (c : C20.Claim) (ing : Bool) :
    ∀ e ∈ manifestRules c ing, e.isFailure = true ∧
      (e.code = cUpdInvalid ∨ e.code = cWrongParents ∨ e.code = cMultipleParents) := by
  intro e he
  unfold manifestRules at he
  by_cases hu : c.update = true
  · simp only [hu, if_true, List.mem_append] at he
    rcases he with ((he | he) | he) | he
    · unfold disallowedActionEvents at he
      simp only [List.mem_flatMap] at he
      obtain ⟨acts, _, a, _, ha⟩ := he
      by_cases hc : allowedUpdateActions.any (· == a.name) = true
      · simp [hc] at ha
      · simp [hc] at ha; subst ha; exact ⟨rfl, Or.inl rfl⟩
    · by_cases ht : thumbCount c > 1
      · simp [ht] at he; subst he; exact ⟨rfl, Or.inl rfl⟩
      · simp [ht] at he
    · cases hh : hasBindingLabel c
      · simp [hh] at he
      · simp [hh] at he; subst he; exact ⟨rfl, Or.inl rfl⟩
    · unfold updateParentEvents at he
      split at he
      · simp at he; subst he; exact ⟨rfl, Or.inr (Or.inl rfl)⟩
      · simp at he
      · simp at he; subst he; exact ⟨rfl, Or.inl rfl⟩
  · have hu' : c.update = false := by simpa using hu
    simp only [hu', Bool.false_eq_true, if_false] at he
    by_cases h : parentCount c > 1
    · simp [h] at he; subst he; exact ⟨rfl, Or.inr (Or.inr rfl)⟩
    · simp [h] at he

/-- every event of the rule block carries the scope flag it was given -/
theorem manifestRules_scope (c : C20.Claim) (ing : Bool) : ∀ e ∈ manifestRules c ing, e.ing = ing := by
  intro e he
  unfold manifestRules at he
  by_cases hu : c.update = true
  · simp only [hu, if_true, List.mem_append] at he
    rcases he with ((he | he) | he) | he
    · unfold disallowedActionEvents at he
      simp only [List.mem_flatMap] at he
      obtain ⟨_, _, a, _, ha⟩ := he
      by_cases hc : allowedUpdateActions.any (· == a.name) = true
      · simp [hc] at ha
      · simp [hc] at ha; subst ha; rfl
    · by_cases ht : thumbCount c > 1
      · simp [ht] at he; subst he; rfl
      · simp [ht] at he
    · cases hh : hasBindingLabel c
      · simp [hh] at he
      · simp [hh] at he; subst he; rfl
    · unfold updateParentEvents at he
      split at he
      · simp at he; subst he; rfl
      · simp at he
      · simp at he; subst he; rfl
  · simp only [hu] at he
    by_cases hp : parentCount c > 1
    · simp [hp] at he; subst he; rfl
    · simp [hp] at he

/-- **update_valid_iff_rules (verdict)** — an update manifest on which `verify_claim` runs and
which violates a rule is never reported Valid: the reported state (C04) is `Invalid` for every
log before and after, unless that very status was already recorded in an ingredient assertion. -/
theorem update_violation_invalid (c : C20.Claim) (reds : List Str) (map : List C20.Claim) (ing : Bool)
    (o : C20.Out) (h : verifyClaim c reds map ing = some o)
    (hu : c.update = true) (hv : ¬ UpdateRulesHold c)
    (pre post : List C20.Ev) (sts : List St) (hdec : Decorates sts (pre ++ o.log ++ post))
    (active : Str) (recs : List Rec) (uriOf : St → List Char) (r0 res : C04.Results)
    (hrep : reportS active recs uriOf r0 sts = some res)
    (hrec : ing = true → ∀ s ∈ sts, s.ing = true →
      (s.code = cUpdInvalid ∨ s.code = cWrongParents ∨ s.code = cMultipleParents) →
        recordedIn recs s = false) :
    C04.state res = .invalid := by
  have hne : manifestRules c ing ≠ [] := fun hnil => hv ((update_valid_iff_rules c ing hu).1 hnil)
  obtain ⟨e, he⟩ := List.exists_mem_of_ne_nil _ hne
  obtain ⟨hf, hc⟩ := manifestRules_failures c ing e he
  obtain ⟨_, _, _, _, hhead, _⟩ := verifyClaim_log_contains c reds map ing o h
  have hin : e ∈ o.log := hhead e (List.mem_append_right _ he)
  have hin' : e ∈ pre ++ o.log ++ post := List.mem_append_left _ (List.mem_append_right _ hin)
  have ht : C04.tolerated e.code = false := by
    obtain ⟨t1, t2, t3, _⟩ := update_codes_not_tolerated
    rcases hc with hc | hc | hc <;> rw [hc] <;> assumption
  have hing : e.ing = ing := manifestRules_scope c ing e he
  cases hi : ing
  · exact active_scope_failure_invalid _ e hin' hf (by rw [hing, hi]) ht sts hdec active recs uriOf r0 res hrep
  · refine unrecorded_failure_invalid _ e hin' hf ht sts hdec active recs uriOf r0 res ?_ hrep
    intro s hs hcode hsi
    exact hrec hi s hs hsi (by rw [hcode]; exact hc)

/-- **store level** — `verify_store` on a store whose active manifest is an update manifest that
violates a rule either returns `Err` (the Reader fails) or reports `Invalid`. -/
theorem active_update_violation_never_valid (s : C20.Store) (o : C20.Out)
    (h : verifyStore s = some o) (root : C20.Claim) (hroot : s.getLast? = some root)
    (hu : root.update = true) (hv : ¬ UpdateRulesHold root)
    (sts : List St) (hdec : Decorates sts o.log)
    (active : Str) (recs : List Rec) (uriOf : St → List Char) (r0 res : C04.Results)
    (hrep : reportS active recs uriOf r0 sts = some res) :
    o.err = true ∨ C04.state res = .invalid := by
  rcases verifyStore_contains_root s o h with herr | ⟨root', reds, map, vc, hr', hvc, hsub⟩
  · exact Or.inl herr
  · right
    rw [hroot] at hr'; cases hr'
    have hne : manifestRules root false ≠ [] :=
      fun hnil => hv ((update_valid_iff_rules root false hu).1 hnil)
    obtain ⟨e, he⟩ := List.exists_mem_of_ne_nil _ hne
    obtain ⟨hf, hc⟩ := manifestRules_failures root false e he
    obtain ⟨_, _, _, _, hhead, _⟩ := verifyClaim_log_contains root reds map false vc hvc
    have hin : e ∈ o.log := hsub e (hhead e (List.mem_append_right _ he))
    have hing : e.ing = false := manifestRules_scope root false e he
    have ht : C04.tolerated e.code = false := by
      obtain ⟨t1, t2, t3, _⟩ := update_codes_not_tolerated
      rcases hc with hc | hc | hc <;> rw [hc] <;> assumption
    exact active_scope_failure_invalid _ e hin hf hing ht sts hdec active recs uriOf r0 res hrep

/-! ### selection of hashed bytes -/

def cov (e : Rng) (i : Nat) : Bool := decide (e.start ≤ i) && decide (i < e.start + e.len)

theorem cov_iff (e : Rng) (i : Nat) : cov e i = true ↔ e.start ≤ i ∧ i < e.start + e.len := by
  simp [cov]

theorem covered_eq_any (l : List Rng) (i : Nat) : covered l i = l.any fun e => cov e i := rfl

theorem covered_append (a b : List Rng) (i : Nat) : covered (a ++ b) i = (covered a i || covered b i) := by
  simp [covered_eq_any, List.any_append]

theorem covered_cons (e : Rng) (l : List Rng) (i : Nat) : covered (e :: l) i = (cov e i || covered l i) := by
  simp [covered_eq_any]

theorem covered_map_congr (f : Rng → Rng) (l : List Rng) (i j : Nat)
    (h : ∀ e ∈ l, cov (f e) i = cov e j) : covered (l.map f) i = covered l j := by
  induction l with
  | nil => rfl
  | cons x xs ih =>
    simp only [List.map_cons, covered_cons]
    rw [h x (List.mem_cons_self ..), ih fun e he => h e (List.mem_cons_of_mem _ he)]

theorem sel_append {α : Type} (excl : List Rng) :
    ∀ (xs ys : List α) (off : Nat),
      sel excl off (xs ++ ys) = sel excl off xs ++ sel excl (off + xs.length) ys := by
  intro xs
  induction xs with
  | nil => intro ys off; simp [sel]
  | cons x xs ih =>
    intro ys off
    simp only [List.cons_append, sel, ih, List.length_cons]
    rw [show off + 1 + xs.length = off + (xs.length + 1) by omega, List.append_assoc]

theorem sel_congr {α : Type} (e1 e2 : List Rng) :
    ∀ (xs : List α) (o1 o2 : Nat),
      (∀ j < xs.length, covered e1 (o1 + j) = covered e2 (o2 + j)) → sel e1 o1 xs = sel e2 o2 xs := by
  intro xs
  induction xs with
  | nil => intro _ _ _; rfl
  | cons x xs ih =>
    intro o1 o2 h
    simp only [sel]
    have h0 := h 0 (by simp)
    simp only [Nat.add_zero] at h0
    rw [h0]
    congr 1
    apply ih
    intro j hj
    have := h (j + 1) (by simp; omega)
    rw [show o1 + 1 + j = o1 + (j + 1) by omega, show o2 + 1 + j = o2 + (j + 1) by omega]
    exact this

theorem sel_all_covered {α : Type} (e : List Rng) :
    ∀ (xs : List α) (o : Nat), (∀ j < xs.length, covered e (o + j) = true) → sel e o xs = [] := by
  intro xs
  induction xs with
  | nil => intro _ _; rfl
  | cons x xs ih =>
    intro o h
    simp only [sel]
    have h0 := h 0 (by simp)
    simp only [Nat.add_zero] at h0
    rw [h0]
    simp only [if_true, List.nil_append]
    apply ih
    intro j hj
    have := h (j + 1) (by simp; omega)
    rw [show o + 1 + j = o + (j + 1) by omega]
    exact this

/-! ### re-basing -/

theorem splitAtStart_decomp (s : Nat) (x : Rng) (hx : x.start = s) :
    ∀ (E1 E2 : List Rng), (∀ e ∈ E1, e.start ≠ s) →
      splitAtStart s (E1 ++ x :: E2) = some (E1, x, E2) := by
  intro E1
  induction E1 with
  | nil => intro E2 _; simp [splitAtStart, hx]
  | cons e es ih =>
    intro E2 h
    have he : (e.start == s) = false := by
      have := h e (List.mem_cons_self ..); simpa using this
    simp only [List.cons_append, splitAtStart, he, Bool.false_eq_true, if_false]
    rw [ih E2 fun y hy => h y (List.mem_cons_of_mem _ hy)]

/-- shape of the re-based list -/
theorem rebase_decomp (E1 E2 : List Rng) (s m m' : Nat) (hs : 0 < s)
    (hE1 : ∀ e ∈ E1, e.start ≠ s) :
    rebase (E1 ++ ⟨s, m⟩ :: E2) (some ⟨s, m'⟩) =
      E1.map (shift s (m' - m)) ++ ⟨s, m'⟩ :: E2.map (shift s (m' - m)) := by
  unfold rebase
  simp only []
  rw [splitAtStart_decomp s ⟨s, m⟩ rfl E1 E2 hE1]
  simp only [hs, if_true, List.map_append, List.map_cons]
  congr 2
  simp [shift]

/-- **update_preserves_binding** — the parent manifest's data hash excludes the manifest store
`(s, m)` (first exclusion starting at `s`) and possibly other ranges that do not touch it.
After an update manifest was added the store occupies `(s, m')` and everything behind it moved
by `m' - m`. If the store did not shrink (or nothing is excluded behind it) the re-based
exclusions select, in the new asset `pre ++ M' ++ post`, exactly the bytes the original
exclusions select in the original asset `pre ++ M ++ post`: the same content is bound. -/
theorem update_preserves_binding {α : Type} (E1 E2 : List Rng) (s m m' : Nat)
    (pre M M' post : List α)
    (hpre : pre.length = s) (hM : M.length = m) (hM' : M'.length = m')
    (hs : 0 < s) (hm : 0 < m)
    (hE1 : ∀ e ∈ E1, e.start ≠ s)
    (hdisj : ∀ e ∈ E1 ++ E2, e.start + e.len ≤ s ∨ s + m ≤ e.start)
    (hgrow : m ≤ m' ∨ ∀ e ∈ E1 ++ E2, e.start + e.len ≤ s) :
    sel (rebase (E1 ++ ⟨s, m⟩ :: E2) (some ⟨s, m'⟩)) 0 (pre ++ M' ++ post) =
      sel (E1 ++ ⟨s, m⟩ :: E2) 0 (pre ++ M ++ post) := by
  rw [rebase_decomp E1 E2 s m m' hs hE1]
  have hshift_lo : ∀ e ∈ E1 ++ E2, ∀ j, j < s → cov (shift s (m' - m) e) j = cov e j := by
    intro e _ j hj
    unfold shift
    by_cases hgt : e.start > s
    · simp only [hgt, if_true]
      rw [Bool.eq_iff_iff, cov_iff, cov_iff]
      simp only []
      constructor <;> (intro h; omega)
    · simp [hgt]
  have hshift_hi : ∀ e ∈ E1 ++ E2, ∀ j, cov (shift s (m' - m) e) (s + m' + j) = cov e (s + m + j) := by
    intro e he j
    have hd := hdisj e he
    unfold shift
    by_cases hgt : e.start > s
    · simp only [hgt, if_true]
      rw [Bool.eq_iff_iff, cov_iff, cov_iff]
      simp only []
      rcases hgrow with hg | hg
      · constructor <;> (intro h; omega)
      · have := hg e he
        constructor <;> (intro h; omega)
    · simp only [hgt, if_false]
      rw [Bool.eq_iff_iff, cov_iff, cov_iff]
      constructor <;> (intro h; omega)
  have hmem1 : ∀ e ∈ E1, e ∈ E1 ++ E2 := fun e he => List.mem_append_left _ he
  have hmem2 : ∀ e ∈ E2, e ∈ E1 ++ E2 := fun e he => List.mem_append_right _ he
  -- split both assets into the three regions
  rw [List.append_assoc, List.append_assoc, sel_append, sel_append, sel_append, sel_append]
  simp only [Nat.zero_add, hpre, hM, hM']
  -- region 1: before the store
  have h1 : sel (E1.map (shift s (m' - m)) ++ ⟨s, m'⟩ :: E2.map (shift s (m' - m))) 0 pre =
      sel (E1 ++ ⟨s, m⟩ :: E2) 0 pre := by
    apply sel_congr
    intro j hj
    rw [hpre] at hj
    simp only [Nat.zero_add, covered_append, covered_cons]
    rw [covered_map_congr _ E1 j j fun e he => hshift_lo e (hmem1 e he) j hj,
      covered_map_congr _ E2 j j fun e he => hshift_lo e (hmem2 e he) j hj]
    congr 2
    rw [Bool.eq_iff_iff, cov_iff, cov_iff]
    simp only []
    constructor <;> (intro h; omega)
  -- region 2: the store itself is excluded on both sides
  have h2 : sel (E1.map (shift s (m' - m)) ++ ⟨s, m'⟩ :: E2.map (shift s (m' - m))) s M' = [] := by
    apply sel_all_covered
    intro j hj
    rw [hM'] at hj
    simp only [covered_append, covered_cons]
    have : cov ⟨s, m'⟩ (s + j) = true := by rw [cov_iff]; simp only []; omega
    simp [this]
  have h2' : sel (E1 ++ ⟨s, m⟩ :: E2) s M = ([] : List α) := by
    apply sel_all_covered
    intro j hj
    rw [hM] at hj
    simp only [covered_append, covered_cons]
    have : cov ⟨s, m⟩ (s + j) = true := by rw [cov_iff]; simp only []; omega
    simp [this]
  -- region 3: behind the store, shifted
  have h3 : sel (E1.map (shift s (m' - m)) ++ ⟨s, m'⟩ :: E2.map (shift s (m' - m))) (s + m') post =
      sel (E1 ++ ⟨s, m⟩ :: E2) (s + m) post := by
    apply sel_congr
    intro j _
    simp only [covered_append, covered_cons]
    rw [covered_map_congr _ E1 (s + m' + j) (s + m + j) fun e he => hshift_hi e (hmem1 e he) j,
      covered_map_congr _ E2 (s + m' + j) (s + m + j) fun e he => hshift_hi e (hmem2 e he) j]
    congr 2
    rw [Bool.eq_iff_iff, cov_iff, cov_iff]
    simp only []
    constructor <;> (intro h; omega)
  rw [h1, h2, h2', h3]

/-- **content_bound_after_update** — both directions, for an arbitrary new prefix `pre'` of the
same length and an arbitrary new tail `post'` (any length: truncation, insertion and append are
covered): the binding of the parent manifest, evaluated with the re-based exclusions on the
updated asset `pre' ++ M' ++ post'`, matches what was signed (`pre ++ M ++ post` under the
original exclusions) **iff** the content outside the manifest store is what was signed — i.e. iff
the asset with the *old* store put back selects the same bytes. -/
theorem content_bound_after_update {α : Type} (E1 E2 : List Rng) (s m m' : Nat)
    (pre pre' M M' post post' : List α)
    (hpre' : pre'.length = s) (hM : M.length = m) (hM' : M'.length = m')
    (hs : 0 < s) (hm : 0 < m)
    (hE1 : ∀ e ∈ E1, e.start ≠ s)
    (hdisj : ∀ e ∈ E1 ++ E2, e.start + e.len ≤ s ∨ s + m ≤ e.start)
    (hgrow : m ≤ m' ∨ ∀ e ∈ E1 ++ E2, e.start + e.len ≤ s) :
    sel (rebase (E1 ++ ⟨s, m⟩ :: E2) (some ⟨s, m'⟩)) 0 (pre' ++ M' ++ post') =
        sel (E1 ++ ⟨s, m⟩ :: E2) 0 (pre ++ M ++ post) ↔
      sel (E1 ++ ⟨s, m⟩ :: E2) 0 (pre' ++ M ++ post') =
        sel (E1 ++ ⟨s, m⟩ :: E2) 0 (pre ++ M ++ post) := by
  rw [update_preserves_binding E1 E2 s m m' pre' M M' post' hpre' hM hM' hs hm hE1 hdisj hgrow]

/-- the selection ignores what is inside the store range: any two store contents of the right
lengths give the same selected bytes -/
theorem store_bytes_irrelevant {α : Type} (E1 E2 : List Rng) (s m : Nat) (pre M N post : List α)
    (hpre : pre.length = s) (hM : M.length = m) (hN : N.length = m) :
    sel (E1 ++ ⟨s, m⟩ :: E2) 0 (pre ++ M ++ post) = sel (E1 ++ ⟨s, m⟩ :: E2) 0 (pre ++ N ++ post) := by
  have hcov : ∀ (X : List α), X.length = m → sel (E1 ++ ⟨s, m⟩ :: E2) s X = [] := by
    intro X hX
    apply sel_all_covered
    intro j hj
    rw [hX] at hj
    simp only [covered_append, covered_cons]
    have : cov ⟨s, m⟩ (s + j) = true := by rw [cov_iff]; simp only []; omega
    simp [this]
  rw [List.append_assoc, List.append_assoc, sel_append, sel_append, sel_append, sel_append]
  simp only [Nat.zero_add, hpre, hM, hN]
  rw [hcov M hM, hcov N hN]

/-! ### which manifest's binding is checked (`get_hash_binding_manifest`) -/

/-- `b` names a claim of the store that is not an update manifest and has a hard binding -/
def BoundIn (s : C20.Store) (b : Str) : Prop :=
  ∃ p, getClaim s b = some p ∧ p.label = b ∧ p.update = false ∧ hasHash p = true

theorem getClaim_label (s : C20.Store) (l : Str) (p : C20.Claim) (h : getClaim s l = some p) :
    p.label = l := by
  unfold getClaim at h
  have := List.find?_some h
  simpa using this

theorem hbScan_spec (s : C20.Store) (fuel : Nat)
    (hP : ∀ c vis b, hbm s fuel c vis = some (some b) →
      (b = c.label ∧ c.update = false ∧ hasHash c = true) ∨ BoundIn s b) :
    ∀ (l : List (C20.CA × Option C20.IngD)) (vis : List Str) (b : Str),
      hbScan s fuel vis l = some (some b) → BoundIn s b := by
  intro l
  induction l with
  | nil => intro vis b h; unfold hbScan at h; simp at h
  | cons x rest ih =>
    intro vis b h
    obtain ⟨a, d⟩ := x
    unfold hbScan at h
    cases d with
    | none => simp at h
    | some d =>
      simp only [] at h
      by_cases hrel : (d.rel == C20.Rel.parentOf) = true
      · simp only [hrel, if_true] at h
        cases ht : d.target with
        | none => simp only [ht] at h; exact ih vis b h
        | some t =>
          simp only [ht] at h
          cases hml : manifestLabelFromUri t.url with
          | none => simp [hml] at h
          | some ol =>
            cases ol with
            | none => simp [hml] at h
            | some pl =>
              simp only [hml] at h
              cases hg : getClaim s pl with
              | none => simp only [hg] at h; exact ih vis b h
              | some p =>
                simp only [hg] at h
                have hlab := getClaim_label s pl p hg
                by_cases hu : p.update = true
                · rw [if_pos hu] at h
                  rcases hP p vis b h with ⟨hb, hu', _⟩ | hb
                  · rw [hu] at hu'; cases hu'
                  · exact hb
                · rw [if_neg hu] at h
                  by_cases hh : hasHash p = true
                  · rw [if_pos hh] at h
                    simp only [Option.some.injEq] at h
                    subst h
                    exact ⟨p, by rw [hlab]; exact hg, rfl, by simpa using hu, hh⟩
                  · rw [if_neg hh] at h
                    exact ih vis b h
      · simp only [hrel] at h
        exact ih vis b h

/-- **hbm_spec** — whatever `get_hash_binding_manifest` returns is the label of a manifest that
is not an update manifest and carries a hard binding: the starting claim itself, or a claim of
the store. (If it could return an update or hash-less claim, `verify_hash_binding` would loop
over zero hard bindings and any content would be accepted.) -/
theorem hbm_spec (s : C20.Store) :
    ∀ (fuel : Nat) (c : C20.Claim) (vis : List Str) (b : Str), hbm s fuel c vis = some (some b) →
      (b = c.label ∧ c.update = false ∧ hasHash c = true) ∨ BoundIn s b := by
  intro fuel
  induction fuel with
  | zero => intro c vis b h; unfold hbm at h; simp at h
  | succ n ih =>
    intro c vis b h
    unfold hbm at h
    by_cases hv : vis.contains c.label = true
    · rw [if_pos hv] at h; simp at h
    · rw [if_neg hv] at h
      by_cases hc : (!c.update && hasHash c) = true
      · rw [if_pos hc] at h
        simp only [Option.some.injEq] at h
        left
        simp only [Bool.and_eq_true, Bool.not_eq_true'] at hc
        exact ⟨h.symm, hc.1, hc.2⟩
      · rw [if_neg hc] at h
        exact Or.inr (hbScan_spec s n ih _ _ b h)

theorem getClaim_of_mem_nodup :
    ∀ (s : C20.Store) (c : C20.Claim), (s.map (·.label)).Nodup → c ∈ s → getClaim s c.label = some c := by
  intro s
  induction s with
  | nil => intro c _ hc; cases hc
  | cons x xs ih =>
    intro c hnd hc
    simp only [List.map_cons, List.nodup_cons] at hnd
    unfold getClaim
    simp only [List.find?_cons]
    rcases List.mem_cons.1 hc with rfl | hc
    · simp
    · have hne : (x.label == c.label) = false := by
        apply beq_false_of_ne
        intro heq
        exact hnd.1 (heq ▸ List.mem_map.2 ⟨c, hc, rfl⟩)
      simp only [hne]
      exact ih c hnd.2 hc

/-- **the claim whose hard binding `verify_store` checks against the asset** is a claim of the
store (manifest labels are unique, as in the `claims_map` of a real store) that is not an update
manifest and has a hard binding -/
theorem bindingClaim_spec (s : C20.Store) (hnd : (s.map (·.label)).Nodup) (root bc : C20.Claim)
    (h : bindingClaim s = some (some (root, bc))) :
    s.getLast? = some root ∧ getClaim s bc.label = some bc ∧ bc.update = false ∧ hasHash bc = true := by
  unfold bindingClaim at h
  cases hr : s.getLast? with
  | none => simp [hr] at h
  | some r =>
    simp only [hr] at h
    cases hb : hbm s (fuelFor s) r [] with
    | none => simp [hb] at h
    | some ob =>
      cases ob with
      | none => simp [hb] at h
      | some bl =>
        simp only [hb] at h
        cases hg : getClaim s bl with
        | none => simp [hg] at h
        | some c =>
          simp only [hg, Option.some.injEq, Prod.mk.injEq] at h
          obtain ⟨h1, h2⟩ := h
          subst h1; subst h2
          have hlab := getClaim_label s bl c hg
          refine ⟨rfl, by rw [hlab]; exact hg, ?_⟩
          rcases hbm_spec s _ r [] bl hb with ⟨hbl, hu, hh⟩ | ⟨p, hp, _, hu, hh⟩
          · have hmem : r ∈ s := List.mem_of_getLast? hr
            have := getClaim_of_mem_nodup s r hnd hmem
            rw [← hbl, hg] at this
            cases this
            exact ⟨hu, hh⟩
          · rw [hg] at hp; cases hp; exact ⟨hu, hh⟩

/-! ### the asset step: gates, detection, verdict -/

theorem hashEvent_scope (k : HK) (ok : Bool) : ∀ e ∈ hashEvent k ok, e.ing = false := by
  intro e he
  cases k <;> cases ok <;> simp [hashEvent] at he <;> (subst he; rfl)

theorem hashEvents_scope : ∀ (l : List C20.CA) (oks : List Bool), ∀ e ∈ hashEvents l oks, e.ing = false := by
  intro l
  induction l with
  | nil => intro oks e he; simp [hashEvents] at he
  | cons a as ih =>
    intro oks e he
    simp only [hashEvents, List.mem_append] at he
    rcases he with he | he
    · exact hashEvent_scope _ _ e he
    · exact ih _ e he

/-- a hard binding whose hash did not match logs its mismatch failure -/
theorem hashEvents_mismatch :
    ∀ (l : List C20.CA) (oks : List Bool) (i : Nat) (a : C20.CA), l[i]? = some a → oks[i]? = some false →
      hashKind a.label ≠ .other →
      ∃ e ∈ hashEvents l oks, e.isFailure = true ∧ e.ing = false ∧
        (e.code = cDataHashMismatch ∨ e.code = cBmffHashMismatch ∨ e.code = cBoxHashMismatch) := by
  intro l
  induction l with
  | nil => intro oks i a h; simp at h
  | cons x xs ih =>
    intro oks i a hl ho hk
    cases i with
    | zero =>
      simp only [List.getElem?_cons_zero, Option.some.injEq] at hl
      subst hl
      cases oks with
      | nil => simp at ho
      | cons o os =>
        simp only [List.getElem?_cons_zero, Option.some.injEq] at ho
        subst ho
        simp only [hashEvents, List.headD_cons, List.mem_append]
        cases hkk : hashKind x.label with
        | data =>
          exact ⟨C20.fail "assertion.dataHash.mismatch" false, Or.inl (by simp [hashEvent]), rfl, rfl,
            Or.inl rfl⟩
        | bmff =>
          exact ⟨C20.fail "assertion.bmffHash.mismatch" false, Or.inl (by simp [hashEvent]), rfl, rfl,
            Or.inr (Or.inl rfl)⟩
        | boxes =>
          exact ⟨C20.fail "assertion.boxesHash.mismatch" false, Or.inl (by simp [hashEvent]), rfl, rfl,
            Or.inr (Or.inr rfl)⟩
        | other => exact absurd hkk hk
    | succ n =>
      simp only [List.getElem?_cons_succ] at hl
      cases oks with
      | nil => simp at ho
      | cons o os =>
        simp only [List.getElem?_cons_succ] at ho
        obtain ⟨e, he, h1, h2, h3⟩ := ih os n a hl ho hk
        refine ⟨e, ?_, h1, h2, h3⟩
        simp only [hashEvents, List.tail_cons, List.mem_append]
        exact Or.inr he

/-- **gates of the asset step** — `verify_store` with an asset logs hard-binding statuses only
after `verify_claim` of the active manifest and `ingredient_checks` returned `Ok`, and then for
the claim `get_hash_binding_manifest` names: a claim of the store, not an update manifest, with
a hard binding. In every other case the result is the result without the asset. -/
theorem verifyStoreAB_spec (s : C20.Store) (hnd : (s.map (·.label)).Nodup) (oks : List Bool)
    (o : C20.Out) (b : Option Str) (h : verifyStoreAB s oks = some (o, b)) :
    ∃ o0, verifyStore s = some o0 ∧
      ((b = none ∧ o = o0) ∨
       (o0.err = false ∧ ∃ root bc, bindingClaim s = some (some (root, bc)) ∧ b = some bc.label ∧
          getClaim s bc.label = some bc ∧ bc.update = false ∧ hasHash bc = true ∧
          o = ⟨o0.log ++ bindingEvents bc oks, false⟩)) := by
  unfold verifyStoreAB at h
  cases hv : verifyStore s with
  | none => simp [hv] at h
  | some o0 =>
    simp only [hv] at h
    refine ⟨o0, rfl, ?_⟩
    by_cases he : o0.err = true
    · rw [if_pos he] at h
      simp only [Option.some.injEq, Prod.mk.injEq] at h
      exact Or.inl ⟨h.2.symm, h.1.symm⟩
    · rw [if_neg he] at h
      cases hb : bindingClaim s with
      | none => simp [hb] at h
      | some ob =>
        cases ob with
        | none =>
          simp only [hb, Option.some.injEq, Prod.mk.injEq] at h
          exact Or.inl ⟨h.2.symm, h.1.symm⟩
        | some rb =>
          obtain ⟨root, bc⟩ := rb
          simp only [hb, Option.some.injEq, Prod.mk.injEq] at h
          obtain ⟨_, hg, hu, hh⟩ := bindingClaim_spec s hnd root bc hb
          exact Or.inr ⟨by simpa using he, root, bc, rfl, h.2.symm, hg, hu, hh, h.1.symm⟩

/-- **content change ⇒ never Valid (store level)** — when the asset step is reached and the hash
of some hard binding of the binding claim does not match the asset, the Reader's state is
`Invalid`: the mismatch is logged for the active manifest's own validation (no ingredient URI;
its URL names the binding manifest — the *parent* when the active manifest is an update
manifest), so `from_store` keeps it whatever the ingredient assertions record. Before
`fixes/C20-from-store-active-claim-status-filter.patch` an update manifest that pre-recorded its
parent's mismatch made exactly this status disappear (harness variant `ok_plain_prerec`). -/
theorem content_mismatch_never_valid (s : C20.Store) (oks : List Bool) (o : C20.Out) (bl : Str)
    (h : verifyStoreAB s oks = some (o, some bl))
    (bc : C20.Claim) (root : C20.Claim) (hbc : bindingClaim s = some (some (root, bc)))
    (i : Nat) (a : C20.CA) (ha : (hashCAs bc)[i]? = some a) (hno : oks[i]? = some false)
    (hk : hashKind a.label ≠ .other)
    (sts : List St) (hdec : Decorates sts o.log)
    (active : Str) (recs : List Rec) (uriOf : St → List Char) (r0 res : C04.Results)
    (hrep : reportS active recs uriOf r0 sts = some res) :
    C04.state res = .invalid := by
  unfold verifyStoreAB at h
  cases hv : verifyStore s with
  | none => simp [hv] at h
  | some o0 =>
    simp only [hv] at h
    by_cases he : o0.err = true
    · simp [he] at h
    · rw [if_neg he] at h
      simp only [hbc, Option.some.injEq, Prod.mk.injEq] at h
      obtain ⟨ho, _⟩ := h
      obtain ⟨e, hmem, hf, hing, hc⟩ := hashEvents_mismatch (hashCAs bc) oks i a ha hno hk
      have hin : e ∈ o.log := by
        rw [← ho]
        simp only [bindingEvents]
        exact List.mem_append_right _ (List.mem_append_right _ hmem)
      have ht : C04.tolerated e.code = false := by
        obtain ⟨t1, t2, t3⟩ := hash_mismatch_not_tolerated
        rcases hc with hc | hc | hc <;> rw [hc] <;> assumption
      exact active_scope_failure_invalid _ e hin hf hing ht sts hdec active recs uriOf r0 res hrep

/-- `verify_store` against an asset whose binding manifest carries one data hash `hb` that was
made over `signed` (`hb.stored = H (sel hb.excl 0 signed)`), with a collision-free `H`: the
asset step logs `assertion.dataHash.mismatch` **iff** the bytes selected in `asset` by the
effective exclusions (re-based iff the active manifest is an update manifest) differ from the
signed selection. -/
theorem content_change_detected {α δ : Type} [DecidableEq δ] (H : List α → δ)
    (hinj : ∀ a b, H a = H b → a = b)
    (upd : Bool) (range : Option Rng) (excl : List Rng) (signed asset : List α) :
    hashOk H upd range asset ⟨H (sel excl 0 signed), excl⟩ = true ↔
      sel (effExcl upd range excl) 0 asset = sel excl 0 signed := by
  unfold hashOk
  simp only [decide_eq_true_eq]
  exact ⟨fun h => hinj _ _ h, fun h => by rw [h]⟩

/-- the two gates in one statement: under an active update manifest whose store moved from
`(s,m)` to `(s,m')`, the parent's data hash matches the updated asset `pre' ++ M' ++ post'` iff
the content outside the store is what the parent signed; under a non-update active manifest no
re-basing happens (`effExcl false`), the exclusions are used as they are. -/
theorem update_binding_iff_content {α δ : Type} [DecidableEq δ] (H : List α → δ)
    (hinj : ∀ a b, H a = H b → a = b)
    (E1 E2 : List Rng) (s m m' : Nat) (pre pre' M M' post post' : List α)
    (hpre' : pre'.length = s) (hM : M.length = m) (hM' : M'.length = m')
    (hs : 0 < s) (hm : 0 < m)
    (hE1 : ∀ e ∈ E1, e.start ≠ s)
    (hdisj : ∀ e ∈ E1 ++ E2, e.start + e.len ≤ s ∨ s + m ≤ e.start)
    (hgrow : m ≤ m' ∨ ∀ e ∈ E1 ++ E2, e.start + e.len ≤ s) :
    hashOk H true (some ⟨s, m'⟩) (pre' ++ M' ++ post')
        ⟨H (sel (E1 ++ ⟨s, m⟩ :: E2) 0 (pre ++ M ++ post)), E1 ++ ⟨s, m⟩ :: E2⟩ = true ↔
      sel (E1 ++ ⟨s, m⟩ :: E2) 0 (pre' ++ M ++ post') =
        sel (E1 ++ ⟨s, m⟩ :: E2) 0 (pre ++ M ++ post) := by
  rw [content_change_detected H hinj]
  simp only [effExcl, if_true]
  exact content_bound_after_update E1 E2 s m m' pre pre' M M' post post' hpre' hM hM' hs hm hE1 hdisj hgrow

theorem effExcl_not_update (range : Option Rng) (excl : List Rng) : effExcl false range excl = excl := rfl

/-- changing a selected byte changes the selection: a byte at an uncovered offset of the asset
is part of what is hashed -/
theorem selected_byte_matters {α : Type} (excl : List Rng) (pre post : List α) (x y : α) (hxy : x ≠ y)
    (hunc : covered excl pre.length = false) :
    sel excl 0 (pre ++ x :: post) ≠ sel excl 0 (pre ++ y :: post) := by
  have hx : ∀ z : α, sel excl pre.length (z :: post) = z :: sel excl (pre.length + 1) post := by
    intro z; simp [sel, hunc]
  intro h
  rw [sel_append, sel_append, Nat.zero_add, hx x, hx y] at h
  have h' := List.append_cancel_left h
  injection h' with h1 _
  exact hxy h1

/-- length of the selection when nothing behind `off` is covered: inserting, appending or
truncating uncovered content changes the number of selected bytes, hence the selection -/
theorem sel_length_uncovered {α : Type} (excl : List Rng) :
    ∀ (l : List α) (off : Nat), (∀ j, j < l.length → covered excl (off + j) = false) →
      (sel excl off l).length = l.length := by
  intro l
  induction l with
  | nil => intro off _; rfl
  | cons b bs ih =>
    intro off h
    have h0 : covered excl off = false := by simpa using h 0 (by simp)
    simp only [sel, h0, Bool.false_eq_true, if_false, List.singleton_append, List.length_cons]
    rw [ih (off + 1)]
    intro j hj
    have := h (j + 1) (by simp; omega)
    rwa [show off + (j + 1) = off + 1 + j by omega] at this

/-- **length-changing content mutations** — appending to, truncating or inserting into a tail of
the asset no exclusion covers changes the selection (so, with `content_change_detected`, the
binding does not match) -/
theorem tail_length_change_matters {α : Type} (excl : List Rng) (pre post post' : List α)
    (hlen : post.length ≠ post'.length)
    (hunc : ∀ j, covered excl (pre.length + j) = false) :
    sel excl 0 (pre ++ post) ≠ sel excl 0 (pre ++ post') := by
  intro h
  rw [sel_append, sel_append, Nat.zero_add] at h
  have h' := List.append_cancel_left h
  have l1 := sel_length_uncovered excl post pre.length (fun j _ => hunc j)
  have l2 := sel_length_uncovered excl post' pre.length (fun j _ => hunc j)
  rw [h'] at l1
  exact hlen (l1.symm.trans l2)

/-! ### constants read from the sources (translators/c20_labels.py) -/

theorem allowedUpdateActions_gen : allowedUpdateActions = C20.Gen.allowedUpdateActions := rfl
theorem cClaimThumb_gen : cClaimThumb = C20.Gen.claimThumbnail := rfl
/-- the thumbnail rule of the update branch is `count > 1` in the source, as in `manifestRules` -/
theorem updateThumbnailLimit_gen : C20.Gen.updateThumbnailLimit = 1 := rfl
theorem hashKind_labels_gen :
    [cHashData, cHashBoxes, cHashBmff] = C20.Gen.hashLabels.take 3 := rfl

/-! ### non-vacuity -/

example : rebase [⟨2, 1⟩, ⟨10, 5⟩, ⟨20, 2⟩] (some ⟨10, 9⟩) = [⟨2, 1⟩, ⟨10, 9⟩, ⟨24, 2⟩] := by decide
example : sel (rebase [⟨2, 1⟩, ⟨4, 2⟩, ⟨8, 1⟩] (some ⟨4, 3⟩)) 0 [0, 1, 2, 3, 90, 91, 92, 6, 7, 8, 9]
    = sel [⟨2, 1⟩, ⟨4, 2⟩, ⟨8, 1⟩] 0 [0, 1, 2, 3, 90, 91, 6, 7, 8, 9] := by decide
/-- the hypothesis `m ≤ m'` (or nothing excluded behind the store) is needed: a store that shrank
leaves later exclusions where they were -/
example : sel (rebase [⟨4, 3⟩, ⟨9, 1⟩] (some ⟨4, 2⟩)) 0 [0, 1, 2, 3, 90, 91, 7, 8, 9]
    ≠ sel [⟨4, 3⟩, ⟨9, 1⟩] 0 [0, 1, 2, 3, 90, 91, 92, 7, 8, 9] := by decide

def exUpdate : C20.Claim :=
  { label := "urn:c2pa:uu".toList, version := 2, update := true, sigOk := true, assertions := [],
    store := [⟨"c2pa.ingredient.v3".toList, 0, "h".toList, false,
                .ingredient (some ⟨.parentOf, 3, true, none, none⟩)⟩,
              ⟨"c2pa.actions.v2".toList, 0, "g".toList, false,
                .actions [⟨"c2pa.opened".toList, none⟩, ⟨"c2pa.published".toList, none⟩]⟩],
    redactions := none, boxHash := [], sigHash := [], dataHash := [] }

example : manifestRules exUpdate false = [] := by decide
example : manifestRules { exUpdate with store := exUpdate.store ++ [⟨"c2pa.hash.data".toList, 0, [], false, .hash⟩] } false
    = [C20.fail "manifest.update.invalid" false] := by decide
example : manifestRules { exUpdate with store := exUpdate.store.drop 1 } false
    = [C20.fail "manifest.update.wrongParents" false] := by decide

/-! the asset step on the one-manifest store of `Props/C20.lean` (`exSolo`, data hash `h7`) -/

theorem exSolo_binding : bindingClaim [exSolo] = some (some (exSolo, exSolo)) := by
  unfold bindingClaim
  have hg : getClaim [exSolo] lA = some exSolo := by decide
  simp only [List.getLast?_singleton, fuelFor, List.length_singleton, Nat.reduceAdd, exSolo_hbm, hg]

example : (([exSolo] : C20.Store).map (·.label)).Nodup := by decide
example : hashCAs exSolo = [exHashCA "h7"] ∧ hashKind (exHashCA "h7").label = .data := by decide

/-- content changed (`oks = [false]`): the mismatch is logged behind the store log, for `lA` -/
example : verifyStoreAB [exSolo] [false] =
    some (⟨logSolo ++ [C20.fail "assertion.dataHash.mismatch" false], false⟩, some lA) := by
  unfold verifyStoreAB
  simp only [exSolo_run, exSolo_binding]
  decide

/-- all hypotheses of `content_mismatch_never_valid` hold for it -/
example (sts : List St)
    (hdec : Decorates sts (logSolo ++ [C20.fail "assertion.dataHash.mismatch" false]))
    (active : Str) (recs : List Rec) (uriOf : St → List Char) (r0 res : C04.Results)
    (hrep : reportS active recs uriOf r0 sts = some res) : C04.state res = .invalid := by
  have hrun : verifyStoreAB [exSolo] [false] =
      some (⟨logSolo ++ [C20.fail "assertion.dataHash.mismatch" false], false⟩, some lA) := by
    unfold verifyStoreAB
    simp only [exSolo_run, exSolo_binding]
    decide
  exact content_mismatch_never_valid [exSolo] [false] _ lA hrun exSolo exSolo exSolo_binding 0
    (exHashCA "h7") (by decide) (by decide) (by decide) sts hdec active recs uriOf r0 res hrep

/-- an update manifest on top of a base: `get_hash_binding_manifest` names the base -/
def exUpdOnBase : C20.Claim :=
  { label := lA, version := 2, update := true, sigOk := true, assertions := [],
    store := [exIngCA "b1"], redactions := none, boxHash := [], sigHash := [], dataHash := [] }

example : hbm [exBase true, exUpdOnBase] 4 exUpdOnBase [] = some (some lB) := by
  unfold hbm
  have hi : ingAssertions exUpdOnBase = [(exIngCA "b1", some ⟨.parentOf, 3, true,
      some ⟨"self#jumbf=/c2pa/".toList ++ lB, "b1".toList⟩,
      some ⟨"self#jumbf=/c2pa/".toList ++ lB ++ "/c2pa.signature".toList, "sb".toList⟩⟩)] := by decide
  have h1 : (([] : List Str).contains exUpdOnBase.label) = false := rfl
  have h2 : (!exUpdOnBase.update && hasHash exUpdOnBase) = false := by decide
  simp only [h1, h2, hi, Bool.false_eq_true, if_false]
  unfold hbScan
  have hm : manifestLabelFromUri ("self#jumbf=/c2pa/".toList ++ lB) = some (some lB) := by decide
  have hg : getClaim [exBase true, exUpdOnBase] lB = some (exBase true) := by decide
  have hu : (exBase true).update = false := rfl
  have hh : hasHash (exBase true) = true := by decide
  simp [hm, hg, hu, hh]
  rfl

/-- `content_bound_after_update` on numbers: store `(4,2)` grew to `(4,3)`; the tail was
truncated by one byte: the binding does not match, and the right-hand side says why -/
example : sel (rebase [⟨2, 1⟩, ⟨4, 2⟩] (some ⟨4, 3⟩)) 0 ([0, 1, 2, 3] ++ [90, 91, 92] ++ [6, 7])
    ≠ sel [⟨2, 1⟩, ⟨4, 2⟩] 0 ([0, 1, 2, 3] ++ [80, 81] ++ [6, 7, 8]) := by decide
example : sel [⟨2, 1⟩, ⟨4, 2⟩] 0 ([0, 1, 2, 3] ++ [80, 81] ++ [6, 7])
    ≠ sel [⟨2, 1⟩, ⟨4, 2⟩] 0 ([0, 1, 2, 3] ++ [80, 81] ++ [6, 7, 8]) := by decide
example : ∀ j, covered [⟨2, 1⟩, ⟨4, 2⟩] (([0, 1, 2, 3, 80, 81] : List Nat).length + j) = false := by
  intro j; simp [covered]; omega

end C2pa.C21
