import C2paModel.Model.C21
import C2paModel.Props.C20
/-
C21 — property theorems. The statement (properties.jsonl):

  An update manifest is reported Valid only if it has exactly one parentOf ingredient, no
  hard-binding assertion and only the actions allowed for update manifests, and the asset
  content bound by its parent manifest is unchanged. Any content change after an update
  manifest was added is detected.

`update_valid_iff_rules` characterises the rule block of `verify_internal` (after the repair
that moved the hard-binding test to where update manifests are actually seen) and closes a
violation with C04; `update_preserves_binding` is the soundness and completeness of the
exclusion re-basing (`rebase`): after the manifest store grew (or shrank with no later
exclusion), the re-based exclusions select exactly the bytes the parent manifest signed;
`content_change_detected` composes it with an injective hash and C04.
-/
namespace C2pa.C21
open C2pa.C34 C2pa.C20

/-! ### the rules -/

/-- the rules of the statement for an update manifest, as the code tests them -/
def UpdateRulesHold (c : C20.Claim) : Prop :=
  (∀ acts ∈ actionAssertions c, ∀ a ∈ acts, a.name ∈ allowedUpdateActions) ∧
  thumbCount c ≤ 1 ∧ hasHash c = false ∧ parentCount c = 1

theorem disallowedActionEvents_nil_iff (c : C20.Claim) (ing : Bool) :
    disallowedActionEvents c ing = [] ↔
      ∀ acts ∈ actionAssertions c, ∀ a ∈ acts, a.name ∈ allowedUpdateActions := by
  unfold disallowedActionEvents
  simp only [List.flatMap_eq_nil_iff]
  constructor
  · intro h acts hacts a ha
    have := h acts hacts a ha
    by_cases hc : allowedUpdateActions.any (· == a.name) = true
    · obtain ⟨x, hx, hx'⟩ := List.any_eq_true.1 hc
      have : x = a.name := by simpa using hx'
      rw [← this]; exact hx
    · simp [hc] at this
  · intro h acts hacts a ha
    have hm := h acts hacts a ha
    have : allowedUpdateActions.any (· == a.name) = true :=
      List.any_eq_true.2 ⟨a.name, hm, by simp⟩
    simp [this]

theorem updateParentEvents_nil_iff (n : Nat) (ing : Bool) : updateParentEvents n ing = [] ↔ n = 1 := by
  unfold updateParentEvents
  match n with
  | 0 => simp
  | 1 => simp
  | n + 2 => simp

/-- **update_valid_iff_rules (rule block)** — for an update manifest the rule block of
`verify_internal` is silent iff every action is an allowed one, there is at most one claim
thumbnail (as coded), no hard-binding assertion and exactly one `parentOf` ingredient. -/
theorem update_valid_iff_rules (c : C20.Claim) (ing : Bool) (hu : c.update = true) :
    manifestRules c ing = [] ↔ UpdateRulesHold c := by
  unfold manifestRules UpdateRulesHold
  simp only [hu, if_true, List.append_eq_nil_iff, disallowedActionEvents_nil_iff,
    updateParentEvents_nil_iff]
  constructor
  · rintro ⟨⟨⟨h1, h2⟩, h3⟩, h4⟩
    refine ⟨h1, ?_, ?_, h4⟩
    · by_cases ht : thumbCount c > 1
      · simp [ht] at h2
      · omega
    · cases hh : hasHash c
      · rfl
      · simp [hh] at h3
  · rintro ⟨h1, h2, h3, h4⟩
    refine ⟨⟨⟨h1, ?_⟩, ?_⟩, h4⟩
    · have : ¬ thumbCount c > 1 := by omega
      simp [this]
    · simp [h3]

/-- an ordinary manifest: at most one `parentOf` -/
theorem nonupdate_rules_iff (c : C20.Claim) (ing : Bool) (hu : c.update = false) :
    manifestRules c ing = [] ↔ parentCount c ≤ 1 := by
  unfold manifestRules
  simp only [hu, Bool.false_eq_true, if_false]
  by_cases h : parentCount c > 1
  · simp [h] <;> omega
  · simp [h] <;> omega

def cUpdInvalid : Str := "manifest.update.invalid".toList
def cWrongParents : Str := "manifest.update.wrongParents".toList
def cMultipleParents : Str := "manifest.multipleParents".toList
def cDataHashMismatch : Str := "assertion.dataHash.mismatch".toList

theorem update_codes_not_tolerated :
    C04.tolerated cUpdInvalid = false ∧ C04.tolerated cWrongParents = false ∧
    C04.tolerated cMultipleParents = false ∧ C04.tolerated cDataHashMismatch = false := by decide

/-- every event of the rule block is a failure with one of the three codes -/
theorem manifestRules_failures (c : C20.Claim) (ing : Bool) :
    ∀ e ∈ manifestRules c ing, e.isFailure = true ∧
      (e.code = cUpdInvalid ∨ e.code = cWrongParents ∨ e.code = cMultipleParents) := by
  intro e he
  unfold manifestRules at he
  by_cases hu : c.update = true
  · simp only [hu, if_true, List.mem_append] at he
    rcases he with ((he | he) | he) | he
    · unfold disallowedActionEvents at he
      simp only [List.mem_flatMap] at he
      obtain ⟨acts, _, a, _, ha⟩ := he
      by_cases hc : allowedUpdateActions.any (· == a.name) = true
      · simp [hc] at ha
      · simp [hc] at ha; subst ha; exact ⟨rfl, Or.inl rfl⟩
    · by_cases ht : thumbCount c > 1
      · simp [ht] at he; subst he; exact ⟨rfl, Or.inl rfl⟩
      · simp [ht] at he
    · cases hh : hasHash c
      · simp [hh] at he
      · simp [hh] at he; subst he; exact ⟨rfl, Or.inl rfl⟩
    · unfold updateParentEvents at he
      split at he
      · simp at he; subst he; exact ⟨rfl, Or.inr (Or.inl rfl)⟩
      · simp at he
      · simp at he; subst he; exact ⟨rfl, Or.inl rfl⟩
  · have hu' : c.update = false := by simpa using hu
    simp only [hu', Bool.false_eq_true, if_false] at he
    by_cases h : parentCount c > 1
    · simp [h] at he; subst he; exact ⟨rfl, Or.inr (Or.inr rfl)⟩
    · simp [h] at he

/-- **update_valid_iff_rules (verdict)** — an update manifest on which `verify_claim` runs and
which violates a rule is never reported Valid: the reported state (C04) is `Invalid` for every
log before and after, unless that very status was already recorded in an ingredient assertion. -/
theorem update_violation_invalid (c : C20.Claim) (reds : List Str) (map : List C20.Claim) (ing : Bool)
    (o : C20.Out) (h : verifyClaim c reds map ing = some o)
    (hu : c.update = true) (hv : ¬ UpdateRulesHold c)
    (pre post : List C20.Ev) (keep : C20.Ev → Bool) (uriOf : C20.Ev → List Char) (r0 : C04.Results)
    (hkeep : ∀ e ∈ manifestRules c ing, keep e = true) :
    C04.state (report keep uriOf r0 (pre ++ o.log ++ post)) = .invalid := by
  have hne : manifestRules c ing ≠ [] := fun hnil => hv ((update_valid_iff_rules c ing hu).1 hnil)
  obtain ⟨e, he⟩ := List.exists_mem_of_ne_nil _ hne
  obtain ⟨hf, hc⟩ := manifestRules_failures c ing e he
  obtain ⟨_, _, _, _, hhead, _⟩ := verifyClaim_log_contains c reds map ing o h
  have hin : e ∈ o.log := hhead e (List.mem_append_right _ he)
  have ht : C04.tolerated e.code = false := by
    obtain ⟨t1, t2, t3, _⟩ := update_codes_not_tolerated
    rcases hc with hc | hc | hc <;> rw [hc] <;> assumption
  exact report_invalid keep uriOf r0 _ e
    (List.mem_append_left _ (List.mem_append_right _ hin)) (hkeep e he) hf ht

/-- **store level** — `verify_store` on a store whose active manifest is an update manifest that
violates a rule either returns `Err` (the Reader fails) or reports `Invalid`. -/
theorem active_update_violation_never_valid (s : C20.Store) (o : C20.Out)
    (h : verifyStore s = some o) (root : C20.Claim) (hroot : s.getLast? = some root)
    (hu : root.update = true) (hv : ¬ UpdateRulesHold root)
    (keep : C20.Ev → Bool) (uriOf : C20.Ev → List Char) (r0 : C04.Results)
    (hkeep : ∀ e, e.ing = false → keep e = true) :
    o.err = true ∨ C04.state (report keep uriOf r0 o.log) = .invalid := by
  rcases verifyStore_contains_root s o h with herr | ⟨root', reds, map, vc, hr', hvc, hsub⟩
  · exact Or.inl herr
  · right
    rw [hroot] at hr'; cases hr'
    have hne : manifestRules root false ≠ [] :=
      fun hnil => hv ((update_valid_iff_rules root false hu).1 hnil)
    obtain ⟨e, he⟩ := List.exists_mem_of_ne_nil _ hne
    obtain ⟨hf, hc⟩ := manifestRules_failures root false e he
    obtain ⟨_, _, _, _, hhead, _⟩ := verifyClaim_log_contains root reds map false vc hvc
    have hin : e ∈ o.log := hsub e (hhead e (List.mem_append_right _ he))
    have hing : e.ing = false := by
      -- every event of the rule block carries the scope flag it was given
      have : ∀ e ∈ manifestRules root false, e.ing = false := by
        intro e he
        unfold manifestRules at he
        simp only [hu, if_true, List.mem_append] at he
        rcases he with ((he | he) | he) | he
        · unfold disallowedActionEvents at he
          simp only [List.mem_flatMap] at he
          obtain ⟨_, _, a, _, ha⟩ := he
          by_cases hc : allowedUpdateActions.any (· == a.name) = true
          · simp [hc] at ha
          · simp [hc] at ha; subst ha; rfl
        · by_cases ht : thumbCount root > 1
          · simp [ht] at he; subst he; rfl
          · simp [ht] at he
        · cases hh : hasHash root
          · simp [hh] at he
          · simp [hh] at he; subst he; rfl
        · unfold updateParentEvents at he
          split at he
          · simp at he; subst he; rfl
          · simp at he
          · simp at he; subst he; rfl
      exact this e he
    have ht : C04.tolerated e.code = false := by
      obtain ⟨t1, t2, t3, _⟩ := update_codes_not_tolerated
      rcases hc with hc | hc | hc <;> rw [hc] <;> assumption
    exact report_invalid keep uriOf r0 _ e hin (hkeep e hing) hf ht

/-! ### selection of hashed bytes -/

def cov (e : Rng) (i : Nat) : Bool := decide (e.start ≤ i) && decide (i < e.start + e.len)

theorem cov_iff (e : Rng) (i : Nat) : cov e i = true ↔ e.start ≤ i ∧ i < e.start + e.len := by
  simp [cov]

theorem covered_eq_any (l : List Rng) (i : Nat) : covered l i = l.any fun e => cov e i := rfl

theorem covered_append (a b : List Rng) (i : Nat) : covered (a ++ b) i = (covered a i || covered b i) := by
  simp [covered_eq_any, List.any_append]

theorem covered_cons (e : Rng) (l : List Rng) (i : Nat) : covered (e :: l) i = (cov e i || covered l i) := by
  simp [covered_eq_any]

theorem covered_map_congr (f : Rng → Rng) (l : List Rng) (i j : Nat)
    (h : ∀ e ∈ l, cov (f e) i = cov e j) : covered (l.map f) i = covered l j := by
  induction l with
  | nil => rfl
  | cons x xs ih =>
    simp only [List.map_cons, covered_cons]
    rw [h x (List.mem_cons_self ..), ih fun e he => h e (List.mem_cons_of_mem _ he)]

theorem sel_append {α : Type} (excl : List Rng) :
    ∀ (xs ys : List α) (off : Nat),
      sel excl off (xs ++ ys) = sel excl off xs ++ sel excl (off + xs.length) ys := by
  intro xs
  induction xs with
  | nil => intro ys off; simp [sel]
  | cons x xs ih =>
    intro ys off
    simp only [List.cons_append, sel, ih, List.length_cons]
    rw [show off + 1 + xs.length = off + (xs.length + 1) by omega, List.append_assoc]

theorem sel_congr {α : Type} (e1 e2 : List Rng) :
    ∀ (xs : List α) (o1 o2 : Nat),
      (∀ j < xs.length, covered e1 (o1 + j) = covered e2 (o2 + j)) → sel e1 o1 xs = sel e2 o2 xs := by
  intro xs
  induction xs with
  | nil => intro _ _ _; rfl
  | cons x xs ih =>
    intro o1 o2 h
    simp only [sel]
    have h0 := h 0 (by simp)
    simp only [Nat.add_zero] at h0
    rw [h0]
    congr 1
    apply ih
    intro j hj
    have := h (j + 1) (by simp; omega)
    rw [show o1 + 1 + j = o1 + (j + 1) by omega, show o2 + 1 + j = o2 + (j + 1) by omega]
    exact this

theorem sel_all_covered {α : Type} (e : List Rng) :
    ∀ (xs : List α) (o : Nat), (∀ j < xs.length, covered e (o + j) = true) → sel e o xs = [] := by
  intro xs
  induction xs with
  | nil => intro _ _; rfl
  | cons x xs ih =>
    intro o h
    simp only [sel]
    have h0 := h 0 (by simp)
    simp only [Nat.add_zero] at h0
    rw [h0]
    simp only [if_true, List.nil_append]
    apply ih
    intro j hj
    have := h (j + 1) (by simp; omega)
    rw [show o + 1 + j = o + (j + 1) by omega]
    exact this

/-! ### re-basing -/

theorem splitAtStart_decomp (s : Nat) (x : Rng) (hx : x.start = s) :
    ∀ (E1 E2 : List Rng), (∀ e ∈ E1, e.start ≠ s) →
      splitAtStart s (E1 ++ x :: E2) = some (E1, x, E2) := by
  intro E1
  induction E1 with
  | nil => intro E2 _; simp [splitAtStart, hx]
  | cons e es ih =>
    intro E2 h
    have he : (e.start == s) = false := by
      have := h e (List.mem_cons_self ..); simpa using this
    simp only [List.cons_append, splitAtStart, he, Bool.false_eq_true, if_false]
    rw [ih E2 fun y hy => h y (List.mem_cons_of_mem _ hy)]

/-- shape of the re-based list -/
theorem rebase_decomp (E1 E2 : List Rng) (s m m' : Nat) (hs : 0 < s)
    (hE1 : ∀ e ∈ E1, e.start ≠ s) :
    rebase (E1 ++ ⟨s, m⟩ :: E2) (some ⟨s, m'⟩) =
      E1.map (shift s (m' - m)) ++ ⟨s, m'⟩ :: E2.map (shift s (m' - m)) := by
  unfold rebase
  simp only []
  rw [splitAtStart_decomp s ⟨s, m⟩ rfl E1 E2 hE1]
  simp only [hs, if_true, List.map_append, List.map_cons]
  congr 2
  simp [shift]

/-- **update_preserves_binding** — the parent manifest's data hash excludes the manifest store
`(s, m)` (first exclusion starting at `s`) and possibly other ranges that do not touch it.
After an update manifest was added the store occupies `(s, m')` and everything behind it moved
by `m' - m`. If the store did not shrink (or nothing is excluded behind it) the re-based
exclusions select, in the new asset `pre ++ M' ++ post`, exactly the bytes the original
exclusions select in the original asset `pre ++ M ++ post`: the same content is bound. -/
theorem update_preserves_binding {α : Type} (E1 E2 : List Rng) (s m m' : Nat)
    (pre M M' post : List α)
    (hpre : pre.length = s) (hM : M.length = m) (hM' : M'.length = m')
    (hs : 0 < s) (hm : 0 < m)
    (hE1 : ∀ e ∈ E1, e.start ≠ s)
    (hdisj : ∀ e ∈ E1 ++ E2, e.start + e.len ≤ s ∨ s + m ≤ e.start)
    (hgrow : m ≤ m' ∨ ∀ e ∈ E1 ++ E2, e.start + e.len ≤ s) :
    sel (rebase (E1 ++ ⟨s, m⟩ :: E2) (some ⟨s, m'⟩)) 0 (pre ++ M' ++ post) =
      sel (E1 ++ ⟨s, m⟩ :: E2) 0 (pre ++ M ++ post) := by
  rw [rebase_decomp E1 E2 s m m' hs hE1]
  have hshift_lo : ∀ e ∈ E1 ++ E2, ∀ j, j < s → cov (shift s (m' - m) e) j = cov e j := by
    intro e _ j hj
    unfold shift
    by_cases hgt : e.start > s
    · simp only [hgt, if_true]
      rw [Bool.eq_iff_iff, cov_iff, cov_iff]
      simp only []
      constructor <;> (intro h; omega)
    · simp [hgt]
  have hshift_hi : ∀ e ∈ E1 ++ E2, ∀ j, cov (shift s (m' - m) e) (s + m' + j) = cov e (s + m + j) := by
    intro e he j
    have hd := hdisj e he
    unfold shift
    by_cases hgt : e.start > s
    · simp only [hgt, if_true]
      rw [Bool.eq_iff_iff, cov_iff, cov_iff]
      simp only []
      rcases hgrow with hg | hg
      · constructor <;> (intro h; omega)
      · have := hg e he
        constructor <;> (intro h; omega)
    · simp only [hgt, if_false]
      rw [Bool.eq_iff_iff, cov_iff, cov_iff]
      constructor <;> (intro h; omega)
  have hmem1 : ∀ e ∈ E1, e ∈ E1 ++ E2 := fun e he => List.mem_append_left _ he
  have hmem2 : ∀ e ∈ E2, e ∈ E1 ++ E2 := fun e he => List.mem_append_right _ he
  -- split both assets into the three regions
  rw [List.append_assoc, List.append_assoc, sel_append, sel_append, sel_append, sel_append]
  simp only [Nat.zero_add, hpre, hM, hM']
  -- region 1: before the store
  have h1 : sel (E1.map (shift s (m' - m)) ++ ⟨s, m'⟩ :: E2.map (shift s (m' - m))) 0 pre =
      sel (E1 ++ ⟨s, m⟩ :: E2) 0 pre := by
    apply sel_congr
    intro j hj
    rw [hpre] at hj
    simp only [Nat.zero_add, covered_append, covered_cons]
    rw [covered_map_congr _ E1 j j fun e he => hshift_lo e (hmem1 e he) j hj,
      covered_map_congr _ E2 j j fun e he => hshift_lo e (hmem2 e he) j hj]
    congr 2
    rw [Bool.eq_iff_iff, cov_iff, cov_iff]
    simp only []
    constructor <;> (intro h; omega)
  -- region 2: the store itself is excluded on both sides
  have h2 : sel (E1.map (shift s (m' - m)) ++ ⟨s, m'⟩ :: E2.map (shift s (m' - m))) s M' = [] := by
    apply sel_all_covered
    intro j hj
    rw [hM'] at hj
    simp only [covered_append, covered_cons]
    have : cov ⟨s, m'⟩ (s + j) = true := by rw [cov_iff]; simp only []; omega
    simp [this]
  have h2' : sel (E1 ++ ⟨s, m⟩ :: E2) s M = ([] : List α) := by
    apply sel_all_covered
    intro j hj
    rw [hM] at hj
    simp only [covered_append, covered_cons]
    have : cov ⟨s, m⟩ (s + j) = true := by rw [cov_iff]; simp only []; omega
    simp [this]
  -- region 3: behind the store, shifted
  have h3 : sel (E1.map (shift s (m' - m)) ++ ⟨s, m'⟩ :: E2.map (shift s (m' - m))) (s + m') post =
      sel (E1 ++ ⟨s, m⟩ :: E2) (s + m) post := by
    apply sel_congr
    intro j _
    simp only [covered_append, covered_cons]
    rw [covered_map_congr _ E1 (s + m' + j) (s + m + j) fun e he => hshift_hi e (hmem1 e he) j,
      covered_map_congr _ E2 (s + m' + j) (s + m + j) fun e he => hshift_hi e (hmem2 e he) j]
    congr 2
    rw [Bool.eq_iff_iff, cov_iff, cov_iff]
    simp only []
    constructor <;> (intro h; omega)
  rw [h1, h2, h2', h3]

/-! ### content changes -/

/-- **content_change_detected** — with a collision-free hash `H`, the data-hash comparison on
the updated asset (re-based exclusions) succeeds exactly when the selected bytes are the
bytes the parent manifest signed; if the content behind or before the store changed, the
failure `assertion.dataHash.mismatch` is logged. -/
theorem content_change_detected {α δ : Type} [DecidableEq δ] (H : List α → δ)
    (hinj : ∀ a b, H a = H b → a = b)
    (excl : List Rng) (signed asset' : List α) (excl' : List Rng) :
    dataHashEvent H (H (sel excl 0 signed)) excl' asset' = C20.succ "assertion.dataHash.match" false ↔
      sel excl' 0 asset' = sel excl 0 signed := by
  unfold dataHashEvent
  by_cases h : H (sel excl' 0 asset') = H (sel excl 0 signed)
  · simp only [h, if_true, true_iff]; exact hinj _ _ h
  · simp only [h, if_false]
    constructor
    · intro hc
      have hk := congrArg C20.Ev.kind hc
      simp [C20.fail, C20.succ] at hk
    · intro hc; rw [hc] at h; exact absurd rfl h

/-- the two composed: after an update that kept the content (`post' = post`, `pre' = pre`) the
binding still matches; after any change of the selected content it does not, and the reported
state is `Invalid`. -/
theorem content_change_invalid {α δ : Type} [DecidableEq δ] (H : List α → δ)
    (hinj : ∀ a b, H a = H b → a = b)
    (excl excl' : List Rng) (signed asset' : List α)
    (hchanged : sel excl' 0 asset' ≠ sel excl 0 signed)
    (pre post : List C20.Ev) (keep : C20.Ev → Bool) (uriOf : C20.Ev → List Char) (r0 : C04.Results)
    (hkeep : keep (C20.fail "assertion.dataHash.mismatch" false) = true) :
    C04.state (report keep uriOf r0
      (pre ++ [dataHashEvent H (H (sel excl 0 signed)) excl' asset'] ++ post)) = .invalid := by
  have hev : dataHashEvent H (H (sel excl 0 signed)) excl' asset' =
      C20.fail "assertion.dataHash.mismatch" false := by
    unfold dataHashEvent
    have : ¬ H (sel excl' 0 asset') = H (sel excl 0 signed) := fun h => hchanged (hinj _ _ h)
    simp [this]
  rw [hev]
  exact report_invalid keep uriOf r0 _ _
    (List.mem_append_left _ (List.mem_append_right _ (List.mem_singleton.2 rfl))) hkeep rfl
    update_codes_not_tolerated.2.2.2

/-- changing a selected byte changes the selection: a byte at an uncovered offset of the asset
is part of what is hashed (so `hchanged` above is met by any change of a content byte) -/
theorem selected_byte_matters {α : Type} (excl : List Rng) (pre post : List α) (x y : α) (hxy : x ≠ y)
    (hunc : covered excl pre.length = false) :
    sel excl 0 (pre ++ x :: post) ≠ sel excl 0 (pre ++ y :: post) := by
  have hx : ∀ z : α, sel excl pre.length (z :: post) = z :: sel excl (pre.length + 1) post := by
    intro z; simp [sel, hunc]
  intro h
  rw [sel_append, sel_append, Nat.zero_add, hx x, hx y] at h
  have h' := List.append_cancel_left h
  injection h' with h1 _
  exact hxy h1

/-! ### non-vacuity -/

example : rebase [⟨2, 1⟩, ⟨10, 5⟩, ⟨20, 2⟩] (some ⟨10, 9⟩) = [⟨2, 1⟩, ⟨10, 9⟩, ⟨24, 2⟩] := by decide
example : sel (rebase [⟨2, 1⟩, ⟨4, 2⟩, ⟨8, 1⟩] (some ⟨4, 3⟩)) 0 [0, 1, 2, 3, 90, 91, 92, 6, 7, 8, 9]
    = sel [⟨2, 1⟩, ⟨4, 2⟩, ⟨8, 1⟩] 0 [0, 1, 2, 3, 90, 91, 6, 7, 8, 9] := by decide
/-- the hypothesis `m ≤ m'` (or nothing excluded behind the store) is needed: a store that shrank
leaves later exclusions where they were -/
example : sel (rebase [⟨4, 3⟩, ⟨9, 1⟩] (some ⟨4, 2⟩)) 0 [0, 1, 2, 3, 90, 91, 7, 8, 9]
    ≠ sel [⟨4, 3⟩, ⟨9, 1⟩] 0 [0, 1, 2, 3, 90, 91, 92, 7, 8, 9] := by decide

def exUpdate : C20.Claim :=
  { label := "urn:c2pa:uu".toList, version := 2, update := true, sigOk := true, assertions := [],
    store := [⟨"c2pa.ingredient.v3".toList, 0, "h".toList, false,
                .ingredient (some ⟨.parentOf, 3, true, none, none⟩)⟩,
              ⟨"c2pa.actions.v2".toList, 0, "g".toList, false,
                .actions [⟨"c2pa.opened".toList, none⟩, ⟨"c2pa.published".toList, none⟩]⟩],
    redactions := none, boxHash := [], sigHash := [], dataHash := [] }

example : manifestRules exUpdate false = [] := by decide
example : manifestRules { exUpdate with store := exUpdate.store ++ [⟨"c2pa.hash.data".toList, 0, [], false, .hash⟩] } false
    = [C20.fail "manifest.update.invalid" false] := by decide
example : manifestRules { exUpdate with store := exUpdate.store.drop 1 } false
    = [C20.fail "manifest.update.wrongParents" false] := by decide

end C2pa.C21
