import C2paModel.Model.C11
import C2paModel.Gen.C11Table
import C2paModel.Lemmas.C11Sig
import C2paModel.Lemmas.C11Norm
import C2paModel.Lemmas.C11IO
/-
C11 — property theorems (format-hint reconciliation).

Statement: when the leading bytes of a stream identify a supported container, reading it
gives the same result whatever format hint the caller supplies; the hint only matters when
the bytes identify no container.

Layers (all tied to the code by the differential run):
* `detect` / `resolve`   — abstract: the stream is its byte list;
* `detectIO` / `resolveIO` — the read loop of `container_from_stream` with short reads,
  `Interrupted`, read and seek errors; `detectIO_refines` links it to `detect`;
* `readerOf` — the lookup `get_cailoader_handler` does with the resolved string, over the reader
  map dumped from the running code.

What is proved (every byte string, every hint, every I/O script, every table satisfying the
regenerated-table obligations, which are re-proved by the kernel on every run):
* the format handed on lies in the detected container's family whatever the hint
  (`detected_wins`, also at the I/O level), and it selects the *same handler instance* whatever
  the hint (`handler_hint_independent_current`);
* the hint influences the family **iff** nothing is detected (`hint_matters_iff_undetected`);
* detection looks only at the first 16 bytes, plus four bytes after an ID3 tag (`detect_prefix`,
  `detect_congr`); which signature wins does not depend on the rule order except for the
  "ftyp at offset 4" rule (`offset0_signatures_exclusive`, `detect_eq_of_signature`);
* normalising the hint first changes nothing (`normalize_invariant`).
That one handler instance reads one byte string in one way is not a theorem (the handlers are
not modelled); see registry/C11.json `partial`.
-/
namespace C2pa.C11

/-! ### helpers -/

theorem firstMatch_mem (rs : List (Bool × Fmt)) (d : Fmt) (h : firstMatch rs = some d) :
    d ∈ rs.map (·.2) := by
  induction rs with
  | nil => simp [firstMatch] at h
  | cons r rs ih =>
    obtain ⟨c, e⟩ := r
    unfold firstMatch at h
    cases c with
    | true => simp at h; simp [h]
    | false => simp at h; simp [ih h]

theorem rulesB_literals (pdf : Bool) (buf : List UInt8) (flac : Bool) :
    (rulesB pdf buf flac).map (·.2) = detectLiterals pdf := by
  cases pdf <;> simp [rulesB, detectLiterals]

theorem detectB_mem_literals (pdf : Bool) (buf : List UInt8) (probe : Bool) (d : Fmt)
    (h : detectB pdf buf probe = some d) : d ∈ detectLiterals pdf := by
  unfold detectB at h
  split at h
  · cases h
  · rw [← rulesB_literals pdf _ _]; exact firstMatch_mem _ _ h

theorem detect_mem_literals (pdf : Bool) (s : List UInt8) (d : Fmt)
    (h : detect pdf s = some d) : d ∈ detectLiterals pdf :=
  detectB_mem_literals pdf _ _ d h

theorem detectIO_mem_literals (pdf : Bool) (script : List Ev) (sf : Option Nat) (s : List UInt8)
    (d : Fmt) (h : detectIO pdf script sf s = some d) : d ∈ detectLiterals pdf := by
  unfold detectIO at h
  split at h
  · cases h
  · split at h
    · cases h
    · split at h
      · cases h
      · exact detectB_mem_literals pdf _ _ d h

theorem table_self (t : Table) (pdf : Bool) (d : Fmt) (hok : TableOk t pdf = true)
    (hm : d ∈ detectLiterals pdf) : containerFromFormat t d = some d := by
  unfold TableOk at hok
  have := (List.all_eq_true.1 hok) d hm
  simpa using this

/-- The reconciliation step: a detected container of the table wins over every hint. -/
theorem reconcile_detected (t : Table) (pdf : Bool) (hint d : Fmt) (hok : TableOk t pdf = true)
    (hm : d ∈ detectLiterals pdf) : containerFromFormat t (reconcile t hint (some d)) = some d := by
  have hself := table_self t pdf d hok hm
  unfold reconcile
  cases hh : containerFromFormat t hint with
  | none => simpa using hself
  | some h =>
    by_cases heq : (h == d) = true
    · have : h = d := by simpa using heq
      simp [hh, this]
    · simp [heq, hself]

theorem reconcile_none (t : Table) (hint : Fmt) : reconcile t hint none = hint := by
  unfold reconcile; cases containerFromFormat t hint <;> rfl

/-! ### Detection wins — abstract layer -/

/-- **Detection wins**: if the bytes identify container `d`, the resolved format belongs to
family `d` whatever the hint. -/
theorem detected_wins (t : Table) (pdf : Bool) (hint : Fmt) (s : List UInt8) (d : Fmt)
    (hok : TableOk t pdf = true) (hd : detect pdf s = some d) :
    containerFromFormat t (resolve t pdf hint s) = some d := by
  unfold resolve; rw [hd]
  exact reconcile_detected t pdf hint d hok (detect_mem_literals pdf s d hd)

/-- **Hint independence of the family** (corollary). -/
theorem resolve_family_hint_independent (t : Table) (pdf : Bool) (h₁ h₂ : Fmt) (s : List UInt8)
    (d : Fmt) (hok : TableOk t pdf = true) (hd : detect pdf s = some d) :
    containerFromFormat t (resolve t pdf h₁ s) = containerFromFormat t (resolve t pdf h₂ s) := by
  rw [detected_wins t pdf h₁ s d hok hd, detected_wins t pdf h₂ s d hok hd]

/-- helper (unfolding): the hint is used unchanged when nothing is detected. -/
theorem hint_used_if_undetected (t : Table) (pdf : Bool) (hint : Fmt) (s : List UInt8)
    (hd : detect pdf s = none) : resolve t pdf hint s = hint := by
  unfold resolve; rw [hd]; exact reconcile_none t hint

/-- helper (unfolding) -/
theorem resolve_is_hint_or_detected (t : Table) (pdf : Bool) (hint : Fmt) (s : List UInt8) (d : Fmt)
    (hd : detect pdf s = some d) :
    resolve t pdf hint s = d ∨
      (resolve t pdf hint s = hint ∧ containerFromFormat t hint = some d) := by
  unfold resolve reconcile; rw [hd]
  cases hh : containerFromFormat t hint with
  | none => left; rfl
  | some h =>
    by_cases heq : (h == d) = true
    · right; have : h = d := by simpa using heq
      simp [this]
    · left; simp [heq]

/-- helper (unfolding): streams shorter than two bytes never identify a container. -/
theorem short_undetected (pdf : Bool) (s : List UInt8) (h : s.length < 2) : detect pdf s = none := by
  unfold detect detectB
  have : (s.take 16).length < 2 := by rw [List.length_take]; omega
  rw [if_pos this]

/-- **The hint matters iff nothing is detected** (both clauses of the statement in one
characterisation): two hints leading to different container families exist exactly when the bytes
identify no container. `hdiff` only says the table knows at least two families (or one family and
an unknown string). -/
theorem hint_matters_iff_undetected (t : Table) (pdf : Bool) (s : List UInt8)
    (hok : TableOk t pdf = true)
    (hdiff : ∃ a b : Fmt, containerFromFormat t a ≠ containerFromFormat t b) :
    (∃ h₁ h₂ : Fmt,
        containerFromFormat t (resolve t pdf h₁ s) ≠ containerFromFormat t (resolve t pdf h₂ s))
      ↔ detect pdf s = none := by
  constructor
  · rintro ⟨h₁, h₂, hne⟩
    cases hd : detect pdf s with
    | none => rfl
    | some d => exact absurd (resolve_family_hint_independent t pdf h₁ h₂ s d hok hd) hne
  · intro hd
    obtain ⟨a, b, hab⟩ := hdiff
    exact ⟨a, b, by rw [hint_used_if_undetected t pdf a s hd, hint_used_if_undetected t pdf b s hd]; exact hab⟩

/-! ### Detection looks at the leading bytes only -/

theorem rulesB_flac_irrelevant (pdf : Bool) (buf : List UInt8) (f₁ f₂ : Bool)
    (h : isId3 buf = false) : rulesB pdf buf f₁ = rulesB pdf buf f₂ := by
  unfold rulesB; simp [h]

/-- Two streams with the same first 16 bytes and the same four bytes at the ID3 probe offset are
detected alike. -/
theorem detect_congr (pdf : Bool) (s₁ s₂ : List UInt8) (h16 : s₁.take 16 = s₂.take 16)
    (hprobe : sliceEq s₁ (10 + id3Size (s₁.take 16)) mFLaC
      = sliceEq s₂ (10 + id3Size (s₁.take 16)) mFLaC) :
    detect pdf s₁ = detect pdf s₂ := by
  unfold detect
  rw [← h16, hprobe]

/-- **Leading bytes**: unless the buffer starts with an ID3 tag header, detection is a function of
the first 16 bytes (no rule seeks). -/
theorem detect_prefix (pdf : Bool) (s : List UInt8) (h : isId3 (s.take 16) = false) :
    detect pdf s = detect pdf (s.take 16) := by
  unfold detect
  have ht : (s.take 16).take 16 = s.take 16 := by rw [List.take_take]; simp
  rw [ht]
  unfold detectB
  rw [rulesB_flac_irrelevant pdf (s.take 16) _ (sliceEq (s.take 16) (10 + id3Size (s.take 16)) mFLaC) h]

/-- hence bytes after the 16th never matter for a non-ID3 stream -/
theorem detect_append_irrelevant (pdf : Bool) (p x y : List UInt8) (hp : p.length = 16)
    (h : isId3 p = false) : detect pdf (p ++ x) = detect pdf (p ++ y) := by
  have e : ∀ z : List UInt8, (p ++ z).take 16 = p := by
    intro z; rw [← hp]; simp
  rw [detect_prefix pdf (p ++ x) (by rw [e]; exact h), detect_prefix pdf (p ++ y) (by rw [e]; exact h), e, e]

/-! ### Which signature wins does not depend on the rule order

Lemmas/C11Sig proves `offset0_signatures_exclusive` (no two offset-0 magic tests hold together,
for any buffer) and `detect_eq_of_signature` (a signature that is present is the result, except
that "ftyp at offset 4" precedes fLaC / ID3 / MPEG sync / %PDF). -/

/-! ### Normalising the hint first changes nothing (idempotence lemmas: Lemmas/C11Norm) -/

/-- **Normalising the hint before the call does not change the family handed on** (the hint is
passed on verbatim when its family matches, so this is what makes " IMAGE/JPEG " and
"image/jpeg" interchangeable for every later normalising lookup). -/
theorem normalize_invariant (t : Table) (pdf : Bool) (h : Fmt) (s : List UInt8) :
    containerFromFormat t (resolve t pdf (normalize h) s)
      = containerFromFormat t (resolve t pdf h s) := by
  unfold resolve reconcile
  rw [containerFromFormat_normalize]
  cases containerFromFormat t h with
  | none => cases detect pdf s <;> simp [containerFromFormat_normalize]
  | some c =>
    cases detect pdf s with
    | none => simp [containerFromFormat_normalize]
    | some d => by_cases hcd : (c == d) = true <;> simp [hcd, containerFromFormat_normalize]

/-- … and the normalised resolved string (what every later lookup uses) is literally the same
whether or not the caller normalised the hint. -/
theorem normalize_resolve (t : Table) (pdf : Bool) (h : Fmt) (s : List UInt8) :
    normalize (resolve t pdf (normalize h) s) = normalize (resolve t pdf h s) := by
  unfold resolve reconcile
  rw [containerFromFormat_normalize]
  cases containerFromFormat t h with
  | none => cases detect pdf s <;> simp [normalize_idem]
  | some c =>
    cases detect pdf s with
    | none => simp [normalize_idem]
    | some d => by_cases hcd : (c == d) = true <;> simp [hcd, normalize_idem]

/-! ### I/O level: the read loop refines the abstract layer (fill-loop lemmas: Lemmas/C11IO) -/

/-- **Refinement**: whatever way a well-behaved stream chops up its reads (short reads of any
size, `Interrupted` at any point), `container_from_stream` detects exactly what the abstract
layer detects on the byte string. -/
theorem detectIO_refines (pdf : Bool) (script : List Ev) (s : List UInt8) (hb : Benign script) :
    detectIO pdf script none s = detect pdf s :=
  (detectIO_eq pdf script s (s.take 16) ((s.drop (10 + id3Size (s.take 16))).take 4)
    (fill_benign_fst 16 script s hb)
    (fill_benign_fst 4 _ _ (fill_benign_snd 16 script s hb))).trans
    (congrArg (detectB pdf (s.take 16)) (sliceEq_mFLaC s (10 + id3Size (s.take 16))).symm)

theorem resolveIO_refines (t : Table) (pdf : Bool) (script : List Ev) (hint : Fmt) (s : List UInt8)
    (hb : Benign script) : resolveIO t pdf script none hint s = resolve t pdf hint s := by
  unfold resolveIO resolve; rw [detectIO_refines pdf script s hb]

/-- **A hard read error while sniffing hands the decision to the hint**: if the stream fails
before the 16-byte buffer is full (and before its end), nothing is detected and the hint is
used unchanged — for every hint, stream and error position. -/
theorem resolveIO_read_error_uses_hint (t : Table) (pdf : Bool) (pre post : List Ev)
    (sf : Option Nat) (hint : Fmt) (s : List UInt8) (hb : Benign pre)
    (h16 : budget pre < 16) (hs : budget pre < s.length) :
    resolveIO t pdf (pre ++ Ev.fail :: post) sf hint s = hint := by
  have hnone : detectIO pdf (pre ++ Ev.fail :: post) sf s = none :=
    detectIO_none_of_fill_none pdf _ sf s
      (fill_hits_error 16 pre post hb s [] (by simpa using h16) hs)
  unfold resolveIO; rw [hnone]; exact reconcile_none t hint

/-- **Detection wins at the I/O level too, faults or not**: whatever the stream does, if
`container_from_stream` returns `d` the resolved format is in family `d` for every hint. -/
theorem detected_wins_io (t : Table) (pdf : Bool) (script : List Ev) (sf : Option Nat)
    (hint : Fmt) (s : List UInt8) (d : Fmt)
    (hok : TableOk t pdf = true) (hd : detectIO pdf script sf s = some d) :
    containerFromFormat t (resolveIO t pdf script sf hint s) = some d := by
  unfold resolveIO; rw [hd]
  exact reconcile_detected t pdf hint d hok (detectIO_mem_literals pdf script sf s d hd)

/-! ### Same family ⇒ same handler (over the reader map of the running code) -/

/-- the container map and the reader map agree: every registered string selects the same handler
instance as its container id, and that handler exists -/
def FamilyOk (t readers : Table) : Bool :=
  t.all (fun e => readerOfKey readers e.1 == readerOfKey readers e.2 && (readerOfKey readers e.1).isSome)

theorem reader_of_family (t readers : Table) (f d : Fmt) (hfam : FamilyOk t readers = true)
    (h : containerFromFormat t f = some d) :
    readerOf readers f = readerOfKey readers d ∧ (readerOfKey readers d).isSome = true := by
  unfold containerFromFormat at h
  cases hf : t.find? (fun e => e.1 == normalize f) with
  | none => rw [hf] at h; cases h
  | some e =>
    rw [hf] at h
    have hd : e.2 = d := by simpa using h
    have hmem := List.mem_of_find?_eq_some hf
    have hkey : e.1 = normalize f := by simpa using List.find?_some hf
    unfold FamilyOk at hfam
    have := (List.all_eq_true.1 hfam) e hmem
    simp only [Bool.and_eq_true, beq_iff_eq] at this
    unfold readerOf
    rw [← hkey, ← hd]
    exact ⟨this.1, by rw [← this.1]; exact this.2⟩

/-- **The handler used for reading does not depend on the hint**: when the bytes identify
container `d`, `get_cailoader_handler(resolved format)` is the handler registered under `d`
itself, for every hint. -/
theorem handler_hint_independent (t readers : Table) (pdf : Bool) (hint : Fmt) (s : List UInt8)
    (d : Fmt) (hok : TableOk t pdf = true) (hfam : FamilyOk t readers = true)
    (hd : detect pdf s = some d) :
    readerOf readers (resolve t pdf hint s) = readerOfKey readers d
      ∧ (readerOfKey readers d).isSome = true :=
  reader_of_family t readers _ d hfam (detected_wins t pdf hint s d hok hd)

/-! ### Obligations on the regenerated tables (re-checked on every run) -/

/-- CONTAINER_MAP of the current tree maps every detectable literal to itself. -/
theorem table_ok : TableOk Gen.table Gen.pdf = true := by decide +kernel

/-- Every literal returned by `container_from_stream` in the current source is one the model returns. -/
theorem scanned_literals_modelled :
    Gen.scannedLiterals.all (fun l => (detectLiterals true).contains l) = true := by decide +kernel

/-- and conversely (no modelled literal has disappeared from the source). -/
theorem modelled_literals_scanned :
    (detectLiterals true).all (fun l => Gen.scannedLiterals.contains l) = true := by decide +kernel

/-- In the current tree every registered format string selects the same reader-handler instance
as its container id (CONTAINER_MAP and CAI_READERS still derive from one list). -/
theorem family_same_handler : FamilyOk Gen.table Gen.readers = true := by decide +kernel

/-- … and both maps have exactly the same keys. -/
theorem reader_keys_eq_container_keys :
    (Gen.readers.map (·.1) == Gen.table.map (·.1)) = true := by decide +kernel

/-- the current table knows two families, so the hint *can* matter -/
theorem table_two_families :
    ∃ a b : Fmt, containerFromFormat Gen.table a ≠ containerFromFormat Gen.table b :=
  ⟨"jpg".toList, "png".toList, by decide +kernel⟩

/-- The theorems instantiated with the current tree's tables. -/
theorem detected_wins_current (hint : Fmt) (s : List UInt8) (d : Fmt)
    (hd : detect Gen.pdf s = some d) :
    containerFromFormat Gen.table (resolve Gen.table Gen.pdf hint s) = some d :=
  detected_wins Gen.table Gen.pdf hint s d table_ok hd

theorem handler_hint_independent_current (h₁ h₂ : Fmt) (s : List UInt8) (d : Fmt)
    (hd : detect Gen.pdf s = some d) :
    readerOf Gen.readers (resolve Gen.table Gen.pdf h₁ s)
        = readerOf Gen.readers (resolve Gen.table Gen.pdf h₂ s)
      ∧ (readerOf Gen.readers (resolve Gen.table Gen.pdf h₁ s)).isSome = true := by
  have a := handler_hint_independent Gen.table Gen.readers Gen.pdf h₁ s d table_ok family_same_handler hd
  have c := handler_hint_independent Gen.table Gen.readers Gen.pdf h₂ s d table_ok family_same_handler hd
  exact ⟨by rw [a.1, c.1], by rw [a.1]; exact a.2⟩

/-- the same for every stream behaviour (short reads, `Interrupted`, read/seek errors): whenever
`container_from_stream` returns a container, the reader handler does not depend on the hint -/
theorem handler_hint_independent_io_current (script : List Ev) (sf : Option Nat) (h₁ h₂ : Fmt)
    (s : List UInt8) (d : Fmt) (hd : detectIO Gen.pdf script sf s = some d) :
    readerOf Gen.readers (resolveIO Gen.table Gen.pdf script sf h₁ s)
        = readerOf Gen.readers (resolveIO Gen.table Gen.pdf script sf h₂ s)
      ∧ (readerOf Gen.readers (resolveIO Gen.table Gen.pdf script sf h₁ s)).isSome = true := by
  have a := reader_of_family Gen.table Gen.readers _ d family_same_handler
    (detected_wins_io Gen.table Gen.pdf script sf h₁ s d table_ok hd)
  have c := reader_of_family Gen.table Gen.readers _ d family_same_handler
    (detected_wins_io Gen.table Gen.pdf script sf h₂ s d table_ok hd)
  exact ⟨by rw [a.1, c.1], by rw [a.1]; exact a.2⟩

theorem hint_matters_iff_undetected_current (s : List UInt8) :
    (∃ h₁ h₂ : Fmt,
        containerFromFormat Gen.table (resolve Gen.table Gen.pdf h₁ s)
          ≠ containerFromFormat Gen.table (resolve Gen.table Gen.pdf h₂ s))
      ↔ detect Gen.pdf s = none :=
  hint_matters_iff_undetected Gen.table Gen.pdf s table_ok table_two_families

/-- the magic constants of the model spell what the source spells -/
theorem magic_spelling :
    b "GIF87a" = mGIF87a ∧ b "GIF89a" = mGIF89a ∧ b "RIFF" = mRIFF ∧ b "ftyp" = mFtyp
      ∧ b "fLaC" = mFLaC ∧ b "ID3" = mID3 ∧ b "%PDF" = mPDF := by decide +kernel

/-! ### Non-vacuity -/
example : detect true [0xff, 0xd8, 0xff, 0xe0] = some "jpg".toList := by decide +kernel
example : resolve Gen.table Gen.pdf "image/png".toList [0xff, 0xd8, 0xff, 0xe0] = "jpg".toList := by decide +kernel
example : resolve Gen.table Gen.pdf " IMAGE/JPEG ".toList [0xff, 0xd8, 0xff, 0xe0] = " IMAGE/JPEG ".toList := by decide +kernel
example : detect true [0x00, 0x01, 0x02] = none := by decide +kernel
-- the handler theorem is about a real handler: nef on TIFF bytes keeps "nef" and selects the TIFF handler
example : readerOf Gen.readers (resolve Gen.table Gen.pdf "nef".toList [0x4d, 0x4d, 0x00, 0x2a])
    = readerOfKey Gen.readers "tif".toList := by decide +kernel
example : (readerOfKey Gen.readers "tif".toList).isSome = true := by decide +kernel
-- `detect_prefix` hypothesis holds for a non-ID3 buffer and fails only for ID3 headers
example : isId3 ([0x89, 0x50, 0x4e, 0x47, 0x0d, 0x0a, 0x1a, 0x0a] ++ List.replicate 8 0) = false := by decide +kernel
-- an ID3 stream where bytes beyond the 16th do decide (why `detect_prefix` needs its hypothesis)
example : detect true (mID3 ++ [4, 0, 0, 0, 0, 0, 6] ++ List.replicate 6 0 ++ mFLaC) = some lFlac := by decide +kernel
example : detect true (mID3 ++ [4, 0, 0, 0, 0, 0, 6] ++ List.replicate 6 0 ++ b "fLaX") = some lMp3 := by decide +kernel
-- order matters only around ftyp: fLaC + ftyp is BMFF, RIFF + ftyp is RIFF
example : detect true (mFLaC ++ mFtyp) = some lAvif := by decide +kernel
example : detect true (mRIFF ++ mFtyp) = some lAvi := by decide +kernel
-- `Benign` scripts exist and chop the reads; a faulty script changes the outcome
example : Benign [Ev.chunk 1, Ev.intr, Ev.chunk 2, Ev.chunk 5] := by
  intro ev h; simp at h; rcases h with h | h | h | h <;> subst h <;> simp
example : detectIO true [Ev.chunk 1, Ev.intr, Ev.chunk 2, Ev.chunk 5] none [0xff, 0xd8, 0xff, 0xe0] = some lJpg := by decide +kernel
example : detectIO true [Ev.chunk 1, Ev.fail] none [0xff, 0xd8, 0xff, 0xe0] = none := by decide +kernel
example : detectIO true [Ev.chunk 2, Ev.chunk 0] none [0xff, 0xd8, 0xff, 0xe0] = none := by decide +kernel
-- hypotheses of `resolveIO_read_error_uses_hint`: 3 bytes delivered, then the error
example : Benign [Ev.chunk 3] ∧ budget [Ev.chunk 3] < 16 ∧ budget [Ev.chunk 3] < [0xff, 0xd8, 0xff, 0xe0].length := by
  refine ⟨?_, by decide, by decide⟩
  intro ev h; simp at h; subst h; simp
-- `detect_eq_of_signature`: signature 3 (TIFF) present together with ftyp — TIFF (listed before ftyp) wins
example : ((sig0 true ([0x49, 0x49, 0x2a, 0x00] ++ mFtyp) false)[3]).1 = true := by decide +kernel
example : detect true ([0x49, 0x49, 0x2a, 0x00] ++ mFtyp) = some lTif := by decide +kernel
example : resolveIO Gen.table true [Ev.chunk 1, Ev.fail] none "png".toList [0xff, 0xd8, 0xff, 0xe0] = "png".toList := by decide +kernel

end C2pa.C11
