import C2paModel.Model.C11
import C2paModel.Gen.C11Table
/-
C11 — property theorems (format-hint reconciliation).

Statement: when the leading bytes of a stream identify a supported container, reading it
gives the same result whatever format hint the caller supplies; the hint only matters when
the bytes identify no container.

What is proved here (for every byte string, every hint string and every container table
satisfying the regenerated-table obligation `TableOk`): the format handed to the rest of the
reader is in the *detected container's family* independently of the hint, and is the hint
itself exactly when nothing is detected. That formats of one family are read identically
(same handler type) is established end-to-end by the correspondence run (every fixture ×
every format string), not by a theorem — see registry/C11.json `partial`.
-/
namespace C2pa.C11

theorem firstMatch_mem (rs : List (Bool × Fmt)) (d : Fmt) (h : firstMatch rs = some d) :
    d ∈ rs.map (·.2) := by
  induction rs with
  | nil => simp [firstMatch] at h
  | cons r rs ih =>
    obtain ⟨c, e⟩ := r
    unfold firstMatch at h
    cases c with
    | true => simp at h; simp [h]
    | false => simp at h; simp [ih h]

theorem rules_literals (pdf : Bool) (s : List UInt8) :
    (rules pdf s).map (·.2) = detectLiterals pdf := by
  cases pdf <;> simp [rules, detectLiterals]

theorem detect_mem_literals (pdf : Bool) (s : List UInt8) (d : Fmt)
    (h : detect pdf s = some d) : d ∈ detectLiterals pdf := by
  unfold detect at h
  split at h
  · cases h
  · rw [← rules_literals pdf s]; exact firstMatch_mem _ _ h

/-- **Detection wins**: if the bytes identify container `d`, the resolved format belongs to
family `d` whatever the hint. -/
theorem detected_wins (t : Table) (pdf : Bool) (hint : Fmt) (s : List UInt8) (d : Fmt)
    (hok : TableOk t pdf = true) (hd : detect pdf s = some d) :
    containerFromFormat t (resolve t pdf hint s) = some d := by
  have hself : containerFromFormat t d = some d := by
    have hm := detect_mem_literals pdf s d hd
    unfold TableOk at hok
    have := (List.all_eq_true.1 hok) d hm
    simpa using this
  unfold resolve
  rw [hd]
  cases hh : containerFromFormat t hint with
  | none => simpa using hself
  | some h =>
    by_cases heq : (h == d) = true
    · have : h = d := by simpa using heq
      simp [heq, hh, this]
    · simp [heq, hself]

/-- **Hint independence of the family** (corollary). -/
theorem resolve_family_hint_independent (t : Table) (pdf : Bool) (h₁ h₂ : Fmt) (s : List UInt8)
    (d : Fmt) (hok : TableOk t pdf = true) (hd : detect pdf s = some d) :
    containerFromFormat t (resolve t pdf h₁ s) = containerFromFormat t (resolve t pdf h₂ s) := by
  rw [detected_wins t pdf h₁ s d hok hd, detected_wins t pdf h₂ s d hok hd]

/-- The hint is used unchanged when (and, up to family, only when) nothing is detected. -/
theorem hint_used_if_undetected (t : Table) (pdf : Bool) (hint : Fmt) (s : List UInt8)
    (hd : detect pdf s = none) : resolve t pdf hint s = hint := by
  unfold resolve; rw [hd]; cases containerFromFormat t hint <;> rfl

theorem resolve_is_hint_or_detected (t : Table) (pdf : Bool) (hint : Fmt) (s : List UInt8) (d : Fmt)
    (hd : detect pdf s = some d) :
    resolve t pdf hint s = d ∨
      (resolve t pdf hint s = hint ∧ containerFromFormat t hint = some d) := by
  unfold resolve; rw [hd]
  cases hh : containerFromFormat t hint with
  | none => left; rfl
  | some h =>
    by_cases heq : (h == d) = true
    · right; have : h = d := by simpa using heq
      simp [heq, this]
    · left; simp [heq]

/-- Streams shorter than two bytes never identify a container. -/
theorem short_undetected (pdf : Bool) (s : List UInt8) (h : s.length < 2) : detect pdf s = none := by
  unfold detect
  have : (s.take 16).length < 2 := by rw [List.length_take]; omega
  rw [if_pos this]

/-! ### Obligations on the regenerated table (re-checked on every run) -/

/-- CONTAINER_MAP of the current tree maps every detectable literal to itself. -/
theorem table_ok : TableOk Gen.table Gen.pdf = true := by decide +kernel

/-- Every literal returned by `container_from_stream` in the current source is one the model returns. -/
theorem scanned_literals_modelled :
    Gen.scannedLiterals.all (fun l => (detectLiterals true).contains l) = true := by decide +kernel

/-- and conversely (no modelled literal has disappeared from the source). -/
theorem modelled_literals_scanned :
    (detectLiterals true).all (fun l => Gen.scannedLiterals.contains l) = true := by decide +kernel

/-- The theorem instantiated with the current tree's table. -/
theorem detected_wins_current (hint : Fmt) (s : List UInt8) (d : Fmt)
    (hd : detect Gen.pdf s = some d) :
    containerFromFormat Gen.table (resolve Gen.table Gen.pdf hint s) = some d :=
  detected_wins Gen.table Gen.pdf hint s d table_ok hd

/-! ### Non-vacuity -/
example : detect true [0xff, 0xd8, 0xff, 0xe0] = some "jpg".toList := by decide +kernel
example : resolve Gen.table Gen.pdf "image/png".toList [0xff, 0xd8, 0xff, 0xe0] = "jpg".toList := by decide +kernel
example : resolve Gen.table Gen.pdf " IMAGE/JPEG ".toList [0xff, 0xd8, 0xff, 0xe0] = " IMAGE/JPEG ".toList := by decide +kernel
example : detect true [0x00, 0x01, 0x02] = none := by decide +kernel

end C2pa.C11
