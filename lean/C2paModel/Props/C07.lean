import C2paModel.Lemmas.C07PngRefine
/-
C07 — embedding round trip: write, read, replace and remove manifest stores.

Statement (properties.jsonl): for every writable format, every valid asset and every manifest
store byte string, reading the manifest from the asset written with that store returns
exactly those bytes. Writing again replaces the manifest, so exactly one store is present and
the last one written is returned, and removing the manifest yields an asset with no manifest
that is still accepted by the format handler.

Structure of the proof.

* **Layer A** (`readA`/`writeA`/`removeA` on segment lists) is the *specification algebra*: it
  says what "replace the manifest container" means. Its theorems (`read_write`,
  `write_write`, `remove_clean`, … below) hold for every container, store and format instance
  and constrain no handler by themselves.
* **Layer B** (`Png.write`/`Png.remove`/`Png.read`, `Sidecar.*`) are byte-exact models of
  the handlers; they are the functions compared with the implementation on every run.
* **Refinement** (`Lemmas/C07PngRefine.lean`): `Png.segs_write`, `Png.segs_remove`,
  `Png.read_segs`, `Png.ser_segs` are commuting squares between layer B and layer A through
  the lexer `Png.segs`, for every file the chunk walker accepts with at most one caBX chunk
  and every store shorter than 2³² bytes. Through them the property clauses become theorems
  about the byte-exact handler model: `Png.read_write_bytes`, `Png.write_write_bytes`,
  `Png.remove_accepted`, `Png.remove_write_bytes` below (and the `sidecar_*` theorems).
  The precondition "at most one caBX chunk" is necessary: `png_two_manifests_diverge`.
-/
namespace C2pa.C07

/-- **read ∘ write**: the store written is the store read, whatever was there before. -/
theorem read_write (F : Fmt) (c : List Seg) (s : Bytes) (h : F.unwrap (F.wrap s) = some s) :
    readA F (writeA F c s) = .ok s := by
  unfold readA
  rw [manifests_writeA]
  simp [mseg, h]

/-- **write ∘ write**: exactly one manifest segment is present and it is the last one written
(also when the two writes use different insertion policies / formats of the same family). -/
theorem write_write (F G : Fmt) (c : List Seg) (s₁ s₂ : Bytes) :
    manifests (writeA G (writeA F c s₁) s₂) = [mseg G s₂] :=
  manifests_writeA G _ s₂

theorem write_exactly_one (F : Fmt) (c : List Seg) (s : Bytes) :
    (manifests (writeA F c s)).length = 1 := by
  rw [manifests_writeA]; rfl

theorem read_write_write (F : Fmt) (c : List Seg) (s₁ s₂ : Bytes)
    (h : F.unwrap (F.wrap s₂) = some s₂) :
    readA F (writeA F (writeA F c s₁) s₂) = .ok s₂ :=
  read_write F _ s₂ h

/-- Writing the second store over the first gives the same container as writing it directly,
when the insertion policy does not depend on an existing manifest. -/
theorem write_write_eq (F : Fmt) (c : List Seg) (s₁ s₂ : Bytes)
    (hpos : insIdx F (writeA F c s₁) = insIdx F c) :
    writeA F (writeA F c s₁) s₂ = writeA F c s₂ := by
  rw [writeA_def F (writeA F c s₁) s₂, hpos, strip_writeA, ← writeA_def]

/-- **remove**: no manifest is left, and reading reports "no manifest" (not an error). -/
theorem remove_clean (F : Fmt) (c : List Seg) :
    manifests (removeA c) = [] ∧ readA F (removeA c) = .none := by
  have h : manifests (removeA c) = [] := manifests_strip c
  refine ⟨h, ?_⟩
  unfold readA; rw [h]

/-- Removing after embedding is removing from the original. -/
theorem remove_write_eq_remove (F : Fmt) (c : List Seg) (s : Bytes) :
    removeA (writeA F c s) = removeA c :=
  strip_writeA F c s

theorem remove_idempotent (c : List Seg) : removeA (removeA c) = removeA c := strip_strip c

/-- Removing from an asset that never had a manifest is the identity. -/
theorem remove_noop_without_manifest (c : List Seg) (h : manifests c = []) : removeA c = c := by
  apply strip_eq_self
  intro x hx
  cases hm : isM x
  · rfl
  · have : x ∈ manifests c := List.mem_filter.2 ⟨hx, hm⟩
    rw [h] at this; cases this

/-- remove then write = write. -/
theorem write_after_remove (F : Fmt) (c : List Seg) (s : Bytes)
    (hpos : F.pos (removeA c) = F.pos c) :
    writeA F (removeA c) s = writeA F c s := by
  have hi : insIdx F (removeA c) = insIdx F c := by
    unfold insIdx; rw [hpos]; unfold removeA; rw [strip_strip]
  rw [writeA_def F (removeA c) s, hi]
  unfold removeA
  rw [strip_strip, ← writeA_def]

/-! ### the sidecar handler (`c2pa_io`): the file is the store -/

theorem sidecar_read_write (a s : Bytes) (hs : s ≠ []) :
    (Sidecar.write a s).bind Sidecar.read = some (.ok s) := by
  cases s with
  | nil => exact absurd rfl hs
  | cons x xs => rfl

theorem sidecar_remove_clean (a : Bytes) :
    (Sidecar.remove a).bind Sidecar.read = some .none := rfl

/-- The sidecar lexer is lossless. -/
theorem sidecar_ser_segs (b : Bytes) : ser (Sidecar.segs b) = b := by
  cases b with
  | nil => rfl
  | cons x xs => simp [Sidecar.segs, ser]

/-- Commuting squares for the sidecar handler (any previous content, any non-empty store). -/
theorem sidecar_segs_write (a s : Bytes) (hs : s ≠ []) :
    (Sidecar.write a s).map Sidecar.segs = some (writeA Sidecar.fmt (Sidecar.segs a) s) := by
  have hstrip : strip (Sidecar.segs a) = [] := by
    cases a with
    | nil => rfl
    | cons x xs => rfl
  have hw : writeA Sidecar.fmt (Sidecar.segs a) s = [mseg Sidecar.fmt s] := by
    rw [writeA_def, hstrip]; rfl
  rw [hw]
  cases s with
  | nil => exact absurd rfl hs
  | cons x xs => rfl

theorem sidecar_segs_remove (a : Bytes) :
    (Sidecar.remove a).map Sidecar.segs = some (removeA (Sidecar.segs a)) := by
  cases a with
  | nil => rfl
  | cons x xs => rfl

theorem sidecar_read_segs (b : Bytes) :
    Sidecar.read b = some (readA Sidecar.fmt (Sidecar.segs b)) := by
  cases b with
  | nil => rfl
  | cons x xs => rfl

/-! ### PNG, layer A instance: the hypothesis of `read_write` is discharged -/

theorem png_read_write (c : List Seg) (s : Bytes) :
    readA Png.fmt (writeA Png.fmt c s) = .ok s :=
  read_write Png.fmt c s (Png.unwrap_wrap s)

theorem png_write_write (c : List Seg) (s₁ s₂ : Bytes) :
    readA Png.fmt (writeA Png.fmt (writeA Png.fmt c s₁) s₂) = .ok s₂ :=
  read_write Png.fmt _ s₂ (Png.unwrap_wrap s₂)

/-- PNG's insertion policy looks only at the non-manifest segments. -/
theorem png_insIdx_writeA (c : List Seg) (s : Bytes) :
    insIdx Png.fmt (writeA Png.fmt c s) = insIdx Png.fmt c := by
  unfold insIdx
  show min (Png.pos (writeA Png.fmt c s)) _ = min (Png.pos c) _
  unfold Png.pos
  rw [strip_writeA]

/-! ### PNG, byte-exact layer B: the property clauses about `Png.write` / `Png.read` /
`Png.remove` (through the commuting squares) -/

namespace Png

/-- The lexer succeeds on every file the walker accepts, with as many manifest segments as
there are caBX chunks. -/
theorem segs_of_chunks {b : Bytes} {ps : List Chunk} (h : chunks b = some ps) :
    ∃ c, segs b = some c ∧ (manifests c).length = (ps.filter (·.name == caBX)).length := by
  have : (segs b).isSome := (segs_isSome_iff b).2 (by rw [h]; rfl)
  obtain ⟨c, hc⟩ := Option.isSome_iff_exists.1 this
  exact ⟨c, hc, manifests_length_segs hc h⟩

/-- **read ∘ write on bytes**: for every file the walker accepts that has an IHDR chunk and
at most one caBX chunk, and every store shorter than 2³² bytes, `write_cai` succeeds and
`read_cai` on its output returns exactly the store. -/
theorem read_write_bytes {b s : Bytes} {ps : List Chunk} (h : chunks b = some ps)
    (hi : (firstIhdr ps).isSome) (h1 : (ps.filter (·.name == caBX)).length ≤ 1)
    (hs : s.length < 4294967296) :
    (write b s).bind read = some (.ok s) := by
  obtain ⟨c, hc, hm⟩ := segs_of_chunks h
  obtain ⟨o, hw⟩ := write_isSome s h hi
  have hso := segs_write hc (by omega) hs hw
  rw [hw]
  show read o = _
  rw [read_segs hso, png_read_write]

/-- **write ∘ write on bytes**: the second write replaces the container: its output is the
file that writing the second store directly would give, it holds exactly one caBX chunk and
reads back as the last store written. -/
theorem write_write_bytes {b s₁ s₂ o₁ o₂ : Bytes} {c : List Seg} (h : segs b = some c)
    (h1 : (manifests c).length ≤ 1) (hs₁ : s₁.length < 4294967296) (hs₂ : s₂.length < 4294967296)
    (hw₁ : write b s₁ = some o₁) (hw₂ : write o₁ s₂ = some o₂) :
    write b s₂ = some o₂ ∧ read o₂ = some (.ok s₂) ∧
    ∃ ps₂, chunks o₂ = some ps₂ ∧ (ps₂.filter (·.name == caBX)).length = 1 := by
  have hso₁ := segs_write h h1 hs₁ hw₁
  have hone : (manifests (writeA fmt c s₁)).length ≤ 1 := by rw [write_exactly_one]; exact Nat.le_refl 1
  have hso₂ := segs_write hso₁ hone hs₂ hw₂
  rw [write_write_eq fmt c s₁ s₂ (png_insIdx_writeA c s₁)] at hso₂
  have ho₂ : o₂ = ser (writeA fmt c s₂) := (ser_segs hso₂).symm
  refine ⟨?_, ?_, ?_⟩
  · -- writing s₂ directly succeeds (same IHDR) and gives the same bytes
    cases hch : chunks b with
    | none => simp [segs, hch] at h
    | some ps =>
      have hi : (firstIhdr ps).isSome := by
        cases hih : firstIhdr ps with
        | none => rw [write_eq_none hch hih] at hw₁; cases hw₁
        | some _ => rfl
      obtain ⟨o, hw⟩ := write_isSome s₂ hch hi
      rw [hw, write_refines h h1 hs₂ hw, ho₂]
  · rw [read_segs hso₂, png_read_write]
  · have : (chunks o₂).isSome := (segs_isSome_iff o₂).1 (by rw [hso₂]; rfl)
    obtain ⟨ps₂, hps₂⟩ := Option.isSome_iff_exists.1 this
    exact ⟨ps₂, hps₂, by rw [← manifests_length_segs hso₂ hps₂, write_exactly_one]⟩

/-- **remove on bytes**: `remove_cai_store_from_stream` never fails on a file the walker
accepts, its output is again accepted by the walker (the format handler's parser), and — when
the input had at most one caBX chunk — `read_cai` on it reports "no manifest". -/
theorem remove_accepted {b : Bytes} {ps : List Chunk} (h : chunks b = some ps) :
    ∃ o, remove b = some o ∧ (chunks o).isSome ∧
      ((ps.filter (·.name == caBX)).length ≤ 1 → read o = some .none) := by
  obtain ⟨rs, tail, hp, rfl⟩ := parsed_of_chunks h
  obtain ⟨o, rs', hr, hpo, he⟩ := remove_parsed hp
  refine ⟨o, hr, by rw [chunks_of_parsed hpo]; rfl, ?_⟩
  intro h1
  rw [filter_place_length] at h1
  exact read_parsed_none hpo (eraseFirst_filter he h1).2

/-- `write_cai` succeeds exactly when the file has an IHDR chunk. -/
theorem write_isSome_iff {b : Bytes} {rs : List RC} {tail : Bytes} (hp : Parsed b rs tail) (s : Bytes) :
    (write b s).isSome ↔ ∃ r ∈ rs, r.name = IHDR := by
  have hch := chunks_of_parsed hp
  rcases split_first IHDR rs with hno | ⟨A, ihr, B, rfl, hA, hihr⟩
  · rw [write_eq_none hch (find_place_none IHDR rs 8 hno)]
    constructor
    · intro h; cases h
    · rintro ⟨r, hr, hn⟩; exact absurd hn (hno r hr)
  · have hih := find_place_at IHDR ihr B hihr A 8
      (fun x hx => hp.stream.all_ok x (by simp [hx])) hA
    obtain ⟨o, hw⟩ := write_isSome s hch (by rw [show firstIhdr _ = _ from hih]; rfl)
    rw [hw]
    exact ⟨fun _ => ⟨ihr, by simp, hihr⟩, fun _ => rfl⟩

/-- **write ∘ remove on bytes**: the IHDR chunk survives removal, and writing into the
stripped file is writing into the original. -/
theorem write_after_remove_bytes {b o s : Bytes} {c : List Seg} (h : segs b = some c)
    (h1 : (manifests c).length ≤ 1) (hs : s.length < 4294967296) (hr : remove b = some o) :
    write o s = write b s := by
  obtain ⟨o', hr', hso⟩ := segs_remove h h1
  rw [hr] at hr'; injection hr' with hr'; subst hr'
  have h0 : (manifests (removeA c)).length ≤ 1 := by rw [(remove_clean fmt c).1]; exact Nat.zero_le 1
  have hpos : fmt.pos (removeA c) = fmt.pos c := by
    show Png.pos (removeA c) = Png.pos c
    unfold Png.pos removeA; rw [strip_strip]
  have hiff : (write o s).isSome ↔ (write b s).isSome := by
    obtain ⟨rs, tail, hp, rfl⟩ := parsed_of_segs h
    obtain ⟨o3, rs', hr3, hpo, he⟩ := remove_parsed hp
    rw [hr] at hr3; injection hr3 with hr3; subst hr3
    rw [manifests_length_segsOf] at h1
    have hf := (eraseFirst_filter he h1).1
    rw [write_isSome_iff hpo, write_isSome_iff hp, ← hf]
    constructor
    · rintro ⟨r, hr, hn⟩; exact ⟨r, (List.mem_filter.1 hr).1, hn⟩
    · rintro ⟨r, hr, hn⟩
      refine ⟨r, List.mem_filter.2 ⟨hr, ?_⟩, hn⟩
      have : r.name ≠ caBX := by rw [hn]; exact fun e => caBX_ne_IHDR e.symm
      simpa using this
  cases hwo : write o s with
  | none =>
    cases hwb : write b s with
    | none => rfl
    | some ob => rw [hwo, hwb] at hiff; exact absurd (hiff.2 rfl) (by simp)
  | some oo =>
    cases hwb : write b s with
    | none => rw [hwo, hwb] at hiff; exact absurd (hiff.1 rfl) (by simp)
    | some ob =>
      have e1 := write_refines hso h0 hs hwo
      rw [write_after_remove fmt c s hpos] at e1
      rw [e1, write_refines h h1 hs hwb]

/-- **remove ∘ write on bytes** (C07 / C09): removing after embedding gives the same bytes as
removing from the original. -/
theorem remove_write_bytes {b s o : Bytes} {c : List Seg} (h : segs b = some c)
    (h1 : (manifests c).length ≤ 1) (hs : s.length < 4294967296) (hw : write b s = some o) :
    remove o = remove b := by
  have hso := segs_write h h1 hs hw
  have hone : (manifests (writeA fmt c s)).length ≤ 1 := by rw [write_exactly_one]; exact Nat.le_refl 1
  rw [remove_refines hso hone, remove_refines h h1, remove_write_eq_remove]

end Png

/-- The precondition "at most one caBX chunk" of the PNG squares is necessary: on a file with
two caBX chunks the handler replaces only the first one, the result still has two and
`read_cai` reports `TooManyManifestStores`, whereas the layer-A write strips both. (Such a
file is already rejected by `read_cai` before the write; the property's "valid asset" is read
as "at most one manifest container", see registry assumptions.) -/
def pngTwoCai : Bytes :=
  Png.sig ++ ([0, 0, 0, 0] ++ Png.IHDR ++ [0, 0, 0, 0]) ++ ([0, 0, 0, 1] ++ Png.caBX ++ [7] ++ [0, 0, 0, 0])
    ++ ([0, 0, 0, 1] ++ Png.caBX ++ [8] ++ [0, 0, 0, 0]) ++ ([0, 0, 0, 0] ++ Png.IEND ++ [0, 0, 0, 0])

theorem png_two_manifests_diverge :
    ∃ c o, Png.segs pngTwoCai = some c ∧ (manifests c).length = 2 ∧
      Png.read pngTwoCai = some .many ∧
      Png.write pngTwoCai [9] = some o ∧ Png.read o = some .many ∧
      readA Png.fmt (writeA Png.fmt c [9]) = .ok [9] := by
  cases hs : Png.segs pngTwoCai with
  | none => exact absurd hs (by decide)
  | some c =>
    cases hw : Png.write pngTwoCai [9] with
    | none => exact absurd hw (by decide)
    | some o =>
      refine ⟨c, o, rfl, ?_, by decide, rfl, ?_, png_read_write c [9]⟩
      · have : (Png.segs pngTwoCai).map (fun c => (manifests c).length) = some 2 := by decide
        rw [hs] at this; injection this
      · have : (Png.write pngTwoCai [9]).bind Png.read = some .many := by decide
        rw [hw] at this; exact this

/-! ### non-vacuity -/

def exFmt : Fmt := ⟨fun s => 7 :: s, fun w => w.tail?, fun _ => 1⟩

def exC : List Seg := [⟨.header, "h", [1, 2]⟩, ⟨.manifest, "C2PA", [7, 9]⟩, ⟨.media, "m", [3]⟩, ⟨.manifest, "C2PA", [7]⟩]

example : exFmt.unwrap (exFmt.wrap [5, 6]) = some [5, 6] := rfl
example : readA exFmt exC = .many := by decide
example : readA exFmt (writeA exFmt exC [5, 6]) = .ok [5, 6] := by decide
example : ser (writeA exFmt exC [5, 6]) = [1, 2, 7, 5, 6, 3] := by decide
example : ser (removeA exC) = [1, 2, 3] := by decide

/-- A minimal PNG (IHDR, one tEXt-like chunk, IEND, one trailing byte; the walker ignores
CRC values): meets the hypotheses of the byte-level theorems. -/
def exPng : Bytes :=
  Png.sig ++ ([0, 0, 0, 0] ++ Png.IHDR ++ [0, 0, 0, 0]) ++ ([0, 0, 0, 2] ++ asc "teXt" ++ [5, 6] ++ [0, 0, 0, 0])
    ++ ([0, 0, 0, 0] ++ Png.IEND ++ [0, 0, 0, 0]) ++ [0xEE]

example : (Png.chunks exPng).map (fun ps => ((Png.firstIhdr ps).isSome,
    (ps.filter (·.name == Png.caBX)).length)) = some (true, 0) := by decide
example : (Png.segs exPng).map (fun c => (c.length, (manifests c).length)) = some (5, 0) := by decide
example : (Png.write exPng [1, 2, 3]).bind Png.read = some (.ok [1, 2, 3]) := by decide
example : ((Png.write exPng [1, 2, 3]).bind Png.remove) = some exPng := by decide
example : Sidecar.segs [1, 2] = [⟨.manifest, "C2PA", [1, 2]⟩] := by decide

end C2pa.C07
