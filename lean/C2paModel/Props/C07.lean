import C2paModel.Lemmas.C07Png
/-
C07 — embedding round trip: write, read, replace and remove manifest stores.

Statement (properties.jsonl): for every writable format, every valid asset and every manifest
store byte string, reading the manifest from the asset written with that store returns
exactly those bytes. Writing again replaces the manifest, so exactly one store is present and
the last one written is returned, and removing the manifest yields an asset with no manifest
that is still accepted by the format handler.

Layer A: the theorems quantify over **every** container (any segment list, any number of
pre-existing manifest segments, any kinds/bytes), every store byte string and every format
instance `F` (its wrapping, its insertion policy); the only hypothesis, where needed, is that
the format's `unwrap` inverts its `wrap` — proved for the byte-exact formats below.
-/
namespace C2pa.C07

/-- **read ∘ write**: the store written is the store read, whatever was there before. -/
theorem read_write (F : Fmt) (c : List Seg) (s : Bytes) (h : F.unwrap (F.wrap s) = some s) :
    readA F (writeA F c s) = .ok s := by
  unfold readA
  rw [manifests_writeA]
  simp [mseg, h]

/-- **write ∘ write**: exactly one manifest segment is present and it is the last one written
(also when the two writes use different insertion policies / formats of the same family). -/
theorem write_write (F G : Fmt) (c : List Seg) (s₁ s₂ : Bytes) :
    manifests (writeA G (writeA F c s₁) s₂) = [mseg G s₂] :=
  manifests_writeA G _ s₂

theorem write_exactly_one (F : Fmt) (c : List Seg) (s : Bytes) :
    (manifests (writeA F c s)).length = 1 := by
  rw [manifests_writeA]; rfl

theorem read_write_write (F : Fmt) (c : List Seg) (s₁ s₂ : Bytes)
    (h : F.unwrap (F.wrap s₂) = some s₂) :
    readA F (writeA F (writeA F c s₁) s₂) = .ok s₂ :=
  read_write F _ s₂ h

/-- Writing the second store over the first gives the same container as writing it directly,
when the insertion policy does not depend on an existing manifest. -/
theorem write_write_eq (F : Fmt) (c : List Seg) (s₁ s₂ : Bytes)
    (hpos : insIdx F (writeA F c s₁) = insIdx F c) :
    writeA F (writeA F c s₁) s₂ = writeA F c s₂ := by
  rw [writeA_def F (writeA F c s₁) s₂, hpos, strip_writeA, ← writeA_def]

/-- **remove**: no manifest is left, and reading reports "no manifest" (not an error). -/
theorem remove_clean (F : Fmt) (c : List Seg) :
    manifests (removeA c) = [] ∧ readA F (removeA c) = .none := by
  have h : manifests (removeA c) = [] := manifests_strip c
  refine ⟨h, ?_⟩
  unfold readA; rw [h]

/-- Removing after embedding is removing from the original. -/
theorem remove_write_eq_remove (F : Fmt) (c : List Seg) (s : Bytes) :
    removeA (writeA F c s) = removeA c :=
  strip_writeA F c s

theorem remove_idempotent (c : List Seg) : removeA (removeA c) = removeA c := strip_strip c

/-- Removing from an asset that never had a manifest is the identity. -/
theorem remove_noop_without_manifest (c : List Seg) (h : manifests c = []) : removeA c = c := by
  apply strip_eq_self
  intro x hx
  cases hm : isM x
  · rfl
  · have : x ∈ manifests c := List.mem_filter.2 ⟨hx, hm⟩
    rw [h] at this; cases this

/-- remove then write = write. -/
theorem write_after_remove (F : Fmt) (c : List Seg) (s : Bytes)
    (hpos : F.pos (removeA c) = F.pos c) :
    writeA F (removeA c) s = writeA F c s := by
  have hi : insIdx F (removeA c) = insIdx F c := by
    unfold insIdx; rw [hpos]; unfold removeA; rw [strip_strip]
  rw [writeA_def F (removeA c) s, hi]
  unfold removeA
  rw [strip_strip, ← writeA_def]

/-! ### the sidecar handler (`c2pa_io`): the file is the store -/

theorem sidecar_read_write (a s : Bytes) (hs : s ≠ []) :
    (Sidecar.write a s).bind Sidecar.read = some (.ok s) := by
  cases s with
  | nil => exact absurd rfl hs
  | cons x xs => rfl

theorem sidecar_remove_clean (a : Bytes) :
    (Sidecar.remove a).bind Sidecar.read = some .none := rfl

/-! ### PNG (byte-exact layer B): the hypothesis of `read_write` is discharged -/

theorem png_read_write (c : List Seg) (s : Bytes) :
    readA Png.fmt (writeA Png.fmt c s) = .ok s :=
  read_write Png.fmt c s (Png.unwrap_wrap s)

theorem png_write_write (c : List Seg) (s₁ s₂ : Bytes) :
    readA Png.fmt (writeA Png.fmt (writeA Png.fmt c s₁) s₂) = .ok s₂ :=
  read_write Png.fmt _ s₂ (Png.unwrap_wrap s₂)

/-! ### non-vacuity -/

def exFmt : Fmt := ⟨fun s => 7 :: s, fun w => w.tail?, fun _ => 1⟩

def exC : List Seg := [⟨.header, "h", [1, 2]⟩, ⟨.manifest, "C2PA", [7, 9]⟩, ⟨.media, "m", [3]⟩, ⟨.manifest, "C2PA", [7]⟩]

example : exFmt.unwrap (exFmt.wrap [5, 6]) = some [5, 6] := rfl
example : readA exFmt exC = .many := by decide
example : readA exFmt (writeA exFmt exC [5, 6]) = .ok [5, 6] := by decide
example : ser (writeA exFmt exC [5, 6]) = [1, 2, 7, 5, 6, 3] := by decide
example : ser (removeA exC) = [1, 2, 3] := by decide

end C2pa.C07
