import C2paModel.Model.C33
import C2paModel.Props.C04
/-
C33 — property theorems. The statement (properties.jsonl):

  An X.509 identity assertion created by the SDK validates, and any change to a referenced
  assertion, to the signer payload, to the identity signature or to its padding is reported with a
  cawg failure code. CAWG failures never make the C2PA manifest itself Invalid.

All theorems quantify over every identity assertion record (any references, pads, signature
facts), every claim assertion list and every log `rest` of the C2PA checks.
-/
namespace C2pa.C33

open C2pa.C04 (Code Kind)

def IsCawgFailure (e : Entry) : Prop := e.2 = .failure ∧ "cawg.".toList.isPrefixOf e.1 = true

theorem failE_cawg (c : Code) (h : "cawg.".toList.isPrefixOf c = true) : IsCawgFailure (failE c) :=
  ⟨rfl, h⟩

theorem pad_is_cawg : "cawg.".toList.isPrefixOf cPad = true := by decide
theorem mismatch_is_cawg : "cawg.".toList.isPrefixOf cMismatch = true := by decide
theorem duplicate_is_cawg : "cawg.".toList.isPrefixOf cDuplicate = true := by decide
theorem hardbinding_is_cawg : "cawg.".toList.isPrefixOf cHardBinding = true := by decide
theorem sigmismatch_is_cawg : "cawg.".toList.isPrefixOf cSigMismatch = true := by decide

/-- Everything `checkRefs` had logged stays logged. -/
theorem checkRefs_mono (claim : List HUri) :
    ∀ (refs : List HUri) (log : List Entry) (e : Entry), e ∈ log → e ∈ (checkRefs claim refs log).2 := by
  intro refs
  induction refs with
  | nil => intro log e h; simpa [checkRefs] using h
  | cons r rest ih =>
    intro log e h
    unfold checkRefs
    cases hf : claim.find? (fun a => urlMatches a.url r.url) with
    | none => simp only; exact ih _ e (List.mem_append_left _ h)
    | some a =>
      simp only
      by_cases hh : (a.hash != r.hash) = true
      · simp only [hh, if_true]; exact List.mem_append_left _ h
      · simp only [hh]; exact ih log e h

/-- A reference is *bound* when the claim lists an assertion with that URL (possibly in absolute
form) — the first such entry — with the same hash. -/
def RefBound (claim : List HUri) (r : HUri) : Prop :=
  ∃ a, claim.find? (fun a => urlMatches a.url r.url) = some a ∧ a.hash = r.hash

/-- **Any referenced assertion that is missing from the claim or whose hash differs is reported**
with `cawg.identity.assertion.mismatch`, provided the scan reaches it (an earlier hash mismatch
ends the scan — and is itself reported). -/
theorem unbound_ref_reported (claim : List HUri) :
    ∀ (refs : List HUri) (log : List Entry),
      (∃ r ∈ refs, ¬ RefBound claim r) → failE cMismatch ∈ (checkRefs claim refs log).2 := by
  intro refs
  induction refs with
  | nil => intro _ h; obtain ⟨r, hr, _⟩ := h; cases hr
  | cons r rest ih =>
    intro log h
    unfold checkRefs
    cases hf : claim.find? (fun a => urlMatches a.url r.url) with
    | none =>
      simp only
      exact checkRefs_mono claim rest _ _ (List.mem_append_right _ (List.mem_singleton.2 rfl))
    | some a =>
      simp only
      by_cases hh : (a.hash != r.hash) = true
      · simp only [hh, if_true]; exact List.mem_append_right _ (List.mem_singleton.2 rfl)
      · simp only [hh]
        have heq : a.hash = r.hash := by simpa using hh
        obtain ⟨x, hx, hnb⟩ := h
        cases hx with
        | head => exact absurd ⟨a, hf, heq⟩ hnb
        | tail _ hx' => exact ih log ⟨x, hx', hnb⟩

theorem checkRefs_ok_all_bound (claim : List HUri) :
    ∀ (refs : List HUri) (log : List Entry),
      (checkRefs claim refs log).1 = some () → failE cMismatch ∉ (checkRefs claim refs log).2 →
      ∀ r ∈ refs, RefBound claim r := by
  intro refs log _ hno r hr
  apply Classical.byContradiction
  intro hnb
  exact hno (unbound_ref_reported claim refs log ⟨r, hr, hnb⟩)

theorem dupLog_reports (urls : List (List Char)) :
    ∀ (seen : List (List Char)), (∃ u ∈ urls, u ∈ seen) → failE cDuplicate ∈ dupLog urls seen := by
  induction urls with
  | nil => intro _ h; obtain ⟨u, hu, _⟩ := h; cases hu
  | cons a rest ih =>
    intro seen h
    by_cases hc : a ∈ seen
    · simp [dupLog, hc]
    · simp only [dupLog, List.contains_iff_mem, hc, if_false]
      obtain ⟨u, hu, hs⟩ := h
      cases hu with
      | head => exact absurd hs hc
      | tail _ hu' => exact ih (a :: seen) ⟨u, hu', List.mem_cons_of_mem _ hs⟩

/-- A list with a repeated element reports a duplicate. -/
theorem dupLog_of_not_nodup (urls : List (List Char)) :
    ∀ (seen : List (List Char)), ¬ urls.Nodup → failE cDuplicate ∈ dupLog urls seen := by
  induction urls with
  | nil => intro _ h; exact absurd List.nodup_nil h
  | cons a rest ih =>
    intro seen h
    by_cases hc : a ∈ seen
    · simp [dupLog, hc]
    · simp only [dupLog, List.contains_iff_mem, hc, if_false]
      by_cases ha : a ∈ rest
      · exact dupLog_reports rest (a :: seen) ⟨a, ha, List.mem_cons_self ..⟩
      · exact ih (a :: seen) (fun hn => h (List.nodup_cons.2 ⟨ha, hn⟩))

/-- All references bound ⇒ the scan runs to the end and logs nothing new. -/
theorem checkRefs_all_bound (claim : List HUri) :
    ∀ (rs : List HUri) (lg : List Entry), (∀ r ∈ rs, RefBound claim r) →
      checkRefs claim rs lg = (some (), lg) := by
  intro rs
  induction rs with
  | nil => intro lg _; rfl
  | cons r rest ih =>
    intro lg hbr
    obtain ⟨a, hf, heq⟩ := hbr r (List.mem_cons_self ..)
    unfold checkRefs
    simp only [hf, heq, bne_self_eq_false, Bool.false_eq_true, if_false]
    exact ih lg (fun x hx => hbr x (List.mem_cons_of_mem _ hx))

/-- An early stop means some reference is not bound. -/
theorem stop_means_unbound (claim refs : List HUri) (lg : List Entry)
    (h : (checkRefs claim refs lg).1 = none) : ∃ r ∈ refs, ¬ RefBound claim r := by
  apply Classical.byContradiction
  intro hall
  have hb : ∀ r ∈ refs, RefBound claim r := fun r hr =>
    Classical.byContradiction fun hn => hall ⟨r, hr, hn⟩
  rw [checkRefs_all_bound claim refs lg hb] at h
  cases h

/-- **`identity_binds_references`**: whenever `check_against_partial_claim` is given references
of which one is missing from the claim, one has another hash than the claim's, one URL is
repeated, or none is a hard binding (`c2pa.hash.*`), a `cawg.identity.*` failure is logged. -/
theorem identity_binds_references (refs claim : List HUri)
    (h : (∃ r ∈ refs, ¬ RefBound claim r) ∨ ¬ (refs.map (·.url)).Nodup ∨
      (∀ r ∈ refs, isHardBindingRef r.url = false)) :
    ∃ e ∈ (checkAgainstClaim refs claim).2, IsCawgFailure e := by
  unfold checkAgainstClaim
  cases hc : checkRefs claim refs [] with
  | mk res log =>
    cases res with
    | none =>
      -- early return: some reference is unbound, and that is logged
      refine ⟨failE cMismatch, ?_, failE_cawg _ mismatch_is_cawg⟩
      simp only
      have hex := stop_means_unbound claim refs [] (by rw [hc])
      have := unbound_ref_reported claim refs [] hex
      rw [hc] at this; exact this
    | some u =>
      simp only
      rcases h with h | h | h
      · have := unbound_ref_reported claim refs [] h
        rw [hc] at this
        exact ⟨_, List.mem_append_left _ (List.mem_append_left _ this), failE_cawg _ mismatch_is_cawg⟩
      · exact ⟨_, List.mem_append_right _ (dupLog_of_not_nodup _ [] h), failE_cawg _ duplicate_is_cawg⟩
      · have hany : (refs.any fun r => isHardBindingRef r.url) = false := by
          rw [List.any_eq_false]; intro r hr; simp [h r hr]
        refine ⟨failE cHardBinding, ?_, failE_cawg _ hardbinding_is_cawg⟩
        simp [hany]

/-- The pad entries and the claim-check entries are a prefix of every outcome's log. -/
theorem validate_log_prefix (ia : Identity) (claim : List HUri) :
    ∃ tail, (validate ia claim).2
      = padLog ia.pad1 ia.pad2 ++ (checkAgainstClaim ia.refs claim).2 ++ tail := by
  unfold validate
  cases hc : checkAgainstClaim ia.refs claim with
  | mk ok l =>
    cases ok
    · exact ⟨[], by simp⟩
    · cases ia.sigType with
      | x509 => cases ia.sig.outcome <;> exact ⟨_, by simp [List.append_assoc]; rfl⟩
      | ica => exact ⟨[], by simp⟩
      | other => exact ⟨[], by simp⟩

/-- … and those entries reach the log of `validate_partial_claim` whatever the signature does. -/
theorem validate_keeps_claim_failures (ia : Identity) (claim : List HUri) (e : Entry)
    (h : e ∈ (checkAgainstClaim ia.refs claim).2) : e ∈ (validate ia claim).2 := by
  obtain ⟨t, ht⟩ := validate_log_prefix ia claim
  rw [ht]; exact List.mem_append_left _ (List.mem_append_right _ h)

/-- **Padding changes are reported**: a non-zero byte in `pad1`, or in `pad2`, logs
`cawg.identity.pad.invalid`. -/
theorem pad_change_reported (ia : Identity) (claim : List HUri)
    (h : (∃ b ∈ ia.pad1, b ≠ 0) ∨ ((∀ b ∈ ia.pad1, b = 0) ∧ ∃ p, ia.pad2 = some p ∧ ∃ b ∈ p, b ≠ 0)) :
    failE cPad ∈ (validate ia claim).2 := by
  have hp : failE cPad ∈ padLog ia.pad1 ia.pad2 := by
    unfold padLog
    by_cases h1 : ia.pad1.all (· == 0) = true
    · rcases h with ⟨b, hb, hne⟩ | ⟨_, p, hp, b, hb, hne⟩
      · have := (List.all_eq_true.1 h1) b hb; simp at this; exact absurd this hne
      · have hn : ¬ (p.all (· == 0) = true) := by
          intro hall; have := (List.all_eq_true.1 hall) b hb; simp at this; exact hne this
        simp [h1, hp, hn]
    · simp [h1]
  obtain ⟨t, ht⟩ := validate_log_prefix ia claim
  rw [ht]; exact List.mem_append_left _ (List.mem_append_left _ hp)

/-- **Signature / payload changes are reported** for `cawg.x509.cose`: when the COSE signature
does not verify over the payload, a `cawg.*` failure is logged — `cawg.x509.signature.mismatch`,
or the reference mismatch that stopped the validation earlier. -/
theorem signature_change_reported (ia : Identity) (claim : List HUri)
    (ht : ia.sigType = .x509) (hs : ia.sig.outcome = .mismatch) :
    ∃ e ∈ (validate ia claim).2, IsCawgFailure e := by
  cases hc : checkAgainstClaim ia.refs claim with
  | mk ok l =>
    cases ok
    · have hstop : (checkRefs claim ia.refs []).1 = none := by
        unfold checkAgainstClaim at hc
        cases hr : checkRefs claim ia.refs [] with
        | mk res lg => cases res <;> simp [hr] at hc ⊢
      obtain ⟨e, he, hcf⟩ := identity_binds_references ia.refs claim
        (Or.inl (stop_means_unbound claim ia.refs [] hstop))
      exact ⟨e, validate_keeps_claim_failures ia claim e he, hcf⟩
    · refine ⟨failE cSigMismatch, ?_, failE_cawg _ sigmismatch_is_cawg⟩
      simp [validate, hc, ht, hs]

/-! ### an unmodified assertion validates -/

theorem dupLog_nodup (urls : List (List Char)) :
    ∀ (seen : List (List Char)), urls.Nodup → (∀ u ∈ urls, u ∉ seen) → dupLog urls seen = [] := by
  induction urls with
  | nil => intro _ _ _; rfl
  | cons a rest ih =>
    intro seen hn hs
    have ha : a ∉ seen := hs a (List.mem_cons_self ..)
    have hnd := List.nodup_cons.1 hn
    simp only [dupLog, List.contains_iff_mem, ha, if_false]
    apply ih (a :: seen) hnd.2
    intro u hu hmem
    cases hmem with
    | head => exact hnd.1 hu
    | tail _ h => exact hs u (List.mem_cons_of_mem _ hu) h

/-- **An identity assertion whose references are all bound, contain a hard binding, are
distinct, whose pads are zero and whose signature verifies, validates**: result ok, success codes
`cawg.x509.signature.validated` and `cawg.identity.well-formed`, and no `cawg.identity.*` failure. -/
theorem unmodified_assertion_validates (ia : Identity) (claim : List HUri)
    (hb : ∀ r ∈ ia.refs, RefBound claim r) (hh : ∃ r ∈ ia.refs, isHardBindingRef r.url = true)
    (hd : (ia.refs.map (·.url)).Nodup) (hp1 : ∀ b ∈ ia.pad1, b = 0)
    (hp2 : ∀ p, ia.pad2 = some p → ∀ b ∈ p, b = 0)
    (ht : ia.sigType = .x509) (hs : ia.sig.outcome = .verified) :
    validate ia claim = (true, ia.sig.entries ++ [succ cSigValidated, succ cWellFormed]) := by
  have hpad : padLog ia.pad1 ia.pad2 = [] := by
    unfold padLog
    have h1 : ia.pad1.all (· == 0) = true := List.all_eq_true.2 (fun b hb' => by simp [hp1 b hb'])
    simp only [h1, Bool.not_true, Bool.false_eq_true, if_false]
    cases h2 : ia.pad2 with
    | none => rfl
    | some p =>
      have : p.all (· == 0) = true := List.all_eq_true.2 (fun b hb' => by simp [hp2 p h2 b hb'])
      simp [this]
  have hany : (ia.refs.any fun r => isHardBindingRef r.url) = true := by
    obtain ⟨r, hr, hrb⟩ := hh
    exact List.any_eq_true.2 ⟨r, hr, hrb⟩
  have hca : checkAgainstClaim ia.refs claim = (true, []) := by
    unfold checkAgainstClaim
    rw [checkRefs_all_bound claim ia.refs [] hb]
    simp [hany, dupLog_nodup _ [] hd (by intro u _ h; cases h)]
  simp [validate, hca, hpad, ht, hs]

/-! ### CAWG failures and the manifest state -/

theorem mem_foldl_add_failure (l : List Entry) (c : Code) (acc : C04.Codes) :
    (c ∈ acc.failure ∨ (c, Kind.failure) ∈ l) →
      c ∈ (l.foldl (fun a e => a.add { code := e.1, kind := e.2, uri := none }) acc).failure := by
  induction l generalizing acc with
  | nil => intro h; rcases h with h | h; exact h; cases h
  | cons x xs ih =>
    intro h
    simp only [List.foldl_cons]
    apply ih
    rcases h with h | h
    · left
      unfold C04.Codes.add
      cases x.2 <;> simp [h]
    · cases h with
      | head => left; simp [C04.Codes.add]
      | tail _ h => right; exact h

/-- The statement's last sentence. -/
def CawgFailureNeverInvalid : Prop :=
  ∀ (ia : Identity) (claim : List HUri) (rest : List Entry),
    C04.state { active := some (toCodes rest), deltas := none } ≠ .invalid →
    manifestState ia claim rest ≠ .invalid

/-- **`cawg_failure_never_invalid` is false for the code as it is** (F13): the state function
tolerates only `cawg.x509.*` failures, so a `cawg.identity.*` failure — here a non-zero padding
byte in an otherwise valid assertion of an otherwise Valid manifest — makes the manifest Invalid.
(Replayed end-to-end by the harness: classes `cawg-failure-invalidates-manifest`.) -/
theorem cawg_failure_never_invalid_false : ¬ CawgFailureNeverInvalid := by
  intro h
  have := h
    { refs := [⟨"self#jumbf=c2pa.assertions/c2pa.hash.data".toList, [1]⟩], sigType := .x509,
      pad1 := [0, 7], pad2 := none, sig := ⟨[], .verified⟩ }
    [⟨"self#jumbf=c2pa.assertions/c2pa.hash.data".toList, [1]⟩]
    [succ C04.cSigValidated, succ C04.cInsideValidity]
    (by decide)
  exact this (by decide)

/-- **`cawg_failure_never_invalid_partial`**: what the code does guarantee — if every failure the
identity validation logs is a `cawg.x509.*` one (signature mismatch, untrusted / invalid
credential, …), a manifest that is not Invalid without them is not Invalid with them. -/
theorem cawg_failure_never_invalid_partial (ia : Identity) (claim : List HUri) (rest : List Entry)
    (hx : ∀ e ∈ (validate ia claim).2, e.2 = .failure → C04.cawgX509Prefix.isPrefixOf e.1 = true)
    (hv : C04.state { active := some (toCodes rest), deltas := none } ≠ .invalid) :
    manifestState ia claim rest ≠ .invalid := by
  -- generalised over the appended log
  have key : ∀ (extra : List Entry) (base : List Entry),
      (∀ e ∈ extra, e.2 = .failure → C04.cawgX509Prefix.isPrefixOf e.1 = true) →
      C04.state { active := some (toCodes base), deltas := none } ≠ .invalid →
      C04.state { active := some (toCodes (base ++ extra)), deltas := none } ≠ .invalid := by
    intro extra
    induction extra with
    | nil => intro base _ h; simpa using h
    | cons e es ih =>
      intro base hx hb
      have hstep : C04.state { active := some (toCodes (base ++ [e])), deltas := none } ≠ .invalid := by
        have hcodes : toCodes (base ++ [e]) = (toCodes base).add { code := e.1, kind := e.2, uri := none } := by
          simp [toCodes, List.foldl_append]
        rw [hcodes]
        rw [C04.state_not_invalid_iff] at hb ⊢
        obtain ⟨a, ha, h1, h2, h3, h4⟩ := hb
        simp only [Option.some.injEq] at ha
        subst ha
        refine ⟨_, rfl, ?_, ?_, ?_, ?_⟩
        · unfold C04.Codes.add; cases e.2 <;> simp [h1]
        · unfold C04.Codes.add; cases e.2 <;> simp [h2]
        · intro f hf
          unfold C04.Codes.add at hf
          cases hk : e.2 <;> rw [hk] at hf <;> simp at hf
          · exact h3 f hf
          · exact h3 f hf
          · rcases hf with hf | hf
            · exact h3 f hf
            · subst hf
              have := hx e (List.mem_cons_self ..) hk
              simp [C04.tolerated, this]
        · intro d hd; simp [C04.deltasOf] at hd
      have := ih (base ++ [e]) (fun x hxm => hx x (List.mem_cons_of_mem _ hxm)) hstep
      simpa using this
  unfold manifestState
  exact key _ rest hx hv

/-- Non-vacuity: a signature mismatch (a `cawg.x509.*` failure) leaves a Valid manifest Valid. -/
example : manifestState
    { refs := [⟨"self#jumbf=c2pa.assertions/c2pa.hash.data".toList, [1]⟩], sigType := .x509,
      pad1 := [], pad2 := none, sig := ⟨[], .mismatch⟩ }
    [⟨"self#jumbf=c2pa.assertions/c2pa.hash.data".toList, [1]⟩]
    [succ C04.cSigValidated, succ C04.cInsideValidity] = .valid := by decide

/-! ### the `sig_type` gap -/

/-- The statement's "any change to the signer payload is reported". -/
def PayloadChangeReported : Prop :=
  ∀ (ia : Identity) (claim : List HUri), ia.sigType = .other →
    ∃ e ∈ (validate ia claim).2, IsCawgFailure e

/-- **False for the code as it is**: an assertion whose `sig_type` is not one the validator knows
is skipped without any status (`Err(UnknownSignatureType)` is discarded by the caller). The
existing unit tests pin this silence for the default reader. (Replayed by the harness: class
`cawg-sigtype-unknown-unreported`.) -/
theorem payload_change_reported_false : ¬ PayloadChangeReported := by
  intro h
  obtain ⟨e, he, _⟩ := h
    { refs := [⟨"self#jumbf=c2pa.assertions/c2pa.hash.data".toList, [1]⟩], sigType := .other,
      pad1 := [], pad2 := none, sig := ⟨[], .verified⟩ }
    [⟨"self#jumbf=c2pa.assertions/c2pa.hash.data".toList, [1]⟩] rfl
  have hlog : (validate
      { refs := [⟨"self#jumbf=c2pa.assertions/c2pa.hash.data".toList, [1]⟩], sigType := .other,
        pad1 := [], pad2 := none, sig := ⟨[], .verified⟩ }
      [⟨"self#jumbf=c2pa.assertions/c2pa.hash.data".toList, [1]⟩]).2 = [] := by decide
  rw [hlog] at he
  cases he

end C2pa.C33
