import C2paModel.Model.C33
import C2paModel.Props.C04
import C2paModel.Lemmas.C33State
import C2paModel.Lemmas.C33Url
/-
C33 — property theorems. The statement (properties.jsonl):

  An X.509 identity assertion created by the SDK validates, and any change to a referenced
  assertion, to the signer payload, to the identity signature or to its padding is reported with a
  cawg failure code. CAWG failures never make the C2PA manifest itself Invalid.

All theorems quantify over every identity assertion record (any references, pads, signature
facts), every claim assertion list, every validation-results value the reader already holds
(`base`: any active manifest codes, any ingredient deltas) and every place the assertion can sit
(`uri = none`: active manifest; `some u`: the manifest of ingredient `u`).

Helper lemmas: Lemmas/C33State.lean (C04's `addStatus`/`state` under harmless statuses),
Lemmas/C33Url.lean (`stripAbs_prefix`, `urlMatches_ignores_manifest_label`).
-/
namespace C2pa.C33

open C2pa.C04 (Code Kind)

def IsCawgFailure (e : Entry) : Prop := e.2 = .failure ∧ "cawg.".toList.isPrefixOf e.1 = true

theorem failE_cawg (c : Code) (h : "cawg.".toList.isPrefixOf c = true) : IsCawgFailure (failE c) :=
  ⟨rfl, h⟩

theorem pad_is_cawg : "cawg.".toList.isPrefixOf cPad = true := by decide
theorem mismatch_is_cawg : "cawg.".toList.isPrefixOf cMismatch = true := by decide
theorem duplicate_is_cawg : "cawg.".toList.isPrefixOf cDuplicate = true := by decide
theorem hardbinding_is_cawg : "cawg.".toList.isPrefixOf cHardBinding = true := by decide
theorem sigmismatch_is_cawg : "cawg.".toList.isPrefixOf cSigMismatch = true := by decide

/-- Everything `checkRefs` had logged stays logged. -/
theorem checkRefs_mono (claim : List HUri) :
    ∀ (refs : List HUri) (log : List Entry) (e : Entry), e ∈ log → e ∈ (checkRefs claim refs log).2 := by
  intro refs
  induction refs with
  | nil => intro log e h; simpa [checkRefs] using h
  | cons r rest ih =>
    intro log e h
    unfold checkRefs
    cases hf : claim.find? (fun a => urlMatches a.url r.url) with
    | none => simp only; exact ih _ e (List.mem_append_left _ h)
    | some a =>
      simp only
      by_cases hh : (a.hash != r.hash) = true
      · simp only [hh, if_true]; exact List.mem_append_left _ h
      · simp only [hh]; exact ih log e h

/-- A reference is *bound* when the claim lists an assertion with that URL (possibly in absolute
form) — the first such entry — with the same hash. -/
def RefBound (claim : List HUri) (r : HUri) : Prop :=
  ∃ a, claim.find? (fun a => urlMatches a.url r.url) = some a ∧ a.hash = r.hash

/-- **Any referenced assertion that is missing from the claim or whose hash differs is reported**
with `cawg.identity.assertion.mismatch`, provided the scan reaches it (an earlier hash mismatch
ends the scan — and is itself reported). -/
theorem unbound_ref_reported (claim : List HUri) :
    ∀ (refs : List HUri) (log : List Entry),
      (∃ r ∈ refs, ¬ RefBound claim r) → failE cMismatch ∈ (checkRefs claim refs log).2 := by
  intro refs
  induction refs with
  | nil => intro _ h; obtain ⟨r, hr, _⟩ := h; cases hr
  | cons r rest ih =>
    intro log h
    unfold checkRefs
    cases hf : claim.find? (fun a => urlMatches a.url r.url) with
    | none =>
      simp only
      exact checkRefs_mono claim rest _ _ (List.mem_append_right _ (List.mem_singleton.2 rfl))
    | some a =>
      simp only
      by_cases hh : (a.hash != r.hash) = true
      · simp only [hh, if_true]; exact List.mem_append_right _ (List.mem_singleton.2 rfl)
      · simp only [hh]
        have heq : a.hash = r.hash := by simpa using hh
        obtain ⟨x, hx, hnb⟩ := h
        cases hx with
        | head => exact absurd ⟨a, hf, heq⟩ hnb
        | tail _ hx' => exact ih log ⟨x, hx', hnb⟩

theorem checkRefs_ok_all_bound (claim : List HUri) :
    ∀ (refs : List HUri) (log : List Entry),
      (checkRefs claim refs log).1 = some () → failE cMismatch ∉ (checkRefs claim refs log).2 →
      ∀ r ∈ refs, RefBound claim r := by
  intro refs log _ hno r hr
  apply Classical.byContradiction
  intro hnb
  exact hno (unbound_ref_reported claim refs log ⟨r, hr, hnb⟩)

theorem dupLog_reports (urls : List (List Char)) :
    ∀ (seen : List (List Char)), (∃ u ∈ urls, u ∈ seen) → failE cDuplicate ∈ dupLog urls seen := by
  induction urls with
  | nil => intro _ h; obtain ⟨u, hu, _⟩ := h; cases hu
  | cons a rest ih =>
    intro seen h
    by_cases hc : a ∈ seen
    · simp [dupLog, hc]
    · simp only [dupLog, List.contains_iff_mem, hc, if_false]
      obtain ⟨u, hu, hs⟩ := h
      cases hu with
      | head => exact absurd hs hc
      | tail _ hu' => exact ih (a :: seen) ⟨u, hu', List.mem_cons_of_mem _ hs⟩

/-- A list with a repeated element reports a duplicate. -/
theorem dupLog_of_not_nodup (urls : List (List Char)) :
    ∀ (seen : List (List Char)), ¬ urls.Nodup → failE cDuplicate ∈ dupLog urls seen := by
  induction urls with
  | nil => intro _ h; exact absurd List.nodup_nil h
  | cons a rest ih =>
    intro seen h
    by_cases hc : a ∈ seen
    · simp [dupLog, hc]
    · simp only [dupLog, List.contains_iff_mem, hc, if_false]
      by_cases ha : a ∈ rest
      · exact dupLog_reports rest (a :: seen) ⟨a, ha, List.mem_cons_self ..⟩
      · exact ih (a :: seen) (fun hn => h (List.nodup_cons.2 ⟨ha, hn⟩))

/-- All references bound ⇒ the scan runs to the end and logs nothing new. -/
theorem checkRefs_all_bound (claim : List HUri) :
    ∀ (rs : List HUri) (lg : List Entry), (∀ r ∈ rs, RefBound claim r) →
      checkRefs claim rs lg = (some (), lg) := by
  intro rs
  induction rs with
  | nil => intro lg _; rfl
  | cons r rest ih =>
    intro lg hbr
    obtain ⟨a, hf, heq⟩ := hbr r (List.mem_cons_self ..)
    unfold checkRefs
    simp only [hf, heq, bne_self_eq_false, Bool.false_eq_true, if_false]
    exact ih lg (fun x hx => hbr x (List.mem_cons_of_mem _ hx))

/-- An early stop means some reference is not bound. -/
theorem stop_means_unbound (claim refs : List HUri) (lg : List Entry)
    (h : (checkRefs claim refs lg).1 = none) : ∃ r ∈ refs, ¬ RefBound claim r := by
  apply Classical.byContradiction
  intro hall
  have hb : ∀ r ∈ refs, RefBound claim r := fun r hr =>
    Classical.byContradiction fun hn => hall ⟨r, hr, hn⟩
  rw [checkRefs_all_bound claim refs lg hb] at h
  cases h

/-- **`identity_binds_references`**: whenever `check_against_partial_claim` is given references
of which one is missing from the claim, one has another hash than the claim's, one URL is
repeated, or none is a hard binding (`c2pa.hash.*`), a `cawg.identity.*` failure is logged. -/
theorem identity_binds_references (refs claim : List HUri)
    (h : (∃ r ∈ refs, ¬ RefBound claim r) ∨ ¬ (refs.map (·.url)).Nodup ∨
      (∀ r ∈ refs, isHardBindingRef r.url = false)) :
    ∃ e ∈ (checkAgainstClaim refs claim).2, IsCawgFailure e := by
  unfold checkAgainstClaim
  cases hc : checkRefs claim refs [] with
  | mk res log =>
    cases res with
    | none =>
      -- early return: some reference is unbound, and that is logged
      refine ⟨failE cMismatch, ?_, failE_cawg _ mismatch_is_cawg⟩
      simp only
      have hex := stop_means_unbound claim refs [] (by rw [hc])
      have := unbound_ref_reported claim refs [] hex
      rw [hc] at this; exact this
    | some u =>
      simp only
      rcases h with h | h | h
      · have := unbound_ref_reported claim refs [] h
        rw [hc] at this
        exact ⟨_, List.mem_append_left _ (List.mem_append_left _ this), failE_cawg _ mismatch_is_cawg⟩
      · exact ⟨_, List.mem_append_right _ (dupLog_of_not_nodup _ [] h), failE_cawg _ duplicate_is_cawg⟩
      · have hany : (refs.any fun r => isHardBindingRef r.url) = false := by
          rw [List.any_eq_false]; intro r hr; simp [h r hr]
        refine ⟨failE cHardBinding, ?_, failE_cawg _ hardbinding_is_cawg⟩
        simp [hany]

/-- The pad entries and the claim-check entries are a prefix of every outcome's log. -/
theorem validate_log_prefix (ia : Identity) (claim : List HUri) :
    ∃ tail, (validate ia claim).2
      = padLog ia.pad1 ia.pad2 ++ (checkAgainstClaim ia.refs claim).2 ++ tail := by
  unfold validate
  cases hc : checkAgainstClaim ia.refs claim with
  | mk ok l =>
    cases ok
    · exact ⟨[], by simp⟩
    · cases ia.sigType with
      | x509 => cases ia.sig.outcome <;> exact ⟨_, by simp [List.append_assoc]; rfl⟩
      | ica => exact ⟨[], by simp⟩
      | other => exact ⟨[], by simp⟩

/-- … and those entries reach the log of `validate_partial_claim` whatever the signature does. -/
theorem validate_keeps_claim_failures (ia : Identity) (claim : List HUri) (e : Entry)
    (h : e ∈ (checkAgainstClaim ia.refs claim).2) : e ∈ (validate ia claim).2 := by
  obtain ⟨t, ht⟩ := validate_log_prefix ia claim
  rw [ht]; exact List.mem_append_left _ (List.mem_append_right _ h)

/-- **Padding changes are reported**: a non-zero byte in `pad1`, or in `pad2`, logs
`cawg.identity.pad.invalid`. -/
theorem pad_change_reported (ia : Identity) (claim : List HUri)
    (h : (∃ b ∈ ia.pad1, b ≠ 0) ∨ ((∀ b ∈ ia.pad1, b = 0) ∧ ∃ p, ia.pad2 = some p ∧ ∃ b ∈ p, b ≠ 0)) :
    failE cPad ∈ (validate ia claim).2 := by
  have hp : failE cPad ∈ padLog ia.pad1 ia.pad2 := by
    unfold padLog
    by_cases h1 : ia.pad1.all (· == 0) = true
    · rcases h with ⟨b, hb, hne⟩ | ⟨_, p, hp, b, hb, hne⟩
      · have := (List.all_eq_true.1 h1) b hb; simp at this; exact absurd this hne
      · have hn : ¬ (p.all (· == 0) = true) := by
          intro hall; have := (List.all_eq_true.1 hall) b hb; simp at this; exact hne this
        simp [h1, hp, hn]
    · simp [h1]
  obtain ⟨t, ht⟩ := validate_log_prefix ia claim
  rw [ht]; exact List.mem_append_left _ (List.mem_append_left _ hp)

/-! ### the remap table -/

def kindOf (s : String) : Kind :=
  if s == "failure" then .failure else if s == "success" then .success else .informational

/-- **`remap_total`**: every failure code the shared COSE verification can log inside the remap
guard (table regenerated from the sources on every run) is rewritten to a `cawg.x509.*` code —
none is passed through. A new failure code in `crypto::cose` without an arm in
`remap_x509_cose_status_codes` makes this fail. -/
theorem remap_total :
    ∀ g ∈ Gen.coseEmitted, kindOf g.2.1 = .failure →
      C04.cawgX509Prefix.isPrefixOf (remap g.1.toList) = true := by decide

/-- the generated kinds are the three known ones (so `kindOf` loses nothing) -/
theorem coseEmitted_kinds :
    ∀ g ∈ Gen.coseEmitted, g.2.1 = "failure" ∨ g.2.1 = "success" ∨ g.2.1 = "informational" := by
  decide

/-- The remap is a pass-through for every unlisted code (`_ => continue`): such a failure would
keep its C2PA code — and (next theorem) make the manifest Invalid. -/
theorem remap_unlisted (c : Code) (h : ∀ p ∈ remapTable, p.1 ≠ c) : remap c = c := by
  unfold remap
  have : remapTable.find? (fun p => p.1 == c) = none := by
    rw [List.find?_eq_none]; intro p hp; simpa using h p hp
  rw [this]

/-- witness of the pass-through: a time-stamp failure code is not in the table -/
example : remap "timeStamp.mismatch".toList = "timeStamp.mismatch".toList ∧
    C04.tolerated (remap "timeStamp.mismatch".toList) = false := by decide

theorem remap_sigMismatch : remap cSigMismatch = cSigMismatch := by decide
theorem remap_claimSigMismatch : remap cClaimSigMismatch = cSigMismatch := by decide
theorem sigMismatch_x509 : C04.cawgX509Prefix.isPrefixOf cSigMismatch = true := by decide

/-- The statuses a COSE verification logged are among those the source can log. -/
def RawFromCose (raw : List Entry) : Prop :=
  ∀ e ∈ raw, ∃ g ∈ Gen.coseEmitted, g.1.toList = e.1 ∧ kindOf g.2.1 = e.2

theorem remapLog_failures_x509 (raw : List Entry) (h : RawFromCose raw) :
    ∀ e ∈ remapLog raw, e.2 = .failure → C04.cawgX509Prefix.isPrefixOf e.1 = true := by
  intro e he hk
  unfold remapLog at he
  obtain ⟨e0, he0, rfl⟩ := List.mem_map.1 he
  obtain ⟨g, hg, hc, hkind⟩ := h e0 he0
  have := remap_total g hg (by rw [hkind]; exact hk)
  rw [hc] at this
  exact this

/-- non-vacuity: the two trust outcomes and a profile failure are `RawFromCose` -/
example : RawFromCose [failE "signingCredential.untrusted".toList,
    succ "signingCredential.trusted".toList, failE "signingCredential.invalid".toList] := by
  intro e he
  simp only [List.mem_cons, List.mem_nil_iff, or_false] at he
  rcases he with rfl | rfl | rfl
  · exact ⟨("signingCredential.untrusted", "failure", "crypto/cose/verifier.rs", 1), by decide, by decide, by decide⟩
  · exact ⟨("signingCredential.trusted", "success", "crypto/cose/verifier.rs", 1), by decide, by decide, by decide⟩
  · exact ⟨("signingCredential.invalid", "failure", "crypto/cose/verifier.rs", 1), by decide, by decide, by decide⟩

/-! ### any change to the identity signature is reported -/

/-- The statement's "any change to … the identity signature … is reported with a cawg failure
code", for `cawg.x509.cose`: whenever the COSE part does not end in "verified" — the structure
does not parse, the signature does not verify over the payload, or verification fails for any
other reason — a `cawg.*` failure is logged. No oracle fact about *what* the verifier logged is
assumed (`ia.sig.raw` is arbitrary, possibly empty). -/
def SigChangeReported : Prop :=
  ∀ (ia : Identity) (claim : List HUri), ia.sigType = .x509 → ia.sig.outcome ≠ .verified →
    ∃ e ∈ (validate ia claim).2, IsCawgFailure e

/-- **`signature_change_reported`**. Holds for the repaired code
(fixes/C33-report-unverifiable-identity-signature.patch). Before the repair the "any other
error" arm of `validate_partial_claim` logged nothing: with `outcome = .otherError` and
`raw = []` (a COSE structure whose certificate chain was removed) the log was empty and the
assertion was skipped silently — replayed by the harness (mutation `SigNoCerts`). -/
theorem signature_change_reported : SigChangeReported := by
  intro ia claim ht hs
  cases hc : checkAgainstClaim ia.refs claim with
  | mk ok l =>
    cases ok
    · have hstop : (checkRefs claim ia.refs []).1 = none := by
        unfold checkAgainstClaim at hc
        cases hr : checkRefs claim ia.refs [] with
        | mk res lg => cases res <;> simp [hr] at hc ⊢
      obtain ⟨e, he, hcf⟩ := identity_binds_references ia.refs claim
        (Or.inl (stop_means_unbound claim ia.refs [] hstop))
      exact ⟨e, validate_keeps_claim_failures ia claim e he, hcf⟩
    · refine ⟨failE cSigMismatch, ?_, failE_cawg _ sigmismatch_is_cawg⟩
      have hin : failE cSigMismatch ∈ remapLog (guardScopeLog ia.sig) := by
        unfold remapLog guardScopeLog
        cases ho : ia.sig.outcome with
        | verified => exact absurd ho hs
        | mismatch =>
          simp only [List.map_append, List.map_cons, List.map_nil]
          apply List.mem_append_right
          simp [failE, remap_sigMismatch]
        | otherError =>
          simp only [List.map_append, List.map_cons, List.map_nil]
          apply List.mem_append_right
          simp [failE, remap_sigMismatch]
        | parseError =>
          simp [failE, remap_claimSigMismatch]
      unfold validate
      rw [hc]
      simp only [ht]
      cases ho : ia.sig.outcome with
      | verified => exact absurd ho hs
      | mismatch => exact List.mem_append_right _ hin
      | otherError => exact List.mem_append_right _ hin
      | parseError => exact List.mem_append_right _ hin

/-- non-vacuity / the former silent case: no certificate chain, nothing logged by the verifier -/
example : (validate
    { refs := [⟨"self#jumbf=c2pa.assertions/c2pa.hash.data".toList, [1]⟩], sigType := .x509,
      pad1 := [], pad2 := none, sig := ⟨[], .otherError⟩ }
    [⟨"self#jumbf=c2pa.assertions/c2pa.hash.data".toList, [1]⟩]).2 = [failE cSigMismatch] := by
  decide

/-! ### an unmodified assertion validates -/

theorem dupLog_nodup (urls : List (List Char)) :
    ∀ (seen : List (List Char)), urls.Nodup → (∀ u ∈ urls, u ∉ seen) → dupLog urls seen = [] := by
  induction urls with
  | nil => intro _ _ _; rfl
  | cons a rest ih =>
    intro seen hn hs
    have ha : a ∉ seen := hs a (List.mem_cons_self ..)
    have hnd := List.nodup_cons.1 hn
    simp only [dupLog, List.contains_iff_mem, ha, if_false]
    apply ih (a :: seen) hnd.2
    intro u hu hmem
    cases hmem with
    | head => exact hnd.1 hu
    | tail _ h => exact hs u (List.mem_cons_of_mem _ hu) h

/-- **An identity assertion whose references are all bound, contain a hard binding, are
distinct, whose pads are zero and whose signature verifies, validates**: result ok, success codes
`cawg.x509.signature.validated` and `cawg.identity.well-formed`, and no `cawg.identity.*` failure. -/
theorem unmodified_assertion_validates (ia : Identity) (claim : List HUri)
    (hb : ∀ r ∈ ia.refs, RefBound claim r) (hh : ∃ r ∈ ia.refs, isHardBindingRef r.url = true)
    (hd : (ia.refs.map (·.url)).Nodup) (hp1 : ∀ b ∈ ia.pad1, b = 0)
    (hp2 : ∀ p, ia.pad2 = some p → ∀ b ∈ p, b = 0)
    (ht : ia.sigType = .x509) (hs : ia.sig.outcome = .verified) :
    validate ia claim = (true, remapLog ia.sig.raw ++ [succ cSigValidated, succ cWellFormed]) := by
  have hpad : padLog ia.pad1 ia.pad2 = [] := by
    unfold padLog
    have h1 : ia.pad1.all (· == 0) = true := List.all_eq_true.2 (fun b hb' => by simp [hp1 b hb'])
    simp only [h1, Bool.not_true, Bool.false_eq_true, if_false]
    cases h2 : ia.pad2 with
    | none => rfl
    | some p =>
      have : p.all (· == 0) = true := List.all_eq_true.2 (fun b hb' => by simp [hp2 p h2 b hb'])
      simp [this]
  have hany : (ia.refs.any fun r => isHardBindingRef r.url) = true := by
    obtain ⟨r, hr, hrb⟩ := hh
    exact List.any_eq_true.2 ⟨r, hr, hrb⟩
  have hca : checkAgainstClaim ia.refs claim = (true, []) := by
    unfold checkAgainstClaim
    rw [checkRefs_all_bound claim ia.refs [] hb]
    simp [hany, dupLog_nodup _ [] hd (by intro u _ h; cases h)]
  simp [validate, hca, hpad, ht, hs, guardScopeLog]

/-- Non-vacuity of `unmodified_assertion_validates`: the hypotheses are jointly satisfiable — here
with the claim listing the assertions by *absolute* URL and the references written relative, a
trusted credential (C2PA code `signingCredential.trusted`, remapped), zero pads. -/
example : validate
    { refs := [⟨"self#jumbf=c2pa.assertions/c2pa.hash.data".toList, [1, 2]⟩,
               ⟨"self#jumbf=c2pa.assertions/c2pa.actions.v2".toList, [3]⟩],
      sigType := .x509, pad1 := [0, 0, 0], pad2 := some [0],
      sig := ⟨[succ "signingCredential.trusted".toList], .verified⟩ }
    [⟨"self#jumbf=/c2pa/urn:c2pa:77/c2pa.assertions/c2pa.actions.v2".toList, [3]⟩,
     ⟨"self#jumbf=/c2pa/urn:c2pa:77/c2pa.assertions/c2pa.hash.data".toList, [1, 2]⟩]
    = (true, [succ "cawg.x509.credential.trusted".toList, succ cSigValidated, succ cWellFormed]) := by
  have h := unmodified_assertion_validates
    { refs := [⟨"self#jumbf=c2pa.assertions/c2pa.hash.data".toList, [1, 2]⟩,
               ⟨"self#jumbf=c2pa.assertions/c2pa.actions.v2".toList, [3]⟩],
      sigType := .x509, pad1 := [0, 0, 0], pad2 := some [0],
      sig := ⟨[succ "signingCredential.trusted".toList], .verified⟩ }
    [⟨"self#jumbf=/c2pa/urn:c2pa:77/c2pa.assertions/c2pa.actions.v2".toList, [3]⟩,
     ⟨"self#jumbf=/c2pa/urn:c2pa:77/c2pa.assertions/c2pa.hash.data".toList, [1, 2]⟩]
    (by
      intro r hr
      simp only [List.mem_cons, List.mem_nil_iff, or_false] at hr
      rcases hr with rfl | rfl
      · exact ⟨⟨"self#jumbf=/c2pa/urn:c2pa:77/c2pa.assertions/c2pa.hash.data".toList, [1, 2]⟩,
          by decide, rfl⟩
      · exact ⟨⟨"self#jumbf=/c2pa/urn:c2pa:77/c2pa.assertions/c2pa.actions.v2".toList, [3]⟩,
          by decide, rfl⟩)
    ⟨_, List.mem_cons_self .., by decide⟩ (by decide) (by decide) (by decide) rfl rfl
  rw [h]; decide

/-! ### CAWG failures and the manifest state -/

theorem mem_foldl_add_failure (l : List Entry) (c : Code) (acc : C04.Codes) :
    (c ∈ acc.failure ∨ (c, Kind.failure) ∈ l) →
      c ∈ (l.foldl (fun a e => a.add { code := e.1, kind := e.2, uri := none }) acc).failure := by
  induction l generalizing acc with
  | nil => intro h; rcases h with h | h; exact h; cases h
  | cons x xs ih =>
    intro h
    simp only [List.foldl_cons]
    apply ih
    rcases h with h | h
    · left
      unfold C04.Codes.add
      cases x.2 <;> simp [h]
    · cases h with
      | head => left; simp [C04.Codes.add]
      | tail _ h => right; exact h

/-- The statement's last sentence. -/
def CawgFailureNeverInvalid : Prop :=
  ∀ (ia : Identity) (claim : List HUri) (rest : List Entry),
    C04.state { active := some (toCodes rest), deltas := none } ≠ .invalid →
    manifestState ia claim rest ≠ .invalid

/-- **`cawg_failure_never_invalid` is false for the code as it is** (F13): the state function
tolerates only `cawg.x509.*` failures, so a `cawg.identity.*` failure — here a non-zero padding
byte in an otherwise valid assertion of an otherwise Valid manifest — makes the manifest Invalid.
(Replayed end-to-end by the harness: classes `cawg-failure-invalidates-manifest`.) -/
theorem cawg_failure_never_invalid_false : ¬ CawgFailureNeverInvalid := by
  intro h
  have := h
    { refs := [⟨"self#jumbf=c2pa.assertions/c2pa.hash.data".toList, [1]⟩], sigType := .x509,
      pad1 := [0, 7], pad2 := none, sig := ⟨[], .verified⟩ }
    [⟨"self#jumbf=c2pa.assertions/c2pa.hash.data".toList, [1]⟩]
    [succ C04.cSigValidated, succ C04.cInsideValidity]
    (by decide)
  exact this (by decide)

/-- The statement's last sentence with the position made explicit: the identity assertion may
sit in the active manifest or in the manifest of any ingredient, on top of any results. -/
def CawgFailureNeverInvalidAt : Prop :=
  ∀ (ia : Identity) (claim : List HUri) (base : C04.Results) (uri : Option (List Char)),
    C04.state base ≠ .invalid → manifestStateAt ia claim base uri ≠ .invalid

/-- `manifestState` (identity assertion of the active manifest, `Manifest::from_store`) is the
`none` instance of `manifestStateAt`. -/
theorem foldl_addStatus_active (log : List Entry) :
    ∀ c : C04.Codes,
      (log.map (toStatus none)).foldl C04.addStatus { active := some c, deltas := none }
        = { active := some (log.foldl
              (fun c e => c.add { code := e.1, kind := e.2, uri := none }) c), deltas := none } := by
  induction log with
  | nil => intro c; rfl
  | cons e es ih =>
    intro c
    simp only [List.map_cons, List.foldl_cons]
    have : C04.addStatus { active := some c, deltas := none } (toStatus none e)
        = { active := some (c.add { code := e.1, kind := e.2, uri := none }), deltas := none } := by
      simp [C04.addStatus, toStatus]
    rw [this]; exact ih _

theorem manifestState_eq_at (ia : Identity) (claim : List HUri) (rest : List Entry) :
    manifestState ia claim rest
      = manifestStateAt ia claim { active := some (toCodes rest), deltas := none } none := by
  unfold manifestState manifestStateAt manifestResultsAt postValidate
  rw [foldl_addStatus_active]
  simp [toCodes, List.foldl_append]

/-- **`cawg_x509_failures_never_invalid`** — what the code guarantees, at full generality of
position: if every failure the identity validation logs has a `cawg.x509.*` code, results that
are not Invalid without them are not Invalid with them — whether the assertion sits in the
active manifest (`uri = none`) or in the manifest of an ingredient (`uri = some u`: the failures
land in that ingredient's delta, existing or new), and whatever the other deltas hold. -/
theorem cawg_x509_failures_never_invalid (log : List Entry) (base : C04.Results)
    (uri : Option (List Char))
    (hx : ∀ e ∈ log, e.2 = .failure → C04.cawgX509Prefix.isPrefixOf e.1 = true)
    (hv : C04.state base ≠ .invalid) :
    C04.state (postValidate base uri log) ≠ .invalid := by
  unfold postValidate
  apply harmless_never_invalid _ _ base hv
  intro s hs hk
  obtain ⟨e, he, rfl⟩ := List.mem_map.1 hs
  have := hx e he hk
  simp [toStatus, C04.tolerated, this]

/-- Several identity assertions, in any mix of manifests (active / different ingredients), one
after the other: still never Invalid. -/
theorem cawg_x509_failures_never_invalid_many (logs : List (Option (List Char) × List Entry))
    (hx : ∀ p ∈ logs, ∀ e ∈ p.2, e.2 = .failure → C04.cawgX509Prefix.isPrefixOf e.1 = true) :
    ∀ base : C04.Results, C04.state base ≠ .invalid →
      C04.state (logs.foldl (fun r p => postValidate r p.1 p.2) base) ≠ .invalid := by
  induction logs with
  | nil => intro base h; exact h
  | cons p ps ih =>
    intro base h
    simp only [List.foldl_cons]
    exact ih (fun q hq => hx q (List.mem_cons_of_mem _ hq)) _
      (cawg_x509_failures_never_invalid p.2 base p.1 (hx p (List.mem_cons_self ..)) h)

/-- When the pads are zero and the references intact, every failure `validate_partial_claim`
can log for `cawg.x509.cose` is a `cawg.x509.*` one — from input-level facts only: the
verifier's raw statuses are among those the `crypto::cose` sources can log (`RawFromCose`,
generated table), rewritten by the modelled remap (`remap_total`). -/
theorem intact_refs_failures_x509 (ia : Identity) (claim : List HUri)
    (hb : ∀ r ∈ ia.refs, RefBound claim r) (hh : ∃ r ∈ ia.refs, isHardBindingRef r.url = true)
    (hd : (ia.refs.map (·.url)).Nodup) (hp1 : ∀ b ∈ ia.pad1, b = 0)
    (hp2 : ∀ p, ia.pad2 = some p → ∀ b ∈ p, b = 0)
    (ht : ia.sigType = .x509) (hraw : RawFromCose ia.sig.raw) :
    ∀ e ∈ (validate ia claim).2, e.2 = .failure → C04.cawgX509Prefix.isPrefixOf e.1 = true := by
  have hpad : padLog ia.pad1 ia.pad2 = [] := by
    unfold padLog
    have h1 : ia.pad1.all (· == 0) = true := List.all_eq_true.2 (fun b hb' => by simp [hp1 b hb'])
    simp only [h1, Bool.not_true, Bool.false_eq_true, if_false]
    cases h2 : ia.pad2 with
    | none => rfl
    | some p =>
      have : p.all (· == 0) = true := List.all_eq_true.2 (fun b hb' => by simp [hp2 p h2 b hb'])
      simp [this]
  have hany : (ia.refs.any fun r => isHardBindingRef r.url) = true := by
    obtain ⟨r, hr, hrb⟩ := hh
    exact List.any_eq_true.2 ⟨r, hr, hrb⟩
  have hca : checkAgainstClaim ia.refs claim = (true, []) := by
    unfold checkAgainstClaim
    rw [checkRefs_all_bound claim ia.refs [] hb]
    simp [hany, dupLog_nodup _ [] hd (by intro u _ h; cases h)]
  have hraw' := remapLog_failures_x509 ia.sig.raw hraw
  have hmis : ∀ e ∈ remapLog [failE cSigMismatch], e.2 = .failure →
      C04.cawgX509Prefix.isPrefixOf e.1 = true := by
    intro e he _
    have : e = failE cSigMismatch := by simpa [remapLog, failE, remap_sigMismatch] using he
    rw [this]; exact sigMismatch_x509
  have hcl : ∀ e ∈ remapLog [failE cClaimSigMismatch], e.2 = .failure →
      C04.cawgX509Prefix.isPrefixOf e.1 = true := by
    intro e he _
    have : e = failE cSigMismatch := by simpa [remapLog, failE, remap_claimSigMismatch] using he
    rw [this]; exact sigMismatch_x509
  have hsplit : ∀ a b : List Entry, remapLog (a ++ b) = remapLog a ++ remapLog b := by
    intro a b; simp [remapLog]
  intro e he hk
  unfold validate at he
  rw [hca] at he
  simp only [hpad, ht, List.nil_append, List.append_nil] at he
  cases ho : ia.sig.outcome with
  | verified =>
    simp only [ho, guardScopeLog] at he
    rcases List.mem_append.1 he with h | h
    · exact hraw' e h hk
    · simp [succ] at h
      rcases h with rfl | rfl <;> cases hk
  | mismatch =>
    simp only [ho, guardScopeLog, hsplit] at he
    rcases List.mem_append.1 he with h | h
    · exact hraw' e h hk
    · exact hmis e h hk
  | otherError =>
    simp only [ho, guardScopeLog, hsplit] at he
    rcases List.mem_append.1 he with h | h
    · exact hraw' e h hk
    · exact hmis e h hk
  | parseError =>
    simp only [ho, guardScopeLog] at he
    exact hcl e he hk

/-- **`cawg_signature_failures_never_invalid`** — the statement's last sentence for everything
that can go wrong with the *signature and credential* of an identity assertion whose pads and
references are intact: whatever the outcome (does not parse, does not verify, any other error,
untrusted / invalid / expired credential — any statuses the COSE sources can log), in the active
manifest or in any ingredient's manifest, results that are not Invalid stay not Invalid. -/
theorem cawg_signature_failures_never_invalid (ia : Identity) (claim : List HUri)
    (base : C04.Results) (uri : Option (List Char))
    (hb : ∀ r ∈ ia.refs, RefBound claim r) (hh : ∃ r ∈ ia.refs, isHardBindingRef r.url = true)
    (hd : (ia.refs.map (·.url)).Nodup) (hp1 : ∀ b ∈ ia.pad1, b = 0)
    (hp2 : ∀ p, ia.pad2 = some p → ∀ b ∈ p, b = 0)
    (ht : ia.sigType = .x509) (hraw : RawFromCose ia.sig.raw)
    (hv : C04.state base ≠ .invalid) :
    manifestStateAt ia claim base uri ≠ .invalid := by
  unfold manifestStateAt manifestResultsAt
  exact cawg_x509_failures_never_invalid _ base uri
    (intact_refs_failures_x509 ia claim hb hh hd hp1 hp2 ht hraw) hv

/-- **`cawg_failure_never_invalid_partial`** (active manifest, `Manifest::from_store` form): if
every failure the identity validation logs is a `cawg.x509.*` one, a manifest that is not
Invalid without them is not Invalid with them. -/
theorem cawg_failure_never_invalid_partial (ia : Identity) (claim : List HUri) (rest : List Entry)
    (hx : ∀ e ∈ (validate ia claim).2, e.2 = .failure → C04.cawgX509Prefix.isPrefixOf e.1 = true)
    (hv : C04.state { active := some (toCodes rest), deltas := none } ≠ .invalid) :
    manifestState ia claim rest ≠ .invalid := by
  rw [manifestState_eq_at]
  unfold manifestStateAt manifestResultsAt
  exact cawg_x509_failures_never_invalid _ _ none hx hv

/-- Non-vacuity: a signature mismatch (a `cawg.x509.*` failure) leaves a Valid manifest Valid. -/
example : manifestState
    { refs := [⟨"self#jumbf=c2pa.assertions/c2pa.hash.data".toList, [1]⟩], sigType := .x509,
      pad1 := [], pad2 := none, sig := ⟨[], .mismatch⟩ }
    [⟨"self#jumbf=c2pa.assertions/c2pa.hash.data".toList, [1]⟩]
    [succ C04.cSigValidated, succ C04.cInsideValidity] = .valid := by decide

/-- Non-vacuity for the ingredient position: an untrusted CAWG credential inside the manifest of
ingredient `u`, whose delta already records `signingCredential.untrusted`, leaves Valid Valid. -/
example : manifestStateAt
    { refs := [⟨"self#jumbf=c2pa.assertions/c2pa.hash.data".toList, [1]⟩], sigType := .x509,
      pad1 := [], pad2 := none,
      sig := ⟨[failE "signingCredential.untrusted".toList], .verified⟩ }
    [⟨"self#jumbf=c2pa.assertions/c2pa.hash.data".toList, [1]⟩]
    { active := some { success := [C04.cSigValidated, C04.cInsideValidity] },
      deltas := some [{ uri := "u".toList, codes := { failure := [C04.cUntrusted] } }] }
    (some "u".toList) = .valid := by decide

/-- **The other direction (F13 in general)**: any `cawg.identity.*` failure — pad, reference
mismatch, duplicate, missing hard binding; in fact any logged failure whose code is not
`cawg.x509.*` / `signingCredential.untrusted` — makes the results Invalid, in the active manifest
and in any ingredient's manifest alike. -/
theorem nontolerated_identity_failure_invalid (ia : Identity) (claim : List HUri)
    (base : C04.Results) (uri : Option (List Char)) (e : Entry)
    (he : e ∈ (validate ia claim).2) (hk : e.2 = .failure) (ht : C04.tolerated e.1 = false) :
    manifestStateAt ia claim base uri = .invalid := by
  unfold manifestStateAt manifestResultsAt postValidate
  exact nontolerated_in_sequence_invalid _ (toStatus uri e)
    (List.mem_map.2 ⟨e, he, rfl⟩) hk ht base

theorem pad_not_tolerated : C04.tolerated cPad = false := by decide
theorem mismatch_not_tolerated : C04.tolerated cMismatch = false := by decide
theorem duplicate_not_tolerated : C04.tolerated cDuplicate = false := by decide
theorem hardbinding_not_tolerated : C04.tolerated cHardBinding = false := by decide

/-- … so a changed pad byte makes the manifest Invalid wherever the assertion sits. -/
theorem pad_change_invalidates (ia : Identity) (claim : List HUri) (base : C04.Results)
    (uri : Option (List Char))
    (h : (∃ b ∈ ia.pad1, b ≠ 0) ∨ ((∀ b ∈ ia.pad1, b = 0) ∧ ∃ p, ia.pad2 = some p ∧ ∃ b ∈ p, b ≠ 0)) :
    manifestStateAt ia claim base uri = .invalid :=
  nontolerated_identity_failure_invalid ia claim base uri (failE cPad)
    (pad_change_reported ia claim h) rfl pad_not_tolerated

/-- **False for the code as it is, at every position** (F13): a non-zero pad byte in an identity
assertion inside an *ingredient's* manifest makes an otherwise Trusted store Invalid.
(Replayed by the harness: `e2ei`, position `componentOf`, mutation `Pad1`.) -/
theorem cawg_failure_never_invalid_at_false : ¬ CawgFailureNeverInvalidAt := by
  intro h
  have hne := h
    { refs := [⟨"self#jumbf=c2pa.assertions/c2pa.hash.data".toList, [1]⟩], sigType := .x509,
      pad1 := [0, 7], pad2 := none, sig := ⟨[], .verified⟩ }
    [⟨"self#jumbf=c2pa.assertions/c2pa.hash.data".toList, [1]⟩]
    { active := some { success := [C04.cTrusted, C04.cSigValidated, C04.cInsideValidity] },
      deltas := none }
    (some "self#jumbf=/c2pa/urn:c2pa:outer/c2pa.assertions/c2pa.ingredient.v3".toList)
    (by decide)
  exact hne (pad_change_invalidates _ _ _ _ (Or.inl ⟨7, by decide, by decide⟩))

/-! ### independence of reports across the assertions of one pass -/

/-- The tracker after a pass is the tracker before it followed by each assertion's own slice. -/
theorem validateThreaded_eq (xs : List (Identity × List HUri)) :
    ∀ tr : List Entry, validateThreaded tr xs = tr ++ ((passSlices xs).map (·.2)).flatten := by
  induction xs with
  | nil => intro tr; simp [validateThreaded, passSlices]
  | cons x xs ih =>
    intro tr
    simp only [validateThreaded, validateIn, ih, passSlices, List.map_cons, List.flatten_cons,
      List.append_assoc]

/-- **`report_independent`**: what an assertion's validation writes to the tracker, and its
result, do not depend on what the tracker already holds (earlier failures of other assertions, of
the C2PA checks, …). -/
theorem report_independent (tr tr' : List Entry) (ia : Identity) (claim : List HUri) :
    (validateIn tr ia claim).1 = (validateIn tr' ia claim).1 ∧
    (validateIn tr ia claim).2.drop tr.length = (validateIn tr' ia claim).2.drop tr'.length := by
  simp [validateIn]

/-- The slice assertion `i` of a pass writes is `validate` of that assertion alone — whatever the
other assertions of the pass are and in whatever order they come. -/
theorem pass_slice (xs : List (Identity × List HUri)) (i : Nat) (h : i < xs.length) :
    (passSlices xs)[i]'(by simpa [passSlices] using h) = validate xs[i].1 xs[i].2 := by
  simp [passSlices]

/-- **`changed_assertion_reported_in_pass`**: in a pass over any assertions, on any tracker, every
`cawg.x509.cose` assertion whose signature does not end in "verified", every assertion with an
unbound / repeated reference or no hard binding, and every assertion with a non-zero pad byte has
a `cawg.*` failure *in its own slice* — regardless of what else the pass logged. -/
theorem changed_assertion_reported_in_pass (xs : List (Identity × List HUri)) (i : Nat)
    (h : i < xs.length)
    (hch : (xs[i].1.sigType = .x509 ∧ xs[i].1.sig.outcome ≠ .verified) ∨
      ((∃ r ∈ xs[i].1.refs, ¬ RefBound xs[i].2 r) ∨ ¬ (xs[i].1.refs.map (·.url)).Nodup ∨
        (∀ r ∈ xs[i].1.refs, isHardBindingRef r.url = false)) ∨
      ((∃ b ∈ xs[i].1.pad1, b ≠ 0) ∨
        ((∀ b ∈ xs[i].1.pad1, b = 0) ∧ ∃ p, xs[i].1.pad2 = some p ∧ ∃ b ∈ p, b ≠ 0))) :
    ∃ e ∈ ((passSlices xs)[i]'(by simpa [passSlices] using h)).2, IsCawgFailure e := by
  rw [pass_slice xs i h]
  rcases hch with ⟨ht, hs⟩ | hr | hp
  · exact signature_change_reported _ _ ht hs
  · obtain ⟨e, he, hc⟩ := identity_binds_references _ _ hr
    exact ⟨e, validate_keeps_claim_failures _ _ e he, hc⟩
  · exact ⟨failE cPad, pad_change_reported _ _ hp, failE_cawg _ pad_is_cawg⟩

/-- … and every failure an assertion of the pass logs is recorded in the results after the pass
(`Reader::post_validate`), whatever is added before or after it. -/
theorem pass_failure_recorded (xs : List (Option (List Char) × Identity × List HUri))
    (x : Option (List Char) × Identity × List HUri) (hx : x ∈ xs) (e : Entry)
    (he : e ∈ (validate x.2.1 x.2.2).2) (hk : e.2 = .failure) :
    ∀ base : C04.Results, HasFailure (postValidateMany base xs) e.1 := by
  induction xs with
  | nil => cases hx
  | cons y ys ih =>
    intro base
    unfold postValidateMany
    simp only [List.foldl_cons]
    rcases List.mem_cons.1 hx with rfl | hx'
    · -- recorded by this step, kept by the rest
      have hstep : HasFailure (postValidate base x.1 (validate x.2.1 x.2.2).2) e.1 := by
        unfold postValidate
        have key : ∀ (l : List Entry) (r : C04.Results), e ∈ l →
            HasFailure ((l.map (toStatus x.1)).foldl C04.addStatus r) e.1 := by
          intro l
          induction l with
          | nil => intro _ h; cases h
          | cons a as ih2 =>
            intro r hm
            simp only [List.map_cons, List.foldl_cons]
            rcases List.mem_cons.1 hm with rfl | hm'
            · exact hasFailure_foldl _ _ _ (hasFailure_of_add r (toStatus x.1 e) hk)
            · exact ih2 _ hm'
        exact key _ base he
      have hrest : ∀ (zs : List (Option (List Char) × Identity × List HUri)) (r : C04.Results),
          HasFailure r e.1 →
          HasFailure (zs.foldl (fun r x => postValidate r x.1 (validate x.2.1 x.2.2).2) r) e.1 := by
        intro zs
        induction zs with
        | nil => intro r h; exact h
        | cons z zs ih3 =>
          intro r h
          simp only [List.foldl_cons]
          exact ih3 _ (hasFailure_foldl _ _ _ h)
      exact hrest ys _ hstep
    · exact ih hx' _

/-! ### the `sig_type` gap -/

/-- The statement's "any change to the signer payload is reported". -/
def PayloadChangeReported : Prop :=
  ∀ (ia : Identity) (claim : List HUri), ia.sigType = .other →
    ∃ e ∈ (validate ia claim).2, IsCawgFailure e

/-- **False for the code as it is**: an assertion whose `sig_type` is not one the validator knows
is skipped without any status (`Err(UnknownSignatureType)` is discarded by the caller). The
existing unit tests pin this silence for the default reader. (Replayed by the harness: class
`cawg-sigtype-unknown-unreported`.) -/
theorem payload_change_reported_false : ¬ PayloadChangeReported := by
  intro h
  obtain ⟨e, he, _⟩ := h
    { refs := [⟨"self#jumbf=c2pa.assertions/c2pa.hash.data".toList, [1]⟩], sigType := .other,
      pad1 := [], pad2 := none, sig := ⟨[], .verified⟩ }
    [⟨"self#jumbf=c2pa.assertions/c2pa.hash.data".toList, [1]⟩] rfl
  have hlog : (validate
      { refs := [⟨"self#jumbf=c2pa.assertions/c2pa.hash.data".toList, [1]⟩], sigType := .other,
        pad1 := [], pad2 := none, sig := ⟨[], .verified⟩ }
      [⟨"self#jumbf=c2pa.assertions/c2pa.hash.data".toList, [1]⟩]).2 = [] := by decide
  rw [hlog] at he
  cases he

end C2pa.C33
