import C2paModel.Lemmas.C18Ser
import C2paModel.Lemmas.C18Total
import C2paModel.Lemmas.C18Dec
import C2paModel.Lemmas.C18Size
import C2paModel.Lemmas.C18Ctor
/-
C18 — property theorems. The statement (properties.jsonl):

  Serialising any manifest store the SDK produced and parsing it back gives a store that
  re-serialises to identical bytes, including compressed manifests. For any byte string the
  parser accepts, re-serialising the parsed store and parsing again is a fixed point.

The theorems are about the box layer every store goes through (`BoxReader::read_super_box` =
`parse`, `BMFFBox::write_box` = `Box.ser`, model in `Model/C18.lean`); `Store::from_jumbf_impl`
runs `parse` on the whole store and `write_box → read_super_box` once more on every manifest
(`CAIManifest::from`). The claim/assertion layer above the boxes is checked on the implementation
only (harness oracle `store-identity` / `store-fixed-point`).

* `parse_ser_append`     the first sentence of the statement in its own form: the written form of
                         every valid, quirk-free tree (any shape, below 4 GiB, nesting ≤ 32), followed by
                         arbitrary bytes, is read back as that tree, consuming exactly the written bytes
                         (`parse_ser` is the case without trailing bytes; by structural induction)
* `new_valid_iff`, `new_roundtrip`, `new_unreadable`   the SDK's constructors: `JUMBFDescriptionBox::new`
                         (+ `set_salt`) yields a readable box exactly for a non-empty `str` label without NUL;
                         otherwise the written box is rejected (`UnexpectedEof`) — replayed through the real
                         constructors; the store serialiser now refuses such labels
                         (fixes/C18-reject-unstorable-box-labels.patch)
* `parse_size_bound`     the accepted tree re-serialises to at most 9/8 of the bytes consumed (the tighter
                         `size ≤ consumed` is false: `not_parse_size_le`), hence `reser_fixed_point_input`
                         needs no hypothesis about the size of the output tree
* `manifest_plain_roundtrip`, `manifest_compressed_roundtrip`   the manifest layer (`CAIManifest::from` /
                         `write_box_payload`), Brotli as a parameter with `dec (enc y) = some y`
* `loadBoxes_plain_fixed`  the store reader's composite acceptance below the claim layer (`read_super_box`,
                         then `CAIManifest::from` on every child): on an accepted store of plain manifests
                         with a quirk-free tree, load → write gives `ser (parse x)` back
* `writer_size_no_overflow`, `reser_writer_no_overflow`   the writer's unchecked `u32` additions compute
                         `Box.size` exactly below 4 GiB
* `parse_wf`             everything the reader accepts is `Valid` and nests ≤ 32
* `parse_total_depth_bounded`  the reader terminates on every byte string with an error or a tree,
                         never with `panic` (unchecked overflow) or `oof`, and never recurses at
                         depth ≥ 32 (`superBox_depth_guard`)
* `reser_fixed_point_partial` / `reser_fixed_point_input`  for every accepted byte string whose tree is
                         quirk-free: write → read → write is a fixed point (`_input`: for inputs up to
                         3 817 748 707 bytes, no hypothesis on the tree's size); `nonCanon_*` instantiate it on
                         an accepted input that is not the written form of any tree
* `not_reserFixedPoint`, `not_reserAccepted`  the *full* fixed-point statement is false for the box
                         layer: three kinds of accepted input (`QuirkFree` names exactly them) are not
                         reproduced (one grows on every pass, two re-serialise to bytes the reader
                         rejects); each has a kernel-evaluated witness, replayed on the
                         implementation by the harness. (At store level `from_jumbf` rebuilds
                         assertion boxes from their content, or rejects; the harness shows no
                         store-level failure.)
-/
namespace C2pa.C18

/-! ### reading back what the writer wrote -/

/-- **parse ∘ ser.** Every valid, quirk-free super box (any number of children, any payloads, nesting
up to the reader's limit, total size below 4 GiB so that the `u32` size fields are exact) is read
back from its written form, consuming exactly the written bytes. The result is the tree itself up
to `norm`, which only rewrites the fields of `bfdb` boxes that the writer never emits (the file
name, a media type that is not a non-empty `str`). -/
theorem parse_ser (desc : Desc) (cs : List Box)
    (hv : (Box.super desc cs).Valid) (hq : (Box.super desc cs).QuirkFree)
    (hh : (Box.super desc cs).height ≤ MAX_JUMB_DEPTH) (hs : (Box.super desc cs).size < 4294967296) :
    parse (Box.super desc cs).ser = .ok ((Box.super desc cs).norm, (Box.super desc cs).ser.length) := by
  have hlen := (Box.super desc cs).ser_length hv hq
  have h := superOK (.super desc cs) hv hq ((Box.super desc cs).ser.length + 2) (Box.super desc cs).ser 0 0 []
    (by simp) (Nat.zero_le _) (by rw [hlen]; omega) hs (by simpa [MAX_JUMB_DEPTH] using hh)
    (by rw [hlen]; omega)
  unfold parse
  rw [h, hlen]
  simp

/-- … and exactly the tree when it is in normal form (`norm b = b`: every `bfdb` box is what the
reader itself would have produced). -/
theorem parse_ser_canon (desc : Desc) (cs : List Box)
    (hv : (Box.super desc cs).Valid) (hq : (Box.super desc cs).QuirkFree)
    (hh : (Box.super desc cs).height ≤ MAX_JUMB_DEPTH) (hs : (Box.super desc cs).size < 4294967296)
    (hn : (Box.super desc cs).norm = Box.super desc cs) :
    parse (Box.super desc cs).ser = .ok (Box.super desc cs, (Box.super desc cs).ser.length) := by
  have := parse_ser desc cs hv hq hh hs
  rwa [hn] at this

/-- **parse ∘ ser, followed by anything** — the first sentence of the property in its own form.
The written form of a valid, quirk-free super box followed by arbitrary bytes `post` is read back as
the tree (up to `norm`), and the reader stops exactly at the end of the written form: it neither runs
past `dest` into `post` nor stops short. -/
theorem parse_ser_append (desc : Desc) (cs : List Box) (post : Bytes)
    (hv : (Box.super desc cs).Valid) (hq : (Box.super desc cs).QuirkFree)
    (hh : (Box.super desc cs).height ≤ MAX_JUMB_DEPTH) (hs : (Box.super desc cs).size < 4294967296)
    (hL : (Box.super desc cs).ser.length + post.length < 2 ^ 64) :
    parse ((Box.super desc cs).ser ++ post) =
      .ok ((Box.super desc cs).norm, (Box.super desc cs).ser.length) :=
  parse_ser_append_super desc cs post hv hq hh hs hL

/-- the same for an arbitrary tree `t` (not only the output of a parse): whenever `t` is a super box -/
theorem parse_ser_append_tree (t : Box) (post : Bytes) (hsup : t.isSuper)
    (hv : t.Valid) (hq : t.QuirkFree) (hh : t.height ≤ MAX_JUMB_DEPTH) (hs : t.size < 4294967296)
    (hL : t.ser.length + post.length < 2 ^ 64) :
    parse (t.ser ++ post) = .ok (t.norm, t.ser.length) := by
  cases t with
  | super desc cs => exact parse_ser_append desc cs post hv hq hh hs hL
  | leaf _ _ => exact absurd hsup id
  | uuid _ _ => exact absurd hsup id
  | bfdb _ _ _ => exact absurd hsup id

/-- a tree that is not a super box is never the result of a parse, so the restriction is necessary -/
example : ∀ x e k dt, parse x ≠ .ok (.leaf k dt, e) := by
  intro x e k dt h
  have := (parse_post x).of_eq_ok h
  exact this.2.2.2.2

/-! ### what the reader accepts -/

/-- **Everything the reader accepts is well-formed**: a super box whose description boxes have a
16-byte UUID, toggles with both low bits set, a non-empty valid-UTF-8 label without NUL, id /
signature / salt present exactly when their toggle bits are set (id < 2^32, signature 32 bytes), all
`uuid` boxes with a 16-byte UUID; nesting at most 32; the end position inside the data. -/
theorem parse_wf (x : Bytes) (b : Box) (e : Nat) (h : parse x = .ok (b, e)) :
    b.Valid ∧ b.height ≤ MAX_JUMB_DEPTH ∧ e ≤ x.length ∧ b.isSuper := by
  have := (parse_post x).of_eq_ok h
  exact ⟨this.1, this.2.1, this.2.2.2.1, this.2.2.2.2⟩

/-- **Totality, bounded depth, no panic**: on every byte string the reader returns an error or a
tree of nesting ≤ 32; the outcomes `panic` (an unchecked `+`/`-` overflowing) and `oof` (the fuel
`parse` supplies running out, i.e. more loop iterations than bytes) do not occur. -/
theorem parse_total_depth_bounded (x : Bytes) :
    (∃ er, parse x = .err er) ∨ (∃ b e, parse x = .ok (b, e) ∧ b.height ≤ MAX_JUMB_DEPTH) := by
  have hp := parse_post x
  cases h : parse x with
  | ok r => exact Or.inr ⟨r.1, r.2, rfl, by rw [h] at hp; exact hp.2.1⟩
  | err er => exact Or.inl ⟨er, rfl⟩
  | panic => rw [h] at hp; exact absurd hp id
  | oof => rw [h] at hp; exact absurd hp id

/-- the recursion guard: `read_super_box_impl` does nothing at depth ≥ 32 (so the depth of the Rust
call stack is bounded by 32 frames of it) -/
theorem superBox_depth_guard (f : Nat) (d : Bytes) (depth pos : Nat) (h : MAX_JUMB_DEPTH ≤ depth) :
    superBox (f + 1) d depth pos = .err .tooDeep := by
  unfold superBox
  rw [if_pos h]

/-! ### the fixed point -/

/-- The full statement for the box layer: for every accepted byte string, the re-serialisation
is accepted again and re-serialises to itself. -/
def ReserFixedPoint : Prop :=
  ∀ x b e, parse x = .ok (b, e) → ∃ b' e', parse b.ser = .ok (b', e') ∧ b'.ser = b.ser

/-- **Fixed point, partial**: for every byte string the reader accepts whose tree is quirk-free (no
super box without content boxes, no `uuid` box without data, no `bfdb` box with toggles 1 and a NUL
inside a valid-UTF-8 media type) and re-serialises below 4 GiB: the re-serialisation is accepted,
consumed completely, and re-serialises to the same bytes. (Reading `b.norm.ser` again gives `b.norm`
again: rewrite the first conjunct with the second.) -/
theorem reser_fixed_point_partial (x : Bytes) (b : Box) (e : Nat) (h : parse x = .ok (b, e))
    (hq : b.QuirkFree) (hs : b.size < 4294967296) :
    parse b.ser = .ok (b.norm, b.ser.length) ∧ b.norm.ser = b.ser := by
  obtain ⟨hv, hh, _, hsup⟩ := parse_wf x b e h
  cases b with
  | super desc cs => exact ⟨parse_ser desc cs hv hq hh hs, (Box.super desc cs).norm_ser⟩
  | leaf _ _ => exact absurd hsup id
  | uuid _ _ => exact absurd hsup id
  | bfdb _ _ _ => exact absurd hsup id

/-- **Fixed point from a hypothesis on the input only** (apart from `QuirkFree`, which is decidable on
the parse result and whose three excluded shapes are proved counter-examples below): the size
hypothesis of `reser_fixed_point_partial` is discharged by `parse_size_bound` — an input of at most
8/9 · 2^32 bytes cannot produce a tree that re-serialises to 4 GiB. The bytes of `x` enter through
`8 · |ser b| ≤ 9 · e ≤ 9 · |x|`. -/
theorem reser_fixed_point_input (x : Bytes) (b : Box) (e : Nat) (h : parse x = .ok (b, e))
    (hq : b.QuirkFree) (hx : x.length ≤ 3817748707) :
    ∃ b' e', parse b.ser = .ok (b', e') ∧ b'.ser = b.ser ∧ e' = b.ser.length ∧
      8 * b.ser.length ≤ 9 * e := by
  have hs := parse_size_lt_u32 x b e h hq hx
  obtain ⟨h1, h2⟩ := reser_fixed_point_partial x b e h hq hs
  refine ⟨b.norm, _, h1, h2, rfl, ?_⟩
  have := parse_size_bound x b e h hq
  rw [b.ser_length (parse_wf x b e h).1 hq]
  exact this

/-- `ser (parse (ser (parse x))) = ser (parse x)` in the form of the statement. -/
theorem reser_fixed_point_partial' (x : Bytes) (b : Box) (e : Nat) (h : parse x = .ok (b, e))
    (hq : b.QuirkFree) (hs : b.size < 4294967296) :
    ∃ b' e', parse b.ser = .ok (b', e') ∧ b'.ser = b.ser :=
  ⟨b.norm, _, (reser_fixed_point_partial x b e h hq hs).1, (reser_fixed_point_partial x b e h hq hs).2⟩

/-- **Canonical inputs: everything from the input.** When the input is the written form of a valid
quirk-free tree followed by anything, `QuirkFree` of the parse result is *derived* (`norm` keeps it),
so the fixed point holds with hypotheses about the input only. -/
theorem reser_fixed_point_written (t : Box) (post : Bytes) (hsup : t.isSuper)
    (hv : t.Valid) (hq : t.QuirkFree) (hh : t.height ≤ MAX_JUMB_DEPTH) (hs : t.size < 4294967296)
    (hL : t.ser.length + post.length < 2 ^ 64) :
    ∃ b e, parse (t.ser ++ post) = .ok (b, e) ∧ b.QuirkFree ∧
      parse b.ser = .ok (b.norm, b.ser.length) ∧ b.norm.ser = b.ser := by
  have h := parse_ser_append_tree t post hsup hv hq hh hs hL
  have hqn := t.norm_quirkFree hq
  obtain ⟨h1, h2⟩ := reser_fixed_point_partial _ _ _ h hqn (by rw [t.norm_size]; exact hs)
  exact ⟨t.norm, _, h, hqn, h1, h2⟩

/-! ### the three quirks: accepted inputs that are not reproduced -/

def qDesc (l : UInt8) : Desc := ⟨List.replicate 16 1, 3, [l], none, none, none⟩

/-- (1) `bfdb` with toggles = 1 and a NUL inside the media type (the layout ISO 19566-5 gives a
`bfdb` box with a file name): the reader keeps the whole buffer as media type, the writer appends
one more NUL on every pass. -/
def wBfdb (m : Bytes) : Box := .super (qDesc 113) [.bfdb 1 m none, .leaf .bidb [1, 2]]

theorem wBfdb_accepted : parse (wBfdb [97, 0, 98]).ser = .ok (wBfdb [97, 0, 98, 0], 58) :=
  isOk_sound (by decide +kernel)
theorem wBfdb_second : parse (wBfdb [97, 0, 98, 0]).ser = .ok (wBfdb [97, 0, 98, 0, 0], 59) :=
  isOk_sound (by decide +kernel)
theorem wBfdb_grows : (wBfdb [97, 0, 98, 0, 0]).ser ≠ (wBfdb [97, 0, 98, 0]).ser := by decide

/-- (2) a `uuid` box without data: `box_size` counts the 16 UUID bytes, `write_box_payload` writes
nothing, the written super box is inconsistent and is rejected. -/
def wUuid : Box := .super (qDesc 113) [.uuid (List.replicate 16 2) [], .leaf .json [123, 125]]
def wUuidX : Bytes :=
  be32 69 ++ be32 JUMB ++ serDesc (qDesc 113) ++ (be32 24 ++ be32 UUID ++ List.replicate 16 2)
    ++ (Box.leaf .json [123, 125]).ser

theorem wUuid_accepted : parse wUuidX = .ok (wUuid, 69) := isOk_sound (by decide +kernel)
theorem wUuid_rejected : parse wUuid.ser = .err .invalidUuid := isErr_sound (by decide +kernel)

/-- (3) a super box without content boxes that is not the last thing in the data (accepted when
followed by an all-zero header inside its declared size): written without the padding, the reader
takes the next sibling for its child. -/
def wEmpty : Box := .super (qDesc 113) [.super (qDesc 101) [], .leaf .json [123, 125]]
def wEmptyX : Bytes :=
  be32 88 ++ be32 JUMB ++ serDesc (qDesc 113)
    ++ (be32 43 ++ be32 JUMB ++ serDesc (qDesc 101) ++ List.replicate 8 0)
    ++ (Box.leaf .json [123, 125]).ser

theorem wEmpty_accepted : parse wEmptyX = .ok (wEmpty, 88) := isOk_sound (by decide +kernel)
theorem wEmpty_rejected : parse wEmpty.ser = .err .invalidJumbBox := isErr_sound (by decide +kernel)

/-- **The full fixed-point statement is false for the box layer** (witness (1); (2) and (3) refute it
as well: their re-serialisation is not accepted at all). -/
theorem not_reserFixedPoint : ¬ ReserFixedPoint := by
  intro h
  obtain ⟨b', e', h1, h2⟩ := h _ _ _ wBfdb_accepted
  rw [wBfdb_second] at h1
  cases h1
  exact wBfdb_grows h2

/-- the weaker statement "the re-serialisation of an accepted input is accepted" is false as well
(witness (2); witness (3) `wEmpty_accepted` / `wEmpty_rejected` refutes it in the same way) -/
theorem not_reserAccepted :
    ¬ (∀ x b e, parse x = .ok (b, e) → ∃ r, parse b.ser = .ok r) := by
  intro h
  obtain ⟨r, h1⟩ := h _ _ _ wUuid_accepted
  rw [wUuid_rejected] at h1
  cases h1

/-- the witnesses are exactly outside `QuirkFree` -/
example : ¬ (wBfdb [97, 0, 98, 0]).QuirkFree := by
  simp [wBfdb, Box.QuirkFree, QuirkFreeList]; decide
example : ¬ wUuid.QuirkFree := by simp [wUuid, Box.QuirkFree, QuirkFreeList]
example : ¬ wEmpty.QuirkFree := by simp [wEmpty, Box.QuirkFree, QuirkFreeList]

/-! ### non-vacuity and regression witnesses -/

/-- a tree with every optional field (id, signature, salt, high toggle bits), nested super box,
`uuid`, both normal forms of `bfdb`, empty and non-empty leaves -/
def exTree : Box :=
  .super ⟨List.replicate 16 0x63, 0x1f, [99, 50, 112, 97], some 7, some (List.replicate 32 9),
      some (List.replicate 16 5)⟩
    [.super (qDesc 97) [.leaf .cbor [0xa0], .uuid (List.replicate 16 3) [1]],
     .bfdb 0 [105, 109, 103] none, .bfdb 1 [105] (some [0]), .leaf .bidb [], .leaf .brob [1, 2, 3]]

theorem exTree_valid : exTree.Valid := by
  simp [exTree, qDesc, Box.Valid, ValidList, Desc.Valid, Desc.Valid0]
  decide
theorem exTree_quirkFree : exTree.QuirkFree := by
  simp [exTree, Box.QuirkFree, QuirkFreeList]
theorem exTree_norm : exTree.norm = exTree := by
  simp [exTree, Box.norm, normList, normBfdb]
  decide

/-- the hypotheses of `parse_ser_canon` are met by `exTree`, and the conclusion is the kernel's
own evaluation -/
example : parse exTree.ser = .ok (exTree, 210) := isOk_sound (by decide +kernel)
example : parse exTree.ser = .ok (exTree, exTree.ser.length) :=
  parse_ser_canon _ _ exTree_valid exTree_quirkFree (by decide) (by decide) exTree_norm

/-- formerly an endless loop in `read_super_box_impl` (a 5-byte partial header `0000000b 78` after the
description box; fixed in `read_header`, fixes/C18-read-header-short-read-and-dest-overflow.patch) -/
example : parse (be32 4096 ++ be32 JUMB ++ serDesc (qDesc 97) ++ [0, 0, 0, 11, 120]) = .err .invalidJumbfHeader :=
  isErr_sound (by decide +kernel)

/-- formerly `start_pos + jumb_header.size` overflowing `u64` (nested large-size `jumb` of size
2^64 - 1; now `checked_add`) -/
example : parse (be32 4096 ++ be32 JUMB ++ serDesc (qDesc 97) ++
    (be32 1 ++ be32 JUMB ++ be32 1 ++ be32 JUMB ++ List.replicate 8 255)) = .err .invalidBoxRange :=
  isErr_sound (by decide +kernel)

/-! ### a non-canonical accepted input

`xNonCanon` is not the written form of any tree: it carries an unknown box (`xxxx`, skipped by the
reader), a size-0 header (`json`, read as an empty box), and a `bfdb` media type without its NUL
terminator (the writer adds one). -/

def xNonCanon : Bytes :=
  be32 75 ++ be32 JUMB ++ serDesc (qDesc 113)
    ++ (be32 12 ++ be32 0x78787878 ++ [1, 2, 3, 4])
    ++ (be32 0 ++ be32 Kind.json.fourcc)
    ++ (be32 10 ++ be32 BFDB ++ [0, 97])
    ++ (Box.leaf .bidb [1, 2]).ser

def tNonCanon : Box := .super (qDesc 113) [.leaf .json [], .bfdb 0 [97] none, .leaf .bidb [1, 2]]

theorem nonCanon_accepted : parse xNonCanon = .ok (tNonCanon, 75) := isOk_sound (by decide +kernel)
theorem nonCanon_quirkFree : tNonCanon.QuirkFree := by
  simp [tNonCanon, Box.QuirkFree, QuirkFreeList]
theorem nonCanon_not_written : tNonCanon.ser ≠ xNonCanon := by decide

/-- the fixed-point theorem instantiated on the non-canonical input: its hypotheses hold, and the
conclusion is not the trivial one (`tNonCanon.ser` is 64 bytes, `xNonCanon` 75) -/
example : ∃ b' e', parse tNonCanon.ser = .ok (b', e') ∧ b'.ser = tNonCanon.ser ∧
    e' = tNonCanon.ser.length ∧ 8 * tNonCanon.ser.length ≤ 9 * 75 :=
  reser_fixed_point_input xNonCanon tNonCanon 75 nonCanon_accepted nonCanon_quirkFree (by decide)
example : tNonCanon.ser.length = 64 ∧ xNonCanon.length = 75 := by decide

/-! ### constructors: what the SDK builds its boxes with -/

/-- **Round trip for trees built with `JUMBFDescriptionBox::new` (+ `set_salt`).** For a label that is
a non-empty `str` without NUL and a 16-byte UUID, the box with any valid quirk-free content boxes,
written and followed by arbitrary bytes, reads back as itself (whether or not `set_salt` accepted the
salt). -/
theorem new_roundtrip (label uuid : Bytes) (p : Option Bytes) (cs : List Box) (post : Bytes)
    (hu : uuid.length = 16) (hl : strNonEmpty label = true) (h0 : (0 : UInt8) ∉ label)
    (hne : cs ≠ []) (hv : ValidList cs) (hq : QuirkFreeList cs)
    (hh : 1 + heightList cs ≤ MAX_JUMB_DEPTH)
    (hs : (Box.super ((Desc.new label uuid).withSalt p) cs).size < 4294967296)
    (hL : (Box.super ((Desc.new label uuid).withSalt p) cs).ser.length + post.length < 2 ^ 64) :
    parse ((Box.super ((Desc.new label uuid).withSalt p) cs).ser ++ post) =
      .ok ((Box.super ((Desc.new label uuid).withSalt p) cs).norm,
        (Box.super ((Desc.new label uuid).withSalt p) cs).ser.length) :=
  parse_ser_append _ cs post
    ⟨new_withSalt_valid p ((new_valid_iff label uuid).2 ⟨hu, hl, h0⟩), hv⟩ ⟨hne, hq⟩
    (by simpa [Box.height] using hh) hs hL

/-- the SDK's redaction placeholder with *empty* data (`CAIUUIDAssertionBox::new("c2pa.redacted")` +
`add_uuid(C2PA_REDACTION_UUID, vec![])`, which `get_assertion_from_jumbf_store` explicitly allows:
"zeros or empty"): the written box is not readable -/
def ctorUuidEmpty : Box :=
  .super (Desc.new [99, 50, 112, 97, 46, 114, 101, 100, 97, 99, 116, 101, 100]
      (hexU "7575696400110010800000aa00389b71"))
    [.uuid (hexU "caa98eee9d4df80e86ad4dffca263973") []]

theorem ctorUuidEmpty_unreadable : parse ctorUuidEmpty.ser = .err .invalidUuid :=
  isErr_sound (by decide +kernel)

/-- a manifest whose assertion store is empty (`CAIAssertionStore::new()` with nothing added, followed
by the claim box): not readable (the reader takes the claim box for the store's content and then
finds the position beyond the store's end) -/
def ctorEmptyStore : Box :=
  .super (Desc.new [109] (hexU "63326d6100110010800000aa00389b71"))
    [.super (Desc.new [99, 50, 112, 97, 46, 97, 115, 115, 101, 114, 116, 105, 111, 110, 115]
        (hexU "6332617300110010800000aa00389b71")) [],
     .super (Desc.new [99, 50, 112, 97, 46, 99, 108, 97, 105, 109]
        (hexU "6332636c00110010800000aa00389b71")) [.leaf .cbor [0xa0]]]

theorem ctorEmptyStore_unreadable : parse ctorEmptyStore.ser = .err .invalidJumbBox :=
  isErr_sound (by decide +kernel)

/-- non-vacuity of `new_roundtrip` / `new_unreadable`: the JSON assertion box the SDK builds for the
label `q`, with a 16-byte salt; and the same with the label `q\0x` -/
example : parse ((Box.super ((Desc.new [113] (hexU "6a736f6e00110010800000aa00389b71")).withSalt
      (some (List.replicate 16 7))) [.leaf .json [123, 125]]).ser ++ [1, 2, 3]) =
    .ok (.super ⟨hexU "6a736f6e00110010800000aa00389b71", 19, [113], none, none,
      some (List.replicate 16 7)⟩ [.leaf .json [123, 125]], 69) :=
  isOk_sound (by decide +kernel)
example : parse ((Box.super (Desc.new [113, 0, 120] (hexU "6a736f6e00110010800000aa00389b71"))
      [.leaf .json [123, 125]]).ser ++ [1, 2, 3]) = .err .unexpectedEof :=
  new_unreadable _ _ _ _ (by decide) (Or.inl (by decide)) (by decide)

/-! ### large-size child boxes are never read correctly (finding, not a round-trip failure)

`read_super_box_impl` seeks back 8 bytes after the header of a child, also when the header was the
16-byte large-size form; the content reader then takes the XLBox field for a header.  With a size
below 2^32 that header has size 0: the box is taken as empty, and its *payload is read as the next
sibling boxes*. A nested large-size `jumb` gives `InvalidJumbfHeader`. -/

/-- a large-size `json` box (size 24) whose 8 payload bytes are `00000008 66726565` -/
def xLargeChild : Bytes :=
  be32 59 ++ be32 JUMB ++ serDesc (qDesc 113)
    ++ (be32 1 ++ be32 Kind.json.fourcc ++ (be32 0 ++ be32 24) ++ (be32 8 ++ be32 Kind.free.fourcc))

theorem largeChild_misread :
    parse xLargeChild = .ok (.super (qDesc 113) [.leaf .json [], .leaf .free []], 59) :=
  isOk_sound (by decide +kernel)

theorem largeChild_jumb_rejected :
    parse (be32 86 ++ be32 JUMB ++ serDesc (qDesc 113)
      ++ (be32 1 ++ be32 JUMB ++ (be32 0 ++ be32 51) ++ serDesc (qDesc 101) ++ (Box.leaf .json [123, 125]).ser))
      = .err .invalidJumbfHeader :=
  isErr_sound (by decide +kernel)

/-! ### the manifest layer: `CAIManifest::from` and `CAIManifest::write_box_payload` -/

/-- **Plain manifests.** The re-read that `CAIManifest::from` performs on every uncompressed child of
the store is the identity (up to `norm`) on valid quirk-free manifests, and writing the result gives
the manifest's bytes back. -/
theorem manifest_plain_roundtrip (dec : Bytes → Option Bytes) (enc : Bytes → Bytes)
    (d : Desc) (cs : List Box)
    (hv : (Box.super d cs).Valid) (hq : (Box.super d cs).QuirkFree)
    (hh : (Box.super d cs).height ≤ MAX_JUMB_DEPTH) (hs : (Box.super d cs).size < 4294967296)
    (hnb : firstBrob (.super d cs) = none) :
    manifestFrom dec (.super d cs) = .ok ⟨false, mtypeOf (.super d cs), (Box.super d cs).norm⟩ ∧
      manifestWrite enc ⟨false, mtypeOf (.super d cs), (Box.super d cs).norm⟩ = (Box.super d cs).ser := by
  constructor
  · rw [firstBrob_none_ser d cs dec hnb, parse_ser d cs hv hq hh hs]
    simp [mtypeOf_norm]
  · simp [manifestWrite, Box.norm_ser]

/-- the box `CAIManifest::write_box_payload` writes for a compressed manifest -/
def compressedBox (enc : Bytes → Bytes) (d : Desc) (cs : List Box) : Box :=
  .super (Desc.new (labelStr d.label) UUID_C2CM) [.leaf .brob (enc (Box.super d cs).ser)]

/-- **Compressed manifests** ("including compressed manifests"), Brotli as a parameter: `enc` is a
function (the compressor is deterministic) and `dec` undoes it on this input. Writing a compressed
manifest gives the `c2cm` box `W`; `W` (followed by anything) is read back by the box reader as
itself; `CAIManifest::from` on it gives the manifest back (with a fresh depth budget: the manifest may
itself nest 32 deep); and writing that gives `W` again. -/
theorem manifest_compressed_roundtrip (dec : Bytes → Option Bytes) (enc : Bytes → Bytes)
    (d : Desc) (cs : List Box) (t : MType) (post : Bytes)
    (hv : (Box.super d cs).Valid) (hq : (Box.super d cs).QuirkFree)
    (hh : (Box.super d cs).height ≤ MAX_JUMB_DEPTH) (hs : (Box.super d cs).size < 4294967296)
    (hbr : dec (enc (Box.super d cs).ser) = some (Box.super d cs).ser)
    (hsW : (compressedBox enc d cs).size < 4294967296)
    (hL : (compressedBox enc d cs).ser.length + post.length < 2 ^ 64) :
    manifestWrite enc ⟨true, t, .super d cs⟩ = (compressedBox enc d cs).ser ∧
    parse ((compressedBox enc d cs).ser ++ post) =
      .ok (compressedBox enc d cs, (compressedBox enc d cs).ser.length) ∧
    manifestFrom dec (compressedBox enc d cs) =
      .ok ⟨true, mtypeOf (.super d cs), (Box.super d cs).norm⟩ ∧
    manifestWrite enc ⟨true, mtypeOf (.super d cs), (Box.super d cs).norm⟩ =
      (compressedBox enc d cs).ser := by
  have hlab := labelStr_of_valid hv.1
  refine ⟨by simp [manifestWrite, Box.descOf, compressedBox], ?_, ?_, ?_⟩
  · have hd := hv.1
    have := new_roundtrip (labelStr d.label) UUID_C2CM none
      [.leaf .brob (enc (Box.super d cs).ser)] post (by decide)
      (by rw [hlab]; exact hd.2) (by rw [hlab]; exact hd.1.2.2.1) (by simp)
      (by simp [ValidList, Box.Valid]) (by simp [QuirkFreeList, Box.QuirkFree])
      (by simp [heightList, Box.height, MAX_JUMB_DEPTH])
      (by simpa [compressedBox, Desc.withSalt] using hsW)
      (by simpa [compressedBox, Desc.withSalt] using hL)
    simpa [compressedBox, Desc.withSalt, Box.norm, normList] using this
  · unfold manifestFrom
    simp only [compressedBox, firstBrob, hbr]
    rw [parse_ser d cs hv hq hh hs]
    simp [mtypeOf_norm]
  · simp [manifestWrite, Box.descOf, Box.norm, compressedBox, normList_ser, normList_size, Box.ser]

/-- `CAIManifest::from` decides "compressed" by the type of the first child alone: neither the UUID of
the enclosing box (`c2cm` or not) nor its label, salt or further children matter — they are dropped,
and the re-serialisation carries the `c2cm` UUID and the label of the *decompressed* box. -/
theorem manifestFrom_brob_any_desc (dec : Bytes → Option Bytes) (d d' : Desc) (x : Bytes)
    (cs cs' : List Box) :
    manifestFrom dec (.super d (.leaf .brob x :: cs)) = manifestFrom dec (.super d' (.leaf .brob x :: cs')) := by
  simp [manifestFrom, firstBrob]

/-- **The manifest loop of the store reader on an accepted store** (the composite acceptance that
`Store::from_jumbf_impl` applies below the claim layer: `read_super_box` on the buffer, then
`CAIManifest::from` — write and re-read — on every child). If the reader accepts `x` (at most
8/9 · 2^32 bytes) with a quirk-free tree whose children are all plain (uncompressed) manifests, then
every child loads, and writing the loaded manifests gives exactly the children's re-serialisation:
load → write is the identity on `ser (parse x)` at the manifest layer. -/
theorem loadBoxes_plain_fixed (dec : Bytes → Option Bytes) (enc : Bytes → Bytes)
    (x : Bytes) (d : Desc) (cs : List Box) (e : Nat)
    (h : parse x = .ok (.super d cs, e)) (hq : (Box.super d cs).QuirkFree)
    (hx : x.length ≤ 3817748707)
    (hplain : ∀ c ∈ cs, c.isSuper ∧ firstBrob c = none) :
    ∃ ms, loadBoxes dec x = .ok ms ∧ ms.map (manifestWrite enc) = cs.map Box.ser := by
  obtain ⟨hv, hh, _, _⟩ := parse_wf x _ e h
  have hs := parse_size_lt_u32 x _ e h hq hx
  have hsz : sizeList cs < 4294967296 := by simp [Box.size] at hs; omega
  have hht : heightList cs < MAX_JUMB_DEPTH := by simp [Box.height] at hh; omega
  have key : ∀ (l : List Box), (∀ c ∈ l, c ∈ cs) →
      ∃ ms, childManifests dec l = .ok ms ∧ ms.map (manifestWrite enc) = l.map Box.ser := by
    intro l
    induction l with
    | nil => intro _; exact ⟨[], rfl, rfl⟩
    | cons c rest ih =>
      intro hmem
      have hc := hmem c (List.mem_cons_self ..)
      obtain ⟨ms, h1, h2⟩ := ih (fun a ha => hmem a (List.mem_cons_of_mem _ ha))
      obtain ⟨hsup, hnb⟩ := hplain c hc
      cases c with
      | super d' cs' =>
        have hm := manifest_plain_roundtrip dec enc d' cs' (valid_of_mem hv.2 hc)
          (quirkFree_of_mem hq.2 hc)
          (by have := height_le_heightList hc; omega)
          (by have := size_le_sizeList hc; omega) hnb
        refine ⟨⟨false, mtypeOf (.super d' cs'), (Box.super d' cs').norm⟩ :: ms, ?_, ?_⟩
        · simp only [childManifests, hm.1, h1, bind_ok]
        · simp only [List.map_cons, hm.2, h2]
      | leaf _ _ => exact absurd hsup id
      | uuid _ _ => exact absurd hsup id
      | bfdb _ _ _ => exact absurd hsup id
  obtain ⟨ms, h1, h2⟩ := key cs (fun _ hc => hc)
  exact ⟨ms, by simp only [loadBoxes, h, bind_ok, h1], h2⟩

/-! ### the writer's own arithmetic -/

/-- **No `u32` overflow in the writer.** `box_size` / `box_payload_size` / `boxes_size!` add `u32`
values without checks (`Box.size32` models them with an overflow as `panic`, length casts as
truncation). For every tree below 4 GiB they compute exactly `Box.size`; … -/
theorem writer_size_no_overflow (b : Box) (h : b.size < 4294967296) : b.size32 = .ok b.size :=
  b.size32_ok h

/-- … in particular when the reader's result for an input of at most 8/9 · 2^32 bytes is written
again (quirk-free tree): the re-serialisation never reaches an overflowing addition. -/
theorem reser_writer_no_overflow (x : Bytes) (b : Box) (e : Nat) (h : parse x = .ok (b, e))
    (hq : b.QuirkFree) (hx : x.length ≤ 3817748707) : b.size32 = .ok b.size :=
  b.size32_ok (parse_size_lt_u32 x b e h hq hx)

/-- the hypothesis is needed: a `json` box with 2^32 − 8 bytes of content overflows `8 + len` -/
example : uadd 8 (asU32 4294967288) = .panic := by simp [uadd, asU32]

end C2pa.C18
