import C2paModel.Lemmas.C18Ser
import C2paModel.Lemmas.C18Total
import C2paModel.Lemmas.C18Dec
/-
C18 — property theorems. The statement (properties.jsonl):

  Serialising any manifest store the SDK produced and parsing it back gives a store that
  re-serialises to identical bytes, including compressed manifests. For any byte string the
  parser accepts, re-serialising the parsed store and parsing again is a fixed point.

The theorems are about the box layer every store goes through (`BoxReader::read_super_box` =
`parse`, `BMFFBox::write_box` = `Box.ser`, model in `Model/C18.lean`); `Store::from_jumbf_impl`
runs `parse` on the whole store and `write_box → read_super_box` once more on every manifest
(`CAIManifest::from`). The claim/assertion layer above the boxes is checked on the implementation
only (harness oracle `store-identity` / `store-fixed-point`).

* `parse_ser`            reading what the writer wrote gives the tree back (all valid, quirk-free
                         trees of any size below 4 GiB and nesting ≤ 32; by structural induction)
* `parse_wf`             everything the reader accepts is `Valid` and nests ≤ 32
* `parse_total_depth_bounded`  the reader terminates on every byte string with an error or a tree,
                         never with `panic` (unchecked overflow) or `oof`, and never recurses at
                         depth ≥ 32 (`superBox_depth_guard`)
* `reser_fixed_point_partial`  for every accepted byte string whose tree is quirk-free:
                         write → read → write is a fixed point
* `not_reserFixedPoint`  the *full* fixed-point statement is false for the box layer: three
                         kinds of accepted input (`QuirkFree` names exactly them) are not
                         reproduced; each has a kernel-evaluated witness, replayed on the
                         implementation by the harness. (At store level `from_jumbf` rebuilds
                         assertion boxes from their content, or rejects; the harness shows no
                         store-level failure.)
-/
namespace C2pa.C18

/-! ### reading back what the writer wrote -/

/-- **parse ∘ ser.** Every valid, quirk-free super box (any number of children, any payloads, nesting
up to the reader's limit, total size below 4 GiB so that the `u32` size fields are exact) is read
back from its written form, consuming exactly the written bytes. The result is the tree itself up
to `norm`, which only rewrites the fields of `bfdb` boxes that the writer never emits (the file
name, a media type that is not a non-empty `str`). -/
theorem parse_ser (desc : Desc) (cs : List Box)
    (hv : (Box.super desc cs).Valid) (hq : (Box.super desc cs).QuirkFree)
    (hh : (Box.super desc cs).height ≤ MAX_JUMB_DEPTH) (hs : (Box.super desc cs).size < 4294967296) :
    parse (Box.super desc cs).ser = .ok ((Box.super desc cs).norm, (Box.super desc cs).ser.length) := by
  have hlen := (Box.super desc cs).ser_length hv hq
  have h := superOK (.super desc cs) hv hq ((Box.super desc cs).ser.length + 2) (Box.super desc cs).ser 0 0 []
    (by simp) (Nat.zero_le _) (by rw [hlen]; omega) hs (by simpa [MAX_JUMB_DEPTH] using hh)
    (by rw [hlen]; omega)
  unfold parse
  rw [h, hlen]
  simp

/-- … and exactly the tree when it is in normal form (`norm b = b`: every `bfdb` box is what the
reader itself would have produced). -/
theorem parse_ser_canon (desc : Desc) (cs : List Box)
    (hv : (Box.super desc cs).Valid) (hq : (Box.super desc cs).QuirkFree)
    (hh : (Box.super desc cs).height ≤ MAX_JUMB_DEPTH) (hs : (Box.super desc cs).size < 4294967296)
    (hn : (Box.super desc cs).norm = Box.super desc cs) :
    parse (Box.super desc cs).ser = .ok (Box.super desc cs, (Box.super desc cs).ser.length) := by
  have := parse_ser desc cs hv hq hh hs
  rwa [hn] at this

/-! ### what the reader accepts -/

/-- **Everything the reader accepts is well-formed**: a super box whose description boxes have a
16-byte UUID, toggles with both low bits set, a non-empty valid-UTF-8 label without NUL, id /
signature / salt present exactly when their toggle bits are set (id < 2^32, signature 32 bytes), all
`uuid` boxes with a 16-byte UUID; nesting at most 32; the end position inside the data. -/
theorem parse_wf (x : Bytes) (b : Box) (e : Nat) (h : parse x = .ok (b, e)) :
    b.Valid ∧ b.height ≤ MAX_JUMB_DEPTH ∧ e ≤ x.length ∧ b.isSuper := by
  have := (parse_post x).of_eq_ok h
  exact ⟨this.1, this.2.1, this.2.2.2.1, this.2.2.2.2⟩

/-- **Totality, bounded depth, no panic**: on every byte string the reader returns an error or a
tree of nesting ≤ 32; the outcomes `panic` (an unchecked `+`/`-` overflowing) and `oof` (the fuel
`parse` supplies running out, i.e. more loop iterations than bytes) do not occur. -/
theorem parse_total_depth_bounded (x : Bytes) :
    (∃ er, parse x = .err er) ∨ (∃ b e, parse x = .ok (b, e) ∧ b.height ≤ MAX_JUMB_DEPTH) := by
  have hp := parse_post x
  cases h : parse x with
  | ok r => exact Or.inr ⟨r.1, r.2, rfl, by rw [h] at hp; exact hp.2.1⟩
  | err er => exact Or.inl ⟨er, rfl⟩
  | panic => rw [h] at hp; exact absurd hp id
  | oof => rw [h] at hp; exact absurd hp id

/-- the recursion guard: `read_super_box_impl` does nothing at depth ≥ 32 (so the depth of the Rust
call stack is bounded by 32 frames of it) -/
theorem superBox_depth_guard (f : Nat) (d : Bytes) (depth pos : Nat) (h : MAX_JUMB_DEPTH ≤ depth) :
    superBox (f + 1) d depth pos = .err .tooDeep := by
  unfold superBox
  rw [if_pos h]

/-! ### the fixed point -/

/-- The full statement for the box layer: for every accepted byte string, the re-serialisation
is accepted again and re-serialises to itself. -/
def ReserFixedPoint : Prop :=
  ∀ x b e, parse x = .ok (b, e) → ∃ b' e', parse b.ser = .ok (b', e') ∧ b'.ser = b.ser

/-- **Fixed point, partial**: for every byte string the reader accepts whose tree is quirk-free (no
super box without content boxes, no `uuid` box without data, no `bfdb` box with toggles 1 and a NUL
inside a valid-UTF-8 media type) and re-serialises below 4 GiB: the re-serialisation is accepted,
consumed completely, re-serialises to the same bytes, and from then on reading and writing are
inverse to each other. -/
theorem reser_fixed_point_partial (x : Bytes) (b : Box) (e : Nat) (h : parse x = .ok (b, e))
    (hq : b.QuirkFree) (hs : b.size < 4294967296) :
    parse b.ser = .ok (b.norm, b.ser.length) ∧ b.norm.ser = b.ser ∧
      parse b.norm.ser = .ok (b.norm, b.norm.ser.length) := by
  obtain ⟨hv, hh, _, hsup⟩ := parse_wf x b e h
  cases b with
  | super desc cs =>
    have h1 := parse_ser desc cs hv hq hh hs
    have h2 := (Box.super desc cs).norm_ser
    exact ⟨h1, h2, by rw [h2]; exact h1⟩
  | leaf _ _ => exact absurd hsup id
  | uuid _ _ => exact absurd hsup id
  | bfdb _ _ _ => exact absurd hsup id

/-- `ser (parse (ser (parse x))) = ser (parse x)` in the form of the statement. -/
theorem reser_fixed_point_partial' (x : Bytes) (b : Box) (e : Nat) (h : parse x = .ok (b, e))
    (hq : b.QuirkFree) (hs : b.size < 4294967296) :
    ∃ b' e', parse b.ser = .ok (b', e') ∧ b'.ser = b.ser :=
  ⟨b.norm, _, (reser_fixed_point_partial x b e h hq hs).1, (reser_fixed_point_partial x b e h hq hs).2.1⟩

/-! ### the three quirks: accepted inputs that are not reproduced -/

def qDesc (l : UInt8) : Desc := ⟨List.replicate 16 1, 3, [l], none, none, none⟩

/-- (1) `bfdb` with toggles = 1 and a NUL inside the media type (the layout ISO 19566-5 gives a
`bfdb` box with a file name): the reader keeps the whole buffer as media type, the writer appends
one more NUL on every pass. -/
def wBfdb (m : Bytes) : Box := .super (qDesc 113) [.bfdb 1 m none, .leaf .bidb [1, 2]]

theorem wBfdb_accepted : parse (wBfdb [97, 0, 98]).ser = .ok (wBfdb [97, 0, 98, 0], 58) :=
  isOk_sound (by decide +kernel)
theorem wBfdb_second : parse (wBfdb [97, 0, 98, 0]).ser = .ok (wBfdb [97, 0, 98, 0, 0], 59) :=
  isOk_sound (by decide +kernel)
theorem wBfdb_grows : (wBfdb [97, 0, 98, 0, 0]).ser ≠ (wBfdb [97, 0, 98, 0]).ser := by decide

/-- (2) a `uuid` box without data: `box_size` counts the 16 UUID bytes, `write_box_payload` writes
nothing, the written super box is inconsistent and is rejected. -/
def wUuid : Box := .super (qDesc 113) [.uuid (List.replicate 16 2) [], .leaf .json [123, 125]]
def wUuidX : Bytes :=
  be32 69 ++ be32 JUMB ++ serDesc (qDesc 113) ++ (be32 24 ++ be32 UUID ++ List.replicate 16 2)
    ++ (Box.leaf .json [123, 125]).ser

theorem wUuid_accepted : parse wUuidX = .ok (wUuid, 69) := isOk_sound (by decide +kernel)
theorem wUuid_rejected : parse wUuid.ser = .err .invalidUuid := isErr_sound (by decide +kernel)

/-- (3) a super box without content boxes that is not the last thing in the data (accepted when
followed by an all-zero header inside its declared size): written without the padding, the reader
takes the next sibling for its child. -/
def wEmpty : Box := .super (qDesc 113) [.super (qDesc 101) [], .leaf .json [123, 125]]
def wEmptyX : Bytes :=
  be32 88 ++ be32 JUMB ++ serDesc (qDesc 113)
    ++ (be32 43 ++ be32 JUMB ++ serDesc (qDesc 101) ++ List.replicate 8 0)
    ++ (Box.leaf .json [123, 125]).ser

theorem wEmpty_accepted : parse wEmptyX = .ok (wEmpty, 88) := isOk_sound (by decide +kernel)
theorem wEmpty_rejected : parse wEmpty.ser = .err .invalidJumbBox := isErr_sound (by decide +kernel)

/-- **The full fixed-point statement is false for the box layer** (witness (1); (2) and (3) refute it
as well: their re-serialisation is not accepted at all). -/
theorem not_reserFixedPoint : ¬ ReserFixedPoint := by
  intro h
  obtain ⟨b', e', h1, h2⟩ := h _ _ _ wBfdb_accepted
  rw [wBfdb_second] at h1
  cases h1
  exact wBfdb_grows h2

theorem not_reserFixedPoint_uuid : ¬ ReserFixedPoint := by
  intro h
  obtain ⟨b', e', h1, _⟩ := h _ _ _ wUuid_accepted
  rw [wUuid_rejected] at h1
  cases h1

theorem not_reserFixedPoint_empty : ¬ ReserFixedPoint := by
  intro h
  obtain ⟨b', e', h1, _⟩ := h _ _ _ wEmpty_accepted
  rw [wEmpty_rejected] at h1
  cases h1

/-- the witnesses are exactly outside `QuirkFree` -/
example : ¬ (wBfdb [97, 0, 98, 0]).QuirkFree := by
  simp [wBfdb, Box.QuirkFree, QuirkFreeList]; decide
example : ¬ wUuid.QuirkFree := by simp [wUuid, Box.QuirkFree, QuirkFreeList]
example : ¬ wEmpty.QuirkFree := by simp [wEmpty, Box.QuirkFree, QuirkFreeList]

/-! ### non-vacuity and regression witnesses -/

/-- a tree with every optional field (id, signature, salt, high toggle bits), nested super box,
`uuid`, both normal forms of `bfdb`, empty and non-empty leaves -/
def exTree : Box :=
  .super ⟨List.replicate 16 0x63, 0x1f, [99, 50, 112, 97], some 7, some (List.replicate 32 9),
      some (List.replicate 16 5)⟩
    [.super (qDesc 97) [.leaf .cbor [0xa0], .uuid (List.replicate 16 3) [1]],
     .bfdb 0 [105, 109, 103] none, .bfdb 1 [105] (some [0]), .leaf .bidb [], .leaf .brob [1, 2, 3]]

theorem exTree_valid : exTree.Valid := by
  simp [exTree, qDesc, Box.Valid, ValidList, Desc.Valid, Desc.Valid0]
  decide
theorem exTree_quirkFree : exTree.QuirkFree := by
  simp [exTree, Box.QuirkFree, QuirkFreeList]
theorem exTree_norm : exTree.norm = exTree := by
  simp [exTree, Box.norm, normList, normBfdb]
  decide

/-- the hypotheses of `parse_ser_canon` are met by `exTree`, and the conclusion is the kernel's
own evaluation -/
example : parse exTree.ser = .ok (exTree, 210) := isOk_sound (by decide +kernel)
example : parse exTree.ser = .ok (exTree, exTree.ser.length) :=
  parse_ser_canon _ _ exTree_valid exTree_quirkFree (by decide) (by decide) exTree_norm

/-- formerly an endless loop in `read_super_box_impl` (a 5-byte partial header `0000000b 78` after the
description box; fixed in `read_header`, fixes/C18-read-header-short-read-and-dest-overflow.patch) -/
example : parse (be32 4096 ++ be32 JUMB ++ serDesc (qDesc 97) ++ [0, 0, 0, 11, 120]) = .err .invalidJumbfHeader :=
  isErr_sound (by decide +kernel)

/-- formerly `start_pos + jumb_header.size` overflowing `u64` (nested large-size `jumb` of size
2^64 - 1; now `checked_add`) -/
example : parse (be32 4096 ++ be32 JUMB ++ serDesc (qDesc 97) ++
    (be32 1 ++ be32 JUMB ++ be32 1 ++ be32 JUMB ++ List.replicate 8 255)) = .err .invalidBoxRange :=
  isErr_sound (by decide +kernel)

end C2pa.C18
