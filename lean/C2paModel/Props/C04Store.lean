import C2paModel.Lemmas.C19C04
import C2paModel.Model.C04Store
/-
C04 (second part) — what `ValidationResults::from_store` guarantees about the results object,
and hence about the state, in terms of the *validation log* (the input of `from_store`), not of
an already built results value:

  * a failure log item that carries a code and was logged for the active claim itself (no
    ingredient URI), or concerns the active manifest, or is not already recorded in an ingredient
    assertion, is placed — by ingredient URI — in
    `activeManifest.failure` or in the failure list of the delta with that URI, and stays there;
  * therefore one such item with a non-tolerated code makes the store Invalid;
  * an item with only an `err_val` becomes an active-manifest failure with a never-tolerated code;
  * an item with neither code nor `err_val` has no influence at all (stated, not hidden);
  * the state can be Valid/Trusted only if the log holds a `claimSignature.validated` *success*
    item that is not attributed to an ingredient; ingredient-attributed items never reach the
    active manifest.
-/
namespace C2pa.C04

/-! ### `from_log_item` -/

theorem codeFromErrorStr_not_tolerated (e : List Char) : tolerated (codeFromErrorStr e) = false := by
  unfold codeFromErrorStr
  repeat' split
  all_goals decide

theorem fromLogItem_status (it : LogItem) (c : Code) (h : it.status = some c) :
    fromLogItem it = some { code := c, url := some it.label, kind := it.kind, ingUri := it.ingUri } := by
  unfold fromLogItem; rw [h]

theorem fromLogItem_err (it : LogItem) (e : List Char) (h : it.status = none) (he : it.err = some e) :
    fromLogItem it =
      some { code := codeFromErrorStr e, url := some it.label, kind := .failure, ingUri := none } := by
  unfold fromLogItem; rw [h, he]; rfl

theorem fromLogItem_none_iff (it : LogItem) :
    fromLogItem it = none ↔ it.status = none ∧ it.err = none := by
  unfold fromLogItem
  cases h : it.status <;> cases he : it.err <;> simp

/-! ### the "already captured in an ingredient assertion" filter -/

/-- the status survives the filter: it was not logged for an ingredient, or it is about the active
manifest, or no ingredient status has the same code, url and kind -/
def Survives (lbl : List Char) (ing : List VStatus) (v : VStatus) : Prop :=
  v.ingUri = none ∨ isActiveUrl lbl v.url = true ∨ ∀ i ∈ ing, i.eqv v = false

theorem mem_keptStatuses (lbl : List Char) (ing sts : List VStatus) (v : VStatus) :
    v ∈ keptStatuses lbl ing sts ↔
      v ∈ sts ∧ (Survives lbl ing v ∨ ∀ s ∈ sts, isActiveUrl lbl s.url = true) := by
  unfold keptStatuses Survives
  by_cases hany : (sts.any fun s => !isActiveUrl lbl s.url) = true
  · simp only [hany, if_true, List.mem_filter, Bool.or_eq_true, Bool.not_eq_true',
      List.any_eq_false, Option.isNone_iff_eq_none]
    obtain ⟨w, hw, hwf⟩ := List.any_eq_true.1 hany
    constructor
    · rintro ⟨h1, h2⟩
      refine ⟨h1, Or.inl ?_⟩
      rcases h2 with (h2 | h2) | h2
      · exact Or.inl h2
      · exact Or.inr (Or.inl h2)
      · exact Or.inr (Or.inr (fun i hi => by simpa using h2 i hi))
    · rintro ⟨h1, h2 | h2⟩
      · refine ⟨h1, ?_⟩
        rcases h2 with h2 | h2 | h2
        · exact Or.inl (Or.inl h2)
        · exact Or.inl (Or.inr h2)
        · exact Or.inr (fun i hi => by simpa using h2 i hi)
      · have := h2 w hw; simp [this] at hwf
  · simp only [hany]
    have hall : ∀ s ∈ sts, isActiveUrl lbl s.url = true := by
      intro s hs
      cases hb : isActiveUrl lbl s.url with
      | true => rfl
      | false => exact absurd (List.any_eq_true.2 ⟨s, hs, by simp [hb]⟩) hany
    constructor
    · intro h; exact ⟨h, Or.inr hall⟩
    · intro h; exact h.1

/-! ### placement by ingredient URI, preserved by every later `add_status` -/

/-- the code of `s` sits in the failure list that `s`'s ingredient URI designates -/
def Placed (r : Results) (s : Status) : Prop :=
  match s.uri with
  | none => ∃ a, r.active = some a ∧ s.code ∈ a.failure
  | some u => ∃ d ∈ deltasOf r, d.uri = u ∧ s.code ∈ d.codes.failure

theorem addToFirst_hit (u : List Char) (s : Status) (hk : s.kind = .failure) :
    ∀ (ds ds' : List Delta), addToFirst u s ds = some ds' →
      ∃ d' ∈ ds', d'.uri = u ∧ s.code ∈ d'.codes.failure := by
  intro ds
  induction ds with
  | nil => intro ds' h; simp [addToFirst] at h
  | cons d ds ih =>
    intro ds' h
    unfold addToFirst at h
    by_cases hu : (d.uri == u) = true
    · simp only [hu, if_true, Option.some.injEq] at h
      subst h
      refine ⟨_, List.mem_cons_self .., by simpa using hu, ?_⟩
      simp [(add_failure_success d.codes s hk).2]
    · cases hrec : addToFirst u s ds with
      | none => simp [hu, hrec] at h
      | some ds'' =>
        simp [hu, hrec] at h
        subst h
        obtain ⟨d', hd', h1, h2⟩ := ih ds'' hrec
        exact ⟨d', List.mem_cons_of_mem _ hd', h1, h2⟩

theorem addToFirst_mono_uri (u : List Char) (s : Status) :
    ∀ (ds ds' : List Delta), addToFirst u s ds = some ds' →
      ∀ d ∈ ds, ∃ d' ∈ ds', d'.uri = d.uri ∧ ∀ f ∈ d.codes.failure, f ∈ d'.codes.failure := by
  intro ds
  induction ds with
  | nil => intro ds' h; simp [addToFirst] at h
  | cons d ds ih =>
    intro ds' h x hx
    unfold addToFirst at h
    by_cases hu : (d.uri == u) = true
    · simp only [hu, if_true, Option.some.injEq] at h
      subst h
      rcases List.mem_cons.1 hx with rfl | hx
      · exact ⟨_, List.mem_cons_self .., rfl, fun f hf => add_failure_mono _ s f hf⟩
      · exact ⟨x, List.mem_cons_of_mem _ hx, rfl, fun f hf => hf⟩
    · cases hrec : addToFirst u s ds with
      | none => simp [hu, hrec] at h
      | some ds'' =>
        simp [hu, hrec] at h
        subst h
        rcases List.mem_cons.1 hx with rfl | hx
        · exact ⟨x, List.mem_cons_self .., rfl, fun f hf => hf⟩
        · obtain ⟨y, hy, hxy⟩ := ih ds'' hrec x hx
          exact ⟨y, List.mem_cons_of_mem _ hy, hxy⟩

/-- the three shapes of `addStatus` -/
theorem addStatus_cases (r : Results) (t : Status) :
    (t.uri = none ∧ addStatus r t = { r with active := some ((r.active.getD {}).add t) }) ∨
    (∃ u ds', t.uri = some u ∧ addToFirst u t (deltasOf r) = some ds' ∧
        addStatus r t = { r with deltas := some ds' }) ∨
    (∃ u, t.uri = some u ∧ addToFirst u t (deltasOf r) = none ∧
        addStatus r t =
          { r with deltas := some (deltasOf r ++ [{ uri := u, codes := ({} : Codes).add t }]) }) := by
  cases hu : t.uri with
  | none => left; exact ⟨rfl, by unfold addStatus; rw [hu]⟩
  | some u =>
    cases hadd : addToFirst u t (deltasOf r) with
    | some ds' =>
      right; left
      exact ⟨u, ds', rfl, hadd, by unfold addStatus; rw [hu]; simp only [hadd]⟩
    | none =>
      right; right
      exact ⟨u, rfl, hadd, by unfold addStatus; rw [hu]; simp only [hadd]⟩

/-- a failure status is placed by its own `add_status` -/
theorem placed_self (r : Results) (s : Status) (hk : s.kind = .failure) :
    Placed (addStatus r s) s := by
  unfold Placed
  rcases addStatus_cases r s with ⟨hu, hr⟩ | ⟨u, ds', hu, hadd, hr⟩ | ⟨u, hu, _, hr⟩
  · rw [hu, hr]
    exact ⟨_, rfl, by simp [(add_failure_success (r.active.getD {}) s hk).2]⟩
  · rw [hu, hr]
    exact addToFirst_hit u s hk _ _ hadd
  · rw [hu, hr]
    refine ⟨{ uri := u, codes := ({} : Codes).add s }, by simp [deltasOf], rfl, ?_⟩
    simp [(add_failure_success ({} : Codes) s hk).2]

/-- ... and stays placed under every later `add_status` (any kind, any URI) -/
theorem placed_mono (r : Results) (s t : Status) (h : Placed r s) : Placed (addStatus r t) s := by
  unfold Placed at h ⊢
  rcases addStatus_cases r t with ⟨_, hr⟩ | ⟨u, ds', _, hadd, hr⟩ | ⟨u, _, _, hr⟩
  · rw [hr]
    cases hs : s.uri with
    | none =>
      rw [hs] at h
      obtain ⟨a, ha, hc⟩ := h
      exact ⟨_, rfl, by rw [ha]; exact add_failure_mono a t _ hc⟩
    | some v => rw [hs] at h; exact h
  · rw [hr]
    cases hs : s.uri with
    | none => rw [hs] at h; exact h
    | some v =>
      rw [hs] at h
      obtain ⟨d, hd, hdu, hc⟩ := h
      obtain ⟨d', hd', hu', hsub⟩ := addToFirst_mono_uri u t _ _ hadd d hd
      exact ⟨d', hd', hu'.trans hdu, hsub _ hc⟩
  · rw [hr]
    cases hs : s.uri with
    | none => rw [hs] at h; exact h
    | some v =>
      rw [hs] at h
      obtain ⟨d, hd, hdu, hc⟩ := h
      exact ⟨d, by simp [deltasOf, List.mem_append]; left; exact hd, hdu, hc⟩

theorem placed_foldl (ss : List Status) (s : Status) :
    ∀ r, Placed r s → Placed (ss.foldl addStatus r) s := by
  induction ss with
  | nil => intro r h; exact h
  | cons t ss ih => intro r h; exact ih _ (placed_mono r s t h)

theorem placed_of_mem (ss : List Status) (s : Status) (hs : s ∈ ss) (hk : s.kind = .failure)
    (r : Results) : Placed (ss.foldl addStatus r) s := by
  obtain ⟨pre, post, rfl⟩ := List.append_of_mem hs
  rw [List.foldl_append, List.foldl_cons]
  exact placed_foldl post s _ (placed_self _ s hk)

/-! ### `from_store` -/

/-- **No provenance claim: empty results, Invalid.** -/
theorem fromStore_no_provenance (st : StoreAbs) (log : List LogItem) (h : st.active = none) :
    fromStore st log = {} ∧ state (fromStore st log) = .invalid := by
  unfold fromStore; rw [h]; exact ⟨rfl, rfl⟩

/-- the statuses that `from_store` hands to `add_status`, in order -/
def storeStatuses (lbl : List Char) (ing : List VStatus) (log : List LogItem) : List Status :=
  (keptStatuses lbl ing (log.filterMap fromLogItem)).map VStatus.toStatus

theorem fromStore_eq (st : StoreAbs) (log : List LogItem) (lbl : List Char) (h : st.active = some lbl) :
    fromStore st log =
      (storeStatuses lbl st.ing log).foldl addStatus { active := some {}, deltas := none } := by
  unfold fromStore storeStatuses; rw [h]

theorem mem_storeStatuses (lbl : List Char) (ing : List VStatus) (log : List LogItem)
    (it : LogItem) (v : VStatus) (hit : it ∈ log) (hv : fromLogItem it = some v)
    (hs : Survives lbl ing v) : v.toStatus ∈ storeStatuses lbl ing log := by
  unfold storeStatuses
  refine List.mem_map.2 ⟨v, ?_, rfl⟩
  rw [mem_keptStatuses]
  exact ⟨List.mem_filterMap.2 ⟨it, hit, hv⟩, Or.inl hs⟩

/-- **Placement.** A failure log item that carries a status code and survives the ingredient
filter ends in the failure list designated by its ingredient URI: `activeManifest.failure` when
it has none, the delta with exactly that URI otherwise — whatever else is in the log. -/
theorem fromStore_failure_placed (st : StoreAbs) (log : List LogItem) (lbl : List Char)
    (it : LogItem) (c : Code) (hl : st.active = some lbl) (hit : it ∈ log)
    (hc : it.status = some c) (hk : it.kind = .failure)
    (hs : it.ingUri = none ∨ manifestLabelFromUri it.label = some lbl ∨
          ∀ i ∈ st.ing, ¬ (i.code = c ∧ i.url = some it.label ∧ i.kind = .failure)) :
    Placed (fromStore st log) { code := c, kind := .failure, uri := it.ingUri } := by
  rw [fromStore_eq st log lbl hl]
  have hv := fromLogItem_status it c hc
  have hsurv : Survives lbl st.ing
      { code := c, url := some it.label, kind := it.kind, ingUri := it.ingUri } := by
    rcases hs with hs | hs | hs
    · left; exact hs
    · right; left; simp [isActiveUrl, hs]
    · right; right; intro i hi
      have := hs i hi
      simp only [VStatus.eqv, hk]
      cases hb : (i.code == c && i.url == some it.label && i.kind == Kind.failure) with
      | false => rfl
      | true =>
        simp only [Bool.and_eq_true, beq_iff_eq] at hb
        exact absurd ⟨hb.1.1, hb.1.2, hb.2⟩ this
  have hm := mem_storeStatuses lbl st.ing log it _ hit hv hsurv
  have := placed_of_mem _ _ hm (by simp [VStatus.toStatus, hk]) { active := some {}, deltas := none }
  simpa [VStatus.toStatus, hk] using this

/-- **One surviving failure item with a non-tolerated code makes the store Invalid** — for every
log around it and every content of the ingredient assertions. -/
theorem fromStore_nontolerated_failure_invalid (st : StoreAbs) (log : List LogItem) (lbl : List Char)
    (it : LogItem) (c : Code) (hl : st.active = some lbl) (hit : it ∈ log)
    (hc : it.status = some c) (hk : it.kind = .failure) (ht : tolerated c = false)
    (hs : it.ingUri = none ∨ manifestLabelFromUri it.label = some lbl ∨
          ∀ i ∈ st.ing, ¬ (i.code = c ∧ i.url = some it.label ∧ i.kind = .failure)) :
    state (fromStore st log) = .invalid := by
  have hp := fromStore_failure_placed st log lbl it c hl hit hc hk hs
  apply bad_invalid
  unfold Placed at hp
  cases hu : it.ingUri with
  | none =>
    simp only [hu] at hp
    obtain ⟨a, ha, hm⟩ := hp
    exact Or.inl ⟨a, ha, c, hm, ht⟩
  | some u =>
    simp only [hu] at hp
    obtain ⟨d, hd, _, hm⟩ := hp
    exact Or.inr ⟨d, hd, c, hm, ht⟩

/-- **An item with only an `err_val`** (no status code) always becomes an `activeManifest.failure`
with a never-tolerated code — whatever its kind, label and ingredient URI, and whatever the
ingredient assertions record: the store is Invalid. -/
theorem fromStore_err_item_invalid (st : StoreAbs) (log : List LogItem) (lbl : List Char)
    (it : LogItem) (e : List Char) (hl : st.active = some lbl) (hit : it ∈ log)
    (hc : it.status = none) (he : it.err = some e) :
    (∃ a, (fromStore st log).active = some a ∧ codeFromErrorStr e ∈ a.failure) ∧
      state (fromStore st log) = .invalid := by
  rw [fromStore_eq st log lbl hl]
  have hv := fromLogItem_err it e hc he
  have hsurv : Survives lbl st.ing
      { code := codeFromErrorStr e, url := some it.label, kind := .failure, ingUri := none } :=
    Or.inl rfl
  have hm := mem_storeStatuses lbl st.ing log it _ hit hv hsurv
  have hp := placed_of_mem _ _ hm rfl { active := some {}, deltas := none }
  have hp' : ∃ a, ((storeStatuses lbl st.ing log).foldl addStatus
      { active := some {}, deltas := none }).active = some a ∧ codeFromErrorStr e ∈ a.failure := by
    simpa [Placed, VStatus.toStatus] using hp
  refine ⟨hp', ?_⟩
  obtain ⟨a, ha, hm'⟩ := hp'
  exact bad_invalid _ (Or.inl ⟨a, ha, _, hm', codeFromErrorStr_not_tolerated e⟩)

/-- **Items without a status code and without an `err_val` are ignored**, whatever their kind:
removing them from the log changes nothing. (So a failure logged without any code cannot lower
the state — `from_store` relies on every failure site supplying one.) -/
theorem fromStore_codeless_ignored (st : StoreAbs) (log : List LogItem) :
    fromStore st (log.filter fun it => it.status.isSome || it.err.isSome) = fromStore st log := by
  have h : ∀ l : List LogItem,
      (l.filter fun it => it.status.isSome || it.err.isSome).filterMap fromLogItem
        = l.filterMap fromLogItem := by
    intro l
    induction l with
    | nil => rfl
    | cons x xs ih =>
      by_cases hx : (x.status.isSome || x.err.isSome) = true
      · simp only [List.filter_cons, hx, if_true, List.filterMap_cons, ih]
      · have hn : fromLogItem x = none := by
          rw [fromLogItem_none_iff]
          cases h1 : x.status <;> cases h2 : x.err <;> simp [h1, h2] at hx ⊢
        simp only [List.filter_cons, hx, List.filterMap_cons, hn, Bool.false_eq_true, if_false, ih]
  unfold fromStore
  rw [h]

/-! ### Valid needs the active manifest's own `claimSignature.validated` success item -/

theorem active_success_foldl (ss : List Status) :
    ∀ (r : Results) (a : Codes) (c : Code), (ss.foldl addStatus r).active = some a → c ∈ a.success →
      (∃ a0, r.active = some a0 ∧ c ∈ a0.success) ∨
      (∃ s ∈ ss, s.code = c ∧ s.kind = .success ∧ s.uri = none) := by
  induction ss with
  | nil => intro r a c h hc; exact Or.inl ⟨a, h, hc⟩
  | cons t ss ih =>
    intro r a c h hc
    simp only [List.foldl_cons] at h
    rcases ih (addStatus r t) a c h hc with ⟨a1, ha1, hc1⟩ | ⟨s, hs, h3⟩
    · rcases addStatus_cases r t with ⟨hu, hr⟩ | ⟨u, ds', _, _, hr⟩ | ⟨u, _, _, hr⟩
      · rw [hr] at ha1
        simp only [Option.some.injEq] at ha1
        subst ha1
        cases hk : t.kind with
        | success =>
          have hsucc : ((r.active.getD {}).add t).success = (r.active.getD {}).success ++ [t.code] := by
            unfold Codes.add; rw [hk]
          rw [hsucc, List.mem_append, List.mem_singleton] at hc1
          rcases hc1 with hc1 | hc1
          · cases hra : r.active with
            | none => rw [hra] at hc1; simp at hc1
            | some a0 => rw [hra] at hc1; exact Or.inl ⟨a0, rfl, hc1⟩
          · exact Or.inr ⟨t, List.mem_cons_self .., hc1.symm, hk, hu⟩
        | informational =>
          have hsucc : ((r.active.getD {}).add t).success = (r.active.getD {}).success := by
            unfold Codes.add; rw [hk]
          rw [hsucc] at hc1
          cases hra : r.active with
          | none => rw [hra] at hc1; simp at hc1
          | some a0 => rw [hra] at hc1; exact Or.inl ⟨a0, rfl, hc1⟩
        | failure =>
          have hsucc : ((r.active.getD {}).add t).success = (r.active.getD {}).success := by
            unfold Codes.add; rw [hk]
          rw [hsucc] at hc1
          cases hra : r.active with
          | none => rw [hra] at hc1; simp at hc1
          | some a0 => rw [hra] at hc1; exact Or.inl ⟨a0, rfl, hc1⟩
      · rw [hr] at ha1; exact Or.inl ⟨a1, ha1, hc1⟩
      · rw [hr] at ha1; exact Or.inl ⟨a1, ha1, hc1⟩
    · exact Or.inr ⟨s, List.mem_cons_of_mem _ hs, h3⟩

/-- **Valid or Trusted only if the log holds a success item `claimSignature.validated` (and one
`claimSignature.insideValidity`) that is not attributed to any ingredient.** Success items of
ingredients, informational items and `err_val`-only items can never supply them. -/
theorem fromStore_not_invalid_needs_own_signature (st : StoreAbs) (log : List LogItem)
    (h : state (fromStore st log) ≠ .invalid) :
    (∃ it ∈ log, it.status = some cSigValidated ∧ it.kind = .success ∧ it.ingUri = none) ∧
    (∃ it ∈ log, it.status = some cInsideValidity ∧ it.kind = .success ∧ it.ingUri = none) := by
  cases hl : st.active with
  | none => exact absurd (fromStore_no_provenance st log hl).2 h
  | some lbl =>
    rw [state_not_invalid_iff] at h
    obtain ⟨a, ha, h1, h2, _, _⟩ := h
    rw [fromStore_eq st log lbl hl] at ha
    have key : ∀ c : Code, c ∈ a.success →
        ∃ it ∈ log, it.status = some c ∧ it.kind = .success ∧ it.ingUri = none := by
      intro c hc
      rcases active_success_foldl _ _ a c ha hc with ⟨a0, ha0, hc0⟩ | ⟨s, hs, hcode, hkind, huri⟩
      · simp only [Option.some.injEq] at ha0; subst ha0; simp at hc0
      · unfold storeStatuses at hs
        obtain ⟨v, hv, rfl⟩ := List.mem_map.1 hs
        have hv' := ((mem_keptStatuses _ _ _ v).1 hv).1
        obtain ⟨it, hit, hfi⟩ := List.mem_filterMap.1 hv'
        refine ⟨it, hit, ?_⟩
        simp only [VStatus.toStatus] at hcode hkind huri
        unfold fromLogItem at hfi
        cases hst : it.status with
        | some c' =>
          rw [hst] at hfi
          simp only [Option.some.injEq] at hfi
          subst hfi
          simp only at hcode hkind huri
          exact ⟨by rw [hcode], hkind, huri⟩
        | none =>
          rw [hst] at hfi
          cases he : it.err with
          | none => rw [he] at hfi; simp at hfi
          | some e =>
            rw [he] at hfi
            simp only [Option.map_some, Option.some.injEq] at hfi
            subst hfi
            simp at hkind
    exact ⟨key _ h1, key _ h2⟩

/-! ### Non-vacuity -/

def exLbl : List Char := "urn:c2pa:1".toList
def exUrl : List Char := "self#jumbf=/c2pa/urn:c2pa:1/c2pa.signature".toList
def exIngUrl : List Char := "self#jumbf=/c2pa/urn:c2pa:2/c2pa.assertions/c2pa.hash.data".toList
def exOk : List LogItem :=
  [ { status := some cSigValidated, err := none, kind := .success, label := exUrl, ingUri := none },
    { status := some cInsideValidity, err := none, kind := .success, label := exUrl, ingUri := none },
    { status := some cTrusted, err := none, kind := .success, label := exUrl, ingUri := none } ]
def exMismatch : LogItem :=
  { status := some "assertion.dataHash.mismatch".toList, err := none, kind := .failure,
    label := exIngUrl, ingUri := some "self#jumbf=/c2pa/urn:c2pa:1/c2pa.assertions/c2pa.ingredient.v3".toList }

example : manifestLabelFromUri exUrl = some exLbl := by decide
example : state (fromStore { active := some exLbl, ing := [] } exOk) = .trusted := by decide
-- a new ingredient failure lands in a delta and makes the store Invalid …
example : state (fromStore { active := some exLbl, ing := [] } (exOk ++ [exMismatch])) = .invalid := by decide
-- … unless the ingredient assertion already recorded exactly that status (the filter's purpose)
def exRecorded : VStatus :=
  { code := "assertion.dataHash.mismatch".toList, url := some exIngUrl, kind := .failure, ingUri := none }
example : state (fromStore { active := some exLbl, ing := [exRecorded] } (exOk ++ [exMismatch])) = .trusted := by decide
-- … but never when the item was logged for the active claim itself (no ingredient URI)
example : state (fromStore { active := some exLbl, ing := [exRecorded] }
    (exOk ++ [{ exMismatch with ingUri := none }])) = .invalid := by decide
-- an `err_val`-only item and a codeless failure item
example : state (fromStore { active := some exLbl, ing := [] }
    (exOk ++ [{ status := none, err := some "HashMismatch(x)".toList, kind := .failure, label := exUrl, ingUri := none }])) = .invalid := by decide
example : state (fromStore { active := some exLbl, ing := [] }
    (exOk ++ [{ status := none, err := none, kind := .failure, label := exUrl, ingUri := none }])) = .trusted := by decide

end C2pa.C04
