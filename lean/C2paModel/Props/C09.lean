import C2paModel.Lemmas.C07A
/-
C09 — embedding and removing a manifest preserves the media content.

Statement: embedding, replacing or removing a manifest never changes the media content of an
asset: every non-manifest chunk, segment, box, tag and sample keeps its bytes, order and
meaning, and every absolute file offset stored in the container still addresses the same
media bytes. Removing the manifest from an asset produced by embedding gives the same bytes
as removing it from the original.

Layer A, for every container / store / format instance.
-/
namespace C2pa.C07

/-- **media_preserved**: the non-manifest segments (kinds, tags, bytes, order) after writing
are those before. -/
theorem media_preserved (F : Fmt) (c : List Seg) (s : Bytes) :
    strip (writeA F c s) = strip c := strip_writeA F c s

theorem media_preserved_remove (c : List Seg) : strip (removeA c) = strip c := strip_strip c

/-- Any sequence of writes and removals leaves the media segments untouched. -/
inductive EOp | w (s : Bytes) | r

def applyOps (F : Fmt) : List Seg → List EOp → List Seg
  | c, [] => c
  | c, .w s :: rest => applyOps F (writeA F c s) rest
  | c, .r :: rest => applyOps F (removeA c) rest

theorem media_preserved_ops (F : Fmt) (c : List Seg) (ops : List EOp) :
    strip (applyOps F c ops) = strip c := by
  induction ops generalizing c with
  | nil => rfl
  | cons o rest ih =>
    cases o with
    | w s => show strip (applyOps F (writeA F c s) rest) = _; rw [ih, strip_writeA]
    | r => show strip (applyOps F (removeA c) rest) = _; rw [ih]; exact strip_strip c

/-- **remove ∘ write = remove** on bytes. -/
theorem remove_after_write_bytes (F : Fmt) (c : List Seg) (s : Bytes) :
    ser (removeA (writeA F c s)) = ser (removeA c) := by
  unfold removeA; rw [strip_writeA]

/-- Removing after any sequence of embeddings / removals equals removing from the original. -/
theorem remove_after_ops_bytes (F : Fmt) (c : List Seg) (ops : List EOp) :
    ser (removeA (applyOps F c ops)) = ser (removeA c) := by
  unfold removeA; rw [media_preserved_ops]

/-- For an asset without manifest, remove ∘ write restores the original bytes. -/
theorem remove_write_restores (F : Fmt) (c : List Seg) (s : Bytes) (h : manifests c = []) :
    ser (removeA (writeA F c s)) = ser c := by
  rw [remove_after_write_bytes]
  have : strip c = c := by
    apply strip_eq_self
    intro x hx
    cases hm : isM x
    · rfl
    · have : x ∈ manifests c := List.mem_filter.2 ⟨hx, hm⟩
      rw [h] at this; cases this
  show ser (strip c) = ser c
  rw [this]

/-- **offset_shift_sound** (the fix-up as coded after the repair of `adjust_known_offsets`:
offsets below the end of the replaced region stay, the others move by the size difference).
For a file `pre ++ old ++ post` rewritten to `pre ++ new ++ post`, every absolute offset `o`
addressing `n` bytes that do not straddle the replaced region addresses the same bytes at
`adjOff |pre| |old| |new| o` in the output. -/
theorem offset_shift_sound (pre old new post : Bytes) (o n : Nat)
    (h : o + n ≤ pre.length ∨ pre.length + old.length ≤ o) :
    slice (pre ++ new ++ post) (adjOff pre.length old.length new.length o) n
      = slice (pre ++ old ++ post) o n := by
  unfold adjOff
  rcases h with h | h
  · by_cases hn : n = 0
    · subst hn; simp [slice]
    · have : o < pre.length + old.length := by omega
      rw [if_pos this]
      exact slice_before pre old new post o n h
  · have : ¬ o < pre.length + old.length := by omega
    rw [if_neg this]
    exact slice_after pre old new post o n h

/-- The same statement for containers: writing into an asset without manifest. -/
theorem offset_shift_sound_insert (F : Fmt) (c : List Seg) (s : Bytes) (o n : Nat)
    (hc : manifests c = [])
    (h : o + n ≤ caiOff F c ∨ caiOff F c ≤ o) :
    slice (ser (writeA F c s)) (adjOff (caiOff F c) 0 (F.wrap s).length o) n = slice (ser c) o n := by
  have hs : strip c = c := by
    apply strip_eq_self
    intro x hx
    cases hm : isM x
    · rfl
    · have : x ∈ manifests c := List.mem_filter.2 ⟨hx, hm⟩
      rw [hc] at this; cases this
  have e1 := ser_writeA F c s
  have e2 : ser c = ser ((strip c).take (insIdx F c)) ++ [] ++ ser ((strip c).drop (insIdx F c)) := by
    rw [List.append_nil, ser_strip_split, hs]
  rw [e1, e2]
  have := offset_shift_sound (ser ((strip c).take (insIdx F c))) [] (F.wrap s)
    (ser ((strip c).drop (insIdx F c))) o n (by simpa [caiOff, offAt] using h)
  simpa [caiOff, offAt] using this

/-- The fix-up **as coded before the repair** (every offset shifted by the size difference,
F15): unsound as soon as addressed data precedes the replaced region. -/
def adjAll (oldLen newLen o : Nat) : Nat := o - oldLen + newLen

theorem shift_everything_unsound :
    ∃ (pre old new post : Bytes) (o n : Nat), o + n ≤ pre.length ∧
      slice (pre ++ new ++ post) (adjAll old.length new.length o) n
        ≠ slice (pre ++ old ++ post) o n :=
  ⟨[1, 2, 3], [], [9], [4], 0, 1, by decide, by decide⟩

/-! ### non-vacuity -/

example : slice ([1, 2] ++ [9, 9, 9] ++ [3, 4]) (adjOff 2 1 3 3) 2 = slice ([1, 2] ++ [8] ++ [3, 4]) 3 2 := by
  decide
example : slice ([1, 2] ++ [9, 9, 9] ++ [3, 4]) (adjOff 2 1 3 0) 2 = slice ([1, 2] ++ [8] ++ [3, 4]) 0 2 := by
  decide

end C2pa.C07
