import C2paModel.Props.C07
/-
C09 — embedding and removing a manifest preserves the media content.

Statement: embedding, replacing or removing a manifest never changes the media content of an
asset: every non-manifest chunk, segment, box, tag and sample keeps its bytes, order and
meaning, and every absolute file offset stored in the container still addresses the same
media bytes. Removing the manifest from an asset produced by embedding gives the same bytes
as removing it from the original.

Layer A (`media_preserved`, `media_preserved_ops`, `remove_after_ops_bytes`, … ) is the
specification algebra: for every container / store / format instance the non-manifest
segments are untouched by `writeA` / `removeA`. By themselves these constrain no handler.

The statements about the byte-exact PNG handler model are in the section "PNG, byte-exact
layer B" below: for every file the walker accepts with at most one caBX chunk and every
sequence of `write_cai` / `remove_cai_store_from_stream` calls with stores shorter than 2³²
bytes, the lexed container of the result is the layer-A result (`Png.segs_applyOps`), hence
the header, every non-caBX chunk (type, bytes incl. CRC, order) and the bytes after IEND are
preserved (`Png.media_preserved_ops`), and removal afterwards yields byte for byte what
removal from the original yields (`Png.remove_after_ops_bytes`, `Png.remove_write_restores`).
PNG stores no absolute file offsets, so the offset clause is vacuous for PNG; the
offset-shift lemmas below are format-independent (the BMFF offset-table model is in
`Props/C09Bmff.lean`).
-/
namespace C2pa.C07

/-- **media_preserved**: the non-manifest segments (kinds, tags, bytes, order) after writing
are those before. -/
theorem media_preserved (F : Fmt) (c : List Seg) (s : Bytes) :
    strip (writeA F c s) = strip c := strip_writeA F c s

theorem media_preserved_remove (c : List Seg) : strip (removeA c) = strip c := strip_strip c

/-- Any sequence of writes and removals leaves the media segments untouched. -/
inductive EOp | w (s : Bytes) | r

def applyOps (F : Fmt) : List Seg → List EOp → List Seg
  | c, [] => c
  | c, .w s :: rest => applyOps F (writeA F c s) rest
  | c, .r :: rest => applyOps F (removeA c) rest

theorem media_preserved_ops (F : Fmt) (c : List Seg) (ops : List EOp) :
    strip (applyOps F c ops) = strip c := by
  induction ops generalizing c with
  | nil => rfl
  | cons o rest ih =>
    cases o with
    | w s => show strip (applyOps F (writeA F c s) rest) = _; rw [ih, strip_writeA]
    | r => show strip (applyOps F (removeA c) rest) = _; rw [ih]; exact strip_strip c

/-- **remove ∘ write = remove** on bytes. -/
theorem remove_after_write_bytes (F : Fmt) (c : List Seg) (s : Bytes) :
    ser (removeA (writeA F c s)) = ser (removeA c) := by
  unfold removeA; rw [strip_writeA]

/-- Removing after any sequence of embeddings / removals equals removing from the original. -/
theorem remove_after_ops_bytes (F : Fmt) (c : List Seg) (ops : List EOp) :
    ser (removeA (applyOps F c ops)) = ser (removeA c) := by
  unfold removeA; rw [media_preserved_ops]

/-- For an asset without manifest, remove ∘ write restores the original bytes. -/
theorem remove_write_restores (F : Fmt) (c : List Seg) (s : Bytes) (h : manifests c = []) :
    ser (removeA (writeA F c s)) = ser c := by
  rw [remove_after_write_bytes]
  have : strip c = c := by
    apply strip_eq_self
    intro x hx
    cases hm : isM x
    · rfl
    · have : x ∈ manifests c := List.mem_filter.2 ⟨hx, hm⟩
      rw [h] at this; cases this
  show ser (strip c) = ser c
  rw [this]

/-! ### PNG, byte-exact layer B -/

namespace Png

/-- A sequence of handler calls on bytes; `none` as soon as one call fails. -/
def applyOps : Bytes → List EOp → Option Bytes
  | b, [] => some b
  | b, .w s :: rest => (write b s).bind (applyOps · rest)
  | b, .r :: rest => (remove b).bind (applyOps · rest)

/-- Every store written is shorter than 2³² bytes. -/
def Small (ops : List EOp) : Prop := ∀ s, EOp.w s ∈ ops → s.length < 4294967296

/-- **Commuting square for operation sequences.** -/
theorem segs_applyOps : ∀ (ops : List EOp) {b o : Bytes} {c : List Seg}, segs b = some c →
    (manifests c).length ≤ 1 → Small ops → applyOps b ops = some o →
    segs o = some (C07.applyOps fmt c ops) ∧ (manifests (C07.applyOps fmt c ops)).length ≤ 1
  | [], b, o, c, h, h1, _, ha => by
    injection ha with ha; subst ha; exact ⟨h, h1⟩
  | .w s :: rest, b, o, c, h, h1, hs, ha => by
    have hss : s.length < 4294967296 := hs s List.mem_cons_self
    cases hw : write b s with
    | none => simp [applyOps, hw] at ha
    | some o₁ =>
      have ha' : applyOps o₁ rest = some o := by simpa [applyOps, hw] using ha
      have hso := segs_write h h1 hss hw
      have hone : (manifests (writeA fmt c s)).length ≤ 1 := by
        rw [write_exactly_one]; exact Nat.le_refl 1
      exact segs_applyOps rest hso hone (fun t ht => hs t (List.mem_cons_of_mem _ ht)) ha'
  | .r :: rest, b, o, c, h, h1, hs, ha => by
    obtain ⟨o₁, hr, hso⟩ := segs_remove h h1
    have ha' : applyOps o₁ rest = some o := by simpa [applyOps, hr] using ha
    have hzero : (manifests (removeA c)).length ≤ 1 := by
      rw [(remove_clean fmt c).1]; exact Nat.zero_le 1
    exact segs_applyOps rest hso hzero (fun t ht => hs t (List.mem_cons_of_mem _ ht)) ha'

/-- **Media preserved on bytes**: after any sequence of embeddings / removals the header, the
non-caBX chunks (type, raw bytes, order) and the trailing bytes are those of the input. -/
theorem media_preserved_ops {ops : List EOp} {b o : Bytes} {c : List Seg} (h : segs b = some c)
    (h1 : (manifests c).length ≤ 1) (hs : Small ops) (ha : applyOps b ops = some o) :
    ∃ c', segs o = some c' ∧ strip c' = strip c :=
  ⟨_, (segs_applyOps ops h h1 hs ha).1, C07.media_preserved_ops fmt c ops⟩

/-- **remove after any sequence = remove from the original**, byte for byte. -/
theorem remove_after_ops_bytes {ops : List EOp} {b o : Bytes} {c : List Seg} (h : segs b = some c)
    (h1 : (manifests c).length ≤ 1) (hs : Small ops) (ha : applyOps b ops = some o) :
    remove o = remove b := by
  obtain ⟨hso, hone⟩ := segs_applyOps ops h h1 hs ha
  rw [remove_refines hso hone, remove_refines h h1, C07.remove_after_ops_bytes]

/-- For an asset without manifest, remove ∘ write restores the original file. -/
theorem remove_write_restores {b s o : Bytes} {c : List Seg} (h : segs b = some c)
    (h0 : manifests c = []) (hs : s.length < 4294967296) (hw : write b s = some o) :
    remove o = some b := by
  have h1 : (manifests c).length ≤ 1 := by rw [h0]; exact Nat.zero_le 1
  have hso := segs_write h h1 hs hw
  have hone : (manifests (writeA fmt c s)).length ≤ 1 := by
    rw [write_exactly_one]; exact Nat.le_refl 1
  rw [remove_refines hso hone, C07.remove_write_restores fmt c s h0, ser_segs h]

/-- The written file differs from the stripped input only by the inserted caBX chunk: it is
`pre ++ wrap s ++ post` with `pre ++ post` the file without its manifest. -/
theorem write_inserts {b s o : Bytes} {c : List Seg} (h : segs b = some c)
    (h1 : (manifests c).length ≤ 1) (hs : s.length < 4294967296) (hw : write b s = some o) :
    ∃ pre post, o = pre ++ wrap s ++ post ∧ remove b = some (pre ++ post) ∧
      pre.length = caiOff fmt c := by
  refine ⟨ser ((strip c).take (insIdx fmt c)), ser ((strip c).drop (insIdx fmt c)), ?_, ?_, rfl⟩
  · rw [write_refines h h1 hs hw, ser_writeA]; rfl
  · rw [remove_refines h h1, ser_strip_split]; rfl

end Png

/-- Sidecar: the file has no media; `remove` empties it whatever was written. -/
theorem sidecar_remove_after_write (a s : Bytes) :
    (Sidecar.write a s).bind Sidecar.remove = Sidecar.remove a := rfl

/-- **offset_shift_sound** (the fix-up as coded after the repair of `adjust_known_offsets`:
offsets below the end of the replaced region stay, the others move by the size difference).
For a file `pre ++ old ++ post` rewritten to `pre ++ new ++ post`, every absolute offset `o`
addressing `n` bytes that do not straddle the replaced region addresses the same bytes at
`adjOff |pre| |old| |new| o` in the output. -/
theorem offset_shift_sound (pre old new post : Bytes) (o n : Nat)
    (h : o + n ≤ pre.length ∨ pre.length + old.length ≤ o) :
    slice (pre ++ new ++ post) (adjOff pre.length old.length new.length o) n
      = slice (pre ++ old ++ post) o n := by
  unfold adjOff
  rcases h with h | h
  · by_cases hn : n = 0
    · subst hn; simp [slice]
    · have : o < pre.length + old.length := by omega
      rw [if_pos this]
      exact slice_before pre old new post o n h
  · have : ¬ o < pre.length + old.length := by omega
    rw [if_neg this]
    exact slice_after pre old new post o n h

/-- The same statement for containers: writing into an asset without manifest. -/
theorem offset_shift_sound_insert (F : Fmt) (c : List Seg) (s : Bytes) (o n : Nat)
    (hc : manifests c = [])
    (h : o + n ≤ caiOff F c ∨ caiOff F c ≤ o) :
    slice (ser (writeA F c s)) (adjOff (caiOff F c) 0 (F.wrap s).length o) n = slice (ser c) o n := by
  have hs : strip c = c := by
    apply strip_eq_self
    intro x hx
    cases hm : isM x
    · rfl
    · have : x ∈ manifests c := List.mem_filter.2 ⟨hx, hm⟩
      rw [hc] at this; cases this
  have e1 := ser_writeA F c s
  have e2 : ser c = ser ((strip c).take (insIdx F c)) ++ [] ++ ser ((strip c).drop (insIdx F c)) := by
    rw [List.append_nil, ser_strip_split, hs]
  rw [e1, e2]
  have := offset_shift_sound (ser ((strip c).take (insIdx F c))) [] (F.wrap s)
    (ser ((strip c).drop (insIdx F c))) o n (by simpa [caiOff, offAt] using h)
  simpa [caiOff, offAt] using this

/-- The fix-up **as coded before the repair** (every offset shifted by the size difference,
F15): unsound as soon as addressed data precedes the replaced region. -/
def adjAll (oldLen newLen o : Nat) : Nat := o - oldLen + newLen

theorem shift_everything_unsound :
    ∃ (pre old new post : Bytes) (o n : Nat), o + n ≤ pre.length ∧
      slice (pre ++ new ++ post) (adjAll old.length new.length o) n
        ≠ slice (pre ++ old ++ post) o n :=
  ⟨[1, 2, 3], [], [9], [4], 0, 1, by decide, by decide⟩

/-! ### non-vacuity -/

set_option maxRecDepth 16384 in
example : Png.applyOps exPng [.w [1, 2, 3], .w [4], .r, .w [5, 6]] =
    Png.applyOps exPng [.w [5, 6]] := by decide
example : (Png.applyOps exPng [.w [1, 2, 3], .r]) = some exPng := by decide

example : slice ([1, 2] ++ [9, 9, 9] ++ [3, 4]) (adjOff 2 1 3 3) 2 = slice ([1, 2] ++ [8] ++ [3, 4]) 3 2 := by
  decide
example : slice ([1, 2] ++ [9, 9, 9] ++ [3, 4]) (adjOff 2 1 3 0) 2 = slice ([1, 2] ++ [8] ++ [3, 4]) 0 2 := by
  decide

end C2pa.C07
