import C2paModel.Lemmas.C29e
/-
C29 — property theorems. The statement (properties.jsonl):

  With a base path configured, resource and archive operations never read, write, reveal
  the existence of, or export a file whose real location is outside the manifest root,
  whatever the identifier (parent components, absolute paths, backslashes, encoded
  separators) or the symbolic links present in the directory tree.

"Real location" is the physical location `PPath` of a node in the file-system model
(`Model/C29.lean`); the "real root" is `canon fs env root`. All theorems quantify over every
file system (any finite set of nodes, any symbolic links: absolute, relative, chained,
looping, dangling), every working directory, every resolution fuel, every base/root string
and every identifier.
-/
namespace C2pa.C29

/-! ### `sanitize_archive_path` (write side, archive import, export) -/

/-- **sanitize_only_normal.** Whatever `sanitize_archive_path` accepts is a non-empty,
`/`-joined list of normal names: its `Path::components` are all `Normal`, so there is no
`..`, no `.`, no root (not absolute), no empty component, and no backslash anywhere. -/
theorem sanitize_only_normal (p s : Str) (h : sanitize p = .ok s) :
    (∃ names : Segs, names ≠ [] ∧ (∀ n ∈ names, NormalName n ∧ 92 ∉ n) ∧ s = joinSlash names ∧
      components s = names.map Comp.normal) ∧
    s ≠ [] ∧ isRooted s = false ∧ 92 ∉ s ∧ Comp.parent ∉ components s ∧
    Comp.root ∉ components s := by
  obtain ⟨names, hne, hN, hs, hsplit, hcomp⟩ := sanitize_shape p s h
  refine ⟨⟨names, hne, hN, hs, hcomp⟩, ?_, ?_, ?_, ?_, ?_⟩
  · rw [hs]; exact joinSlash_ne_nil names hne (fun n hn => (hN n hn).1.1)
  · rw [← rooted_splitSlash, hsplit]
    cases names with
    | nil => exact absurd rfl hne
    | cons n ns =>
      have := (hN n (by simp)).1.1
      cases n with
      | nil => exact absurd rfl this
      | cons c cs => cases ns <;> simp [rooted]
  · intro h92
    unfold sanitize at h
    split at h
    · cases h
    · split at h
      · cases h
      · -- every byte of `s` is a byte of a name or a separator
        have : ∀ (l : Segs), (∀ n ∈ l, 92 ∉ n) → 92 ∉ joinSlash l := by
          intro l
          induction l with
          | nil => simp [joinSlash]
          | cons a l ih =>
            intro hl
            cases l with
            | nil => simpa [joinSlash] using hl a (by simp)
            | cons b l' =>
              simp only [joinSlash, List.mem_append, List.mem_cons, not_or]
              exact ⟨hl a (by simp), by decide, ih (fun n hn => hl n (by simp [hn]))⟩
        exact this names (fun n hn => (hN n hn).2) (hs ▸ h92)
  · rw [hcomp]; simp
  · rw [hcomp]; simp

example : sanitize [114, 47, 46, 47, 116] = .ok [114, 47, 116] := by rfl   -- "r/./t" ↦ "r/t"
example : sanitize [46, 46, 47, 120] = .error .bad := by rfl              -- "../x"
example : sanitize [47, 120] = .error .bad := by rfl                      -- "/x"
example : sanitize [46, 46, 92, 120] = .error .bad := by rfl              -- "..\x"

/-- **export_confined.** Every path `uri_to_path` produces (the relative path
`Reader::to_folder` writes below the destination folder) has normal components only — whatever
the URI and the manifest label taken from the asset. -/
theorem export_confined (uri : Str) (label : Option Str) (s : Str)
    (h : uriToPath uri label = .ok s) :
    (∃ names : Segs, names ≠ [] ∧ (∀ n ∈ names, NormalName n ∧ 92 ∉ n) ∧ s = joinSlash names ∧
      components s = names.map Comp.normal) ∧
    s ≠ [] ∧ isRooted s = false ∧ 92 ∉ s ∧ Comp.parent ∉ components s ∧
    Comp.root ∉ components s := by
  unfold uriToPath at h
  simp only at h
  split at h
  · exact sanitize_only_normal _ s h
  · split at h
    · exact sanitize_only_normal _ s h
    · split at h
      · exact sanitize_only_normal _ s h
      · exact sanitize_only_normal _ s h

/-- **archive_entry_confined.** The key under which `Builder::old_from_archive` stores a
`resources/…` zip entry is a single normal name. -/
theorem archive_entry_confined (name key : Str) (h : archiveEntry name = some (.ok key)) :
    ∃ names : Segs, names ≠ [] ∧ (∀ n ∈ names, NormalName n ∧ 92 ∉ n) ∧ key = joinSlash names ∧
      components key = names.map Comp.normal := by
  unfold archiveEntry at h
  split at h
  · split at h
    · cases h
    · split at h
      · cases h
      · simp only [Option.some.injEq] at h
        exact (sanitize_only_normal _ key h).1
  · cases h

/-! ### `normalize_lexically`, `resolve_within_root`: lexical containment -/

theorem normalize_foldl_rooted : ∀ (cs : List Comp) (ns : List Str), (∀ c ∈ cs, c ≠ .root) →
    ∃ ns' : List Str, cs.foldl normStep (.root :: ns.map Comp.normal) = .root :: ns'.map Comp.normal := by
  intro cs
  induction cs with
  | nil => intro ns _; exact ⟨ns, rfl⟩
  | cons c cs ih =>
    intro ns hc
    have hcs : ∀ x ∈ cs, x ≠ Comp.root := fun x hx => hc x (by simp [hx])
    simp only [List.foldl_cons]
    cases c with
    | root => exact absurd rfl (hc .root (by simp))
    | cur => exact ih ns hcs
    | normal n =>
      have : normStep (.root :: ns.map .normal) (.normal n) = .root :: (ns ++ [n]).map Comp.normal := by
        simp [normStep]
      rw [this]; exact ih _ hcs
    | parent =>
      rcases list_snoc_cases ns with rfl | ⟨init, l, rfl⟩
      · have : normStep (.root :: ([] : List Str).map Comp.normal) .parent = .root :: ([] : List Str).map Comp.normal := by
          simp [normStep]
        rw [this]; exact ih _ hcs
      · have : normStep (.root :: (init ++ [l]).map Comp.normal) .parent = .root :: init.map Comp.normal := by
          simp only [normStep, List.map_append, List.map_cons, List.map_nil]
          have h1 : (Comp.root :: (init.map Comp.normal ++ [Comp.normal l])).getLast? = some (Comp.normal l) := by
            rw [show Comp.root :: (init.map Comp.normal ++ [Comp.normal l]) =
              (Comp.root :: init.map Comp.normal) ++ [Comp.normal l] from rfl]
            exact List.getLast?_concat
          rw [h1]
          simp only
          rw [← List.cons_append, List.dropLast_concat]
        rw [this]; exact ih _ hcs

/-- Lexical normalisation of an absolute path leaves the root followed by normal names only:
every `.` and `..` is gone (a `..` at the root is dropped). -/
theorem normalize_rooted_shape (p : Segs) (hr : rooted p = true) :
    ∃ ns : List Str, normalize (componentsSegs p) = .root :: ns.map Comp.normal := by
  unfold componentsSegs normalize
  simp only [hr, if_true, List.cons_append, List.nil_append, List.foldl_cons]
  have h0 : normStep [] Comp.root = .root :: ([] : List Str).map Comp.normal := by simp [normStep]
  rw [h0]
  apply normalize_foldl_rooted
  intro c hc
  simp only [List.mem_filterMap] at hc
  obtain ⟨s, _, hs⟩ := hc
  intro he; subst he
  unfold single at hs
  split at hs
  · cases hs
  · split at hs
    · cases hs
    · split at hs <;> cases hs

/-- **lexical_contained.** When `resolve_within_root` accepts an identifier, the identifier is
non-empty, has no backslash, is not absolute, the result is `base.join(id)`, and — after
lexically cancelling `.` and `..` — that path has the (equally normalised) root as a
component-wise prefix. -/
theorem lexical_contained (fs : FS) (env : Env) (base root : Segs) (id : Str) (j : Segs)
    (h : resolveWithinRoot fs env base root id = .ok j) :
    id ≠ [] ∧ 92 ∉ id ∧ isRooted id = false ∧ j = pathJoin base (splitSlash id) ∧
      normalize (componentsSegs root) <+: normalize (componentsSegs j) := by
  unfold resolveWithinRoot at h
  split at h
  · cases h
  · rename_i h1
    split at h
    · cases h
    · rename_i h2
      split at h
      · cases h
      · rename_i h3
        simp only at h
        split at h
        · cases h
        · rename_i h4
          have hj : j = pathJoin base (splitSlash id) := by
            split at h
            · split at h
              · cases h
              · split at h
                · cases h; rfl
                · cases h
            · cases h; rfl
          refine ⟨h1, h2, by simpa using h3, hj, ?_⟩
          rw [hj]
          simp only [compsStartWith, Bool.not_eq_true', Bool.not_eq_false] at h4
          simpa using h4

/-! ### read side: `get`, `write_stream`, `exists`, `path_for_id` -/

/-- What an accepted identifier resolves to — if it resolves at all — is below the real root. -/
theorem resolve_ok_canon (fs : FS) (env : Env) (base root : Segs) (id : Str) (j : Segs)
    (h : resolveWithinRoot fs env base root id = .ok j) (q : PPath)
    (hq : canon fs env j = some q) : ∃ R, canon fs env root = some R ∧ R <+: q := by
  have hj := (lexical_contained fs env base root id j h).2.2.2.1
  unfold resolveWithinRoot at h
  split at h
  · cases h
  · split at h
    · cases h
    · split at h
      · cases h
      · simp only at h
        split at h
        · cases h
        · rw [← hj, hq] at h
          simp only at h
          split at h
          · cases h
          · rename_i r hr
            split at h
            · rename_i hp
              exact ⟨r, hr, List.isPrefixOf_iff_prefix.1 hp⟩
            · cases h

theorem readFile_canon (fs : FS) (env : Env) (p : Segs) (v : Str) (h : readFile fs env p = some v) :
    ∃ q, canon fs env p = some q ∧ fs.look q = some (.file v) := by
  unfold readFile at h
  unfold canon
  cases hw : walkP fs env true p with
  | err e => rw [hw] at h; cases h
  | absent d n tr g => rw [hw] at h; cases h
  | found q k g =>
    rw [hw] at h
    cases k with
    | dir => cases h
    | link t => cases h
    | file c =>
      simp only [Option.some.injEq] at h
      subst h
      refine ⟨q, rfl, ?_⟩
      unfold walkP at hw
      split at hw
      · cases hw
      · exact walk_found_look fs true _ _ _ _ _ _ hw (by simp)

/-- **read_confined (`get`).** Whatever bytes `ResourceStore::get` hands out, for whatever
identifier and whatever links are in the tree, are the content of a regular file whose real
location is below the real root. -/
theorem read_confined_get (fs : FS) (c : Cfg) (id v : Str) (h : get fs c id = .found v) :
    ∃ R q, canon fs c.env c.rootSegs = some R ∧ R <+: q ∧ fs.look q = some (.file v) := by
  unfold get at h
  cases hr : resolveWithinRoot fs c.env c.baseSegs c.rootSegs id with
  | error e => rw [hr] at h; cases h
  | ok path =>
    rw [hr] at h
    simp only at h
    cases hf : readFile fs c.env path with
    | none => rw [hf] at h; cases h
    | some w =>
      rw [hf] at h
      simp only [GetRes.found.injEq] at h
      subst h
      obtain ⟨q, hq, hl⟩ := readFile_canon fs c.env path w hf
      obtain ⟨R, hR, hpre⟩ := resolve_ok_canon fs c.env _ _ id path hr q hq
      exact ⟨R, q, hR, hpre, hl⟩

/-- **read_confined (`write_stream`).** -/
theorem read_confined_write_stream (fs : FS) (c : Cfg) (id v : Str)
    (h : writeStream fs c id = .ok v) :
    ∃ R q, canon fs c.env c.rootSegs = some R ∧ R <+: q ∧ fs.look q = some (.file v) := by
  unfold writeStream at h
  cases hr : resolveWithinRoot fs c.env c.baseSegs c.rootSegs id with
  | error e => rw [hr] at h; cases h
  | ok path =>
    rw [hr] at h
    simp only at h
    cases hf : readFile fs c.env path with
    | none => rw [hf] at h; cases h
    | some w =>
      rw [hf] at h
      simp only [WsRes.ok.injEq] at h
      subst h
      obtain ⟨q, hq, hl⟩ := readFile_canon fs c.env path w hf
      obtain ⟨R, hR, hpre⟩ := resolve_ok_canon fs c.env _ _ id path hr q hq
      exact ⟨R, q, hR, hpre, hl⟩

/-- **read_confined (`exists`).** `exists` only ever says `true` (from the disk) about a node
whose real location is below the real root. -/
theorem read_confined_exists (fs : FS) (c : Cfg) (id : Str) (h : existsId fs c id = true) :
    ∃ R q, canon fs c.env c.rootSegs = some R ∧
      canon fs c.env (pathJoin c.baseSegs (splitSlash id)) = some q ∧ R <+: q := by
  unfold existsId at h
  cases hr : resolveWithinRoot fs c.env c.baseSegs c.rootSegs id with
  | error e => rw [hr] at h; cases h
  | ok path =>
    rw [hr] at h
    simp only at h
    have hj := (lexical_contained fs c.env _ _ id path hr).2.2.2.1
    unfold existsP at h
    cases hw : walkP fs c.env true path with
    | err e => rw [hw] at h; cases h
    | absent d n tr g => rw [hw] at h; cases h
    | found q k g =>
      have hq : canon fs c.env path = some q := by unfold canon; rw [hw]
      obtain ⟨R, hR, hpre⟩ := resolve_ok_canon fs c.env _ _ id path hr q hq
      exact ⟨R, q, hR, hj ▸ hq, hpre⟩

/-- **read_confined (`path_for_id`).** The path `path_for_id` hands out is `base.join(id)`, and if
it leads anywhere at all, it leads to a location below the real root. -/
theorem read_confined_path_for_id (fs : FS) (c : Cfg) (id : Str) (j : Segs)
    (h : pathForId fs c id = some j) :
    j = pathJoin c.baseSegs (splitSlash id) ∧
      ∀ q, canon fs c.env j = some q → ∃ R, canon fs c.env c.rootSegs = some R ∧ R <+: q := by
  unfold pathForId at h
  cases hr : resolveWithinRoot fs c.env c.baseSegs c.rootSegs id with
  | error e => rw [hr] at h; cases h
  | ok path =>
    rw [hr] at h
    simp only [Option.some.injEq] at h
    subst h
    exact ⟨(lexical_contained fs c.env _ _ id path hr).2.2.2.1,
      fun q hq => resolve_ok_canon fs c.env _ _ id path hr q hq⟩

/-! ### write side: `add` -/

theorem resolveForWrite_ok (fs : FS) (env : Env) (base root : Segs) (id : Str) (j : Segs)
    (h : resolveForWrite fs env base root id = .ok j) :
    j = pathJoin base (splitSlash id) ∧ checkAncestors fs env root j (ancestors j) = .ok () := by
  unfold resolveForWrite at h
  cases hr : resolveWithinRoot fs env base root id with
  | error e => rw [hr] at h; cases h
  | ok path =>
    rw [hr] at h
    simp only at h
    cases hc : checkAncestors fs env root path (ancestors path) with
    | error e => rw [hc] at h; cases h
    | ok u =>
      rw [hc] at h
      simp only [Except.ok.injEq] at h
      subst h
      exact ⟨(lexical_contained fs env base root id path hr).2.2.2.1, hc⟩

/-- **write_confined.** `ResourceStore::add`, in a well-formed tree in which the configured root
resolves to `R` and the configured base directory resolves to a directory really inside `R`:
whatever the identifier, the data and the symbolic links in the tree (into or out of the root,
chained, looping, dangling), and whether `add` succeeds or fails half-way, every location at
which the tree differs afterwards is below `R`. -/
theorem write_confined (fs : FS) (c : Cfg) (id data : Str) (R Bp : PPath) (g : Nat)
    (hwf : fs.WF)
    (hroot : canon fs c.env c.rootSegs = some R)
    (hbase : walkP fs c.env true c.baseSegs = .found Bp .dir g)
    (hin : R <+: Bp) :
    ∀ p, (add fs c id data).2.look p ≠ fs.look p → R <+: p := by
  intro p
  unfold add
  cases hs : sanitize id with
  | error e => intro h; exact absurd rfl h
  | ok sid =>
    simp only
    cases hr : resolveForWrite fs c.env c.baseSegs c.rootSegs sid with
    | error e => cases e <;> (intro h; exact absurd rfl h)
    | ok path =>
      simp only
      obtain ⟨names, hne, hN, _, hsplit, _⟩ := sanitize_shape id sid hs
      obtain ⟨hj, hchk⟩ := resolveForWrite_ok fs c.env _ _ sid path hr
      rw [hsplit] at hj
      have hN' : ∀ n ∈ names, NormalName n := fun n hn => (hN n hn).1
      -- `names` is a relative path
      have hnr : rooted names = false := by
        cases names with
        | nil => exact absurd rfl hne
        | cons n ns =>
          have := (hN' n (by simp)).1
          cases n with
          | nil => exact absurd rfl this
          | cons a b => cases ns <;> simp [rooted]
      -- the base is a proper path
      have hbe : emptyPath c.baseSegs = false := by
        cases he : emptyPath c.baseSegs with
        | false => rfl
        | true => unfold walkP at hbase; simp [he] at hbase
      unfold walkP at hbase
      simp only [hbe, Bool.false_eq_true, if_false] at hbase
      unfold pathJoin at hj
      simp only [hnr, hbe, Bool.false_eq_true, if_false] at hj
      -- the segments `Qs` of the base to which the names are appended
      have key : ∃ s0 Q' gQ, path = s0 :: Q' ++ names ∧
          walk fs true c.env.fuel (if s0 = [] then [] else c.env.cwd) (s0 :: Q') = .found Bp .dir gQ := by
        by_cases hlast : c.baseSegs.getLast? = some []
        · simp only [hlast, if_true] at hj
          rcases list_snoc_cases c.baseSegs with hnil | ⟨init, l, hil⟩
          · rw [hnil] at hlast; simp at hlast
          · have hl : l = [] := by rw [hil] at hlast; simpa using hlast
            subst hl
            cases init with
            | nil => rw [hil] at hbe; simp [emptyPath] at hbe
            | cons s0 Q' =>
              rw [hil] at hbase hj
              simp only [List.dropLast_concat] at hj
              have hst : c.env.start (s0 :: Q' ++ [[]]) = if s0 = [] then [] else c.env.cwd := by
                have := rooted_cons_append s0 Q' [[]] (by simp)
                unfold Env.start
                simp only [List.cons_append] at this ⊢
                by_cases h0 : s0 = []
                · subst h0; simp at this; simp [this]
                · simp [h0] at this; simp [this, h0]
              rw [hst] at hbase
              obtain ⟨p', g', h1, h2⟩ := walk_append_found fs true _ _ (s0 :: Q') [[]] (by simp) _ _ _ hbase
              have h3 := walk_skips fs true [[]] g' p' (by simp [isSkip])
              rw [h2] at h3
              split at h3
              · simp only [Res.found.injEq, true_and] at h3
                rw [h3.1]
                exact ⟨s0, Q', g', hj, h1⟩
              · cases h3
        · simp only [hlast, if_false] at hj
          cases hb : c.baseSegs with
          | nil => rw [hb] at hbe; simp [emptyPath] at hbe
          | cons s0 Q' =>
            rw [hb] at hbase hj
            have hst : c.env.start (s0 :: Q') = if s0 = [] then [] else c.env.cwd := by
              unfold Env.start
              cases s0 with
              | cons a b => simp [rooted]
              | nil =>
                cases Q' with
                | nil => rw [hb] at hbe; simp [emptyPath] at hbe
                | cons x y => simp [rooted]
            rw [hst] at hbase
            exact ⟨s0, Q', g, hj, hbase⟩
      obtain ⟨s0, Q', gQ, hpath, hQ⟩ := key
      let B : BaseCtx :=
        { fs := fs, env := c.env, s0 := s0, Q' := Q', Bp := Bp, gQ := gQ, R := R, root := c.rootSegs
          hwf := hwf, hQ := hQ, hroot := hroot, hin := hin }
      have := B.add_core names hne hN' (by simpa [B, BaseCtx.Q, hpath] using hchk) data p
      simpa [B, BaseCtx.Q, hpath] using this

/-! ### witnesses -/

theorem lookup_ne_none_mem {α β : Type} [BEq α] [LawfulBEq α] :
    ∀ (l : List (α × β)) (k : α), l.lookup k ≠ none → ∃ v, (k, v) ∈ l := by
  intro l
  induction l with
  | nil => intro k h; simp at h
  | cons e l ih =>
    intro k h
    obtain ⟨a, b⟩ := e
    rw [List.lookup_cons] at h
    by_cases hk : (k == a) = true
    · have : k = a := by simpa using hk
      subst this
      exact ⟨b, by simp⟩
    · have hk' : (k == a) = false := by simpa using hk
      rw [hk'] at h
      obtain ⟨v, hv⟩ := ih k h
      exact ⟨v, by simp [hv]⟩

/-- a decidable criterion for well-formedness of a concrete tree -/
theorem wf_of_nodes (nodes : List (PPath × Kind))
    (h : ∀ e ∈ nodes, e.1 = [] ∨ (FS.mk nodes).look e.1.dropLast = some .dir) :
    (FS.mk nodes).WF := by
  intro p n hne
  obtain ⟨v, hv⟩ := lookup_ne_none_mem nodes (p ++ [n]) hne
  rcases h _ hv with h1 | h1
  · simp at h1
  · simpa using h1

/-- `/r` and `/o` are directories, `/r/l -> /o` is a symbolic link inside `/r` leaving it -/
def fsW : FS :=
  ⟨[([], .dir), ([[114]], .dir), ([[111]], .dir), ([[114], [108]], .link [47, 111])]⟩
def envW : Env := { cwd := [], fuel := 16 }
/-- base path `/r`, root defaulting to it -/
def cfgW : Cfg := { env := envW, base := [47, 114], root := none }

theorem fsW_wf : fsW.WF := wf_of_nodes _ (by decide)

/-- `write_confined` is not vacuous: its hypotheses hold for `fsW`/`cfgW`, where
`add("x")` succeeds and creates `/r/x` … -/
example : canon fsW cfgW.env cfgW.rootSegs = some [[114]] ∧
    walkP fsW cfgW.env true cfgW.baseSegs = .found [[114]] .dir 14 ∧
    (add fsW cfgW [120] [1]).1 = .ok ∧
    (add fsW cfgW [120] [1]).2.look [[114], [120]] = some (.file [1]) := by decide

/-- … and `add("l/x")`, which would land in `/o` through the link, is refused and changes
nothing. -/
example : (add fsW cfgW [108, 47, 120] [1]).1 = .bad ∧
    (add fsW cfgW [108, 47, 120] [1]).2.look [[111], [120]] = none := by decide

/-- The check-free `join` + `create_dir_all` + `write` (`Reader::to_folder`'s `write_bytes`,
and `ResourceStore::add` before it called `resolve_within_root_for_write` — defect F7) is
confined for every tree and every sanitized relative path. -/
def UncheckedWriteConfined : Prop :=
  ∀ (fs : FS) (env : Env) (dest : Segs) (rel data : Str) (R : PPath),
    fs.WF → canon fs env dest = some R → sanitize rel = .ok rel →
    ∀ p, (writeUnder fs env dest rel data).2.look p ≠ fs.look p → R <+: p

/-- It is not: through the directory link `/r/l -> /o`, writing `l/x` below `/r` creates `/o/x`.
(Replayed on the implementation by the harness: `f7_replay`.) -/
theorem unchecked_write_escapes : ¬ UncheckedWriteConfined := by
  intro h
  have := h fsW envW (splitSlash [47, 114]) [108, 47, 120] [1] [[114]] fsW_wf (by decide)
    (by rfl) [[111], [120]] (by decide)
  revert this
  decide

/-- Two trees that both resolve the root to `R` and agree on everything below `R` get the same
answers from the read side. -/
def ReadsRevealNothing : Prop :=
  ∀ (fs fs' : FS) (c : Cfg) (id : Str) (R : PPath),
    fs.WF → fs'.WF → canon fs c.env c.rootSegs = some R → canon fs' c.env c.rootSegs = some R →
    (∀ p, R <+: p → fs.look p = fs'.look p) →
    pathForId fs c id = pathForId fs' c id

/-- `/r/k -> /o/s`; `/o/s` exists -/
def fsK1 : FS :=
  ⟨[([], .dir), ([[114]], .dir), ([[111]], .dir), ([[114], [107]], .link [47, 111, 47, 115]),
    ([[111], [115]], .file [7])]⟩
/-- the same without `/o/s` -/
def fsK2 : FS :=
  ⟨[([], .dir), ([[114]], .dir), ([[111]], .dir), ([[114], [107]], .link [47, 111, 47, 115])]⟩

/-- The code falsifies it: `path_for_id("k")`, with `/r/k -> /o/s` planted in the base
directory `/r`, is `None` when `/o/s` exists and `Some("/r/k")` when it does not — the
existence of a file outside the root is revealed. (Replayed on the implementation by the
harness: the outside-existence probe, class `outside-existence-leak`.) What does hold is
`read_confined_*`: every positive answer is about a location below the real root. -/
theorem reads_reveal_outside_existence : ¬ ReadsRevealNothing := by
  intro h
  have := h fsK1 fsK2 cfgW [107] [[114]] (wf_of_nodes _ (by decide)) (wf_of_nodes _ (by decide))
    (by decide) (by decide) (by
      intro p hp
      obtain ⟨t, rfl⟩ := hp
      cases t with
      | nil => decide
      | cons a t =>
        cases t with
        | nil => simp [fsK1, fsK2, FS.look, List.lookup]
        | cons b t => simp [fsK1, fsK2, FS.look, List.lookup])
  revert this
  decide

end C2pa.C29
