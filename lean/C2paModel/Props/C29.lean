import C2paModel.Lemmas.C29e
/-
C29 — property theorems. The statement (properties.jsonl):

  With a base path configured, resource and archive operations never read, write, reveal
  the existence of, or export a file whose real location is outside the manifest root,
  whatever the identifier (parent components, absolute paths, backslashes, encoded
  separators) or the symbolic links present in the directory tree.

"Real location" is the physical location `PPath` of a node in the file-system model
(`Model/C29.lean`); the "real root" is `canon fs env root`. All theorems quantify over every
file system (any finite set of nodes, any symbolic links: absolute, relative, chained,
looping, dangling), every working directory, every resolution fuel, every base/root string
and every identifier.
-/
namespace C2pa.C29

/-! ### `sanitize_archive_path` (write side, archive import, export) -/

/-- **sanitize_only_normal.** Whatever `sanitize_archive_path` accepts is a non-empty,
`/`-joined list of normal names: its `Path::components` are all `Normal`, so there is no
`..`, no `.`, no root (not absolute), no empty component, and no backslash anywhere. -/
theorem sanitize_only_normal (p s : Str) (h : sanitize p = .ok s) :
    (∃ names : Segs, names ≠ [] ∧ (∀ n ∈ names, NormalName n ∧ 92 ∉ n) ∧ s = joinSlash names ∧
      components s = names.map Comp.normal) ∧
    s ≠ [] ∧ isRooted s = false ∧ 92 ∉ s ∧ Comp.parent ∉ components s ∧
    Comp.root ∉ components s := by
  obtain ⟨names, hne, hN, hs, hsplit, hcomp⟩ := sanitize_shape p s h
  refine ⟨⟨names, hne, hN, hs, hcomp⟩, ?_, ?_, ?_, ?_, ?_⟩
  · rw [hs]; exact joinSlash_ne_nil names hne (fun n hn => (hN n hn).1.1)
  · rw [← rooted_splitSlash, hsplit]
    cases names with
    | nil => exact absurd rfl hne
    | cons n ns =>
      have := (hN n (by simp)).1.1
      cases n with
      | nil => exact absurd rfl this
      | cons c cs => cases ns <;> simp [rooted]
  · intro h92
    unfold sanitize at h
    split at h
    · cases h
    · split at h
      · cases h
      · -- every byte of `s` is a byte of a name or a separator
        have : ∀ (l : Segs), (∀ n ∈ l, 92 ∉ n) → 92 ∉ joinSlash l := by
          intro l
          induction l with
          | nil => simp [joinSlash]
          | cons a l ih =>
            intro hl
            cases l with
            | nil => simpa [joinSlash] using hl a (by simp)
            | cons b l' =>
              simp only [joinSlash, List.mem_append, List.mem_cons, not_or]
              exact ⟨hl a (by simp), by decide, ih (fun n hn => hl n (by simp [hn]))⟩
        exact this names (fun n hn => (hN n hn).2) (hs ▸ h92)
  · rw [hcomp]; simp
  · rw [hcomp]; simp

example : sanitize [114, 47, 46, 47, 116] = .ok [114, 47, 116] := by rfl   -- "r/./t" ↦ "r/t"
example : sanitize [46, 46, 47, 120] = .error .bad := by rfl              -- "../x"
example : sanitize [47, 120] = .error .bad := by rfl                      -- "/x"
example : sanitize [46, 46, 92, 120] = .error .bad := by rfl              -- "..\x"

/-- **export_confined.** Every path `uri_to_path` produces (the relative path
`Reader::to_folder` writes below the destination folder) has normal components only — whatever
the URI and the manifest label taken from the asset. -/
theorem export_confined (uri : Str) (label : Option Str) (s : Str)
    (h : uriToPath uri label = .ok s) :
    (∃ names : Segs, names ≠ [] ∧ (∀ n ∈ names, NormalName n ∧ 92 ∉ n) ∧ s = joinSlash names ∧
      components s = names.map Comp.normal) ∧
    s ≠ [] ∧ isRooted s = false ∧ 92 ∉ s ∧ Comp.parent ∉ components s ∧
    Comp.root ∉ components s := by
  unfold uriToPath at h
  simp only at h
  split at h
  · exact sanitize_only_normal _ s h
  · split at h
    · exact sanitize_only_normal _ s h
    · split at h
      · exact sanitize_only_normal _ s h
      · exact sanitize_only_normal _ s h

/-- `sanitize_archive_path` on a string without `/`: it is accepted only if it is one normal
name, and then returned unchanged. -/
theorem sanitize_noslash (id key : Str) (hns : 47 ∉ id) (h : sanitize id = .ok key) :
    key = id ∧ NormalName id ∧ 92 ∉ id := by
  have hsp : splitSlash id = [id] := splitSlash_of_noslash id hns
  by_cases h1 : id = [46]
  · subst h1
    have : sanitize [46] = .error .bad := by rfl
    rw [this] at h; cases h
  by_cases h2 : id = [46, 46]
  · subst h2
    have : sanitize [46, 46] = .error .bad := by rfl
    rw [this] at h; cases h
  unfold sanitize at h
  split at h
  · cases h
  · rename_i hne
    split at h
    · cases h
    · rename_i h92
      have hc : components id = [Comp.normal id] := by
        unfold components componentsSegs
        rw [hsp]
        simp [rooted, single, hne, h1, h2]
      rw [hc] at h
      simp only [sanLoop, sanStep, if_true] at h
      split at h
      · cases h
      · simp only [Except.ok.injEq] at h
        exact ⟨h.symm, ⟨hne, h1, h2, hns⟩, h92⟩

theorem getElem?_splitSlash_noslash (name id : Str) (i : Nat) (h : (splitSlash name)[i]? = some id) :
    47 ∉ id :=
  splitSlash_noslash name id (List.mem_of_getElem? h)

/-- **archive_entry_confined.** The key under which `Builder::old_from_archive` stores a
`resources/…` zip entry is a single normal name (no `/`, no `\`, not `.`/`..`/empty). -/
theorem archive_entry_confined (name key : Str) (h : archiveEntry name = some (.ok key)) :
    NormalName key ∧ 92 ∉ key := by
  unfold archiveEntry at h
  split at h
  · split at h
    · cases h
    · split at h
      · cases h
      · rename_i id hid
        simp only [Option.some.injEq] at h
        obtain ⟨hk, hN, h92⟩ := sanitize_noslash id key (getElem?_splitSlash_noslash name id 1 hid) h
        rw [hk]; exact ⟨hN, h92⟩
  · cases h

/-- **archive_keys_confined.** Whatever zip entry name an archive carries (all three branches of
`Builder::old_from_archive`: `resources/…`, `manifests/…`, `ingredients/<n>/…`), every identifier
under which its data is stored — in the builder's or in an ingredient's resource store — is the
fixed name `manifest_data.c2pa`, or empty (only in an ingredient's store, for `ingredients/<n>`
without a name), or a single normal name: never a path with a separator, `..`, `.` or a
backslash. -/
theorem archive_keys_confined (ams : List (Option Str)) (name : Str) (effs : List (StoreId × Str))
    (h : archiveEffects ams name = .ok effs) :
    ∀ e ∈ effs, e.2 = manifestDataKey ∨ (e.1 ≠ .builder ∧ e.2 = []) ∨ (NormalName e.2 ∧ 92 ∉ e.2) := by
  unfold archiveEffects at h
  cases h1 : archResources name with
  | error e => rw [h1] at h; cases h
  | ok e1 =>
    rw [h1] at h
    cases h2 : archManifests ams name with
    | error e => rw [h2] at h; cases h
    | ok e2 =>
      rw [h2] at h
      cases h3 : archIngredients ams name with
      | error e => rw [h3] at h; cases h
      | ok e3 =>
        rw [h3] at h
        simp only [Except.ok.injEq] at h
        subst h
        intro e he
        simp only [List.mem_append] at he
        rcases he with (he | he) | he
        · -- resources/
          unfold archResources at h1
          split at h1
          · simp only [Except.ok.injEq] at h1; subst h1; simp at he
          · cases h1
          · rename_i key hk
            simp only [Except.ok.injEq] at h1; subst h1
            simp only [List.mem_singleton] at he; subst he
            exact Or.inr (Or.inr (archive_entry_confined name key hk))
        · -- manifests/
          unfold archManifests at h2
          split at h2
          · split at h2
            · cases h2
            · split at h2
              · cases h2
              · split at h2
                · cases h2
                · simp only [Except.ok.injEq] at h2; subst h2
                  unfold manifestTargets at he
                  simp only [List.mem_filterMap] at he
                  obtain ⟨⟨am, i⟩, _, hx⟩ := he
                  simp only at hx
                  split at hx
                  · split at hx
                    · simp only [Option.some.injEq] at hx; subst hx; exact Or.inl rfl
                    · cases hx
                  · cases hx
          · simp only [Except.ok.injEq] at h2; subst h2; simp at he
        · -- ingredients/
          unfold archIngredients at h3
          split at h3
          · split at h3
            · cases h3
            · split at h3
              · cases h3
              · simp only at h3
                split at h3
                · cases h3
                · rename_i key hkey
                  split at h3
                  · cases h3
                  · simp only [Except.ok.injEq] at h3; subst h3
                    simp only [List.mem_singleton] at he; subst he
                    split at hkey
                    · rename_i hne
                      cases hg : (splitSlash name)[2]? with
                      | none => rw [hg] at hne; simp at hne
                      | some id =>
                        rw [hg] at hkey
                        simp only [Option.getD_some] at hkey
                        obtain ⟨hk, hN, h92⟩ :=
                          sanitize_noslash id key (getElem?_splitSlash_noslash name id 2 hg) hkey
                        rw [hk]; exact Or.inr (Or.inr ⟨hN, h92⟩)
                    · simp only [Except.ok.injEq] at hkey; subst hkey
                      exact Or.inr (Or.inl ⟨by simp, rfl⟩)
          · simp only [Except.ok.injEq] at h3; subst h3; simp at he

-- "resources/a.jpg" is stored in the builder under "a.jpg"; "ingredients/1/t" in ingredient 1 under "t";
-- "ingredients/0" under ""; "resources/../x" and "ingredients/0/.." reject the archive
example : archiveEffects [none, none] [114, 101, 115, 111, 117, 114, 99, 101, 115, 47, 97] =
    .ok [(.builder, [97])] := by rfl
example : archiveEffects [none, none] [105, 110, 103, 114, 101, 100, 105, 101, 110, 116, 115, 47, 49, 47, 116] =
    .ok [(.ingredient 1, [116])] := by rfl
example : archiveEffects [none, none] [105, 110, 103, 114, 101, 100, 105, 101, 110, 116, 115, 47, 48] =
    .ok [(.ingredient 0, [])] := by rfl
example : archiveEffects [none] [114, 101, 115, 111, 117, 114, 99, 101, 115, 47, 46, 46, 47, 120] =
    .error .bad := by rfl
example : archiveEffects [none] [105, 110, 103, 114, 101, 100, 105, 101, 110, 116, 115, 47, 48, 47, 46, 46] =
    .error .bad := by rfl
-- "manifests/a_b" goes to the ingredient whose active manifest is "a:b"
example : archiveEffects [some [97, 58, 98], none] [109, 97, 110, 105, 102, 101, 115, 116, 115, 47, 97, 95, 98] =
    .ok [(.ingredient 0, manifestDataKey)] := by rfl

/-! ### `normalize_lexically`, `resolve_within_root`: lexical containment -/

theorem normalize_foldl_rooted : ∀ (cs : List Comp) (ns : List Str), (∀ c ∈ cs, c ≠ .root) →
    ∃ ns' : List Str, cs.foldl normStep (.root :: ns.map Comp.normal) = .root :: ns'.map Comp.normal := by
  intro cs
  induction cs with
  | nil => intro ns _; exact ⟨ns, rfl⟩
  | cons c cs ih =>
    intro ns hc
    have hcs : ∀ x ∈ cs, x ≠ Comp.root := fun x hx => hc x (by simp [hx])
    simp only [List.foldl_cons]
    cases c with
    | root => exact absurd rfl (hc .root (by simp))
    | cur => exact ih ns hcs
    | normal n =>
      have : normStep (.root :: ns.map .normal) (.normal n) = .root :: (ns ++ [n]).map Comp.normal := by
        simp [normStep]
      rw [this]; exact ih _ hcs
    | parent =>
      rcases list_snoc_cases ns with rfl | ⟨init, l, rfl⟩
      · have : normStep (.root :: ([] : List Str).map Comp.normal) .parent = .root :: ([] : List Str).map Comp.normal := by
          simp [normStep]
        rw [this]; exact ih _ hcs
      · have : normStep (.root :: (init ++ [l]).map Comp.normal) .parent = .root :: init.map Comp.normal := by
          simp only [normStep, List.map_append, List.map_cons, List.map_nil]
          have h1 : (Comp.root :: (init.map Comp.normal ++ [Comp.normal l])).getLast? = some (Comp.normal l) := by
            rw [show Comp.root :: (init.map Comp.normal ++ [Comp.normal l]) =
              (Comp.root :: init.map Comp.normal) ++ [Comp.normal l] from rfl]
            exact List.getLast?_concat
          rw [h1]
          simp only
          rw [← List.cons_append, List.dropLast_concat]
        rw [this]; exact ih _ hcs

/-- Lexical normalisation of an absolute path leaves the root followed by normal names only:
every `.` and `..` is gone (a `..` at the root is dropped). -/
theorem normalize_rooted_shape (p : Segs) (hr : rooted p = true) :
    ∃ ns : List Str, normalize (componentsSegs p) = .root :: ns.map Comp.normal := by
  unfold componentsSegs normalize
  simp only [hr, if_true, List.cons_append, List.nil_append, List.foldl_cons]
  have h0 : normStep [] Comp.root = .root :: ([] : List Str).map Comp.normal := by simp [normStep]
  rw [h0]
  apply normalize_foldl_rooted
  intro c hc
  simp only [List.mem_filterMap] at hc
  obtain ⟨s, _, hs⟩ := hc
  intro he; subst he
  unfold single at hs
  split at hs
  · cases hs
  · split at hs
    · cases hs
    · split at hs <;> cases hs

/-- **lexical_contained.** When `resolve_within_root` accepts an identifier, the identifier is
non-empty, has no backslash, is not absolute, the result is `base.join(id)`, and — after
lexically cancelling `.` and `..` — that path has the (equally normalised) root as a
component-wise prefix. -/
theorem lexical_contained (fs : FS) (env : Env) (base root : Segs) (id : Str) (j : Segs)
    (h : resolveWithinRoot fs env base root id = .ok j) :
    id ≠ [] ∧ 92 ∉ id ∧ isRooted id = false ∧ j = pathJoin base (splitSlash id) ∧
      normalize (componentsSegs root) <+: normalize (componentsSegs j) := by
  unfold resolveWithinRoot at h
  split at h
  · cases h
  · rename_i h1
    split at h
    · cases h
    · rename_i h2
      split at h
      · cases h
      · rename_i h3
        simp only at h
        split at h
        · cases h
        · rename_i h4
          have hj : j = pathJoin base (splitSlash id) := by
            split at h
            · split at h
              · cases h
              · split at h
                · cases h; rfl
                · cases h
            · cases h; rfl
          refine ⟨h1, h2, by simpa using h3, hj, ?_⟩
          rw [hj]
          simp only [compsStartWith, Bool.not_eq_true', Bool.not_eq_false] at h4
          simpa using h4

/-! ### read side: `get`, `write_stream`, `exists`, `path_for_id` -/

/-- What an accepted identifier resolves to — if it resolves at all — is below the real root. -/
theorem resolve_ok_canon (fs : FS) (env : Env) (base root : Segs) (id : Str) (j : Segs)
    (h : resolveWithinRoot fs env base root id = .ok j) (q : PPath)
    (hq : canon fs env j = some q) : ∃ R, canon fs env root = some R ∧ R <+: q := by
  have hj := (lexical_contained fs env base root id j h).2.2.2.1
  unfold resolveWithinRoot at h
  split at h
  · cases h
  · split at h
    · cases h
    · split at h
      · cases h
      · simp only at h
        split at h
        · cases h
        · rw [← hj, hq] at h
          simp only at h
          split at h
          · cases h
          · rename_i r hr
            split at h
            · rename_i hp
              exact ⟨r, hr, List.isPrefixOf_iff_prefix.1 hp⟩
            · cases h

theorem readFile_canon (fs : FS) (env : Env) (p : Segs) (v : Str) (h : readFile fs env p = some v) :
    ∃ q, canon fs env p = some q ∧ fs.look q = some (.file v) := by
  unfold readFile at h
  unfold canon
  cases hw : walkP fs env true p with
  | err e => rw [hw] at h; cases h
  | absent d n tr g => rw [hw] at h; cases h
  | found q k g =>
    rw [hw] at h
    cases k with
    | dir => cases h
    | link t => cases h
    | file c =>
      simp only [Option.some.injEq] at h
      subst h
      refine ⟨q, rfl, ?_⟩
      unfold walkP at hw
      split at hw
      · cases hw
      · exact walk_found_look fs true _ _ _ _ _ _ hw (by simp)

/-- **read_confined (`get`).** Whatever bytes `ResourceStore::get` hands out, for whatever
identifier and whatever links are in the tree, are what the in-memory map holds under exactly
that identifier, or the content of a regular file whose real location is below the real root. -/
theorem read_confined_get (fs : FS) (c : Cfg) (id v : Str) (h : get fs c id = .found v) :
    c.mem.lookup id = some v ∨
    ∃ R q, canon fs c.env c.rootSegs = some R ∧ R <+: q ∧ fs.look q = some (.file v) := by
  unfold get at h
  cases hm : c.mem.lookup id with
  | some w => rw [hm] at h; simp only [GetRes.found.injEq] at h; subst h; exact Or.inl rfl
  | none =>
  right
  rw [hm] at h
  simp only at h
  cases hr : resolveWithinRoot fs c.env c.baseSegs c.rootSegs id with
  | error e => rw [hr] at h; cases h
  | ok path =>
    rw [hr] at h
    simp only at h
    cases hf : readFile fs c.env path with
    | none => rw [hf] at h; cases h
    | some w =>
      rw [hf] at h
      simp only [GetRes.found.injEq] at h
      subst h
      obtain ⟨q, hq, hl⟩ := readFile_canon fs c.env path w hf
      obtain ⟨R, hR, hpre⟩ := resolve_ok_canon fs c.env _ _ id path hr q hq
      exact ⟨R, q, hR, hpre, hl⟩

/-- **read_confined (`write_stream`).** -/
theorem read_confined_write_stream (fs : FS) (c : Cfg) (id v : Str)
    (h : writeStream fs c id = .ok v) :
    c.mem.lookup id = some v ∨
    ∃ R q, canon fs c.env c.rootSegs = some R ∧ R <+: q ∧ fs.look q = some (.file v) := by
  unfold writeStream at h
  cases hm : c.mem.lookup id with
  | some w => rw [hm] at h; simp only [WsRes.ok.injEq] at h; subst h; exact Or.inl rfl
  | none =>
  right
  rw [hm] at h
  simp only at h
  cases hr : resolveWithinRoot fs c.env c.baseSegs c.rootSegs id with
  | error e => rw [hr] at h; cases h
  | ok path =>
    rw [hr] at h
    simp only at h
    cases hf : readFile fs c.env path with
    | none => rw [hf] at h; cases h
    | some w =>
      rw [hf] at h
      simp only [WsRes.ok.injEq] at h
      subst h
      obtain ⟨q, hq, hl⟩ := readFile_canon fs c.env path w hf
      obtain ⟨R, hR, hpre⟩ := resolve_ok_canon fs c.env _ _ id path hr q hq
      exact ⟨R, q, hR, hpre, hl⟩

/-- **read_confined (`exists`).** `exists` only ever says `true` about an identifier the
in-memory map holds, or (from the disk) about a node whose real location is below the real root. -/
theorem read_confined_exists (fs : FS) (c : Cfg) (id : Str) (h : existsId fs c id = true) :
    (c.mem.lookup id).isSome = true ∨
    ∃ R q, canon fs c.env c.rootSegs = some R ∧
      canon fs c.env (pathJoin c.baseSegs (splitSlash id)) = some q ∧ R <+: q := by
  unfold existsId at h
  by_cases hm : (c.mem.lookup id).isSome = true
  · exact Or.inl hm
  right
  simp only [hm, Bool.false_eq_true, if_false] at h
  cases hr : resolveWithinRoot fs c.env c.baseSegs c.rootSegs id with
  | error e => rw [hr] at h; cases h
  | ok path =>
    rw [hr] at h
    simp only at h
    have hj := (lexical_contained fs c.env _ _ id path hr).2.2.2.1
    unfold existsP at h
    cases hw : walkP fs c.env true path with
    | err e => rw [hw] at h; cases h
    | absent d n tr g => rw [hw] at h; cases h
    | found q k g =>
      have hq : canon fs c.env path = some q := by unfold canon; rw [hw]
      obtain ⟨R, hR, hpre⟩ := resolve_ok_canon fs c.env _ _ id path hr q hq
      exact ⟨R, q, hR, hj ▸ hq, hpre⟩

/-- **read_confined (`path_for_id`).** The path `path_for_id` hands out is `base.join(id)`, and if
it leads anywhere at all, it leads to a location below the real root. -/
theorem read_confined_path_for_id (fs : FS) (c : Cfg) (id : Str) (j : Segs)
    (h : pathForId fs c id = some j) :
    j = pathJoin c.baseSegs (splitSlash id) ∧
      ∀ q, canon fs c.env j = some q → ∃ R, canon fs c.env c.rootSegs = some R ∧ R <+: q := by
  unfold pathForId at h
  cases hr : resolveWithinRoot fs c.env c.baseSegs c.rootSegs id with
  | error e => rw [hr] at h; cases h
  | ok path =>
    rw [hr] at h
    simp only [Option.some.injEq] at h
    subst h
    exact ⟨(lexical_contained fs c.env _ _ id path hr).2.2.2.1,
      fun q hq => resolve_ok_canon fs c.env _ _ id path hr q hq⟩

/-! ### write side: `add` -/

theorem resolveForWrite_ok (fs : FS) (env : Env) (base root : Segs) (id : Str) (j : Segs)
    (h : resolveForWrite fs env base root id = .ok j) :
    j = pathJoin base (splitSlash id) ∧ checkAncestors fs env root j (ancestors j) = .ok () := by
  unfold resolveForWrite at h
  cases hr : resolveWithinRoot fs env base root id with
  | error e => rw [hr] at h; cases h
  | ok path =>
    rw [hr] at h
    simp only at h
    cases hc : checkAncestors fs env root path (ancestors path) with
    | error e => rw [hc] at h; cases h
    | ok u =>
      rw [hc] at h
      simp only [Except.ok.injEq] at h
      subst h
      exact ⟨(lexical_contained fs env base root id path hr).2.2.2.1, hc⟩

/-- a relative path of normal names -/
theorem rooted_normals (names : List Str) (hne : names ≠ []) (hN : ∀ n ∈ names, NormalName n) :
    rooted names = false := by
  cases names with
  | nil => exact absurd rfl hne
  | cons n ns =>
    have := (hN n (by simp)).1
    cases n with
    | nil => exact absurd rfl this
    | cons a b => cases ns <;> simp [rooted]

/-- a path that resolves is `s0 :: Q'`, walked from `/` iff `s0` is empty -/
theorem walkP_found_cons (fs : FS) (env : Env) (A : Segs) (Bp : PPath) (k : Kind) (g : Nat)
    (hA : walkP fs env true A = .found Bp k g) :
    emptyPath A = false ∧ ∃ s0 Q', A = s0 :: Q' ∧
      walk fs true env.fuel (if s0 = [] then [] else env.cwd) (s0 :: Q') = .found Bp k g := by
  have hbe : emptyPath A = false := by
    cases he : emptyPath A with
    | false => rfl
    | true => unfold walkP at hA; simp [he] at hA
  refine ⟨hbe, ?_⟩
  unfold walkP at hA
  simp only [hbe, Bool.false_eq_true, if_false] at hA
  cases hb : A with
  | nil => rw [hb] at hbe; simp [emptyPath] at hbe
  | cons s0 Q' =>
    rw [hb] at hA
    have hst : env.start (s0 :: Q') = if s0 = [] then [] else env.cwd := by
      unfold Env.start
      cases s0 with
      | cons a b => simp [rooted]
      | nil =>
        cases Q' with
        | nil => rw [hb] at hbe; simp [emptyPath] at hbe
        | cons x y => simp [rooted]
    rw [hst] at hA
    exact ⟨s0, Q', rfl, hA⟩

/-- `base.join(names)` for a base that resolves to a directory: the segments of the base
(without a trailing separator) followed by the names -/
theorem base_key (fs : FS) (env : Env) (base : Segs) (names : List Str) (Bp : PPath) (g : Nat)
    (hbase : walkP fs env true base = .found Bp .dir g) (hnr : rooted names = false) :
    ∃ s0 Q' gQ, pathJoin base names = s0 :: Q' ++ names ∧
      walk fs true env.fuel (if s0 = [] then [] else env.cwd) (s0 :: Q') = .found Bp .dir gQ := by
  obtain ⟨hbe, s0', Q0, hA0, hw0⟩ := walkP_found_cons fs env base Bp .dir g hbase
  unfold walkP at hbase
  simp only [hbe, Bool.false_eq_true, if_false] at hbase
  have hj : pathJoin base names =
      if base.getLast? = some [] then base.dropLast ++ names else base ++ names := by
    unfold pathJoin
    simp only [hnr, hbe, Bool.false_eq_true, if_false]
  by_cases hlast : base.getLast? = some []
  · simp only [hlast, if_true] at hj
    rcases list_snoc_cases base with hnil | ⟨init, l, hil⟩
    · rw [hnil] at hlast; simp at hlast
    · have hl : l = [] := by rw [hil] at hlast; simpa using hlast
      subst hl
      cases init with
      | nil => rw [hil] at hbe; simp [emptyPath] at hbe
      | cons s0 Q' =>
        rw [hil] at hbase hj
        simp only [List.dropLast_concat] at hj
        have hst : env.start (s0 :: Q' ++ [[]]) = if s0 = [] then [] else env.cwd := by
          have := rooted_cons_append s0 Q' [[]] (by simp)
          unfold Env.start
          simp only [List.cons_append] at this ⊢
          by_cases h0 : s0 = []
          · subst h0; simp at this; simp [this]
          · simp [h0] at this; simp [this, h0]
        rw [hst] at hbase
        obtain ⟨p', g', h1, h2⟩ := walk_append_found fs true _ _ (s0 :: Q') [[]] (by simp) _ _ _ hbase
        have h3 := walk_skips fs true [[]] g' p' (by simp [isSkip])
        rw [h2] at h3
        split at h3
        · simp only [Res.found.injEq, true_and] at h3
          rw [h3.1]
          exact ⟨s0, Q', g', hil ▸ hj, h1⟩
        · cases h3
  · simp only [hlast, if_false] at hj
    subst hA0
    exact ⟨s0', Q0, g, hj, hw0⟩

/-- **Core of the write side.** `resolve_within_root_for_write(base, root, rel)`,
`create_dir_all(parent)`, `write` — for a `rel` made of normal names, a root that resolves to
`R`, and a base of the form `A/m₁/…/mₖ` (`k ≥ 0`, plain names) whose part `A` resolves to a
directory really inside `R` (the `mᵢ` need not exist): whatever the links in the tree, and
whether the operation succeeds or fails half-way, every location at which the tree differs
afterwards is below `R`. -/
theorem checkedWrite_confined (fs : FS) (env : Env) (A M root : Segs) (rel data : Str)
    (names : List Str) (R Bp : PPath) (g : Nat)
    (hwf : fs.WF) (hroot : canon fs env root = some R)
    (hA : walkP fs env true A = .found Bp .dir g) (hin : R <+: Bp)
    (hM : ∀ m ∈ M, NormalName m)
    (hne : names ≠ []) (hN : ∀ n ∈ names, NormalName n) (hsplit : splitSlash rel = names) :
    ∀ p, (checkedWrite fs env (A ++ M) root rel data).2.look p ≠ fs.look p → R <+: p := by
  intro p
  unfold checkedWrite
  cases hr : resolveForWrite fs env (A ++ M) root rel with
  | error e => cases e <;> (intro h; exact absurd rfl h)
  | ok path =>
    simp only
    obtain ⟨hj, hchk⟩ := resolveForWrite_ok fs env _ _ rel path hr
    rw [hsplit] at hj
    have hnr := rooted_normals names hne hN
    have key : ∃ s0 Q' gQ, path = s0 :: Q' ++ (M ++ names) ∧
        walk fs true env.fuel (if s0 = [] then [] else env.cwd) (s0 :: Q') = .found Bp .dir gQ := by
      rcases list_snoc_cases M with hM0 | ⟨Mi, ml, hMl⟩
      · subst hM0
        simp only [List.append_nil] at hj
        obtain ⟨s0, Q', gQ, h1, h2⟩ := base_key fs env A names Bp g hA hnr
        exact ⟨s0, Q', gQ, by rw [hj, h1]; simp, h2⟩
      · obtain ⟨hbe, s0, Q', hAe, hw⟩ := walkP_found_cons fs env A Bp .dir g hA
        have hml : NormalName ml := hM ml (by rw [hMl]; simp)
        refine ⟨s0, Q', g, ?_, hw⟩
        rw [hj]
        unfold pathJoin
        have he : emptyPath (A ++ M) = false := by
          rw [hAe, hMl]; simp [emptyPath]
        have hl : (A ++ M).getLast? ≠ some [] := by
          rw [hMl, ← List.append_assoc, List.getLast?_concat]
          intro h; exact hml.1 (Option.some.inj h)
        simp only [hnr, he, hl, Bool.false_eq_true, if_false]
        rw [hAe]; simp
    obtain ⟨s0, Q', gQ, hpath, hQ⟩ := key
    let B : BaseCtx :=
      { fs := fs, env := env, s0 := s0, Q' := Q', Bp := Bp, gQ := gQ, R := R, root := root
        hwf := hwf, hQ := hQ, hroot := hroot, hin := hin }
    have hMN : ∀ n ∈ M ++ names, NormalName n := by
      intro n hn
      rcases List.mem_append.1 hn with h | h
      · exact hM n h
      · exact hN n h
    have := B.add_core (M ++ names) (by simp [hne]) hMN
      (by simpa [B, BaseCtx.Q, hpath] using hchk) data p
    simpa [B, BaseCtx.Q, hpath] using this

/-- **write_confined.** `ResourceStore::add`, in a well-formed tree in which the configured root
resolves to `R` and the configured base directory resolves to a directory really inside `R`:
whatever the identifier, the data and the symbolic links in the tree (into or out of the root,
chained, looping, dangling), and whether `add` succeeds or fails half-way, every location at
which the tree differs afterwards is below `R`. -/
theorem write_confined (fs : FS) (c : Cfg) (id data : Str) (R Bp : PPath) (g : Nat)
    (hwf : fs.WF)
    (hroot : canon fs c.env c.rootSegs = some R)
    (hbase : walkP fs c.env true c.baseSegs = .found Bp .dir g)
    (hin : R <+: Bp) :
    ∀ p, (add fs c id data).2.look p ≠ fs.look p → R <+: p := by
  intro p
  unfold add
  cases hs : sanitize id with
  | error e => intro h; exact absurd rfl h
  | ok sid =>
    simp only
    obtain ⟨names, hne, hN, _, hsplit, _⟩ := sanitize_shape id sid hs
    have := checkedWrite_confined fs c.env c.baseSegs [] c.rootSegs sid data names R Bp g hwf hroot
      hbase hin (by simp) hne (fun n hn => (hN n hn).1) hsplit p
    simpa using this

/-- **write_confined_missing_base.** The same when the configured base directory does not exist
yet: the base path is `A/m₁/…/mₖ` where `A` resolves to a directory really inside `R` and the
`mᵢ` are plain names (which `create_dir_all` creates on the way, or which exist, or which are
symbolic links — then the ancestor loop of `resolve_within_root_for_write` decides). -/
theorem write_confined_missing_base (fs : FS) (c : Cfg) (id data : Str) (A M : Segs)
    (R Bp : PPath) (g : Nat)
    (hwf : fs.WF)
    (hroot : canon fs c.env c.rootSegs = some R)
    (hsplitB : c.baseSegs = A ++ M) (hM : ∀ m ∈ M, NormalName m)
    (hA : walkP fs c.env true A = .found Bp .dir g)
    (hin : R <+: Bp) :
    ∀ p, (add fs c id data).2.look p ≠ fs.look p → R <+: p := by
  intro p
  unfold add
  cases hs : sanitize id with
  | error e => intro h; exact absurd rfl h
  | ok sid =>
    simp only
    obtain ⟨names, hne, hN, _, hsplit, _⟩ := sanitize_shape id sid hs
    rw [hsplitB]
    exact checkedWrite_confined fs c.env A M c.rootSegs sid data names R Bp g hwf hroot
      hA hin hM hne (fun n hn => (hN n hn).1) hsplit p

/-- **export_write_confined.** One item of `Reader::to_folder(dest)` — `write_bytes(uri_to_path(uri,
label)?, data)?` — with the destination folder resolving to the directory `R` (it does after the
initial `create_dir_all`): whatever the URI, the manifest label, the data and the symbolic links
already present in or below the folder, and whether it succeeds or fails half-way, every location
at which the tree differs afterwards is below `R`. -/
theorem export_write_confined (fs : FS) (env : Env) (dest : Segs) (uri : Str) (label : Option Str)
    (data : Str) (R : PPath) (g : Nat)
    (hwf : fs.WF) (hdest : walkP fs env true dest = .found R .dir g) :
    ∀ p, (exportItem fs env dest uri label data).2.look p ≠ fs.look p → R <+: p := by
  intro p
  unfold exportItem
  cases hu : uriToPath uri label with
  | error e => intro h; exact absurd rfl h
  | ok rel =>
    simp only
    obtain ⟨⟨names, hne, hN, hs, _⟩, _⟩ := export_confined uri label rel hu
    have hsplit : splitSlash rel = names := by
      rw [hs]; exact splitSlash_joinSlash names hne (fun n hn => (hN n hn).1.2.2.2)
    have hroot : canon fs env dest = some R := by unfold canon; rw [hdest]
    unfold exportRel
    have := checkedWrite_confined fs env dest [] dest rel data names R R g hwf hroot hdest
      (List.prefix_refl R) (by simp) hne (fun n hn => (hN n hn).1) hsplit p
    simpa using this

/-! ### witnesses -/

theorem lookup_ne_none_mem {α β : Type} [BEq α] [LawfulBEq α] :
    ∀ (l : List (α × β)) (k : α), l.lookup k ≠ none → ∃ v, (k, v) ∈ l := by
  intro l
  induction l with
  | nil => intro k h; simp at h
  | cons e l ih =>
    intro k h
    obtain ⟨a, b⟩ := e
    rw [List.lookup_cons] at h
    by_cases hk : (k == a) = true
    · have : k = a := by simpa using hk
      subst this
      exact ⟨b, by simp⟩
    · have hk' : (k == a) = false := by simpa using hk
      rw [hk'] at h
      obtain ⟨v, hv⟩ := ih k h
      exact ⟨v, by simp [hv]⟩

/-- a decidable criterion for well-formedness of a concrete tree -/
theorem wf_of_nodes (nodes : List (PPath × Kind))
    (h : ∀ e ∈ nodes, e.1 = [] ∨ (FS.mk nodes).look e.1.dropLast = some .dir) :
    (FS.mk nodes).WF := by
  intro p n hne
  obtain ⟨v, hv⟩ := lookup_ne_none_mem nodes (p ++ [n]) hne
  rcases h _ hv with h1 | h1
  · simp at h1
  · simpa using h1

/-- `/r` and `/o` are directories, `/r/l -> /o` is a symbolic link inside `/r` leaving it -/
def fsW : FS :=
  ⟨[([], .dir), ([[114]], .dir), ([[111]], .dir), ([[114], [108]], .link [47, 111])]⟩
def envW : Env := { cwd := [], fuel := 16 }
/-- base path `/r`, root defaulting to it -/
def cfgW : Cfg := { env := envW, base := [47, 114], root := none }

theorem fsW_wf : fsW.WF := wf_of_nodes _ (by decide)

/-- `write_confined` is not vacuous: its hypotheses hold for `fsW`/`cfgW`, where
`add("x")` succeeds and creates `/r/x` … -/
example : canon fsW cfgW.env cfgW.rootSegs = some [[114]] ∧
    walkP fsW cfgW.env true cfgW.baseSegs = .found [[114]] .dir 14 ∧
    (add fsW cfgW [120] [1]).1 = .ok ∧
    (add fsW cfgW [120] [1]).2.look [[114], [120]] = some (.file [1]) := by decide

/-- … and `add("l/x")`, which would land in `/o` through the link, is refused and changes
nothing. -/
example : (add fsW cfgW [108, 47, 120] [1]).1 = .bad ∧
    (add fsW cfgW [108, 47, 120] [1]).2.look [[111], [120]] = none := by decide

/-- `write_confined_missing_base` is not vacuous: base path `/r/n/m` with neither `n` nor `m`
there (`A = /r`, `M = [n, m]`): `add("x")` creates `/r/n`, `/r/n/m` and the file … -/
def cfgM : Cfg := { env := envW, base := [47, 114, 47, 110, 47, 109], root := some [47, 114] }
example : cfgM.baseSegs = [[], [114]] ++ [[110], [109]] ∧
    walkP fsW cfgM.env true [[], [114]] = .found [[114]] .dir 14 ∧
    canon fsW cfgM.env cfgM.rootSegs = some [[114]] ∧
    (add fsW cfgM [120] [1]).1 = .ok ∧
    (add fsW cfgM [120] [1]).2.look [[114], [110], [109], [120]] = some (.file [1]) ∧
    (add fsW cfgM [120] [1]).2.look [[114], [110]] = some .dir := by decide

/-- … and with the base path `/r/l/m` (`l` the link to `/o`, `m` missing) `add("x")`, which
would create `/o/m/x`, is refused. -/
example : (add fsW { cfgM with base := [47, 114, 47, 108, 47, 109] } [120] [1]).1 = .bad := by decide

/-- `export_write_confined` is not vacuous: `to_folder("/r")` writes the item `x` to `/r/x`, and
refuses the item `l/x` (URI `self#jumbf=/c2pa/l/x`), which would land in `/o`. -/
example : walkP fsW envW true [[], [114]] = .found [[114]] .dir 14 ∧
    (exportItem fsW envW [[], [114]] [120] none [1]).1 = .ok ∧
    (exportItem fsW envW [[], [114]] [120] none [1]).2.look [[114], [120]] = some (.file [1]) ∧
    (exportItem fsW envW [[], [114]] (selfJumbf ++ c2paPrefix ++ [108, 47, 120]) none [1]).1 = .bad ∧
    (exportItem fsW envW [[], [114]] (selfJumbf ++ c2paPrefix ++ [108, 47, 120]) none [1]).2.look
      [[111], [120]] = none := by decide

/-- The check-free `join` + `create_dir_all` + `write` (what `Reader::to_folder`'s `write_bytes`
and `ResourceStore::add` were before they called `resolve_within_root_for_write` — defect F7) is
confined for every tree and every sanitized relative path. -/
def UncheckedWriteConfined : Prop :=
  ∀ (fs : FS) (env : Env) (dest : Segs) (rel data : Str) (R : PPath),
    fs.WF → canon fs env dest = some R → sanitize rel = .ok rel →
    ∀ p, (writeUnder fs env dest rel data).2.look p ≠ fs.look p → R <+: p

/-- It is not: through the directory link `/r/l -> /o`, writing `l/x` below `/r` creates `/o/x`.
(Replayed on the implementation by the harness: `f7_replay` for `add`, `tofolder_replay` for
`Reader::to_folder`; both now refuse — `write_confined`, `export_write_confined`.) -/
theorem unchecked_write_escapes : ¬ UncheckedWriteConfined := by
  intro h
  have := h fsW envW (splitSlash [47, 114]) [108, 47, 120] [1] [[114]] fsW_wf (by decide)
    (by rfl) [[111], [120]] (by decide)
  revert this
  decide

/-- Two trees that both resolve the root to `R` and agree on everything below `R` get the same
answer from the read-side operation `obs`: nothing about what exists outside the root shows. -/
def RevealsNothing {α : Type} (obs : FS → Cfg → Str → α) : Prop :=
  ∀ (fs fs' : FS) (c : Cfg) (id : Str) (R : PPath),
    fs.WF → fs'.WF → canon fs c.env c.rootSegs = some R → canon fs' c.env c.rootSegs = some R →
    (∀ p, R <+: p → fs.look p = fs'.look p) →
    obs fs c id = obs fs' c id

/-- the full "reveal the existence of" clause, for `path_for_id` -/
def ReadsRevealNothing : Prop := RevealsNothing pathForId

/-- `/r/k -> /o/s`; `/o/s` exists -/
def fsK1 : FS :=
  ⟨[([], .dir), ([[114]], .dir), ([[111]], .dir), ([[114], [107]], .link [47, 111, 47, 115]),
    ([[111], [115]], .file [7])]⟩
/-- the same without `/o/s` -/
def fsK2 : FS :=
  ⟨[([], .dir), ([[114]], .dir), ([[111]], .dir), ([[114], [107]], .link [47, 111, 47, 115])]⟩

theorem fsK_agree : ∀ p, [[114]] <+: p → fsK1.look p = fsK2.look p := by
  intro p hp
  obtain ⟨t, rfl⟩ := hp
  cases t with
  | nil => decide
  | cons a t =>
    cases t with
    | nil => simp [fsK1, fsK2, FS.look, List.lookup]
    | cons b t => simp [fsK1, fsK2, FS.look, List.lookup]

/-- The code falsifies it: `path_for_id("k")`, with `/r/k -> /o/s` planted in the base
directory `/r`, is `None` when `/o/s` exists and `Some("/r/k")` when it does not — the
existence of a file outside the root is revealed. (Replayed on the implementation by the
harness: `leak_replay` and the outside-existence probe, class `outside-existence-leak`.) What
does hold is `read_confined_*`: every positive answer is about a location below the real root. -/
theorem reads_reveal_outside_existence : ¬ ReadsRevealNothing := by
  intro h
  have := h fsK1 fsK2 cfgW [107] [[114]] (wf_of_nodes _ (by decide)) (wf_of_nodes _ (by decide))
    (by decide) (by decide) fsK_agree
  revert this
  decide

/-- The same two trees tell `write_stream("k")` apart: `ResourceNotFound` when `/o/s` exists
(`resolve_within_root` rejects the escaping link), `IoError` when it does not (the dangling link
passes and `File::open` fails). -/
theorem write_stream_reveals_outside_existence : ¬ RevealsNothing writeStream := by
  intro h
  have := h fsK1 fsK2 cfgW [107] [[114]] (wf_of_nodes _ (by decide)) (wf_of_nodes _ (by decide))
    (by decide) (by decide) fsK_agree
  revert this
  decide

example : writeStream fsK1 cfgW [107] = .notFound ∧ writeStream fsK2 cfgW [107] = .io := by decide

/-- … and `get("k")`: `ResourceNotFound("k")` when `/o/s` exists, `ResourceNotFound("/r/k")`
when it does not (the payload of the error differs). -/
theorem get_reveals_outside_existence : ¬ RevealsNothing get := by
  intro h
  have := h fsK1 fsK2 cfgW [107] [[114]] (wf_of_nodes _ (by decide)) (wf_of_nodes _ (by decide))
    (by decide) (by decide) fsK_agree
  revert this
  decide

example : get fsK1 cfgW [107] = .notFound [107] ∧
    get fsK2 cfgW [107] = .notFound [47, 114, 47, 107] := by decide

/-- `/r/k -> /o/l`, `/o/l -> /r/f`, `/r/f` a file: a chain that leaves the root and comes back -/
def fsE1 : FS :=
  ⟨[([], .dir), ([[114]], .dir), ([[111]], .dir), ([[114], [107]], .link [47, 111, 47, 108]),
    ([[111], [108]], .link [47, 114, 47, 102]), ([[114], [102]], .file [7])]⟩
/-- the same without the link `/o/l` outside the root -/
def fsE2 : FS :=
  ⟨[([], .dir), ([[114]], .dir), ([[111]], .dir), ([[114], [107]], .link [47, 111, 47, 108]),
    ([[114], [102]], .file [7])]⟩

theorem fsE_agree : ∀ p, [[114]] <+: p → fsE1.look p = fsE2.look p := by
  intro p hp
  obtain ⟨t, rfl⟩ := hp
  cases t with
  | nil => decide
  | cons a t =>
    cases t with
    | nil =>
      simp only [fsE1, fsE2, FS.look, List.lookup, List.cons_append, List.nil_append]
      by_cases h1 : a = [107]
      · subst h1; decide
      · by_cases h2 : a = [102]
        · subst h2; decide
        · simp [h1, h2]
    | cons b t => simp [fsE1, fsE2, FS.look, List.lookup]

/-- `exists` is not silent either: `exists("k")` is `true` when the link `/o/l` outside the root
is there (the chain ends at `/r/f`, inside) and `false` when it is not. (The simple case — a
link straight to a file outside — does not show through `exists`: it answers `false` both
times.) -/
theorem exists_reveals_outside_existence : ¬ RevealsNothing existsId := by
  intro h
  have := h fsE1 fsE2 cfgW [107] [[114]] (wf_of_nodes _ (by decide)) (wf_of_nodes _ (by decide))
    (by decide) (by decide) fsE_agree
  revert this
  decide

example : existsId fsE1 cfgW [107] = true ∧ existsId fsE2 cfgW [107] = false ∧
    existsId fsK1 cfgW [107] = false ∧ existsId fsK2 cfgW [107] = false := by decide

end C2pa.C29
