import C2paModel.Lemmas.C20Loop
import C2paModel.Lemmas.C20Store
import C2paModel.Lemmas.C20Filter
import C2paModel.Lemmas.C20Reach
import C2paModel.Lemmas.C20Still
import C2paModel.Lemmas.C20Bridge
import C2paModel.Gen.C20Labels
import C2paModel.Props.C04
/-
C20 — property theorems. The statement (properties.jsonl):

  When a manifest redacts assertions of its ingredients, the output no longer contains the
  redacted assertion data, still validates, and lists exactly the requested redactions.
  Redacting action or hard-binding assertions, redacting in the manifest's own assertions, or
  removing an assertion without a matching redaction entry is never reported Valid.

All theorems quantify over every claim / store / redaction list / log prefix of the model
(`Model/C20.lean`); "never reported Valid" is closed with the model of
`ValidationResults::from_store` (`fromStoreFilter` with the real `keep`, `Lemmas/C20Filter.lean`)
followed by the C04 model of `add_status` / `validation_state` (`reportS`): for **every** URL
decoration of the log (`Decorates`) and **every** content of the ingredient assertions (`recs`).

The clause "never Valid" was false of the code before `fixes/C20-from-store-active-claim-status-filter.patch`:
`from_store` dropped a status whose URL names another manifest when an equal status was listed in
any ingredient assertion, also for statuses of the active claim's own validation (a disallowed
redaction is logged with the URI of the redacted ingredient assertion). `prefix_filter_bypass`
below is that counter-example on the model of the old predicate; the harness replays it on the
implementation (kinds `crafted_actions_prerec`, `crafted_hash_prerec`, `crafted_hash_stripped_prerec`).
-/
namespace C2pa.C20
open C2pa.C34

/-! ### shape of `verify_claim` -/

def headEvents (c : Claim) (ing : Bool) : List Ev :=
  sigEvents c ing ++ redactionRules c ing ++ manifestRules c ing

/-- what `verify_claim` returns, spelled out -/
theorem verifyClaim_spec (c : Claim) (reds : List Str) (map : List Claim) (ing : Bool) (o : Out)
    (h : verifyClaim c reds map ing = some o) :
    ∃ keys refs, parseRedactions reds = some keys ∧ parseRefs c.assertions = some refs ∧
      (((assertionLoop c keys ing refs c.store).2 ≠ [] ∧ o.err = true ∧
          ∃ tail, o.log = headEvents c ing ++ (assertionLoop c keys ing refs c.store).1 ++ tail) ∨
       ((assertionLoop c keys ing refs c.store).2 = [] ∧ o.err = false ∧
          ∃ av, actionsFor c map ing = some av ∧
            o.log = headEvents c ing ++ (assertionLoop c keys ing refs c.store).1 ++ av)) := by
  unfold verifyClaim at h
  cases hk : parseRedactions reds with
  | none => simp [hk] at h
  | some keys =>
    cases hr : parseRefs c.assertions with
    | none => simp [hk, hr] at h
    | some refs =>
      refine ⟨keys, refs, rfl, rfl, ?_⟩
      simp only [hk, hr, Option.bind_eq_bind, Option.bind_some] at h
      cases hl : assertionLoop c keys ing refs c.store with
      | mk loopEv track =>
        rw [hl] at h
        simp only [] at h
        cases track with
        | nil =>
          right
          simp only [List.isEmpty_nil, Bool.not_true, Bool.false_eq_true, if_false] at h
          cases ha : actionsFor c map ing with
          | none => simp [ha] at h
          | some av =>
            simp only [ha, Option.bind_some, Option.pure_def, Option.some.injEq] at h
            subst h
            exact ⟨rfl, rfl, av, rfl, rfl⟩
        | cons t ts =>
          left
          simp only [List.isEmpty_cons, Bool.not_false, if_true, Option.pure_def, Option.some.injEq] at h
          subst h
          exact ⟨by simp, rfl, _, rfl⟩

/-- every rule-block event and every assertion-loop event is in the log `verify_claim` returns -/
theorem verifyClaim_log_contains (c : Claim) (reds : List Str) (map : List Claim) (ing : Bool) (o : Out)
    (h : verifyClaim c reds map ing = some o) :
    ∃ keys refs, parseRedactions reds = some keys ∧ parseRefs c.assertions = some refs ∧
      (∀ e ∈ headEvents c ing, e ∈ o.log) ∧
      (∀ e ∈ (assertionLoop c keys ing refs c.store).1, e ∈ o.log) := by
  obtain ⟨keys, refs, hk, hr, hcase⟩ := verifyClaim_spec c reds map ing o h
  refine ⟨keys, refs, hk, hr, ?_, ?_⟩
  · intro e he
    rcases hcase with ⟨_, _, tail, hl⟩ | ⟨_, _, av, _, hl⟩ <;>
      (rw [hl]; exact List.mem_append_left _ (List.mem_append_left _ he))
  · intro e he
    rcases hcase with ⟨_, _, tail, hl⟩ | ⟨_, _, av, _, hl⟩ <;>
      (rw [hl]; exact List.mem_append_left _ (List.mem_append_right _ he))

/-! ### disallowed redactions -/

def cSelfRedacted : Str := "assertion.selfRedacted".toList
def cActionRedacted : Str := "assertion.action.redacted".toList
def cHashRedacted : Str := "assertion.dataHash.redacted".toList
def cMissing : Str := "assertion.missing".toList
def cMismatch : Str := "assertion.hashedURI.mismatch".toList
def cIngMismatch : Str := "ingredient.manifest.mismatch".toList

theorem redaction_codes_not_tolerated :
    C04.tolerated cSelfRedacted = false ∧ C04.tolerated cActionRedacted = false ∧
    C04.tolerated cHashRedacted = false ∧ C04.tolerated cMissing = false ∧
    C04.tolerated cMismatch = false ∧ C04.tolerated cIngMismatch = false := by decide

/-- what the statement calls a disallowed redaction entry, *as the code tests it* (substring
tests on the URI text): it mentions the claim's own label, an actions label or a hard-binding
label -/
def Disallowed (c : Claim) (r : Str) : Prop :=
  containsSub c.label r = true ∨ containsSub cActions r = true ∨
    ∃ l ∈ hashLabels, containsSub l r = true

/-- the rule block logs a failure for every disallowed entry of the claim's redaction list -/
theorem disallowed_redaction_flagged (c : Claim) (ing : Bool) (rs : List Str) (r : Str)
    (hrs : c.redactions = some rs) (hr : r ∈ rs) (hd : Disallowed c r) :
    ∃ e ∈ redactionRules c ing, e.isFailure = true ∧ e.ing = ing ∧
      (e.code = cSelfRedacted ∨ e.code = cActionRedacted ∨ e.code = cHashRedacted) := by
  unfold redactionRules
  rw [hrs]
  simp only [List.mem_flatMap]
  rcases hd with h | h | ⟨l, hl, h⟩
  · refine ⟨fail "assertion.selfRedacted" ing, ⟨r, hr, ?_⟩, rfl, rfl, Or.inl rfl⟩
    unfold redactionRulesFor; simp [h]
  · refine ⟨fail "assertion.action.redacted" ing, ⟨r, hr, ?_⟩, rfl, rfl, Or.inr (Or.inl rfl)⟩
    unfold redactionRulesFor; simp [h]
  · refine ⟨fail "assertion.dataHash.redacted" ing, ⟨r, hr, ?_⟩, rfl, rfl, Or.inr (Or.inr rfl)⟩
    have : hashLabels.any (fun l => containsSub l r) = true := List.any_eq_true.2 ⟨l, hl, h⟩
    unfold redactionRulesFor; simp [this]

/-- conversely the rule block is silent when no entry is disallowed -/
theorem redactionRules_nil_of_allowed (c : Claim) (ing : Bool)
    (h : ∀ rs, c.redactions = some rs → ∀ r ∈ rs, ¬ Disallowed c r) : redactionRules c ing = [] := by
  unfold redactionRules
  cases hrs : c.redactions with
  | none => rfl
  | some rs =>
    simp only [List.flatMap_eq_nil_iff]
    intro r hr
    have hn := h rs hrs r hr
    unfold Disallowed at hn
    have h1 : containsSub c.label r = false := by
      cases hc : containsSub c.label r <;> simp_all
    have h2 : containsSub cActions r = false := by
      cases hc : containsSub cActions r <;> simp_all
    have h3 : hashLabels.any (fun l => containsSub l r) = false := by
      cases hc : hashLabels.any (fun l => containsSub l r)
      · rfl
      · obtain ⟨l, hl, hl'⟩ := List.any_eq_true.1 hc
        exact absurd (Or.inr (Or.inr ⟨l, hl, hl'⟩)) hn
    unfold redactionRulesFor; simp [h1, h2, h3]

/-- **disallowed_redaction_invalid** — whenever `verify_claim` runs on a claim (active manifest or
ingredient) whose redaction list has a disallowed entry, the log carries a non-tolerated
failure; unless that very status was already recorded in an ingredient assertion (`keep`),
the reported validation state (C04) is `Invalid`, whatever else is logged before or after. -/
theorem disallowed_redaction_invalid (c : Claim) (reds : List Str) (map : List Claim) (ing : Bool)
    (o : Out) (h : verifyClaim c reds map ing = some o)
    (rs : List Str) (r : Str) (hrs : c.redactions = some rs) (hr : r ∈ rs) (hd : Disallowed c r)
    (pre post : List Ev) (sts : List St) (hdec : Decorates sts (pre ++ o.log ++ post))
    (active : Str) (recs : List Rec) (uriOf : St → List Char) (r0 res : C04.Results)
    (hrep : reportS active recs uriOf r0 sts = some res)
    (hrec : ing = true → ∀ s ∈ sts, s.ing = true →
      (s.code = cSelfRedacted ∨ s.code = cActionRedacted ∨ s.code = cHashRedacted) →
        recordedIn recs s = false) :
    C04.state res = .invalid := by
  obtain ⟨e, he, hf, hing, hc⟩ := disallowed_redaction_flagged c ing rs r hrs hr hd
  obtain ⟨_, _, _, _, hhead, _⟩ := verifyClaim_log_contains c reds map ing o h
  have hin : e ∈ o.log := hhead e (List.mem_append_left _ (List.mem_append_right _ he))
  have hin' : e ∈ pre ++ o.log ++ post := List.mem_append_left _ (List.mem_append_right _ hin)
  have ht : C04.tolerated e.code = false := by
    obtain ⟨t1, t2, t3, _⟩ := redaction_codes_not_tolerated
    rcases hc with hc | hc | hc <;> rw [hc] <;> assumption
  cases hi : ing
  · exact active_scope_failure_invalid _ e hin' hf (by rw [hing, hi]) ht sts hdec active recs uriOf r0 res hrep
  · refine unrecorded_failure_invalid _ e hin' hf ht sts hdec active recs uriOf r0 res ?_ hrep
    intro s hs hcode hsi
    exact hrec hi s hs hsi (by rw [hcode]; exact hc)

/-- **store level, active manifest** — `verify_store` on a store whose active manifest has a
disallowed redaction entry either returns `Err` (the Reader fails) or the Reader's state is
`Invalid`: for every URL the logged items carry and **whatever the ingredient assertions of the
store record** (no `keep` hypothesis: statuses of the active claim's own validation are never
filtered by `from_store`). -/
theorem active_disallowed_redaction_never_valid (s : Store) (o : Out) (h : verifyStore s = some o)
    (root : Claim) (hroot : s.getLast? = some root)
    (rs : List Str) (r : Str) (hrs : root.redactions = some rs) (hr : r ∈ rs) (hd : Disallowed root r)
    (sts : List St) (hdec : Decorates sts o.log)
    (active : Str) (recs : List Rec) (uriOf : St → List Char) (r0 res : C04.Results)
    (hrep : reportS active recs uriOf r0 sts = some res) :
    o.err = true ∨ C04.state res = .invalid := by
  rcases verifyStore_contains_root s o h with herr | ⟨root', reds, map, vc, hr', hv, hsub⟩
  · exact Or.inl herr
  · right
    rw [hroot] at hr'; cases hr'
    obtain ⟨e, he, hf, hing, hc⟩ := disallowed_redaction_flagged root false rs r hrs hr hd
    obtain ⟨_, _, _, _, hhead, _⟩ := verifyClaim_log_contains root reds map false vc hv
    have hin : e ∈ o.log := hsub e (hhead e (List.mem_append_left _ (List.mem_append_right _ he)))
    have ht : C04.tolerated e.code = false := by
      obtain ⟨t1, t2, t3, _⟩ := redaction_codes_not_tolerated
      rcases hc with hc | hc | hc <;> rw [hc] <;> assumption
    exact active_scope_failure_invalid _ e hin hf hing ht sts hdec active recs uriOf r0 res hrep

/-- the filter as it was before the repair: no exemption for statuses of the active claim's own
validation -/
def keepOld (active : Str) (recs : List Rec) (s : St) : P Bool := do
  let a ← isActiveUrl active s.url
  pure (a || !recordedIn recs s)

def exBypassSt : St :=
  ⟨cHashRedacted, some "self#jumbf=/c2pa/urn:c2pa:ing/c2pa.assertions/c2pa.hash.data".toList, .failure, false⟩

/-- **counter-example to the full statement on the unrepaired filter** (replayed on the
implementation by the harness): the status the validator logs for a redaction of the
ingredient's hard binding, recorded by the active manifest's signer in its own ingredient
assertion, is dropped by the old predicate and kept by the repaired one. -/
theorem prefix_filter_bypass :
    keepOld "urn:c2pa:act".toList [⟨exBypassSt.code, exBypassSt.url, .failure⟩] exBypassSt = some false ∧
    keep "urn:c2pa:act".toList [⟨exBypassSt.code, exBypassSt.url, .failure⟩] exBypassSt = some true := by
  decide

/-! ### what a redaction *targets* (parsed key) versus what the rule *tests* (URI text) -/

/-- **protected_target_disallowed** — a redaction URI from which `assertion_label_from_link`
extracts a label that starts with `c2pa.actions` or with a hard-binding label is `Disallowed`
for every claim: the `contains` tests of the rule block see the label in the URI text. (A change
of URI normalisation under which the skip of the assertion loop still matches but the literal
`contains` does not would break this theorem's proof through the C34 model.) -/
theorem protected_target_disallowed (c : Claim) (r l : Str) (i : Nat)
    (hl : assertionLabelFromLink r = some (l, i))
    (hp : cActions.isPrefixOf l = true ∨ ∃ h ∈ hashLabels, h.isPrefixOf l = true) :
    Disallowed c r := by
  rcases hp with h | ⟨p, hp, h⟩
  · exact Or.inr (Or.inl (label_prefix_in_uri r l i hl cActions (Or.inl rfl) h))
  · exact Or.inr (Or.inr ⟨p, hp, label_prefix_in_uri r l i hl p (Or.inr hp) h⟩)

/-- a redaction URI whose manifest label (`manifest_label_from_uri`) is the claim's own label is
`Disallowed` (self-redaction) -/
theorem self_target_disallowed (c : Claim) (r : Str)
    (hm : manifestLabelFromUri r = some (some c.label)) : Disallowed c r :=
  Or.inl (manifest_label_in_uri r c.label hm)

/-- in terms of the parsed key the assertion loop uses for its skip: whenever a redaction entry
of a claim would make the loop skip (`isRedacted`) a hashed URI whose label is protected, or a
hashed URI of the claim itself, the entry is `Disallowed` — and therefore flagged
(`disallowed_redaction_flagged`) -/
theorem skipping_protected_is_disallowed (c : Claim) (r : Str) (k : RedKey)
    (hk : parseRedaction r = some k)
    (hp : k.manifest = c.label ∧ k.manifest ≠ [] ∨ cActions.isPrefixOf k.label = true ∨
      ∃ h ∈ hashLabels, h.isPrefixOf k.label = true) : Disallowed c r := by
  unfold parseRedaction at hk
  cases hm : manifestLabelFromUri r with
  | none => simp [hm] at hk
  | some om =>
    cases hl : assertionLabelFromLink r with
    | none => simp [hm, hl] at hk
    | some li =>
      obtain ⟨l, i⟩ := li
      simp only [hm, hl, Option.bind_eq_bind, Option.bind_some, Option.pure_def,
        Option.some.injEq] at hk
      subst hk
      rcases hp with ⟨h1, h2⟩ | h | h
      · cases om with
        | none => simp at h2
        | some m =>
          simp only [Option.getD_some] at h1
          rw [h1] at hm
          exact self_target_disallowed c r hm
      · exact protected_target_disallowed c r l i hl (Or.inl h)
      · exact protected_target_disallowed c r l i hl (Or.inr h)

/-! ### removal / change without a matching redaction -/

/-- **removal_without_redaction_invalid** — a hashed URI of a verified claim whose assertion is no
longer in the assertion store and which is covered by no redaction of the hierarchy
(`svi.redactions`) yields `assertion.missing`; the reported state is `Invalid`. -/
theorem removal_without_redaction_invalid (c : Claim) (reds : List Str) (map : List Claim) (ing : Bool)
    (o : Out) (h : verifyClaim c reds map ing = some o)
    (keys : List RedKey) (refs : List Ref)
    (hk : parseRedactions reds = some keys) (hrefs : parseRefs c.assertions = some refs)
    (r : Ref) (hr : r ∈ refs)
    (hnot : isRedacted keys c.label r.label r.inst = false)
    (hgone : findCA c r.label r.inst = none)
    (pre post : List Ev) (sts : List St) (hdec : Decorates sts (pre ++ o.log ++ post))
    (active : Str) (recs : List Rec) (uriOf : St → List Char) (r0 res : C04.Results)
    (hrep : reportS active recs uriOf r0 sts = some res)
    (hrec : ing = true → ∀ s ∈ sts, s.code = cMissing → s.ing = true → recordedIn recs s = false) :
    fail "assertion.missing" ing ∈ o.log ∧ C04.state res = .invalid := by
  obtain ⟨keys', refs', hk', hr', _, hloop⟩ := verifyClaim_log_contains c reds map ing o h
  rw [hk] at hk'; cases hk'
  rw [hrefs] at hr'; cases hr'
  obtain ⟨t, ht⟩ := step_sub_loop c keys ing refs c.store r hr
  have hin : fail "assertion.missing" ing ∈ o.log :=
    hloop _ (ht _ (step_missing c keys ing t r hnot hgone))
  refine ⟨hin, ?_⟩
  have hin' : fail "assertion.missing" ing ∈ pre ++ o.log ++ post :=
    List.mem_append_left _ (List.mem_append_right _ hin)
  cases hi : ing
  · rw [hi] at hin'
    exact active_scope_failure_invalid _ _ hin' rfl rfl redaction_codes_not_tolerated.2.2.2.1
      sts hdec active recs uriOf r0 res hrep
  · rw [hi] at hin'
    exact unrecorded_failure_invalid _ _ hin' rfl redaction_codes_not_tolerated.2.2.2.1
      sts hdec active recs uriOf r0 res (hrec hi) hrep

/-- the same for assertion data changed (not removed) after signing -/
theorem change_without_redaction_invalid (c : Claim) (reds : List Str) (map : List Claim) (ing : Bool)
    (o : Out) (h : verifyClaim c reds map ing = some o)
    (keys : List RedKey) (refs : List Ref)
    (hk : parseRedactions reds = some keys) (hrefs : parseRefs c.assertions = some refs)
    (r : Ref) (hr : r ∈ refs) (ca : CA)
    (hnot : isRedacted keys c.label r.label r.inst = false)
    (hfound : findCA c r.label r.inst = some ca) (hchanged : ca.hash ≠ r.hu.hash)
    (pre post : List Ev) (sts : List St) (hdec : Decorates sts (pre ++ o.log ++ post))
    (active : Str) (recs : List Rec) (uriOf : St → List Char) (r0 res : C04.Results)
    (hrep : reportS active recs uriOf r0 sts = some res)
    (hrec : ing = true → ∀ s ∈ sts, s.code = cMismatch → s.ing = true → recordedIn recs s = false) :
    C04.state res = .invalid := by
  obtain ⟨keys', refs', hk', hr', _, hloop⟩ := verifyClaim_log_contains c reds map ing o h
  rw [hk] at hk'; cases hk'
  rw [hrefs] at hr'; cases hr'
  obtain ⟨t, ht⟩ := step_sub_loop c keys ing refs c.store r hr
  have hin : fail "assertion.hashedURI.mismatch" ing ∈ o.log :=
    hloop _ (ht _ (step_mismatch c keys ing t r ca hnot hfound hchanged))
  have hin' : fail "assertion.hashedURI.mismatch" ing ∈ pre ++ o.log ++ post :=
    List.mem_append_left _ (List.mem_append_right _ hin)
  cases hi : ing
  · rw [hi] at hin'
    exact active_scope_failure_invalid _ _ hin' rfl rfl redaction_codes_not_tolerated.2.2.2.2.1
      sts hdec active recs uriOf r0 res hrep
  · rw [hi] at hin'
    exact unrecorded_failure_invalid _ _ hin' rfl redaction_codes_not_tolerated.2.2.2.2.1
      sts hdec active recs uriOf r0 res (hrec hi) hrep

/-- **store level, active manifest** — an assertion of the active manifest removed (or never
stored) while its hashed URI is still in the claim and no redaction of the hierarchy
(`svi.redactions` = `g.reds`) covers it: `verify_store` returns `Err` or the Reader's state is
`Invalid`, whatever the ingredient assertions record. -/
theorem active_removal_never_valid (s : Store) (o : Out) (h : verifyStore s = some o)
    (root : Claim) (hroot : s.getLast? = some root)
    (g : GSt) (hg : gcrm s (fuelFor s) root [] {} = .ok g)
    (keys : List RedKey) (refs : List Ref)
    (hk : parseRedactions g.reds = some keys) (hrefs : parseRefs root.assertions = some refs)
    (r : Ref) (hr : r ∈ refs)
    (hnot : isRedacted keys root.label r.label r.inst = false)
    (hgone : findCA root r.label r.inst = none)
    (sts : List St) (hdec : Decorates sts o.log)
    (active : Str) (recs : List Rec) (uriOf : St → List Char) (r0 res : C04.Results)
    (hrep : reportS active recs uriOf r0 sts = some res) :
    o.err = true ∨ C04.state res = .invalid := by
  cases herr : o.err
  · right
    obtain ⟨g', vc, hg', hv, _, hsub, _⟩ := verifyStore_reaches_ingredients s o h herr root hroot
    rw [hg] at hg'; cases hg'
    obtain ⟨keys', refs', hk', hr', _, hloop⟩ :=
      verifyClaim_log_contains root g.reds _ false vc hv
    rw [hk] at hk'; cases hk'
    rw [hrefs] at hr'; cases hr'
    obtain ⟨t, ht⟩ := step_sub_loop root keys false refs root.store r hr
    have hin : fail "assertion.missing" false ∈ o.log :=
      hsub _ (hloop _ (ht _ (step_missing root keys false t r hnot hgone)))
    exact active_scope_failure_invalid _ _ hin rfl rfl redaction_codes_not_tolerated.2.2.2.1
      sts hdec active recs uriOf r0 res hrep
  · exact Or.inl rfl

/-- **store level, ingredient at depth 1** (the property's main case) — an assertion removed
from an ingredient manifest `ic` of the active manifest (the ingredient edge `x` resolves to
`ic`) while its hashed URI is still in `ic`'s claim and no redaction of the hierarchy covers
it: `verify_store` returns `Err`, or the Reader's state is `Invalid` **unless an ingredient
assertion of the store records exactly that `assertion.missing` status** (C2PA: a failure of an
ingredient that its importer recorded is not reported again; `keep_false_iff` is the exact
condition). -/
theorem ingredient_removal_never_valid (s : Store) (o : Out) (h : verifyStore s = some o)
    (root : Claim) (hroot : s.getLast? = some root)
    (g : GSt) (hg : gcrm s (fuelFor s) root [] {} = .ok g)
    (x : CA × Option IngD) (hx : x ∈ ingAssertions root)
    (d : IngD) (t : HU) (il : Str) (ic : Claim) (hres : Resolves s x d t il ic)
    (keys : List RedKey) (refs : List Ref)
    (hk : parseRedactions g.reds = some keys) (hrefs : parseRefs ic.assertions = some refs)
    (r : Ref) (hr : r ∈ refs)
    (hnot : isRedacted keys ic.label r.label r.inst = false)
    (hgone : findCA ic r.label r.inst = none)
    (sts : List St) (hdec : Decorates sts o.log)
    (active : Str) (recs : List Rec) (uriOf : St → List Char) (r0 res : C04.Results)
    (hrep : reportS active recs uriOf r0 sts = some res)
    (hrec : ∀ s ∈ sts, s.code = cMissing → s.ing = true → recordedIn recs s = false) :
    o.err = true ∨ C04.state res = .invalid := by
  cases herr : o.err
  · right
    obtain ⟨g', _, hg', _, _, _, hreach⟩ := verifyStore_reaches_ingredients s o h herr root hroot
    rw [hg] at hg'; cases hg'
    obtain ⟨vc, hv, _, _, _, hsub⟩ := hreach x hx d t il ic hres
    obtain ⟨keys', refs', hk', hr', _, hloop⟩ := verifyClaim_log_contains ic g.reds _ true vc hv
    rw [hk] at hk'; cases hk'
    rw [hrefs] at hr'; cases hr'
    obtain ⟨tr, ht⟩ := step_sub_loop ic keys true refs ic.store r hr
    have hin : fail "assertion.missing" true ∈ o.log :=
      hsub _ (hloop _ (ht _ (step_missing ic keys true tr r hnot hgone)))
    exact unrecorded_failure_invalid _ _ hin rfl redaction_codes_not_tolerated.2.2.2.1
      sts hdec active recs uriOf r0 res hrec hrep
  · exact Or.inl rfl

/-- ingredient level: a manifest whose box hash no longer equals the ingredient's hashed URI
(nor the pre-1.3 hash), with no redaction of the hierarchy mentioning its label, is a
`ingredient.manifest.mismatch` failure. (That a removal changes the box hash is the
collision-freeness idealisation; it is a hypothesis here.) -/
theorem ingredient_changed_without_redaction_flagged (reds : List Str) (il : Str) (d : IngD) (t : HU)
    (ic : Claim) (hno : ∀ r ∈ reds, containsSub il r = false)
    (hbox : t.hash ≠ ic.boxHash) (hlegacy : t.hash ≠ ic.dataHash) :
    fail "ingredient.manifest.mismatch" true ∈ (edgeCheck reds il d t ic).log := by
  have hred : (reds.any fun r => containsSub il r) = false := by
    cases hc : (reds.any fun r => containsSub il r)
    · rfl
    · obtain ⟨r, hr, hr'⟩ := List.any_eq_true.1 hc
      rw [hno r hr] at hr'; cases hr'
  have h1 : (t.hash == ic.boxHash) = false := by simpa using hbox
  have h2 : (t.hash == ic.dataHash) = false := by simpa using hlegacy
  unfold edgeCheck
  simp [hred, h1, h2]

/-! ### the assertions of a verified claim are clean iff nothing was removed or changed silently -/

/-- **validity of the assertion loop, both directions**: the loop of `verify_claim` logs no
failure iff every hashed URI of the claim points into the claim and is either covered by a
redaction of the hierarchy or resolves to an unchanged assertion. -/
theorem assertions_clean_iff (c : Claim) (keys : List RedKey) (ing : Bool) (refs : List Ref) :
    (∀ e ∈ (assertionLoop c keys ing refs c.store).1, e.isFailure = false) ↔
      ∀ r ∈ refs, RefClean c keys r :=
  loop_no_failure_iff c keys ing refs c.store

/-! ### redaction_exact -/

/-- **redaction_exact (one URI)** — a successful `redact_assertion` of an assertion-store URI
removes exactly one assertion, the first whose label-with-instance is the requested one, and
changes nothing else of the claim. -/
theorem redact_assertion_exact (c c' : Claim) (uri : Str) (hstore : containsSub cAssertions uri = true)
    (h : redactAssertion c uri = some (.ok c')) :
    ∃ l i target pre a post,
      assertionLabelFromLink uri = some (l, i) ∧ labelWithInstance l i = some target ∧
      cActions.isPrefixOf l = false ∧ cHashPrefix.isPrefixOf l = false ∧
      c.store = pre ++ a :: post ∧ c'.store = pre ++ post ∧
      labelWithInstance a.label a.inst = some target ∧
      (∀ b ∈ pre, labelWithInstance b.label b.inst ≠ some target) ∧
      c' = { c with store := pre ++ post } := by
  unfold redactAssertion at h
  cases hl : assertionLabelFromLink uri with
  | none => simp [hl] at h
  | some li =>
    obtain ⟨l, i⟩ := li
    simp only [hl, Option.bind_eq_bind, Option.bind_some] at h
    by_cases hp : (cActions.isPrefixOf l || cHashPrefix.isPrefixOf l) = true
    · simp [hp] at h
    · simp only [hp] at h
      have hp' : cActions.isPrefixOf l = false ∧ cHashPrefix.isPrefixOf l = false := by
        cases h1 : cActions.isPrefixOf l <;> cases h2 : cHashPrefix.isPrefixOf l <;> simp_all
      cases hm : manifestLabelFromUri uri with
      | none => simp [hm] at h
      | some m =>
        simp only [hm, Option.bind_some] at h
        simp only [hstore, if_true] at h
        split at h
        · simp at h
        · cases ht : labelWithInstance l i with
          | none => simp [ht] at h
          | some target =>
            simp only [ht, Option.bind_some] at h
            cases he : erasePos target c.store with
            | none => simp [he] at h
            | some o =>
              cases o with
              | none => simp [he] at h
              | some st =>
                simp [he] at h
                obtain ⟨pre, a, post, h1, h2, h3, h4⟩ := erasePos_some target c.store st he
                subst h2
                repeat' split at h
                all_goals first
                  | (simp only [Option.some.injEq, Except.ok.injEq] at h
                     exact ⟨l, i, target, pre, a, post, rfl, ht, hp'.1, hp'.2, h1, by rw [← h], h3, h4, h.symm⟩)
                  | (simp at h)

/-- the data-box branch: a successful run removes exactly the first data box whose normalised URL
is the normalised data-box URI of the requested box name -/
theorem redactDatabox_exact (c c' : Claim) (uri : Str) (h : redactDatabox c uri = some (.ok c')) :
    ∃ bn target pre b post,
      boxNameFromUri uri = some (some bn) ∧
      toNormalizedUri (toDataboxUri c.label bn) = some target ∧
      c.databoxes = pre ++ b :: post ∧ toNormalizedUri b.1 = some target ∧
      (∀ x ∈ pre, toNormalizedUri x.1 ≠ some target) ∧
      c' = { c with databoxes := pre ++ post } := by
  unfold redactDatabox at h
  cases hb : boxNameFromUri uri with
  | none => simp [hb] at h
  | some obn =>
    cases obn with
    | none => simp [hb] at h
    | some bn =>
      simp only [hb, Option.bind_eq_bind, Option.bind_some] at h
      cases ht : toNormalizedUri (toDataboxUri c.label bn) with
      | none => simp [ht] at h
      | some target =>
        simp only [ht, Option.bind_some] at h
        cases he : eraseBox target c.databoxes with
        | none => simp [he] at h
        | some o =>
          cases o with
          | none => simp [he] at h
          | some bs =>
            simp [he] at h
            obtain ⟨pre, b, post, h1, h2, h3, h4⟩ := eraseBox_some target c.databoxes bs he
            subst h2
            exact ⟨bn, target, pre, b, post, rfl, ht, h1, h3, h4, h.symm⟩

/-- **redaction_exact (data box)** — a successful `redact_assertion` of a URI outside the
assertion store went through the data-box branch: it removes exactly one data box (see
`redactDatabox_exact`) and changes nothing else of the claim, in particular not the assertion
store. -/
theorem redact_databox_exact (c c' : Claim) (uri : Str) (hstore : containsSub cAssertions uri = false)
    (h : redactAssertion c uri = some (.ok c')) :
    containsSub cDataboxes uri = true ∧ redactDatabox c uri = some (.ok c') ∧ c'.store = c.store := by
  unfold redactAssertion at h
  cases hl : assertionLabelFromLink uri with
  | none => simp [hl] at h
  | some li =>
    obtain ⟨l, i⟩ := li
    simp only [hl, Option.bind_eq_bind, Option.bind_some] at h
    by_cases hp : (cActions.isPrefixOf l || cHashPrefix.isPrefixOf l) = true
    · simp [hp] at h
    · rw [if_neg hp] at h
      cases hm : manifestLabelFromUri uri with
      | none => simp [hm] at h
      | some m =>
        simp only [hm, Option.bind_some] at h
        have hns : ¬ (containsSub cAssertions uri = true) := by rw [hstore]; simp
        have hfin : ∀ (hh : (if containsSub cDataboxes uri = true then redactDatabox c uri
              else pure (Except.error RErr.notFound)) = some (Except.ok c')),
            containsSub cDataboxes uri = true ∧ redactDatabox c uri = some (.ok c') ∧ c'.store = c.store := by
          intro hh
          by_cases hd : containsSub cDataboxes uri = true
          · rw [if_pos hd] at hh
            refine ⟨hd, hh, ?_⟩
            obtain ⟨_, _, pre, _, post, _, _, _, _, _, hc'⟩ := redactDatabox_exact c c' uri hh
            rw [hc']
          · rw [if_neg hd] at hh; simp at hh
        cases m with
        | none =>
          simp only [Bool.false_eq_true, if_false] at h
          rw [if_neg hns] at h
          exact hfin h
        | some ml =>
          simp only [] at h
          by_cases hml : (ml != c.label) = true
          · rw [if_pos hml] at h; simp at h
          · rw [if_neg hml, if_neg hns] at h
            exact hfin h

/-- the redacted assertion is gone: when labels-with-instance are unique in the store (they are
for every store built by `add_assertion`), no assertion with the requested label remains -/
theorem redact_assertion_gone (c c' : Claim) (uri : Str) (hstore : containsSub cAssertions uri = true)
    (h : redactAssertion c uri = some (.ok c'))
    (hnodup : (c.store.map fun a => labelWithInstance a.label a.inst).Nodup) :
    ∀ l i target, assertionLabelFromLink uri = some (l, i) → labelWithInstance l i = some target →
      ∀ b ∈ c'.store, labelWithInstance b.label b.inst ≠ some target := by
  obtain ⟨l, i, target, pre, a, post, hl, ht, _, _, hs, hs', ha, hpre, _⟩ :=
    redact_assertion_exact c c' uri hstore h
  intro l' i' target' hl' ht' b hb
  rw [hl] at hl'; cases hl'
  rw [ht] at ht'; cases ht'
  rw [hs'] at hb
  rw [hs, List.map_append, List.map_cons] at hnodup
  rcases List.mem_append.1 hb with hb | hb
  · exact hpre b hb
  · intro hc
    have hnd := (List.nodup_append.1 hnodup).2.1
    have : labelWithInstance a.label a.inst ∉ post.map fun a => labelWithInstance a.label a.inst :=
      (List.nodup_cons.1 hnd).1
    apply this
    rw [ha, ← hc]
    exact List.mem_map.2 ⟨b, hb, rfl⟩

/-- action and hard-binding assertions are never redacted by the signer's routine -/
theorem redact_assertion_refuses_protected (c : Claim) (uri : Str) (l : Str) (i : Nat)
    (hl : assertionLabelFromLink uri = some (l, i))
    (hp : cActions.isPrefixOf l = true ∨ cHashPrefix.isPrefixOf l = true) :
    redactAssertion c uri = some (.error .invalidRedaction) := by
  unfold redactAssertion
  have : (cActions.isPrefixOf l || cHashPrefix.isPrefixOf l) = true := by
    rcases hp with h | h <;> simp [h]
  simp only [hl, Option.bind_eq_bind, Option.bind_some, this, if_true]
  rfl

/-- the applied list of `add_ingredient_data` is a sub-list of the requested list -/
theorem applied_sublist :
    ∀ (reqs : List Str) (batch b : List Claim) (ap : List Str),
      applyRedactions reqs batch = some (.ok (b, ap)) → ap.Sublist reqs := by
  intro reqs
  induction reqs with
  | nil =>
    intro batch b ap h
    simp [applyRedactions] at h
    rw [h.2]
    exact List.Sublist.slnil
  | cons r rs ih =>
    intro batch b ap h
    unfold applyRedactions at h
    cases hr : redactInBatch r batch with
    | none => simp [hr] at h
    | some x =>
      simp only [hr, Option.bind_eq_bind, Option.bind_some] at h
      cases x with
      | error e => simp at h
      | ok ob =>
        cases ob with
        | none =>
          simp only [] at h
          exact (ih batch b ap h).cons _
        | some batch' =>
          simp only [] at h
          cases hrec : applyRedactions rs batch' with
          | none => simp [hrec] at h
          | some y =>
            simp only [hrec, Option.bind_some] at h
            cases y with
            | error e => simp at h
            | ok p =>
              obtain ⟨b', ap'⟩ := p
              simp at h
              obtain ⟨_, h2⟩ := h
              rw [← h2]
              exact (ih batch' b' ap' hrec).cons_cons _

/-- **redaction_exact (listed = requested)** — when the signer's redaction loop succeeds for a
claim without earlier redactions and the Builder's post-check accepts, the claim's redaction
list has exactly the requested entries: every listed one was requested (sub-list, same order)
and every requested one is listed. -/
theorem listed_exactly_requested (batch b : List Claim) (reqs : List Str) (self' : Option (List Str))
    (h : addIngredientData none batch (some reqs) = some (.ok (self', b)))
    (hpost : builderPostCheck self' (some reqs) = true) :
    (∀ r, r ∈ self'.getD [] ↔ r ∈ reqs) ∧ (self'.getD []).Sublist reqs := by
  unfold addIngredientData at h
  simp only [Option.getD_some] at h
  cases ha : applyRedactions reqs batch with
  | none => simp [ha] at h
  | some x =>
    simp only [ha, Option.bind_eq_bind, Option.bind_some] at h
    cases x with
    | error e => simp at h
    | ok p =>
      obtain ⟨b', ap⟩ := p
      simp at h
      obtain ⟨h1, _⟩ := h
      have hsub := applied_sublist reqs batch b' ap ha
      have hself : self'.getD [] = ap := by
        rw [← h1]
        cases ap with
        | nil => simp
        | cons x xs => simp
      rw [hself]
      refine ⟨fun r => ⟨fun hr => hsub.subset hr, fun hr => ?_⟩, hsub⟩
      unfold builderPostCheck at hpost
      simp only [List.all_eq_true] at hpost
      have := hpost r hr
      rw [hself] at this
      simpa using this

/-! ### the redacted claim still verifies -/

theorem find_remove_other (pre post : List CA) (a : CA) (p : CA → Bool) (ha : p a = false) :
    (pre ++ a :: post).find? p = (pre ++ post).find? p := by
  induction pre with
  | nil => simp [List.find?, ha]
  | cons x xs ih =>
    simp only [List.cons_append, List.find?]
    cases p x <;> simp [ih]

/-- **still validates** — if every hashed URI of an ingredient claim was clean before, then
after the removal of one assertion `a` whose key is listed among the hierarchy's redactions
for this manifest, every hashed URI is still clean (the removed one is skipped, all others
still resolve to the same assertion). -/
theorem legal_redaction_still_clean (c : Claim) (pre post : List CA) (a : CA)
    (keys keys' : List RedKey) (refs : List Ref)
    (hs : c.store = pre ++ a :: post)
    (hsub : ∀ k ∈ keys, k ∈ keys')
    (hlisted : (⟨c.label, a.label, a.inst⟩ : RedKey) ∈ keys')
    (hclean : ∀ r ∈ refs, RefClean c keys r) :
    ∀ r ∈ refs, RefClean { c with store := pre ++ post } keys' r := by
  intro r hr
  obtain ⟨h1, h2⟩ := hclean r hr
  refine ⟨h1, ?_⟩
  by_cases hkey : r.label = a.label ∧ r.inst = a.inst
  · left
    unfold isRedacted
    refine List.any_eq_true.2 ⟨_, hlisted, ?_⟩
    simp [hkey.1, hkey.2]
  · rcases h2 with h2 | ⟨ca, hf, hh⟩
    · left
      unfold isRedacted at h2 ⊢
      obtain ⟨k, hk, hk'⟩ := List.any_eq_true.1 h2
      exact List.any_eq_true.2 ⟨k, hsub k hk, hk'⟩
    · right
      refine ⟨ca, ?_, hh⟩
      unfold findCA at hf ⊢
      rw [hs] at hf
      simp only []
      rw [← find_remove_other pre post a _ ?_]
      · exact hf
      · cases hl : (a.label == r.label) <;> cases hi : (a.inst == r.inst) <;> simp_all

/-- **still validates, whole `verify_claim`** — let `verify_claim` on the claim `c` return `Ok`
with a failure-free log under the hierarchy's redactions `reds`. Remove one assertion `a` that is
neither an actions nor an ingredient assertion, and let the (longer) redaction list `reds'`
contain an entry that parses to `a`'s key in this manifest. Then `verify_claim` on the reduced
claim `c'` (any manifest map `map'` that agrees with `map` on labels and hashed-URI lists — the
redacted ingredient claims differ from the original ones only in their assertion stores) again
returns `Ok` with a failure-free log: no `assertion.undeclared` from the tracking list, no
rule-block failure, no `assertion.missing`, no rule-2.d failure. -/
theorem legal_redaction_verifyClaim_clean (c c' : Claim) (pre post : List CA) (a : CA)
    (reds reds' : List Str) (map map' : List Claim) (ing : Bool) (o : Out) (keys' : List RedKey)
    (hs : c.store = pre ++ a :: post) (hc' : c' = { c with store := pre ++ post })
    (hacts : a.acts? = none) (hing : a.ing? = none)
    (h : verifyClaim c reds map ing = some o) (he : o.err = false)
    (hclean : ∀ e ∈ o.log, e.isFailure = false)
    (hsub : ∀ r ∈ reds, r ∈ reds') (hk' : parseRedactions reds' = some keys')
    (hl : ∃ r ∈ reds', parseRedaction r = some ⟨c.label, a.label, a.inst⟩)
    (hm : map.map ckey = map'.map ckey) :
    ∃ o', verifyClaim c' reds' map' ing = some o' ∧ o'.err = false ∧
      ∀ e ∈ o'.log, e.isFailure = false := by
  obtain ⟨keys, refs, hk, hr, hcase⟩ := verifyClaim_spec c reds map ing o h
  rcases hcase with ⟨_, herr, _⟩ | ⟨htrack, _, av, hav, hlog⟩
  · rw [he] at herr; cases herr
  -- fields of the reduced claim
  have hs' : c'.store = pre ++ post := by rw [hc']
  have hlab : c'.label = c.label := by rw [hc']
  have hass : c'.assertions = c.assertions := by rw [hc']
  have hred : c'.redactions = c.redactions := by rw [hc']
  have hupd : c'.update = c.update := by rw [hc']
  have hsig : c'.sigOk = c.sigOk := by rw [hc']
  -- the listed key
  have hlisted : (⟨c.label, a.label, a.inst⟩ : RedKey) ∈ keys' := by
    obtain ⟨r, hr', hp⟩ := hl
    obtain ⟨k, hkm, hp'⟩ := (parseRedactions_mem reds' keys' hk').1 r hr'
    rw [hp] at hp'; cases hp'; exact hkm
  -- the assertion loop of the reduced claim is failure-free and consumes the whole store
  have hloopc : ∀ r ∈ refs, RefClean c keys r := by
    apply (loop_no_failure_iff c keys ing refs c.store).1
    intro e hel
    exact hclean e (by rw [hlog]; exact List.mem_append_left _ (List.mem_append_right _ hel))
  have hclean' := legal_redaction_still_clean c pre post a keys keys' refs hs
    (keys_mono reds reds' keys keys' hk hk' hsub) hlisted hloopc
  rw [← hc'] at hclean'
  have hloop' : ∀ e ∈ (assertionLoop c' keys' ing refs c'.store).1, e.isFailure = false :=
    (loop_no_failure_iff c' keys' ing refs c'.store).2 hclean'
  have htrack' : (assertionLoop c' keys' ing refs c'.store).2 = [] := by
    refine track_nil_of_sublist c c' keys keys' ing refs c.store c'.store ?_ htrack
    rw [hs, hs']
    exact List.Sublist.append_left (List.sublist_cons_self a post) pre
  -- rule 2.d
  have hav' : actionsFor c' map' ing = some av := by
    have hver : c'.version = c.version := by rw [hc']
    unfold actionsFor at hav ⊢
    rw [hver, actionAssertions_remove c c' pre post a hs hs' hacts,
      ← actionsEvents_congr c c' map map' ing hred.symm hm]
    exact hav
  refine ⟨⟨sigEvents c' ing ++ redactionRules c' ing ++ manifestRules c' ing ++
      (assertionLoop c' keys' ing refs c'.store).1 ++ av, false⟩, ?_, rfl, ?_⟩
  · unfold verifyClaim
    rw [hk', hass, hr]
    simp only [Option.bind_eq_bind, Option.bind_some]
    cases hl' : assertionLoop c' keys' ing refs c'.store with
    | mk ev tr =>
      rw [hl'] at htrack'
      simp only [] at htrack'
      subst htrack'
      simp only [List.isEmpty_nil, Bool.not_true, Bool.false_eq_true, if_false, hav',
        Option.bind_some, Option.pure_def]
  · intro e hmem
    simp only [List.mem_append] at hmem
    have hhead : ∀ e ∈ headEvents c ing, e.isFailure = false := fun e hh =>
      hclean e (by rw [hlog]; exact List.mem_append_left _ (List.mem_append_left _ hh))
    rcases hmem with (((hmem | hmem) | hmem) | hmem) | hmem
    · apply hhead
      unfold headEvents
      have : sigEvents c' ing = sigEvents c ing := by unfold sigEvents; rw [hsig]
      rw [this] at hmem
      exact List.mem_append_left _ (List.mem_append_left _ hmem)
    · apply hhead
      unfold headEvents
      have : redactionRules c' ing = redactionRules c ing := by
        unfold redactionRules; rw [hred, hlab]
      rw [this] at hmem
      exact List.mem_append_left _ (List.mem_append_right _ hmem)
    · apply hhead
      unfold headEvents
      exact List.mem_append_right _
        (manifestRules_remove c c' ing pre post a hs hs' hupd hacts hing e hmem)
    · exact hloop' e hmem
    · exact hclean e (by rw [hlog]; exact List.mem_append_right _ hmem)

/-! ### the Builder's loop over several ingredients -/

/-- what one `add_ingredient_data` call does to the claim's redaction list -/
theorem addIngredientData_spec (self self' : Option (List Str)) (batch b : List Claim) (rq : List Str)
    (h : addIngredientData self batch (some rq) = some (.ok (self', b))) :
    ∃ ap, ap.Sublist rq ∧ self'.getD [] = self.getD [] ++ ap := by
  unfold addIngredientData at h
  simp only [Option.getD_some] at h
  cases ha : applyRedactions rq batch with
  | none => simp [ha] at h
  | some x =>
    simp only [ha, Option.bind_eq_bind, Option.bind_some] at h
    cases x with
    | error e => simp at h
    | ok p =>
      obtain ⟨b', ap⟩ := p
      simp at h
      obtain ⟨h1, _⟩ := h
      refine ⟨ap, applied_sublist rq batch b' ap ha, ?_⟩
      rw [← h1]
      cases self with
      | some ex => simp
      | none => cases ap <;> simp

/-- `Builder::to_claim`: one `Ingredient::add_to_claim` → `Store::load_ingredient_to_claim` →
`add_ingredient_data(claims, Some(list_k))` per ingredient; `list_k` is the de-duplicated
`definition.redactions` in hash-set order (plus, on a conflict, redactions already carried by the
stored copy). `none` = a call failed. -/
def builderLoop : Option (List Str) → List (List Claim × List Str) → Option (Option (List Str))
  | self, [] => some self
  | self, (batch, rq) :: rest =>
    match addIngredientData self batch (some rq) with
    | some (.ok (self', _)) => builderLoop self' rest
    | _ => none

theorem builderLoop_listed (reqs : List Str) :
    ∀ (ings : List (List Claim × List Str)) (self final : Option (List Str)),
      (∀ p ∈ ings, ∀ r ∈ p.2, r ∈ reqs) → (∀ r ∈ self.getD [], r ∈ reqs) →
      builderLoop self ings = some final → ∀ r ∈ final.getD [], r ∈ reqs := by
  intro ings
  induction ings with
  | nil =>
    intro self final _ hself h
    simp [builderLoop] at h
    subst h
    exact hself
  | cons p rest ih =>
    intro self final hsub hself h
    obtain ⟨batch, rq⟩ := p
    unfold builderLoop at h
    cases ha : addIngredientData self batch (some rq) with
    | none => simp [ha] at h
    | some x =>
      cases x with
      | error e => simp [ha] at h
      | ok q =>
        obtain ⟨self', b⟩ := q
        simp only [ha] at h
        obtain ⟨ap, hap, hself'⟩ := addIngredientData_spec self self' batch b rq ha
        refine ih self' final (fun p hp => hsub p (List.mem_cons_of_mem _ hp)) ?_ h
        intro r hr
        rw [hself'] at hr
        rcases List.mem_append.1 hr with hr | hr
        · exact hself r hr
        · exact hsub (batch, rq) (List.mem_cons_self ..) r (hap.subset hr)

/-- **redaction_exact (listed = requested), the Builder's real call pattern** — any number of
ingredients, each handled by its own `add_ingredient_data` call on the growing claim with a
request list drawn from the definition's redactions (any order, de-duplicated or not); if all
calls succeed and the post-check accepts, the claim lists exactly the requested redactions
(as sets: the code goes through a `HashSet`, so order and multiplicity are not determined). -/
theorem listed_exactly_requested_chain (reqs : List Str) (ings : List (List Claim × List Str))
    (final : Option (List Str))
    (hsub : ∀ p ∈ ings, ∀ r ∈ p.2, r ∈ reqs)
    (h : builderLoop none ings = some final)
    (hpost : builderPostCheck final (some reqs) = true) :
    ∀ r, r ∈ final.getD [] ↔ r ∈ reqs := by
  intro r
  constructor
  · exact builderLoop_listed reqs ings none final hsub (by simp) h r
  · intro hr
    unfold builderPostCheck at hpost
    simp only [List.all_eq_true] at hpost
    simpa using hpost r hr

/-! ### constants read from the sources (translators/c20_labels.py) -/

theorem cActions_gen : cActions = Gen.actions := rfl
theorem hashLabels_gen : hashLabels = Gen.hashLabels := rfl
theorem cHashPrefix_gen : cHashPrefix = Gen.signerHashPrefix := rfl
theorem cIngredientLabel_gen : cIngredientLabel = Gen.ingredient := rfl

/-- the signer refuses the *prefix* `c2pa.hash.`, the validator flags the four literal labels:
every label the validator protects is also refused by the signer -/
theorem validator_hash_labels_refused_by_signer :
    ∀ l ∈ hashLabels, cHashPrefix.isPrefixOf l = true := by decide

/-! ### non-vacuity -/

def exUri : Str := "self#jumbf=/c2pa/urn:c2pa:aa/c2pa.assertions/org.note".toList
def exNote : CA := ⟨"org.note".toList, 0, "h1".toList, false, .other⟩
def exActs : CA := ⟨"c2pa.actions.v2".toList, 0, "h2".toList, false, .actions []⟩
def exClaim : Claim :=
  { label := "urn:c2pa:aa".toList, version := 2, update := false, sigOk := true,
    assertions := [⟨"self#jumbf=c2pa.assertions/c2pa.actions.v2".toList, "h2".toList⟩,
                   ⟨"self#jumbf=c2pa.assertions/org.note".toList, "h1".toList⟩],
    store := [exActs, exNote], redactions := none,
    boxHash := "b".toList, sigHash := "s".toList, dataHash := "d".toList }

/-- the store after a successful redaction (for the examples) -/
def redactedStore (c : Claim) (uri : Str) : Option (List CA) :=
  match redactAssertion c uri with
  | some (.ok c') => some c'.store
  | _ => none

def redactError (c : Claim) (uri : Str) : Option RErr :=
  match redactAssertion c uri with
  | some (.error e) => some e
  | _ => none

example : redactedStore exClaim exUri = some [exActs] := by decide
example : containsSub cAssertions exUri = true := by decide
example : redactError exClaim "self#jumbf=/c2pa/urn:c2pa:aa/c2pa.assertions/c2pa.actions.v2".toList
    = some .invalidRedaction := by decide
example : Disallowed { exClaim with redactions := some [exUri] } exUri := Or.inl (by decide)
example : redactionRules { exClaim with redactions := some [exUri] } false
    = [fail "assertion.selfRedacted" false] := by decide
example : redactionRules { exClaim with label := "urn:c2pa:bb".toList, redactions := some [exUri] } false
    = [] := by decide

/-! a two-manifest store: base `…0b` (hard binding + a note), active `…0a` with the base as
`parentOf` ingredient; the hypotheses of the store-level theorems are met by it with
`o.err = false` (the right disjunct is the one that matters) -/

def lB : Str := "urn:c2pa:00000000-0000-4000-8000-00000000000b".toList
def lA : Str := "urn:c2pa:00000000-0000-4000-8000-00000000000a".toList
def uriB (l : String) : Str := "self#jumbf=/c2pa/".toList ++ lB ++ "/c2pa.assertions/".toList ++ l.toList

def exHashCA (h : String) : CA := ⟨"c2pa.hash.data".toList, 0, h.toList, false, .hash⟩

/-- the base manifest; `withNote = false`: its note assertion was removed from the store -/
def exBase (withNote : Bool) : Claim :=
  { label := lB, version := 2, update := false, sigOk := true,
    assertions := [⟨"self#jumbf=c2pa.assertions/c2pa.hash.data".toList, "h9".toList⟩,
                   ⟨"self#jumbf=c2pa.assertions/org.note".toList, "h1".toList⟩],
    store := [exHashCA "h9"] ++ (if withNote then [exNote] else []), redactions := none,
    boxHash := (if withNote then "b1" else "b2").toList, sigHash := "sb".toList, dataHash := "db".toList }

def exIngCA (boxHash : String) : CA :=
  ⟨"c2pa.ingredient.v3".toList, 0, "h5".toList, false,
    .ingredient (some ⟨.parentOf, 3, true,
      some ⟨"self#jumbf=/c2pa/".toList ++ lB, boxHash.toList⟩,
      some ⟨"self#jumbf=/c2pa/".toList ++ lB ++ "/c2pa.signature".toList, "sb".toList⟩⟩)⟩

def exActive (boxHash : String) (reds : Option (List Str)) : Claim :=
  { label := lA, version := 2, update := false, sigOk := true,
    assertions := [⟨"self#jumbf=c2pa.assertions/c2pa.hash.data".toList, "h7".toList⟩,
                   ⟨"self#jumbf=c2pa.assertions/c2pa.ingredient.v3".toList, "h5".toList⟩],
    store := [exHashCA "h7", exIngCA boxHash], redactions := reds,
    boxHash := "ba".toList, sigHash := "sa".toList, dataHash := "da".toList }

/-- the base's note was removed, the ingredient's hashed URI re-made, no redaction entry -/
def exStoreSilentRemoval : Store := [exBase false, exActive "b2" none]

/-! `verify_store` of the model is defined by well-founded mutual recursion (`gcrm`/`gLoop`,
`hbm`/`hbScan`, `ingChecks`/`iLoop`), which neither `decide` nor the kernel unfolds; the runs
below are therefore computed step by step from the equation lemmas. -/

/-- (1) a single manifest that lists a redaction of some other manifest's actions assertion -/
def exSolo : Claim :=
  { label := lA, version := 2, update := false, sigOk := true,
    assertions := [⟨"self#jumbf=c2pa.assertions/c2pa.hash.data".toList, "h7".toList⟩],
    store := [exHashCA "h7"], redactions := some [uriB "c2pa.actions.v2"],
    boxHash := "ba".toList, sigHash := "sa".toList, dataHash := "da".toList }

def logSolo : List Ev :=
  [succ "claimSignature.insideValidity" false, succ "claimSignature.validated" false,
    fail "assertion.action.redacted" false, succ "assertion.hashedURI.match" false]

theorem exSolo_ing : ingAssertions exSolo = [] := by decide
theorem exSolo_gcrm : gcrm [exSolo] 3 exSolo [] {} = .ok ⟨[uriB "c2pa.actions.v2"], [lA], []⟩ := by
  unfold gcrm
  simp only [exSolo_ing]
  unfold gLoop
  rfl
theorem exSolo_hbm : hbm [exSolo] 3 exSolo [] = some (some lA) := by
  unfold hbm
  rfl
theorem exSolo_vc : verifyClaim exSolo [uriB "c2pa.actions.v2"] [exSolo] false = some ⟨logSolo, false⟩ := by
  decide
theorem exSolo_ic (st : ISt) :
    ingChecks [exSolo] [uriB "c2pa.actions.v2"] [exSolo] 3 exSolo st = .ok st := by
  unfold ingChecks
  simp only [exSolo_ing]
  unfold iLoop
  rfl
theorem exSolo_run : verifyStore [exSolo] = some ⟨logSolo, false⟩ := by
  unfold verifyStore
  have hm : List.filterMap (getClaim [exSolo]) [lA] = [exSolo] := by decide
  simp only [List.getLast?_singleton, fuelFor, List.length_singleton, Nat.reduceAdd, exSolo_gcrm,
    exSolo_hbm, hm, exSolo_vc, exSolo_ic]
  rfl

/-- all hypotheses of `active_disallowed_redaction_never_valid` hold for `[exSolo]` with
`o.err = false`: the right disjunct is the one that carries the statement -/
example (sts : List St) (hdec : Decorates sts logSolo) (active : Str) (recs : List Rec)
    (uriOf : St → List Char) (r0 res : C04.Results)
    (hrep : reportS active recs uriOf r0 sts = some res) : C04.state res = .invalid := by
  have := active_disallowed_redaction_never_valid [exSolo] ⟨logSolo, false⟩ exSolo_run exSolo rfl
    [uriB "c2pa.actions.v2"] (uriB "c2pa.actions.v2") rfl (List.mem_singleton.2 rfl)
    (Or.inr (Or.inl (by decide))) sts hdec active recs uriOf r0 res hrep
  rcases this with h | h
  · cases h
  · exact h

/-- (2) two manifests: the ingredient's note is gone -/
abbrev sR : Store := exStoreSilentRemoval
abbrev rootR : Claim := exActive "b2" none
abbrev baseR : Claim := exBase false
def tR : HU := ⟨"self#jumbf=/c2pa/".toList ++ lB, "b2".toList⟩
def dR : IngD := ⟨.parentOf, 3, true, some tR,
  some ⟨"self#jumbf=/c2pa/".toList ++ lB ++ "/c2pa.signature".toList, "sb".toList⟩⟩
def logRoot : List Ev := [succ "claimSignature.insideValidity" false, succ "claimSignature.validated" false,
  succ "assertion.hashedURI.match" false, succ "assertion.hashedURI.match" false]
def logBase : List Ev := [succ "claimSignature.insideValidity" true, succ "claimSignature.validated" true,
  succ "assertion.hashedURI.match" true, fail "assertion.missing" true]

theorem hiRoot : ingAssertions rootR = [(exIngCA "b2", some dR)] := by decide
theorem hiBase : ingAssertions baseR = [] := by decide
theorem hLbl : labelFromPath tR.url = some lB := by decide
theorem hT : dR.target = some tR := rfl
theorem hGet : getClaim sR lB = some baseR := by decide
theorem gcrmBase (st : GSt) (hc : st.map.contains lB = false) :
    gcrm sR 3 baseR [lA] st = .ok { st with reds := st.reds ++ [], map := st.map ++ [lB] } := by
  unfold gcrm
  have : baseR.label = lB := rfl
  simp only [this, hc, hiBase]
  unfold gLoop
  rfl
theorem gcrmRoot : gcrm sR 4 rootR [] {} = .ok ⟨[], [lA, lB], []⟩ := by
  unfold gcrm
  simp only [hiRoot]
  unfold gLoop
  simp only [hT, hLbl, hGet]
  simp
  have hne : ¬ (baseR.label = rootR.label) := by decide
  simp only [hne, if_false]
  have hl : rootR.label = lA := rfl
  rw [hl, gcrmBase _ (by decide)]
  simp only []
  unfold gLoop
  rfl
theorem hbmRoot : hbm sR 4 rootR [] = some (some lA) := by
  unfold hbm
  rfl
theorem hMap : List.filterMap (getClaim sR) [lA, lB] = [rootR, baseR] := by decide
theorem vcRoot : verifyClaim rootR [] [rootR, baseR] false = some ⟨logRoot, false⟩ := by decide
theorem vcBase : verifyClaim baseR [] [rootR, baseR] true = some ⟨logBase, false⟩ := by decide
theorem ecBase : edgeCheck [] lB dR tR baseR = ⟨[succ "ingredient.manifest.validated" true], false⟩ := by
  decide
theorem icBase (st : ISt) : ingChecks sR [] [rootR, baseR] 3 baseR st = .ok st := by
  unfold ingChecks
  simp only [hiBase]
  unfold iLoop
  rfl
theorem hE0 : (decide (dR.version ≥ 3) && !dR.hasResults) = false := by decide
theorem hZ : (exIngCA "b2").zero = false := rfl
theorem icRoot : ingChecks sR [] [rootR, baseR] 4 rootR ⟨[lA], logRoot⟩ =
    .ok ⟨[lA, lB], logRoot ++ [succ "ingredient.manifest.validated" true] ++ logBase⟩ := by
  unfold ingChecks
  simp only [hiRoot]
  unfold iLoop
  simp only [hT, hLbl, hGet, hZ, hE0, ecBase, vcBase]
  simp
  have hne : ¬ (baseR.label = lA) := by decide
  simp only [hne, if_false, icBase]
  unfold iLoop
  rfl
theorem exSilent_run : verifyStore sR =
    some ⟨logRoot ++ [succ "ingredient.manifest.validated" true] ++ logBase, false⟩ := by
  unfold verifyStore
  have hlast : sR.getLast? = some rootR := rfl
  have hl : rootR.label = lA := rfl
  simp only [hlast, fuelFor, show sR.length = 2 from rfl, Nat.reduceAdd, gcrmRoot, hbmRoot, hMap, vcRoot,
    List.nil_append, hl, icRoot]
  rfl

def refNote : Ref :=
  ⟨⟨"self#jumbf=c2pa.assertions/org.note".toList, "h1".toList⟩, "org.note".toList, 0, none⟩
def refsBase : List Ref :=
  [⟨⟨"self#jumbf=c2pa.assertions/c2pa.hash.data".toList, "h9".toList⟩, "c2pa.hash.data".toList, 0, none⟩,
   refNote]

/-- all hypotheses of `ingredient_removal_never_valid` hold for this store with `o.err = false` -/
example (sts : List St)
    (hdec : Decorates sts (logRoot ++ [succ "ingredient.manifest.validated" true] ++ logBase))
    (active : Str) (recs : List Rec) (uriOf : St → List Char) (r0 res : C04.Results)
    (hrep : reportS active recs uriOf r0 sts = some res)
    (hrec : ∀ s ∈ sts, s.code = cMissing → s.ing = true → recordedIn recs s = false) :
    C04.state res = .invalid := by
  have := ingredient_removal_never_valid sR _ exSilent_run rootR rfl ⟨[], [lA, lB], []⟩ gcrmRoot
    (exIngCA "b2", some dR) (by rw [hiRoot]; exact List.mem_singleton.2 rfl) dR tR lB baseR
    ⟨hZ, rfl, hT, hLbl, hGet⟩ [] refsBase rfl (by decide) refNote (by decide) (by decide) (by decide)
    sts hdec active recs uriOf r0 res hrep hrec
  rcases this with h | h
  · cases h
  · exact h

/-- `reportS` on (1) does not panic and gives Invalid even when the ingredient assertions record
exactly the logged failure with its URL -/
def exDecor (log : List Ev) (url : Str) : List St := log.map fun e => ⟨e.code, some url, e.kind, e.ing⟩

example : Decorates (exDecor logSolo (uriB "c2pa.actions.v2")) logSolo := by
  unfold Decorates; decide

example : (reportS lA [⟨cActionRedacted, some (uriB "c2pa.actions.v2"), .failure⟩] (fun _ => []) {}
    (exDecor logSolo (uriB "c2pa.actions.v2"))).map C04.state = some .invalid := by
  decide

/-- hypotheses of `protected_target_disallowed` / `skipping_protected_is_disallowed` -/
example : assertionLabelFromLink (uriB "c2pa.hash.bmff.v3") = some ("c2pa.hash.bmff.v3".toList, 0) ∧
    "c2pa.hash.bmff".toList ∈ hashLabels ∧
    "c2pa.hash.bmff".toList.isPrefixOf "c2pa.hash.bmff.v3".toList = true := by decide
example : parseRedaction (uriB "c2pa.actions.v2__1") = some ⟨lB, "c2pa.actions.v2".toList, 1⟩ := by decide

/-- hypotheses of `removal_without_redaction_invalid` / `change_without_redaction_invalid` -/
example : parseRefs baseR.assertions = some refsBase ∧ refNote ∈ refsBase ∧
    isRedacted [] baseR.label refNote.label refNote.inst = false ∧
    findCA baseR refNote.label refNote.inst = none := by decide
example : findCA (exBase true) refNote.label refNote.inst = some exNote ∧
    ({ exNote with hash := "hX".toList } : CA).hash ≠ refNote.hu.hash := by decide

/-- on (2) the recorded `assertion.missing` *is* dropped (ingredient scope): the hypothesis
`hrec` of `ingredient_removal_never_valid` cannot be omitted — and that is C2PA's rule for
failures an importer recorded, not a defect -/
example : keep lA [⟨cMissing, some (uriB "org.note"), .failure⟩]
    ⟨cMissing, some (uriB "org.note"), .failure, true⟩ = some false := by decide
example : keep lA [] ⟨cMissing, some (uriB "org.note"), .failure, true⟩ = some true := by decide

end C2pa.C20
