import C2paModel.Lemmas.C20Loop
import C2paModel.Lemmas.C20Store
import C2paModel.Props.C04
/-
C20 — property theorems. The statement (properties.jsonl):

  When a manifest redacts assertions of its ingredients, the output no longer contains the
  redacted assertion data, still validates, and lists exactly the requested redactions.
  Redacting action or hard-binding assertions, redacting in the manifest's own assertions, or
  removing an assertion without a matching redaction entry is never reported Valid.

All theorems quantify over every claim / store / redaction list / log prefix of the model
(`Model/C20.lean`); "never reported Valid" is closed with the C04 model of
`ValidationResults::add_status` / `validation_state` through `report`.
-/
namespace C2pa.C20
open C2pa.C34

/-! ### shape of `verify_claim` -/

def headEvents (c : Claim) (ing : Bool) : List Ev :=
  sigEvents c ing ++ redactionRules c ing ++ manifestRules c ing

/-- what `verify_claim` returns, spelled out -/
theorem verifyClaim_spec (c : Claim) (reds : List Str) (map : List Claim) (ing : Bool) (o : Out)
    (h : verifyClaim c reds map ing = some o) :
    ∃ keys refs, parseRedactions reds = some keys ∧ parseRefs c.assertions = some refs ∧
      (((assertionLoop c keys ing refs c.store).2 ≠ [] ∧ o.err = true ∧
          ∃ tail, o.log = headEvents c ing ++ (assertionLoop c keys ing refs c.store).1 ++ tail) ∨
       ((assertionLoop c keys ing refs c.store).2 = [] ∧ o.err = false ∧
          ∃ av, actionsEvents c map ing (actionAssertions c) = some av ∧
            o.log = headEvents c ing ++ (assertionLoop c keys ing refs c.store).1 ++ av)) := by
  unfold verifyClaim at h
  cases hk : parseRedactions reds with
  | none => simp [hk] at h
  | some keys =>
    cases hr : parseRefs c.assertions with
    | none => simp [hk, hr] at h
    | some refs =>
      refine ⟨keys, refs, rfl, rfl, ?_⟩
      simp only [hk, hr, Option.bind_eq_bind, Option.bind_some] at h
      cases hl : assertionLoop c keys ing refs c.store with
      | mk loopEv track =>
        rw [hl] at h
        simp only [] at h
        cases track with
        | nil =>
          right
          simp only [List.isEmpty_nil, Bool.not_true, Bool.false_eq_true, if_false] at h
          cases ha : actionsEvents c map ing (actionAssertions c) with
          | none => simp [ha] at h
          | some av =>
            simp only [ha, Option.bind_some, Option.pure_def, Option.some.injEq] at h
            subst h
            exact ⟨rfl, rfl, av, rfl, rfl⟩
        | cons t ts =>
          left
          simp only [List.isEmpty_cons, Bool.not_false, if_true, Option.pure_def, Option.some.injEq] at h
          subst h
          exact ⟨by simp, rfl, _, rfl⟩

/-- every rule-block event and every assertion-loop event is in the log `verify_claim` returns -/
theorem verifyClaim_log_contains (c : Claim) (reds : List Str) (map : List Claim) (ing : Bool) (o : Out)
    (h : verifyClaim c reds map ing = some o) :
    ∃ keys refs, parseRedactions reds = some keys ∧ parseRefs c.assertions = some refs ∧
      (∀ e ∈ headEvents c ing, e ∈ o.log) ∧
      (∀ e ∈ (assertionLoop c keys ing refs c.store).1, e ∈ o.log) := by
  obtain ⟨keys, refs, hk, hr, hcase⟩ := verifyClaim_spec c reds map ing o h
  refine ⟨keys, refs, hk, hr, ?_, ?_⟩
  · intro e he
    rcases hcase with ⟨_, _, tail, hl⟩ | ⟨_, _, av, _, hl⟩ <;>
      (rw [hl]; exact List.mem_append_left _ (List.mem_append_left _ he))
  · intro e he
    rcases hcase with ⟨_, _, tail, hl⟩ | ⟨_, _, av, _, hl⟩ <;>
      (rw [hl]; exact List.mem_append_left _ (List.mem_append_right _ he))

/-! ### disallowed redactions -/

def cSelfRedacted : Str := "assertion.selfRedacted".toList
def cActionRedacted : Str := "assertion.action.redacted".toList
def cHashRedacted : Str := "assertion.dataHash.redacted".toList
def cMissing : Str := "assertion.missing".toList
def cMismatch : Str := "assertion.hashedURI.mismatch".toList
def cIngMismatch : Str := "ingredient.manifest.mismatch".toList

theorem redaction_codes_not_tolerated :
    C04.tolerated cSelfRedacted = false ∧ C04.tolerated cActionRedacted = false ∧
    C04.tolerated cHashRedacted = false ∧ C04.tolerated cMissing = false ∧
    C04.tolerated cMismatch = false ∧ C04.tolerated cIngMismatch = false := by decide

/-- what the statement calls a disallowed redaction entry, *as the code tests it* (substring
tests on the URI text): it mentions the claim's own label, an actions label or a hard-binding
label -/
def Disallowed (c : Claim) (r : Str) : Prop :=
  containsSub c.label r = true ∨ containsSub cActions r = true ∨
    ∃ l ∈ hashLabels, containsSub l r = true

/-- the rule block logs a failure for every disallowed entry of the claim's redaction list -/
theorem disallowed_redaction_flagged (c : Claim) (ing : Bool) (rs : List Str) (r : Str)
    (hrs : c.redactions = some rs) (hr : r ∈ rs) (hd : Disallowed c r) :
    ∃ e ∈ redactionRules c ing, e.isFailure = true ∧ e.ing = ing ∧
      (e.code = cSelfRedacted ∨ e.code = cActionRedacted ∨ e.code = cHashRedacted) := by
  unfold redactionRules
  rw [hrs]
  simp only [List.mem_flatMap]
  rcases hd with h | h | ⟨l, hl, h⟩
  · refine ⟨fail "assertion.selfRedacted" ing, ⟨r, hr, ?_⟩, rfl, rfl, Or.inl rfl⟩
    unfold redactionRulesFor; simp [h]
  · refine ⟨fail "assertion.action.redacted" ing, ⟨r, hr, ?_⟩, rfl, rfl, Or.inr (Or.inl rfl)⟩
    unfold redactionRulesFor; simp [h]
  · refine ⟨fail "assertion.dataHash.redacted" ing, ⟨r, hr, ?_⟩, rfl, rfl, Or.inr (Or.inr rfl)⟩
    have : hashLabels.any (fun l => containsSub l r) = true := List.any_eq_true.2 ⟨l, hl, h⟩
    unfold redactionRulesFor; simp [this]

/-- conversely the rule block is silent when no entry is disallowed -/
theorem redactionRules_nil_of_allowed (c : Claim) (ing : Bool)
    (h : ∀ rs, c.redactions = some rs → ∀ r ∈ rs, ¬ Disallowed c r) : redactionRules c ing = [] := by
  unfold redactionRules
  cases hrs : c.redactions with
  | none => rfl
  | some rs =>
    simp only [List.flatMap_eq_nil_iff]
    intro r hr
    have hn := h rs hrs r hr
    unfold Disallowed at hn
    have h1 : containsSub c.label r = false := by
      cases hc : containsSub c.label r <;> simp_all
    have h2 : containsSub cActions r = false := by
      cases hc : containsSub cActions r <;> simp_all
    have h3 : hashLabels.any (fun l => containsSub l r) = false := by
      cases hc : hashLabels.any (fun l => containsSub l r)
      · rfl
      · obtain ⟨l, hl, hl'⟩ := List.any_eq_true.1 hc
        exact absurd (Or.inr (Or.inr ⟨l, hl, hl'⟩)) hn
    unfold redactionRulesFor; simp [h1, h2, h3]

/-- **disallowed_redaction_invalid** — whenever `verify_claim` runs on a claim (active manifest or
ingredient) whose redaction list has a disallowed entry, the log carries a non-tolerated
failure; unless that very status was already recorded in an ingredient assertion (`keep`),
the reported validation state (C04) is `Invalid`, whatever else is logged before or after. -/
theorem disallowed_redaction_invalid (c : Claim) (reds : List Str) (map : List Claim) (ing : Bool)
    (o : Out) (h : verifyClaim c reds map ing = some o)
    (rs : List Str) (r : Str) (hrs : c.redactions = some rs) (hr : r ∈ rs) (hd : Disallowed c r)
    (pre post : List Ev) (keep : Ev → Bool) (uriOf : Ev → List Char) (r0 : C04.Results)
    (hkeep : ∀ e ∈ o.log, e.isFailure = true →
      (e.code = cSelfRedacted ∨ e.code = cActionRedacted ∨ e.code = cHashRedacted) → keep e = true) :
    C04.state (report keep uriOf r0 (pre ++ o.log ++ post)) = .invalid := by
  obtain ⟨e, he, hf, _, hc⟩ := disallowed_redaction_flagged c ing rs r hrs hr hd
  obtain ⟨_, _, _, _, hhead, _⟩ := verifyClaim_log_contains c reds map ing o h
  have hin : e ∈ o.log := hhead e (List.mem_append_left _ (List.mem_append_right _ he))
  have ht : C04.tolerated e.code = false := by
    obtain ⟨t1, t2, t3, _⟩ := redaction_codes_not_tolerated
    rcases hc with hc | hc | hc <;> rw [hc] <;> assumption
  exact report_invalid keep uriOf r0 _ e
    (List.mem_append_left _ (List.mem_append_right _ hin)) (hkeep e hin hf hc) hf ht

/-- **store level, active manifest** — `verify_store` on a store whose active manifest has a
disallowed redaction entry either returns `Err` (the Reader fails) or its log, turned into
validation results (statuses of the active manifest are never filtered), gives `Invalid`. -/
theorem active_disallowed_redaction_never_valid (s : Store) (o : Out) (h : verifyStore s = some o)
    (root : Claim) (hroot : s.getLast? = some root)
    (rs : List Str) (r : Str) (hrs : root.redactions = some rs) (hr : r ∈ rs) (hd : Disallowed root r)
    (keep : Ev → Bool) (uriOf : Ev → List Char) (r0 : C04.Results)
    (hkeep : ∀ e, e.ing = false → keep e = true) :
    o.err = true ∨ C04.state (report keep uriOf r0 o.log) = .invalid := by
  rcases verifyStore_contains_root s o h with herr | ⟨root', reds, map, vc, hr', hv, hsub⟩
  · exact Or.inl herr
  · right
    rw [hroot] at hr'; cases hr'
    obtain ⟨e, he, hf, hing, hc⟩ := disallowed_redaction_flagged root false rs r hrs hr hd
    obtain ⟨_, _, _, _, hhead, _⟩ := verifyClaim_log_contains root reds map false vc hv
    have hin : e ∈ o.log := hsub e (hhead e (List.mem_append_left _ (List.mem_append_right _ he)))
    have ht : C04.tolerated e.code = false := by
      obtain ⟨t1, t2, t3, _⟩ := redaction_codes_not_tolerated
      rcases hc with hc | hc | hc <;> rw [hc] <;> assumption
    exact report_invalid keep uriOf r0 _ e hin (hkeep e hing) hf ht

/-! ### removal / change without a matching redaction -/

/-- **removal_without_redaction_invalid** — a hashed URI of a verified claim whose assertion is no
longer in the assertion store and which is covered by no redaction of the hierarchy
(`svi.redactions`) yields `assertion.missing`; the reported state is `Invalid`. -/
theorem removal_without_redaction_invalid (c : Claim) (reds : List Str) (map : List Claim) (ing : Bool)
    (o : Out) (h : verifyClaim c reds map ing = some o)
    (keys : List RedKey) (refs : List Ref)
    (hk : parseRedactions reds = some keys) (hrefs : parseRefs c.assertions = some refs)
    (r : Ref) (hr : r ∈ refs)
    (hnot : isRedacted keys c.label r.label r.inst = false)
    (hgone : findCA c r.label r.inst = none)
    (pre post : List Ev) (keep : Ev → Bool) (uriOf : Ev → List Char) (r0 : C04.Results)
    (hkeep : keep (fail "assertion.missing" ing) = true) :
    fail "assertion.missing" ing ∈ o.log ∧
    C04.state (report keep uriOf r0 (pre ++ o.log ++ post)) = .invalid := by
  obtain ⟨keys', refs', hk', hr', _, hloop⟩ := verifyClaim_log_contains c reds map ing o h
  rw [hk] at hk'; cases hk'
  rw [hrefs] at hr'; cases hr'
  obtain ⟨t, ht⟩ := step_sub_loop c keys ing refs c.store r hr
  have hin : fail "assertion.missing" ing ∈ o.log :=
    hloop _ (ht _ (step_missing c keys ing t r hnot hgone))
  refine ⟨hin, ?_⟩
  exact report_invalid keep uriOf r0 _ _
    (List.mem_append_left _ (List.mem_append_right _ hin)) hkeep rfl
    redaction_codes_not_tolerated.2.2.2.1

/-- the same for assertion data changed (not removed) after signing -/
theorem change_without_redaction_invalid (c : Claim) (reds : List Str) (map : List Claim) (ing : Bool)
    (o : Out) (h : verifyClaim c reds map ing = some o)
    (keys : List RedKey) (refs : List Ref)
    (hk : parseRedactions reds = some keys) (hrefs : parseRefs c.assertions = some refs)
    (r : Ref) (hr : r ∈ refs) (ca : CA)
    (hnot : isRedacted keys c.label r.label r.inst = false)
    (hfound : findCA c r.label r.inst = some ca) (hchanged : ca.hash ≠ r.hu.hash)
    (pre post : List Ev) (keep : Ev → Bool) (uriOf : Ev → List Char) (r0 : C04.Results)
    (hkeep : keep (fail "assertion.hashedURI.mismatch" ing) = true) :
    C04.state (report keep uriOf r0 (pre ++ o.log ++ post)) = .invalid := by
  obtain ⟨keys', refs', hk', hr', _, hloop⟩ := verifyClaim_log_contains c reds map ing o h
  rw [hk] at hk'; cases hk'
  rw [hrefs] at hr'; cases hr'
  obtain ⟨t, ht⟩ := step_sub_loop c keys ing refs c.store r hr
  have hin : fail "assertion.hashedURI.mismatch" ing ∈ o.log :=
    hloop _ (ht _ (step_mismatch c keys ing t r ca hnot hfound hchanged))
  exact report_invalid keep uriOf r0 _ _
    (List.mem_append_left _ (List.mem_append_right _ hin)) hkeep rfl
    redaction_codes_not_tolerated.2.2.2.2.1

/-- ingredient level: a manifest whose box hash no longer equals the ingredient's hashed URI
(nor the pre-1.3 hash), with no redaction of the hierarchy mentioning its label, is a
`ingredient.manifest.mismatch` failure. (That a removal changes the box hash is the
collision-freeness idealisation; it is a hypothesis here.) -/
theorem ingredient_changed_without_redaction_flagged (reds : List Str) (il : Str) (d : IngD) (t : HU)
    (ic : Claim) (hno : ∀ r ∈ reds, containsSub il r = false)
    (hbox : t.hash ≠ ic.boxHash) (hlegacy : t.hash ≠ ic.dataHash) :
    fail "ingredient.manifest.mismatch" true ∈ (edgeCheck reds il d t ic).log := by
  have hred : (reds.any fun r => containsSub il r) = false := by
    cases hc : (reds.any fun r => containsSub il r)
    · rfl
    · obtain ⟨r, hr, hr'⟩ := List.any_eq_true.1 hc
      rw [hno r hr] at hr'; cases hr'
  have h1 : (t.hash == ic.boxHash) = false := by simpa using hbox
  have h2 : (t.hash == ic.dataHash) = false := by simpa using hlegacy
  unfold edgeCheck
  simp [hred, h1, h2]

/-! ### the assertions of a verified claim are clean iff nothing was removed or changed silently -/

/-- **validity of the assertion loop, both directions**: the loop of `verify_claim` logs no
failure iff every hashed URI of the claim points into the claim and is either covered by a
redaction of the hierarchy or resolves to an unchanged assertion. -/
theorem assertions_clean_iff (c : Claim) (keys : List RedKey) (ing : Bool) (refs : List Ref) :
    (∀ e ∈ (assertionLoop c keys ing refs c.store).1, e.isFailure = false) ↔
      ∀ r ∈ refs, RefClean c keys r :=
  loop_no_failure_iff c keys ing refs c.store

/-! ### redaction_exact -/

/-- **redaction_exact (one URI)** — a successful `redact_assertion` of an assertion-store URI
removes exactly one assertion, the first whose label-with-instance is the requested one, and
changes nothing else of the claim. -/
theorem redact_assertion_exact (c c' : Claim) (uri : Str) (hstore : containsSub cAssertions uri = true)
    (h : redactAssertion c uri = some (.ok c')) :
    ∃ l i target pre a post,
      assertionLabelFromLink uri = some (l, i) ∧ labelWithInstance l i = some target ∧
      cActions.isPrefixOf l = false ∧ cHashPrefix.isPrefixOf l = false ∧
      c.store = pre ++ a :: post ∧ c'.store = pre ++ post ∧
      labelWithInstance a.label a.inst = some target ∧
      (∀ b ∈ pre, labelWithInstance b.label b.inst ≠ some target) ∧
      c' = { c with store := pre ++ post } := by
  unfold redactAssertion at h
  cases hl : assertionLabelFromLink uri with
  | none => simp [hl] at h
  | some li =>
    obtain ⟨l, i⟩ := li
    simp only [hl, Option.bind_eq_bind, Option.bind_some] at h
    by_cases hp : (cActions.isPrefixOf l || cHashPrefix.isPrefixOf l) = true
    · simp [hp] at h
    · simp only [hp] at h
      have hp' : cActions.isPrefixOf l = false ∧ cHashPrefix.isPrefixOf l = false := by
        cases h1 : cActions.isPrefixOf l <;> cases h2 : cHashPrefix.isPrefixOf l <;> simp_all
      cases hm : manifestLabelFromUri uri with
      | none => simp [hm] at h
      | some m =>
        simp only [hm, Option.bind_some] at h
        simp only [hstore, if_true] at h
        split at h
        · simp at h
        · cases ht : labelWithInstance l i with
          | none => simp [ht] at h
          | some target =>
            simp only [ht, Option.bind_some] at h
            cases he : erasePos target c.store with
            | none => simp [he] at h
            | some o =>
              cases o with
              | none => simp [he] at h
              | some st =>
                simp [he] at h
                obtain ⟨pre, a, post, h1, h2, h3, h4⟩ := erasePos_some target c.store st he
                subst h2
                repeat' split at h
                all_goals first
                  | (simp only [Option.some.injEq, Except.ok.injEq] at h
                     exact ⟨l, i, target, pre, a, post, rfl, ht, hp'.1, hp'.2, h1, by rw [← h], h3, h4, h.symm⟩)
                  | (simp at h)

/-- the redacted assertion is gone: when labels-with-instance are unique in the store (they are
for every store built by `add_assertion`), no assertion with the requested label remains -/
theorem redact_assertion_gone (c c' : Claim) (uri : Str) (hstore : containsSub cAssertions uri = true)
    (h : redactAssertion c uri = some (.ok c'))
    (hnodup : (c.store.map fun a => labelWithInstance a.label a.inst).Nodup) :
    ∀ l i target, assertionLabelFromLink uri = some (l, i) → labelWithInstance l i = some target →
      ∀ b ∈ c'.store, labelWithInstance b.label b.inst ≠ some target := by
  obtain ⟨l, i, target, pre, a, post, hl, ht, _, _, hs, hs', ha, hpre, _⟩ :=
    redact_assertion_exact c c' uri hstore h
  intro l' i' target' hl' ht' b hb
  rw [hl] at hl'; cases hl'
  rw [ht] at ht'; cases ht'
  rw [hs'] at hb
  rw [hs, List.map_append, List.map_cons] at hnodup
  rcases List.mem_append.1 hb with hb | hb
  · exact hpre b hb
  · intro hc
    have hnd := (List.nodup_append.1 hnodup).2.1
    have : labelWithInstance a.label a.inst ∉ post.map fun a => labelWithInstance a.label a.inst :=
      (List.nodup_cons.1 hnd).1
    apply this
    rw [ha, ← hc]
    exact List.mem_map.2 ⟨b, hb, rfl⟩

/-- action and hard-binding assertions are never redacted by the signer's routine -/
theorem redact_assertion_refuses_protected (c : Claim) (uri : Str) (l : Str) (i : Nat)
    (hl : assertionLabelFromLink uri = some (l, i))
    (hp : cActions.isPrefixOf l = true ∨ cHashPrefix.isPrefixOf l = true) :
    redactAssertion c uri = some (.error .invalidRedaction) := by
  unfold redactAssertion
  have : (cActions.isPrefixOf l || cHashPrefix.isPrefixOf l) = true := by
    rcases hp with h | h <;> simp [h]
  simp only [hl, Option.bind_eq_bind, Option.bind_some, this, if_true]
  rfl

/-- the applied list of `add_ingredient_data` is a sub-list of the requested list -/
theorem applied_sublist :
    ∀ (reqs : List Str) (batch b : List Claim) (ap : List Str),
      applyRedactions reqs batch = some (.ok (b, ap)) → ap.Sublist reqs := by
  intro reqs
  induction reqs with
  | nil =>
    intro batch b ap h
    simp [applyRedactions] at h
    rw [h.2]
    exact List.Sublist.slnil
  | cons r rs ih =>
    intro batch b ap h
    unfold applyRedactions at h
    cases hr : redactInBatch r batch with
    | none => simp [hr] at h
    | some x =>
      simp only [hr, Option.bind_eq_bind, Option.bind_some] at h
      cases x with
      | error e => simp at h
      | ok ob =>
        cases ob with
        | none =>
          simp only [] at h
          exact (ih batch b ap h).cons _
        | some batch' =>
          simp only [] at h
          cases hrec : applyRedactions rs batch' with
          | none => simp [hrec] at h
          | some y =>
            simp only [hrec, Option.bind_some] at h
            cases y with
            | error e => simp at h
            | ok p =>
              obtain ⟨b', ap'⟩ := p
              simp at h
              obtain ⟨_, h2⟩ := h
              rw [← h2]
              exact (ih batch' b' ap' hrec).cons_cons _

/-- **redaction_exact (listed = requested)** — when the signer's redaction loop succeeds for a
claim without earlier redactions and the Builder's post-check accepts, the claim's redaction
list has exactly the requested entries: every listed one was requested (sub-list, same order)
and every requested one is listed. -/
theorem listed_exactly_requested (batch b : List Claim) (reqs : List Str) (self' : Option (List Str))
    (h : addIngredientData none batch (some reqs) = some (.ok (self', b)))
    (hpost : builderPostCheck self' (some reqs) = true) :
    (∀ r, r ∈ self'.getD [] ↔ r ∈ reqs) ∧ (self'.getD []).Sublist reqs := by
  unfold addIngredientData at h
  simp only [Option.getD_some] at h
  cases ha : applyRedactions reqs batch with
  | none => simp [ha] at h
  | some x =>
    simp only [ha, Option.bind_eq_bind, Option.bind_some] at h
    cases x with
    | error e => simp at h
    | ok p =>
      obtain ⟨b', ap⟩ := p
      simp at h
      obtain ⟨h1, _⟩ := h
      have hsub := applied_sublist reqs batch b' ap ha
      have hself : self'.getD [] = ap := by
        rw [← h1]
        cases ap with
        | nil => simp
        | cons x xs => simp
      rw [hself]
      refine ⟨fun r => ⟨fun hr => hsub.subset hr, fun hr => ?_⟩, hsub⟩
      unfold builderPostCheck at hpost
      simp only [List.all_eq_true] at hpost
      have := hpost r hr
      rw [hself] at this
      simpa using this

/-! ### the redacted claim still verifies -/

theorem find_remove_other (pre post : List CA) (a : CA) (p : CA → Bool) (ha : p a = false) :
    (pre ++ a :: post).find? p = (pre ++ post).find? p := by
  induction pre with
  | nil => simp [List.find?, ha]
  | cons x xs ih =>
    simp only [List.cons_append, List.find?]
    cases p x <;> simp [ih]

/-- **still validates** — if every hashed URI of an ingredient claim was clean before, then
after the removal of one assertion `a` whose key is listed among the hierarchy's redactions
for this manifest, every hashed URI is still clean (the removed one is skipped, all others
still resolve to the same assertion). -/
theorem legal_redaction_still_clean (c : Claim) (pre post : List CA) (a : CA)
    (keys keys' : List RedKey) (refs : List Ref)
    (hs : c.store = pre ++ a :: post)
    (hsub : ∀ k ∈ keys, k ∈ keys')
    (hlisted : (⟨c.label, a.label, a.inst⟩ : RedKey) ∈ keys')
    (hclean : ∀ r ∈ refs, RefClean c keys r) :
    ∀ r ∈ refs, RefClean { c with store := pre ++ post } keys' r := by
  intro r hr
  obtain ⟨h1, h2⟩ := hclean r hr
  refine ⟨h1, ?_⟩
  by_cases hkey : r.label = a.label ∧ r.inst = a.inst
  · left
    unfold isRedacted
    refine List.any_eq_true.2 ⟨_, hlisted, ?_⟩
    simp [hkey.1, hkey.2]
  · rcases h2 with h2 | ⟨ca, hf, hh⟩
    · left
      unfold isRedacted at h2 ⊢
      obtain ⟨k, hk, hk'⟩ := List.any_eq_true.1 h2
      exact List.any_eq_true.2 ⟨k, hsub k hk, hk'⟩
    · right
      refine ⟨ca, ?_, hh⟩
      unfold findCA at hf ⊢
      rw [hs] at hf
      simp only []
      rw [← find_remove_other pre post a _ ?_]
      · exact hf
      · cases hl : (a.label == r.label) <;> cases hi : (a.inst == r.inst) <;> simp_all

/-! ### non-vacuity -/

def exUri : Str := "self#jumbf=/c2pa/urn:c2pa:aa/c2pa.assertions/org.note".toList
def exNote : CA := ⟨"org.note".toList, 0, "h1".toList, false, .other⟩
def exActs : CA := ⟨"c2pa.actions.v2".toList, 0, "h2".toList, false, .actions []⟩
def exClaim : Claim :=
  { label := "urn:c2pa:aa".toList, version := 2, update := false, sigOk := true,
    assertions := [⟨"self#jumbf=c2pa.assertions/c2pa.actions.v2".toList, "h2".toList⟩,
                   ⟨"self#jumbf=c2pa.assertions/org.note".toList, "h1".toList⟩],
    store := [exActs, exNote], redactions := none,
    boxHash := "b".toList, sigHash := "s".toList, dataHash := "d".toList }

/-- the store after a successful redaction (for the examples) -/
def redactedStore (c : Claim) (uri : Str) : Option (List CA) :=
  match redactAssertion c uri with
  | some (.ok c') => some c'.store
  | _ => none

def redactError (c : Claim) (uri : Str) : Option RErr :=
  match redactAssertion c uri with
  | some (.error e) => some e
  | _ => none

example : redactedStore exClaim exUri = some [exActs] := by decide
example : containsSub cAssertions exUri = true := by decide
example : redactError exClaim "self#jumbf=/c2pa/urn:c2pa:aa/c2pa.assertions/c2pa.actions.v2".toList
    = some .invalidRedaction := by decide
example : Disallowed { exClaim with redactions := some [exUri] } exUri := Or.inl (by decide)
example : redactionRules { exClaim with redactions := some [exUri] } false
    = [fail "assertion.selfRedacted" false] := by decide
example : redactionRules { exClaim with label := "urn:c2pa:bb".toList, redactions := some [exUri] } false
    = [] := by decide

end C2pa.C20
