import C2paModel.Model.C24
import C2paModel.Gen.C24SharedState
/-
C24 — property theorems (context isolation).

Statement: operations run concurrently on many threads with shared contexts produce exactly
the results of running them sequentially; cancelling or reconfiguring one context never
affects operations using another context; building settings values never changes the legacy
thread-local settings of any thread.

The theorems are about the state model of `Model/C24.lean` (contexts with private cancel
flag / write-once cells, per-thread legacy settings) and hold for every number of contexts
and threads, every pair of programs and **every schedule**. That the model's cells are *all*
the mutable state of the SDK is the regenerated shared-state inventory obligation below.
The Rust/OS memory model is not modelled; the harness samples real schedules.
-/
namespace C2pa.C24

/-- Semantic form of an operation: a function on one context, on one thread's legacy
settings, or a pure computation. -/
inductive Sem
  | ctx (c : Nat) (f : Ctx → Ctx × Out)
  | tls (t : Nat) (g : Nat → Nat × Out)
  | pure (o : Out)

def sem : Op → Sem
  | .checkProgress c => .ctx c (fun x => (x, .flag x.cancel))
  | .cancel c => .ctx c (fun x => ({ x with cancel := true }, .unit))
  | .getSigner c init =>
    .ctx c (fun x => ({ x with signer := some (getOrInit x.signer init) }, .val (getOrInit x.signer init)))
  | .getResolver c init =>
    .ctx c (fun x => ({ x with resolver := some (getOrInit x.resolver init) }, .val (getOrInit x.resolver init)))
  | .readSettings c => .ctx c (fun x => (x, .val x.settings))
  | .buildSettings _ v => .pure (.val v)
  | .readTls t => .tls t (fun v => (v, .val v))
  | .setTls t v => .tls t (fun _ => (v, .unit))

def runSem (s : Sys) : Sem → Sys × Out
  | .ctx c f => onCtx s c f
  | .tls t g => onTls s t g
  | .pure o => (s, o)

theorem step_eq_sem (s : Sys) (op : Op) : step s op = runSem s (sem op) := by
  cases op <;> rfl

def semIndep : Sem → Sem → Prop
  | .ctx c _, .ctx d _ => c ≠ d
  | .tls t _, .tls u _ => t ≠ u
  | _, _ => True

theorem indep_semIndep (a b : Op) (h : indep a b = true) : semIndep (sem a) (sem b) := by
  cases a <;> cases b <;> simp_all [indep, Op.cell, sem, semIndep]

theorem onCtx_comm (s : Sys) (c d : Nat) (f g : Ctx → Ctx × Out) (h : c ≠ d) :
    (onCtx (onCtx s c f).1 d g).1 = (onCtx (onCtx s d g).1 c f).1 ∧
    (onCtx (onCtx s c f).1 d g).2 = (onCtx s d g).2 ∧
    (onCtx (onCtx s d g).1 c f).2 = (onCtx s c f).2 := by
  unfold onCtx
  cases hc : s.ctxs[c]? <;> cases hd : s.ctxs[d]? <;>
    simp [hc, hd, List.getElem?_set_ne h, List.getElem?_set_ne (Ne.symm h), List.set_comm _ _ h]

theorem onCtx_onTls_comm (s : Sys) (c t : Nat) (f : Ctx → Ctx × Out) (g : Nat → Nat × Out) :
    (onTls (onCtx s c f).1 t g).1 = (onCtx (onTls s t g).1 c f).1 ∧
    (onTls (onCtx s c f).1 t g).2 = (onTls s t g).2 ∧
    (onCtx (onTls s t g).1 c f).2 = (onCtx s c f).2 := by
  unfold onCtx onTls
  cases hc : s.ctxs[c]? <;> cases ht : s.tls[t]? <;> simp [hc]

theorem onTls_comm (s : Sys) (t u : Nat) (f g : Nat → Nat × Out) (h : t ≠ u) :
    (onTls (onTls s t f).1 u g).1 = (onTls (onTls s u g).1 t f).1 ∧
    (onTls (onTls s t f).1 u g).2 = (onTls s u g).2 ∧
    (onTls (onTls s u g).1 t f).2 = (onTls s t f).2 := by
  unfold onTls
  cases ht : s.tls[t]? <;> cases hu : s.tls[u]? <;>
    simp [ht, hu, List.getElem?_set_ne h, List.getElem?_set_ne (Ne.symm h), List.set_comm _ _ h]

theorem runSem_comm (s : Sys) (a b : Sem) (h : semIndep a b) :
    (runSem (runSem s a).1 b).1 = (runSem (runSem s b).1 a).1 ∧
    (runSem (runSem s a).1 b).2 = (runSem s b).2 ∧
    (runSem (runSem s b).1 a).2 = (runSem s a).2 := by
  cases a with
  | ctx c f =>
    cases b with
    | ctx d g => exact onCtx_comm s c d f g h
    | tls t g => exact onCtx_onTls_comm s c t f g
    | pure o => exact ⟨rfl, rfl, rfl⟩
  | tls t f =>
    cases b with
    | ctx d g =>
      have := onCtx_onTls_comm s d t g f
      exact ⟨this.1.symm, this.2.2, this.2.1⟩
    | tls u g => exact onTls_comm s t u f g h
    | pure o => exact ⟨rfl, rfl, rfl⟩
  | pure o => exact ⟨rfl, rfl, rfl⟩

/-- **Independent operations commute**: same final state, and each observes what it would
observe alone. -/
theorem step_indep_comm (s : Sys) (a b : Op) (h : indep a b = true) :
    (step (step s a).1 b).1 = (step (step s b).1 a).1 ∧
    (step (step s a).1 b).2 = (step s b).2 ∧
    (step (step s b).1 a).2 = (step s a).2 := by
  simp only [step_eq_sem]
  exact runSem_comm s (sem a) (sem b) (indep_semIndep a b h)

def IndepOf (b : Op) (p : List Op) : Prop := ∀ a ∈ p, indep a b = true

/-- One independent step commutes with a whole program. -/
theorem step_runProg_comm (b : Op) : ∀ (p : List Op) (s : Sys), IndepOf b p →
    (runProg (step s b).1 p).1 = (step (runProg s p).1 b).1 ∧
    (runProg (step s b).1 p).2 = (runProg s p).2 ∧
    (step (runProg s p).1 b).2 = (step s b).2 := by
  intro p
  induction p with
  | nil => intro s _; exact ⟨rfl, rfl, rfl⟩
  | cons a p ih =>
    intro s hind
    have hab : indep a b = true := hind a (List.mem_cons_self ..)
    have hp : IndepOf b p := fun x hx => hind x (List.mem_cons_of_mem _ hx)
    obtain ⟨c1, c2, c3⟩ := step_indep_comm s a b hab
    obtain ⟨i1, i2, i3⟩ := ih (step s a).1 hp
    simp only [runProg]
    refine ⟨?_, ?_, ?_⟩
    · rw [← c1]; exact i1
    · rw [← c1, c3, i2]
    · rw [i3, c2]

def ProgsIndep (p q : List Op) : Prop := ∀ a ∈ p, ∀ b ∈ q, indep a b = true

/-- **Every interleaving equals the sequential run**: if the two programs touch different
contexts / threads, then under every schedule each program observes exactly the outputs of
running `p` to completion and then `q`, and the final state is the same. -/
theorem runSched_eq_sequential : ∀ (sch : List Bool) (p q : List Op) (s : Sys), ProgsIndep p q →
    runSched s p q sch =
      ((runProg (runProg s p).1 q).1, (runProg s p).2, (runProg (runProg s p).1 q).2) := by
  intro sch
  induction sch with
  | nil =>
    intro p q s _
    cases p with
    | nil => simp [runSched, runProg]
    | cons a p =>
      cases q with
      | nil => simp [runSched, runProg]
      | cons b q => simp [runSched]
  | cons x sch ih =>
    intro p q s hind
    cases p with
    | nil => simp [runSched, runProg]
    | cons a p =>
      cases q with
      | nil => simp [runSched, runProg]
      | cons b q =>
        cases x with
        | true =>
          have hrec := ih p (b :: q) (step s a).1
            (fun x hx y hy => hind x (List.mem_cons_of_mem _ hx) y hy)
          simp only [runSched, hrec, runProg]
        | false =>
          have hb : IndepOf b (a :: p) := fun x hx => hind x hx b (List.mem_cons_self ..)
          have hrec := ih (a :: p) q (step s b).1
            (fun x hx y hy => hind x hx y (List.mem_cons_of_mem _ hy))
          obtain ⟨k1, k2, k3⟩ := step_runProg_comm b (a :: p) s hb
          simp only [runSched, hrec]
          simp only [runProg] at k1 k2 k3 ⊢
          rw [k1, k2, k3]

/-- Cancelling one context is invisible to checkpoints of another. -/
theorem cancel_other_context_invisible (s : Sys) (c d : Nat) (h : c ≠ d) :
    (step (step s (.cancel c)).1 (.checkProgress d)).2 = (step s (.checkProgress d)).2 :=
  (step_indep_comm s (.cancel c) (.checkProgress d) (by simp [indep, Op.cell, h])).2.1

/-- Building settings values is pure: no context and no thread-local value changes. -/
theorem settings_builders_pure (s : Sys) (t v : Nat) : (step s (.buildSettings t v)).1 = s := rfl

/-- Operations on a context never change any thread's legacy settings. -/
theorem ctx_ops_preserve_tls (s : Sys) (op : Op) (c : Nat) (h : op.cell = .ctx c) :
    (step s op).1.tls = s.tls := by
  cases op <;> simp [Op.cell] at h <;> (simp only [step, onCtx]; split <;> rfl)

/-- Write-once cells: whoever initialises first, every caller observes the same value. -/
theorem once_cell_first_wins (s : Sys) (c v w : Nat) (x : Ctx) (hx : s.ctxs[c]? = some x) :
    (step (step s (.getSigner c v)).1 (.getSigner c w)).2 = (step s (.getSigner c v)).2 := by
  have hlt : c < s.ctxs.length := by
    rcases List.getElem?_eq_some_iff.1 hx with ⟨h, _⟩; exact h
  simp [step, onCtx, hx, List.getElem?_set_self hlt, getOrInit]

/-! ### Shared-state inventory (regenerated from sdk/src on every run) -/

/-- Reviewed process-wide items that are not plain constants, with their classification. -/
def reviewed : List (String × String × Kind) := [
  ("settings/mod.rs", "SETTINGS", .threadLocal),
  ("identity/claim_aggregation/w3c_vc/did_web.rs", "PROXIES", .threadLocal),
  ("jumbf_io.rs", "HANDLER_PROTOTYPES", .lazyConst),
  ("jumbf_io.rs", "CAI_READERS", .lazyConst),
  ("jumbf_io.rs", "CAI_WRITERS", .lazyConst),
  ("jumbf_io.rs", "CONTAINER_MAP", .lazyConst),
  ("http/reqwest.rs", "SYNC_CLIENT", .lazyConst),
  ("http/reqwest.rs", "SYNC_CLIENT_REDIRECTS", .lazyConst),
  ("http/reqwest.rs", "ASYNC_CLIENT", .lazyConst),
  ("http/reqwest.rs", "ASYNC_CLIENT_REDIRECTS", .lazyConst),
  ("identity/identity_assertion/signer_payload.rs", "ABSOLUTE_URL_PREFIX", .lazyConst),
  ("identity/claim_aggregation/w3c_vc/did.rs", "VALID_DID", .lazyConst),
  ("assertions/metadata.rs", "ALLOWED_SCHEMAS", .lazyConst),
  ("assertions/metadata.rs", "BACKCOMPAT_LIST", .lazyConst),
  ("assertions/labels.rs", "METADATA_LABEL_REGEX", .lazyConst),
  ("assertions/labels.rs", "VERSION_RE", .lazyConst),
  ("context.rs", "SyncResolverState::Default", .perContextCell),
  ("context.rs", "AsyncResolverState::Default", .perContextCell),
  ("context.rs", "SignerState::FromSettings", .perContextCell),
  ("context.rs", "AsyncSignerState::FromSettings", .perContextCell),
  ("context.rs", "cancel_flag", .perContextCell)
]

def rowOk (r : String × String × Kind) : Bool :=
  r.2.2 == .const ||
    reviewed.any (fun e => e.1.toList == r.1.toList && e.2.1.toList == r.2.1.toList && e.2.2 == r.2.2)

/-- **The inventory is closed**: every process-wide item of the current source is a constant
or one of the reviewed cells with the reviewed classification; in particular there is no
unreviewed mutable global. -/
theorem inventory_closed : Gen.sharedState.all rowOk = true := by decide +kernel

theorem no_mutable_globals :
    Gen.sharedState.all (fun r => r.2.2 != Kind.mutableGlobal) = true := by decide +kernel

/-! ### Non-vacuity -/
example : ProgsIndep [.cancel 0, .getSigner 0 7] [.checkProgress 1, .setTls 0 5, .buildSettings 1 3] := by
  intro a ha b hb
  simp at ha hb
  rcases ha with rfl | rfl <;> rcases hb with rfl | rfl | rfl <;> decide
example :
    (runSched (initSys 2 1) [.cancel 0, .checkProgress 0] [.checkProgress 1, .readTls 0]
      [false, true, false, true]).2 = ([.unit, .flag true], [.flag false, .val 200]) := by decide +kernel

end C2pa.C24
