import C2paModel.Model.C24
import C2paModel.Gen.C24SharedState
/-
C24 — property theorems (context isolation).

Statement: operations run concurrently on many threads with shared contexts produce exactly
the results of running them sequentially; cancelling or reconfiguring one context never
affects operations using another context; building settings values never changes the legacy
thread-local settings of any thread.

Part 1 (state model, `Model/C24.lean`): for every number of contexts and threads, every list of
programs and EVERY schedule the interleaved run gives each program exactly the outputs of the
sequential run, provided any two operations of different programs are `compat`: they touch
different cells, or both are `sharedSafe` (reads, checkpoints, and the lazily initialised cells
whose initialiser is the code's own function of the context's settings). In particular programs
that use one shared context without cancelling it need no independence hypothesis at all
(`shared_safe_eq_sequential`, `runSchedN_shared_eq_sequential`). Cancelling a shared context while
others run changes nothing but checkpoints, which may report "cancelled" (`cancel_shared_relaxed`).

Part 2 (tables regenerated from sdk/src on every run, `Gen/C24SharedState.lean`): which functions
reach the thread-local settings, which take a context, which interior-mutable cells and statics
exist. They replace "pure by definition of the model" by obligations about the source.

The Rust/OS memory model is not modelled; the harness samples real schedules.
-/
namespace C2pa.C24

/-- Semantic form of an operation: a function on one context, on one thread's legacy
settings, or a pure computation. -/
inductive Sem
  | ctx (c : Nat) (f : Ctx → Ctx × Out)
  | tls (t : Nat) (g : Nat → Nat × Out)
  | pure (o : Out)

def sem : Op → Sem
  | .checkProgress c => .ctx c (fun x => (x, .flag x.cancel))
  | .cancel c => .ctx c (fun x => ({ x with cancel := true }, .unit))
  | .getSigner c init =>
    .ctx c (fun x => ({ x with signer := some (getOrInit x.signer init) }, .val (getOrInit x.signer init)))
  | .getResolver c init =>
    .ctx c (fun x => ({ x with resolver := some (getOrInit x.resolver init) }, .val (getOrInit x.resolver init)))
  | .getSignerS c =>
    .ctx c (fun x => ({ x with signer := some (getOrInit x.signer (initOf x.settings)) },
      .val (getOrInit x.signer (initOf x.settings))))
  | .getResolverS c =>
    .ctx c (fun x => ({ x with resolver := some (getOrInit x.resolver (initOf x.settings)) },
      .val (getOrInit x.resolver (initOf x.settings))))
  | .readSettings c => .ctx c (fun x => (x, .val x.settings))
  | .buildSettings _ v => .pure (.val v)
  | .readTls t => .tls t (fun v => (v, .val v))
  | .setTls t v => .tls t (fun _ => (v, .unit))
  | .leakyRead t => .tls t (fun v => (v, .flag (capAllows v)))

def runSem (s : Sys) : Sem → Sys × Out
  | .ctx c f => onCtx s c f
  | .tls t g => onTls s t g
  | .pure o => (s, o)

theorem step_eq_sem (s : Sys) (op : Op) : step s op = runSem s (sem op) := by
  cases op <;> rfl

/-- Two functions on the same cell commute: same final value, and each observes what it would
observe alone. -/
def FunComm {α : Type} (f g : α → α × Out) : Prop :=
  ∀ x, (g (f x).1).1 = (f (g x).1).1 ∧ (g (f x).1).2 = (g x).2 ∧ (f (g x).1).2 = (f x).2

def semComm : Sem → Sem → Prop
  | .ctx c f, .ctx d g => c ≠ d ∨ FunComm f g
  | .tls t f, .tls u g => t ≠ u ∨ FunComm f g
  | _, _ => True

theorem onCtx_comm (s : Sys) (c d : Nat) (f g : Ctx → Ctx × Out) (h : c ≠ d) :
    (onCtx (onCtx s c f).1 d g).1 = (onCtx (onCtx s d g).1 c f).1 ∧
    (onCtx (onCtx s c f).1 d g).2 = (onCtx s d g).2 ∧
    (onCtx (onCtx s d g).1 c f).2 = (onCtx s c f).2 := by
  unfold onCtx
  cases hc : s.ctxs[c]? <;> cases hd : s.ctxs[d]? <;>
    simp [hc, hd, List.getElem?_set_ne h, List.getElem?_set_ne (Ne.symm h), List.set_comm _ _ h]

theorem onCtx_same_comm (s : Sys) (c : Nat) (f g : Ctx → Ctx × Out) (h : FunComm f g) :
    (onCtx (onCtx s c f).1 c g).1 = (onCtx (onCtx s c g).1 c f).1 ∧
    (onCtx (onCtx s c f).1 c g).2 = (onCtx s c g).2 ∧
    (onCtx (onCtx s c g).1 c f).2 = (onCtx s c f).2 := by
  unfold onCtx
  cases hc : s.ctxs[c]? with
  | none => simp [hc]
  | some x =>
    have hlt : c < s.ctxs.length := (List.getElem?_eq_some_iff.1 hc).1
    obtain ⟨h1, h2, h3⟩ := h x
    simp [List.getElem?_set_self hlt, List.set_set, h1, h2, h3]

theorem onCtx_onTls_comm (s : Sys) (c t : Nat) (f : Ctx → Ctx × Out) (g : Nat → Nat × Out) :
    (onTls (onCtx s c f).1 t g).1 = (onCtx (onTls s t g).1 c f).1 ∧
    (onTls (onCtx s c f).1 t g).2 = (onTls s t g).2 ∧
    (onCtx (onTls s t g).1 c f).2 = (onCtx s c f).2 := by
  unfold onCtx onTls
  cases hc : s.ctxs[c]? <;> cases ht : s.tls[t]? <;> simp [hc]

theorem onTls_comm (s : Sys) (t u : Nat) (f g : Nat → Nat × Out) (h : t ≠ u) :
    (onTls (onTls s t f).1 u g).1 = (onTls (onTls s u g).1 t f).1 ∧
    (onTls (onTls s t f).1 u g).2 = (onTls s u g).2 ∧
    (onTls (onTls s u g).1 t f).2 = (onTls s t f).2 := by
  unfold onTls
  cases ht : s.tls[t]? <;> cases hu : s.tls[u]? <;>
    simp [ht, hu, List.getElem?_set_ne h, List.getElem?_set_ne (Ne.symm h), List.set_comm _ _ h]

theorem onTls_same_comm (s : Sys) (t : Nat) (f g : Nat → Nat × Out) (h : FunComm f g) :
    (onTls (onTls s t f).1 t g).1 = (onTls (onTls s t g).1 t f).1 ∧
    (onTls (onTls s t f).1 t g).2 = (onTls s t g).2 ∧
    (onTls (onTls s t g).1 t f).2 = (onTls s t f).2 := by
  unfold onTls
  cases ht : s.tls[t]? with
  | none => simp [ht]
  | some x =>
    have hlt : t < s.tls.length := (List.getElem?_eq_some_iff.1 ht).1
    obtain ⟨h1, h2, h3⟩ := h x
    simp [List.getElem?_set_self hlt, List.set_set, h1, h2, h3]

theorem runSem_comm (s : Sys) (a b : Sem) (h : semComm a b) :
    (runSem (runSem s a).1 b).1 = (runSem (runSem s b).1 a).1 ∧
    (runSem (runSem s a).1 b).2 = (runSem s b).2 ∧
    (runSem (runSem s b).1 a).2 = (runSem s a).2 := by
  cases a with
  | ctx c f =>
    cases b with
    | ctx d g =>
      rcases h with h | h
      · exact onCtx_comm s c d f g h
      · by_cases hcd : c = d
        · subst hcd; exact onCtx_same_comm s c f g h
        · exact onCtx_comm s c d f g hcd
    | tls t g => exact onCtx_onTls_comm s c t f g
    | pure o => exact ⟨rfl, rfl, rfl⟩
  | tls t f =>
    cases b with
    | ctx d g =>
      have := onCtx_onTls_comm s d t g f
      exact ⟨this.1.symm, this.2.2, this.2.1⟩
    | tls u g =>
      rcases h with h | h
      · exact onTls_comm s t u f g h
      · by_cases htu : t = u
        · subst htu; exact onTls_same_comm s t f g h
        · exact onTls_comm s t u f g htu
    | pure o => exact ⟨rfl, rfl, rfl⟩
  | pure o => exact ⟨rfl, rfl, rfl⟩

theorem getOrInit_idem (cell : Option Nat) (i : Nat) :
    getOrInit (some (getOrInit cell i)) i = getOrInit cell i := by
  cases cell <;> rfl

theorem compat_semComm (a b : Op) (h : compat a b = true) : semComm (sem a) (sem b) := by
  unfold compat at h
  rw [Bool.or_eq_true] at h
  rcases h with h | h
  · cases a <;> cases b <;> simp_all [indep, Op.cell, sem, semComm]
  · cases a <;> cases b <;> simp [sharedSafe] at h <;> simp only [sem, semComm] <;>
      first
        | trivial
        | (right; intro x; cases hx : x.signer <;> cases hy : x.resolver <;> simp [getOrInit, hx, hy])
        | (right; intro x; simp)

/-- **Compatible operations commute**: same final state, and each observes what it would
observe alone. -/
theorem step_compat_comm (s : Sys) (a b : Op) (h : compat a b = true) :
    (step (step s a).1 b).1 = (step (step s b).1 a).1 ∧
    (step (step s a).1 b).2 = (step s b).2 ∧
    (step (step s b).1 a).2 = (step s a).2 := by
  simp only [step_eq_sem]
  exact runSem_comm s (sem a) (sem b) (compat_semComm a b h)

theorem indep_compat (a b : Op) (h : indep a b = true) : compat a b = true := by
  simp [compat, h]

/-- Independent (different-cell) operations commute. -/
theorem step_indep_comm (s : Sys) (a b : Op) (h : indep a b = true) :
    (step (step s a).1 b).1 = (step (step s b).1 a).1 ∧
    (step (step s a).1 b).2 = (step s b).2 ∧
    (step (step s b).1 a).2 = (step s a).2 :=
  step_compat_comm s a b (indep_compat a b h)

def CompatOf (b : Op) (p : List Op) : Prop := ∀ a ∈ p, compat a b = true
def IndepOf (b : Op) (p : List Op) : Prop := ∀ a ∈ p, indep a b = true

/-- One compatible step commutes with a whole program. -/
theorem step_runProg_compat_comm (b : Op) : ∀ (p : List Op) (s : Sys), CompatOf b p →
    (runProg (step s b).1 p).1 = (step (runProg s p).1 b).1 ∧
    (runProg (step s b).1 p).2 = (runProg s p).2 ∧
    (step (runProg s p).1 b).2 = (step s b).2 := by
  intro p
  induction p with
  | nil => intro s _; exact ⟨rfl, rfl, rfl⟩
  | cons a p ih =>
    intro s hind
    have hab : compat a b = true := hind a (List.mem_cons_self ..)
    have hp : CompatOf b p := fun x hx => hind x (List.mem_cons_of_mem _ hx)
    obtain ⟨c1, c2, c3⟩ := step_compat_comm s a b hab
    obtain ⟨i1, i2, i3⟩ := ih (step s a).1 hp
    simp only [runProg]
    refine ⟨?_, ?_, ?_⟩
    · rw [← c1]; exact i1
    · rw [← c1, c3, i2]
    · rw [i3, c2]

theorem step_runProg_comm (b : Op) (p : List Op) (s : Sys) (h : IndepOf b p) :
    (runProg (step s b).1 p).1 = (step (runProg s p).1 b).1 ∧
    (runProg (step s b).1 p).2 = (runProg s p).2 ∧
    (step (runProg s p).1 b).2 = (step s b).2 :=
  step_runProg_compat_comm b p s (fun a ha => indep_compat a b (h a ha))

def ProgsCompat (p q : List Op) : Prop := ∀ a ∈ p, ∀ b ∈ q, compat a b = true
def ProgsIndep (p q : List Op) : Prop := ∀ a ∈ p, ∀ b ∈ q, indep a b = true

/-- **Every interleaving of two programs equals the sequential run**: if any two operations of
the two programs are compatible (different cells, or both safe on a shared cell), then under
every schedule each program observes exactly the outputs of running `p` to completion and then
`q`, and the final state is the same. -/
theorem runSched_eq_sequential : ∀ (sch : List Bool) (p q : List Op) (s : Sys), ProgsCompat p q →
    runSched s p q sch =
      ((runProg (runProg s p).1 q).1, (runProg s p).2, (runProg (runProg s p).1 q).2) := by
  intro sch
  induction sch with
  | nil =>
    intro p q s _
    cases p with
    | nil => simp [runSched, runProg]
    | cons a p =>
      cases q with
      | nil => simp [runSched, runProg]
      | cons b q => simp [runSched]
  | cons x sch ih =>
    intro p q s hind
    cases p with
    | nil => simp [runSched, runProg]
    | cons a p =>
      cases q with
      | nil => simp [runSched, runProg]
      | cons b q =>
        cases x with
        | true =>
          have hrec := ih p (b :: q) (step s a).1
            (fun x hx y hy => hind x (List.mem_cons_of_mem _ hx) y hy)
          simp only [runSched, hrec, runProg]
        | false =>
          have hb : CompatOf b (a :: p) := fun x hx => hind x hx b (List.mem_cons_self ..)
          have hrec := ih (a :: p) q (step s b).1
            (fun x hx y hy => hind x hx y (List.mem_cons_of_mem _ hy))
          obtain ⟨k1, k2, k3⟩ := step_runProg_compat_comm b (a :: p) s hb
          simp only [runSched, hrec]
          simp only [runProg] at k1 k2 k3 ⊢
          rw [k1, k2, k3]

/-- **Shared contexts, no independence hypothesis**: two programs made of reads, checkpoints,
settings builders and the lazily initialised signer / resolver (initialised by the code's own
function of the context's settings) may share every context and every thread-local value; every
interleaving gives both exactly their sequential outputs. -/
theorem shared_safe_eq_sequential (sch : List Bool) (p q : List Op) (s : Sys)
    (hp : ∀ o ∈ p, sharedSafe o = true) (hq : ∀ o ∈ q, sharedSafe o = true) :
    runSched s p q sch =
      ((runProg (runProg s p).1 q).1, (runProg s p).2, (runProg (runProg s p).1 q).2) :=
  runSched_eq_sequential sch p q s (fun a ha b hb => by simp [compat, hp a ha, hq b hb])

/-- The hypothesis cannot be dropped for cells initialised with a caller-chosen value: two
callers offering different values see a schedule-dependent winner. (The code's initialisers
are functions of the context's settings, `getSignerS` / `getResolverS`.) -/
theorem free_init_is_schedule_dependent :
    (runSched (initSys 1 1) [.getSigner 0 1] [.getSigner 0 2] [true]).2 ≠
      (runSched (initSys 1 1) [.getSigner 0 1] [.getSigner 0 2] [false]).2 := by decide

/-! ### n threads -/

theorem popAt_mem : ∀ (ps : List (List Op)) (i : Nat) (o : Op) (ps' : List (List Op)),
    popAt ps i = some (o, ps') → ∃ q ∈ ps, o ∈ q := by
  intro ps
  induction ps with
  | nil => intro i o ps' h; simp [popAt] at h
  | cons p ps ih =>
    intro i o ps' h
    cases i with
    | zero =>
      cases p with
      | nil => simp [popAt] at h
      | cons a p =>
        simp only [popAt, Option.some.injEq, Prod.mk.injEq] at h
        exact ⟨a :: p, List.mem_cons_self .., by rw [← h.1]; exact List.mem_cons_self ..⟩
    | succ i =>
      simp only [popAt] at h
      cases hp : popAt ps i with
      | none => simp [hp] at h
      | some r =>
        obtain ⟨o', ps''⟩ := r
        simp only [hp, Option.some.injEq, Prod.mk.injEq] at h
        obtain ⟨q, hq, ho⟩ := ih i o' ps'' hp
        exact ⟨q, List.mem_cons_of_mem _ hq, by rw [← h.1]; exact ho⟩

/-- Position-wise: every program on the left consists of operations of the program on the right. -/
inductive SubProgs : List (List Op) → List (List Op) → Prop
  | nil : SubProgs [] []
  | cons {q' q : List Op} {l' l : List (List Op)} :
      (∀ x ∈ q', x ∈ q) → SubProgs l' l → SubProgs (q' :: l') (q :: l)

/-- Removing the next operation of one program leaves, position by position, sub-programs. -/
theorem popAt_sub : ∀ (ps : List (List Op)) (i : Nat) (o : Op) (ps' : List (List Op)),
    popAt ps i = some (o, ps') →
    SubProgs ps' ps := by
  intro ps
  induction ps with
  | nil => intro i o ps' h; simp [popAt] at h
  | cons p ps ih =>
    intro i o ps' h
    have hrefl : ∀ (l : List (List Op)), SubProgs l l := by
      intro l; induction l with
      | nil => exact .nil
      | cons a l ihl => exact .cons (fun _ hx => hx) ihl
    cases i with
    | zero =>
      cases p with
      | nil => simp [popAt] at h
      | cons a p =>
        simp only [popAt, Option.some.injEq, Prod.mk.injEq] at h
        rw [← h.2]
        exact .cons (fun x hx => List.mem_cons_of_mem _ hx) (hrefl ps)
    | succ i =>
      simp only [popAt] at h
      cases hp : popAt ps i with
      | none => simp [hp] at h
      | some r =>
        obtain ⟨o', ps''⟩ := r
        simp only [hp, Option.some.injEq, Prod.mk.injEq] at h
        rw [← h.2]
        exact .cons (fun _ hx => hx) (ih i o' ps'' hp)

theorem pairwise_sub : ∀ (ps' ps : List (List Op)),
    SubProgs ps' ps → ps.Pairwise ProgsCompat →
    ps'.Pairwise ProgsCompat := by
  intro ps' ps h
  induction h with
  | nil => intro _; exact .nil
  | @cons q' q l' l hq hl ih =>
    intro hp
    rw [List.pairwise_cons] at hp ⊢
    refine ⟨?_, ih hp.2⟩
    intro r' hr'
    -- r' corresponds to some r ∈ l with r' ⊆ r
    have : ∃ r ∈ l, ∀ x ∈ r', x ∈ r := by
      clear ih hp hq
      induction hl with
      | nil => simp at hr'
      | @cons a' a m' m ha _ ihm =>
        rcases List.mem_cons.1 hr' with rfl | hmem
        · exact ⟨a, List.mem_cons_self .., ha⟩
        · obtain ⟨r, hr, hs⟩ := ihm hmem
          exact ⟨r, List.mem_cons_of_mem _ hr, hs⟩
    obtain ⟨r, hr, hs⟩ := this
    intro a ha b hb
    exact hp.1 r hr a (hq a ha) b (hs b hb)

/-- Taking the next step of any thread first, then running everything sequentially, equals the
sequential run. -/
theorem runSeq_popAt : ∀ (ps : List (List Op)) (i : Nat) (o : Op) (ps' : List (List Op)) (s : Sys),
    ps.Pairwise ProgsCompat → popAt ps i = some (o, ps') →
    runSeq s ps = ((runSeq (step s o).1 ps').1, consAt (runSeq (step s o).1 ps').2 i (step s o).2) := by
  intro ps
  induction ps with
  | nil => intro i o ps' s _ h; simp [popAt] at h
  | cons p ps ih =>
    intro i o ps' s hpw h
    cases i with
    | zero =>
      cases p with
      | nil => simp [popAt] at h
      | cons a p =>
        simp only [popAt, Option.some.injEq, Prod.mk.injEq] at h
        obtain ⟨rfl, rfl⟩ := h
        simp [runSeq, runProg, consAt]
    | succ i =>
      simp only [popAt] at h
      cases hp : popAt ps i with
      | none => simp [hp] at h
      | some r =>
        obtain ⟨o', ps''⟩ := r
        simp only [hp, Option.some.injEq, Prod.mk.injEq] at h
        obtain ⟨rfl, rfl⟩ := h
        rw [List.pairwise_cons] at hpw
        obtain ⟨q, hq, ho⟩ := popAt_mem ps i o' ps'' hp
        have hc : CompatOf o' p := fun a ha => hpw.1 q hq a ha o' ho
        obtain ⟨k1, k2, k3⟩ := step_runProg_compat_comm o' p s hc
        have hrec := ih i o' ps'' (runProg s p).1 hpw.2 hp
        simp only [runSeq, consAt, hrec, k1, k2, k3]

/-- **Every interleaving of n programs (threads) equals the sequential run**, for every n,
every schedule and every state, when operations of different programs are pairwise compatible. -/
theorem runSchedN_eq_sequential : ∀ (sch : List Nat) (ps : List (List Op)) (s : Sys),
    ps.Pairwise ProgsCompat → runSchedN s ps sch = runSeq s ps := by
  intro sch
  induction sch with
  | nil => intro ps s _; simp [runSchedN]
  | cons i sch ih =>
    intro ps s hpw
    simp only [runSchedN]
    cases hp : popAt ps i with
    | none => simp only []; exact ih ps s hpw
    | some r =>
      obtain ⟨o, ps'⟩ := r
      simp only []
      have hpw' : ps'.Pairwise ProgsCompat := pairwise_sub ps' ps (popAt_sub ps i o ps' hp) hpw
      rw [ih ps' (step s o).1 hpw', runSeq_popAt ps i o ps' s hpw hp]

theorem pairwise_of_all_shared : ∀ (ps : List (List Op)),
    (∀ p ∈ ps, ∀ o ∈ p, sharedSafe o = true) → ps.Pairwise ProgsCompat := by
  intro ps
  induction ps with
  | nil => intro _; exact .nil
  | cons p ps ih =>
    intro h
    rw [List.pairwise_cons]
    refine ⟨?_, ih (fun q hq => h q (List.mem_cons_of_mem _ hq))⟩
    intro q hq a ha b hb
    simp [compat, h p (List.mem_cons_self ..) a ha, h q (List.mem_cons_of_mem _ hq) b hb]

/-- **Any number of threads on shared contexts**: no independence hypothesis. -/
theorem runSchedN_shared_eq_sequential (sch : List Nat) (ps : List (List Op)) (s : Sys)
    (h : ∀ p ∈ ps, ∀ o ∈ p, sharedSafe o = true) : runSchedN s ps sch = runSeq s ps :=
  runSchedN_eq_sequential sch ps s (pairwise_of_all_shared ps h)

/-! ### Cancelling a shared context while others run -/

def isCancel : Op → Bool
  | .cancel _ => true
  | _ => false

/-- `s'` is `s` with possibly more cancel flags raised (nothing else differs). -/
def CancelLe (s s' : Sys) : Prop :=
  s'.tls = s.tls ∧ s'.ctxs.length = s.ctxs.length ∧
  ∀ (c : Nat) (x : Ctx), s.ctxs[c]? = some x → ∃ y : Ctx, s'.ctxs[c]? = some y ∧ y.signer = x.signer ∧
    y.resolver = x.resolver ∧ y.settings = x.settings ∧ (x.cancel = true → y.cancel = true)

/-- The observed output is the baseline output, or the operation is a checkpoint that reports
"cancelled". -/
def Relaxed (o : Op) (base out : Out) : Prop :=
  out = base ∨ ((∃ d, o = .checkProgress d) ∧ out = .flag true)

def RelaxedList : List Op → List Out → List Out → Prop
  | [], [], [] => True
  | o :: os, b :: bs, x :: xs => Relaxed o b x ∧ RelaxedList os bs xs
  | _, _, _ => False

theorem CancelLe.refl (s : Sys) : CancelLe s s :=
  ⟨rfl, rfl, fun _ x hx => ⟨x, hx, rfl, rfl, rfl, id⟩⟩

theorem cancelLe_none {s s' : Sys} (h : CancelLe s s') (c : Nat) (hc : s.ctxs[c]? = none) :
    s'.ctxs[c]? = none := by
  rw [List.getElem?_eq_none_iff] at hc ⊢
  rw [h.2.1]; exact hc

/-- A context operation under which `CancelLe` is preserved: it keeps / sets fields as a
function of the non-cancel fields, and never lowers the flag. -/
theorem cancelLe_onCtx {s s' : Sys} (h : CancelLe s s') (c : Nat) (f : Ctx → Ctx × Out)
    (hf : ∀ x y : Ctx, y.signer = x.signer → y.resolver = x.resolver → y.settings = x.settings →
      (x.cancel = true → y.cancel = true) →
      (f y).1.signer = (f x).1.signer ∧ (f y).1.resolver = (f x).1.resolver ∧
      (f y).1.settings = (f x).1.settings ∧ ((f x).1.cancel = true → (f y).1.cancel = true)) :
    CancelLe (onCtx s c f).1 (onCtx s' c f).1 := by
  obtain ⟨h1, h2, h3⟩ := h
  unfold onCtx
  cases hc : s.ctxs[c]? with
  | none =>
    have : s'.ctxs[c]? = none := cancelLe_none ⟨h1, h2, h3⟩ c hc
    simp only [this]
    exact ⟨h1, h2, h3⟩
  | some x =>
    obtain ⟨y, hy, e1, e2, e3, e4⟩ := h3 c x hc
    simp only [hy]
    have hlt : c < s.ctxs.length := (List.getElem?_eq_some_iff.1 hc).1
    have hlt' : c < s'.ctxs.length := by rw [h2]; exact hlt
    refine ⟨h1, by simp [h2], ?_⟩
    intro d z hz
    by_cases hd : c = d
    · subst hd
      simp only [List.getElem?_set_self hlt, Option.some.injEq] at hz
      subst hz
      obtain ⟨g1, g2, g3, g4⟩ := hf x y e1 e2 e3 e4
      exact ⟨(f y).1, by simp [List.getElem?_set_self hlt'], g1, g2, g3, g4⟩
    · simp only [List.getElem?_set_ne hd] at hz
      obtain ⟨w, hw, r⟩ := h3 d z hz
      exact ⟨w, by simp [List.getElem?_set_ne hd, hw], r⟩

theorem cancelLe_onTls {s s' : Sys} (h : CancelLe s s') (t : Nat) (g : Nat → Nat × Out) :
    CancelLe (onTls s t g).1 (onTls s' t g).1 ∧ (onTls s' t g).2 = (onTls s t g).2 := by
  obtain ⟨h1, h2, h3⟩ := h
  unfold onTls
  rw [h1]
  cases s.tls[t]? with
  | none => exact ⟨⟨h1, h2, h3⟩, rfl⟩
  | some v => exact ⟨⟨by simp, h2, h3⟩, rfl⟩

/-- One step on a state with more cancel flags: the output is the baseline one or a checkpoint
reporting "cancelled"; the relation between the states is kept. -/
theorem step_cancelLe (s s' : Sys) (o : Op) (h : CancelLe s s') :
    Relaxed o (step s o).2 (step s' o).2 ∧ CancelLe (step s o).1 (step s' o).1 := by
  have hout : ∀ (c : Nat) (f : Ctx → Ctx × Out),
      (∀ x y : Ctx, y.signer = x.signer → y.resolver = x.resolver → y.settings = x.settings →
        (f y).2 = (f x).2) → (onCtx s' c f).2 = (onCtx s c f).2 := by
    intro c f hf
    unfold onCtx
    cases hc : s.ctxs[c]? with
    | none => simp [cancelLe_none h c hc]
    | some x =>
      obtain ⟨y, hy, e1, e2, e3, _⟩ := h.2.2 c x hc
      simp [hy, hf x y e1 e2 e3]
  cases o with
  | checkProgress c =>
    refine ⟨?_, cancelLe_onCtx h c _ (fun x y e1 e2 e3 e4 => ⟨e1, e2, e3, e4⟩)⟩
    simp only [step, onCtx]
    cases hc : s.ctxs[c]? with
    | none => simp [cancelLe_none h c hc, Relaxed]
    | some x =>
      obtain ⟨y, hy, _, _, _, e4⟩ := h.2.2 c x hc
      simp only [hy]
      cases hyc : y.cancel with
      | true => exact Or.inr ⟨⟨c, rfl⟩, rfl⟩
      | false =>
        cases hxc : x.cancel with
        | true => simp [e4 hxc] at hyc
        | false => exact Or.inl rfl
  | cancel c =>
    exact ⟨Or.inl (hout c _ (fun _ _ _ _ _ => rfl)),
      cancelLe_onCtx h c _ (fun x y e1 e2 e3 _ => ⟨e1, e2, e3, fun _ => rfl⟩)⟩
  | getSigner c v =>
    exact ⟨Or.inl (hout c _ (fun x y e1 _ _ => by simp [e1])),
      cancelLe_onCtx h c _ (fun x y e1 e2 e3 e4 => ⟨by simp [e1], e2, e3, e4⟩)⟩
  | getResolver c v =>
    exact ⟨Or.inl (hout c _ (fun x y _ e2 _ => by simp [e2])),
      cancelLe_onCtx h c _ (fun x y e1 e2 e3 e4 => ⟨e1, by simp [e2], e3, e4⟩)⟩
  | getSignerS c =>
    exact ⟨Or.inl (hout c _ (fun x y e1 _ e3 => by simp [e1, e3])),
      cancelLe_onCtx h c _ (fun x y e1 e2 e3 e4 => ⟨by simp [e1, e3], e2, e3, e4⟩)⟩
  | getResolverS c =>
    exact ⟨Or.inl (hout c _ (fun x y _ e2 e3 => by simp [e2, e3])),
      cancelLe_onCtx h c _ (fun x y e1 e2 e3 e4 => ⟨e1, by simp [e2, e3], e3, e4⟩)⟩
  | readSettings c =>
    exact ⟨Or.inl (hout c _ (fun x y _ _ e3 => by simp [e3])),
      cancelLe_onCtx h c _ (fun x y e1 e2 e3 e4 => ⟨e1, e2, e3, e4⟩)⟩
  | buildSettings t v => exact ⟨Or.inl rfl, h⟩
  | readTls t => exact ⟨Or.inl (cancelLe_onTls h t _).2, (cancelLe_onTls h t _).1⟩
  | setTls t v => exact ⟨Or.inl (cancelLe_onTls h t _).2, (cancelLe_onTls h t _).1⟩
  | leakyRead t => exact ⟨Or.inl (cancelLe_onTls h t _).2, (cancelLe_onTls h t _).1⟩

theorem cancel_step_cancelLe (s s' : Sys) (o : Op) (ho : isCancel o = true) (h : CancelLe s s') :
    CancelLe s (step s' o).1 := by
  cases o <;> simp [isCancel] at ho
  rename_i c
  obtain ⟨h1, h2, h3⟩ := h
  simp only [step, onCtx]
  cases hc : s'.ctxs[c]? with
  | none => exact ⟨h1, h2, h3⟩
  | some y =>
    have hlt : c < s'.ctxs.length := (List.getElem?_eq_some_iff.1 hc).1
    refine ⟨h1, by simp [h2], ?_⟩
    intro d x hx
    obtain ⟨w, hw, r1, r2, r3, r4⟩ := h3 d x hx
    by_cases hd : c = d
    · subst hd
      rw [hc] at hw; cases hw
      exact ⟨{ y with cancel := true }, by simp [List.getElem?_set_self hlt], r1, r2, r3, fun _ => rfl⟩
    · exact ⟨w, by simp [List.getElem?_set_ne hd, hw], r1, r2, r3, r4⟩

theorem runProg_relaxed : ∀ (p : List Op) (s s' : Sys), CancelLe s s' →
    RelaxedList p (runProg s p).2 (runProg s' p).2 ∧ CancelLe (runProg s p).1 (runProg s' p).1 := by
  intro p
  induction p with
  | nil => intro s s' h; exact ⟨trivial, h⟩
  | cons o p ih =>
    intro s s' h
    obtain ⟨r, hn⟩ := step_cancelLe s s' o h
    obtain ⟨rl, hl⟩ := ih (step s o).1 (step s' o).1 hn
    exact ⟨⟨r, rl⟩, hl⟩

theorem runProg_cancels_cancelLe : ∀ (q : List Op) (s s' : Sys), (∀ o ∈ q, isCancel o = true) →
    CancelLe s s' → CancelLe s (runProg s' q).1 := by
  intro q
  induction q with
  | nil => intro s s' _ h; exact h
  | cons o q ih =>
    intro s s' hq h
    exact ih s (step s' o).1 (fun x hx => hq x (List.mem_cons_of_mem _ hx))
      (cancel_step_cancelLe s s' o (hq o (List.mem_cons_self ..)) h)

/-- **Cancelling shared contexts while a program runs**: whatever contexts a concurrent
canceller hits (including the ones the program uses) and under every schedule, each operation of
the program ends with its baseline result — the one it has when nobody cancels — except that
a checkpoint may report "cancelled". Nothing else can differ. -/
theorem cancel_shared_relaxed : ∀ (sch : List Bool) (p q : List Op) (s s' : Sys),
    CancelLe s s' → (∀ o ∈ q, isCancel o = true) →
    RelaxedList p (runProg s p).2 (runSched s' p q sch).2.1 := by
  intro sch
  induction sch with
  | nil =>
    intro p q s s' h hq
    cases p with
    | nil => simp [runSched, runProg, RelaxedList]
    | cons a p =>
      cases q with
      | nil => simp only [runSched]; exact (runProg_relaxed (a :: p) s s' h).1
      | cons b q => simp only [runSched]; exact (runProg_relaxed (a :: p) s s' h).1
  | cons x sch ih =>
    intro p q s s' h hq
    cases p with
    | nil => simp [runSched, runProg, RelaxedList]
    | cons a p =>
      cases q with
      | nil => simp only [runSched]; exact (runProg_relaxed (a :: p) s s' h).1
      | cons b q =>
        cases x with
        | true =>
          obtain ⟨r, hn⟩ := step_cancelLe s s' a h
          have hrec := ih p (b :: q) (step s a).1 (step s' a).1 hn hq
          simp only [runSched, runProg]
          exact ⟨r, hrec⟩
        | false =>
          have hn := cancel_step_cancelLe s s' b (hq b (List.mem_cons_self ..)) h
          have hrec := ih (a :: p) q s (step s' b).1 hn (fun x hx => hq x (List.mem_cons_of_mem _ hx))
          simp only [runSched]
          exact hrec

/-- The cancel flag is sticky: no operation clears it. -/
theorem cancel_flag_sticky (s : Sys) (op : Op) (c : Nat) (x : Ctx)
    (hx : s.ctxs[c]? = some x) (hc : x.cancel = true) :
    ∃ y, (step s op).1.ctxs[c]? = some y ∧ y.cancel = true := by
  have hlt : c < s.ctxs.length := (List.getElem?_eq_some_iff.1 hx).1
  cases op with
  | buildSettings t w => exact ⟨x, hx, hc⟩
  | readTls t => exact ⟨x, by simp only [step, onTls]; split <;> exact hx, hc⟩
  | setTls t w => exact ⟨x, by simp only [step, onTls]; split <;> exact hx, hc⟩
  | leakyRead t => exact ⟨x, by simp only [step, onTls]; split <;> exact hx, hc⟩
  | checkProgress d | cancel d | getSigner d w | getResolver d w | getSignerS d | getResolverS d
  | readSettings d =>
    simp only [step, onCtx]
    by_cases hd : d = c
    · subst hd
      simp [hx, List.getElem?_set_self hlt, hc]
    · cases hdx : s.ctxs[d]? with
      | none => exact ⟨x, hx, hc⟩
      | some z => exact ⟨x, by simp [List.getElem?_set_ne hd, hx], hc⟩

/-- Cancelling one context is invisible to checkpoints of another. -/
theorem cancel_other_context_invisible (s : Sys) (c d : Nat) (h : c ≠ d) :
    (step (step s (.cancel c)).1 (.checkProgress d)).2 = (step s (.checkProgress d)).2 :=
  (step_indep_comm s (.cancel c) (.checkProgress d) (by simp [indep, Op.cell, h])).2.1

/-- Operations on a context never change any thread's legacy settings. -/
theorem ctx_ops_preserve_tls (s : Sys) (op : Op) (c : Nat) (h : op.cell = .ctx c) :
    (step s op).1.tls = s.tls := by
  cases op <;> simp [Op.cell] at h <;> (simp only [step, onCtx]; split <;> rfl)

/-- Write-once cells: whoever initialises first, every caller observes the same value. -/
theorem once_cell_first_wins (s : Sys) (c v w : Nat) (x : Ctx) (hx : s.ctxs[c]? = some x) :
    (step (step s (.getSigner c v)).1 (.getSigner c w)).2 = (step s (.getSigner c v)).2 := by
  have hlt : c < s.ctxs.length := (List.getElem?_eq_some_iff.1 hx).1
  simp [step, onCtx, hx, List.getElem?_set_self hlt, getOrInit]

/-! ## Part 2 — tables regenerated from sdk/src on every run

The reviewed lists below are compared with the regenerated tables by *equality* (`rfl` after the
structural part — `filter` / `map` on `Bool` / `Kind` columns — has been reduced; string literals are
compared as literals): a new row, a missing row and a changed classification all fail. The
translator emits every table in a fixed (file, name) order. -/

/-! ### Shared-state inventory -/

/-- Reviewed process-wide items that are not plain constants, with their classification. -/
def reviewed : List (String × String × Kind) := [
  ("assertions/labels.rs", "METADATA_LABEL_REGEX", .lazyConst),
  ("assertions/labels.rs", "VERSION_RE", .lazyConst),
  ("assertions/metadata.rs", "ALLOWED_SCHEMAS", .lazyConst),
  ("assertions/metadata.rs", "BACKCOMPAT_LIST", .lazyConst),
  ("context.rs", "SyncResolverState::Default", .perContextCell),
  ("context.rs", "AsyncResolverState::Default", .perContextCell),
  ("context.rs", "SignerState::FromSettings", .perContextCell),
  ("context.rs", "AsyncSignerState::FromSettings", .perContextCell),
  ("context.rs", "cancel_flag", .perContextCell),
  ("http/reqwest.rs", "SYNC_CLIENT", .lazyConst),
  ("http/reqwest.rs", "SYNC_CLIENT_REDIRECTS", .lazyConst),
  ("http/reqwest.rs", "ASYNC_CLIENT", .lazyConst),
  ("http/reqwest.rs", "ASYNC_CLIENT_REDIRECTS", .lazyConst),
  ("identity/claim_aggregation/w3c_vc/did.rs", "VALID_DID", .lazyConst),
  ("identity/identity_assertion/signer_payload.rs", "ABSOLUTE_URL_PREFIX", .lazyConst),
  ("jumbf_io.rs", "HANDLER_PROTOTYPES", .lazyConst),
  ("jumbf_io.rs", "CAI_READERS", .lazyConst),
  ("jumbf_io.rs", "CAI_WRITERS", .lazyConst),
  ("jumbf_io.rs", "CONTAINER_MAP", .lazyConst),
  ("settings/mod.rs", "SETTINGS", .threadLocal)
]

/-- **The inventory is closed, and complete**: the process-wide items of the current source that
are not plain constants are exactly the reviewed cells with the reviewed classification — no
unreviewed global, and (regression check of the translator itself) no reviewed item that the
translator fails to find: the first version stopped reading a file at its first inline test
module and lost `http/reqwest.rs ASYNC_CLIENT*`. -/
theorem inventory_closed : Gen.sharedState.filter (fun r => r.2.2 != Kind.const) = reviewed := by
  decide +kernel

/-- The same obligation in the two directions the review asked for. -/
theorem inventory_contains_reviewed :
    reviewed.all (fun e => (Gen.sharedState.filter (fun r => r.2.2 != Kind.const)).contains e) = true := by
  rw [inventory_closed]; decide

theorem no_mutable_globals :
    Gen.sharedState.all (fun r => r.2.2 != Kind.mutableGlobal) = true := by decide +kernel

/-- Lazily initialised statics: no initialiser mentions settings, a context, thread-local state,
the environment, the clock or a random source — their value does not depend on who initialises
them or when. (Syntactic; what a third-party constructor such as the reqwest client builder reads
internally is not visible.) -/
theorem lazy_inits_pure : Gen.lazyInits.all (fun r => !r.2.2.1 && !r.2.2.2) = true := by decide +kernel

/-- Every lazily initialised static of the inventory has an initialiser row (and vice versa). -/
theorem lazy_inits_cover :
    Gen.lazyInits.map (fun l => (l.1, l.2.1)) =
      (Gen.sharedState.filter (fun r => r.2.2 == Kind.lazyConst)).map (fun r => (r.1, r.2.1)) := by
  decide +kernel

/-! ### Interior-mutable fields and caches of SDK types -/

/-- Reviewed interior-mutable fields (struct fields / enum payloads whose type mentions
`RefCell`/`Cell`/`Mutex`/`RwLock`/`Atomic*`/`OnceLock`/`OnceCell`/`Lazy*`), crate-wide.
The `Context` cells are the cells of the model (`Ctx.cancel`, `Ctx.signer`, `Ctx.resolver`; sync and
async variants are separate cells of the same kind). The two identity-signer lists are written
only through `&mut self` (`add_identity_assertion`) and read by cloning. -/
def reviewedInterior : List (String × String × String) := [
  ("context.rs", "AsyncResolverState::Default", "OnceLock"),
  ("context.rs", "AsyncSignerState::FromSettings", "OnceLock"),
  ("context.rs", "Context::cancel_flag", "AtomicBool"),
  ("context.rs", "SignerState::FromSettings", "OnceLock"),
  ("context.rs", "SyncResolverState::Default", "OnceLock"),
  ("identity/builder/async_identity_assertion_signer.rs", "AsyncIdentityAssertionSigner::identity_assertions", "RwLock"),
  ("identity/builder/identity_assertion_signer.rs", "IdentityAssertionSigner::identity_assertions", "RwLock")
]

/-- **No unreviewed interior-mutable field** in any struct / enum of the SDK (`Store`, `Reader`,
`Builder`, `Claim`, `Ingredient`, … have none: whatever they cache is written through `&mut`). -/
theorem interior_fields_reviewed : Gen.interiorFields = reviewedInterior := by decide +kernel

/-- Fields named like a cache, and who writes them. `Store::manifest_box_hash_cache` is filled
while the JUMBF is parsed (`Store::from_jumbf_impl`, on the store being built) and never written
afterwards: it is a function of the parsed bytes. -/
def reviewedCacheWriters : List (String × String × String) := [
  ("store.rs", "Store::manifest_box_hash_cache", "Store::from_jumbf_impl")
]

theorem cache_fields_written_only_at_load :
    Gen.cacheFields = ["Store::manifest_box_hash_cache"] ∧ Gen.cacheFieldWriters = reviewedCacheWriters := by
  constructor <;> decide +kernel

/-! ### Who reaches the thread-local settings -/

/-- The reviewed legacy API: every function from which `settings::SETTINGS` is reachable through
statically resolved calls. All of them are context-free entry points kept for backward
compatibility (deprecated constructors that *define* their behaviour by the thread-local
settings) or crate-private helpers of those. `true` = may write. -/
def reviewedLegacy : List (String × String × Bool) := [
  ("builder.rs", "Builder::from_archive", false),
  ("builder.rs", "Builder::from_json", false),
  ("builder.rs", "Builder::new", false),
  ("ingredient.rs", "Ingredient::from_manifest_and_asset_bytes_async", false),
  ("ingredient.rs", "Ingredient::from_manifest_and_asset_stream_async", false),
  ("ingredient.rs", "Ingredient::from_memory_async", false),
  ("ingredient.rs", "Ingredient::from_stream", false),
  ("ingredient.rs", "Ingredient::from_stream_async", false),
  ("reader.rs", "Reader::from_file", false),
  ("reader.rs", "Reader::from_fragmented_files", false),
  ("reader.rs", "Reader::from_manifest_data_and_stream", false),
  ("reader.rs", "Reader::from_stream", false),
  ("settings/mod.rs", "Settings::from_file", true),
  ("settings/mod.rs", "Settings::from_string", true),
  ("settings/mod.rs", "Settings::from_toml", true),
  ("settings/mod.rs", "Settings::get_thread_local_value", false),
  ("settings/mod.rs", "Settings::reset", true),
  ("settings/mod.rs", "Settings::set_thread_local_value", true),
  ("settings/mod.rs", "Settings::signer", false),
  ("settings/mod.rs", "Settings::to_pretty_toml", false),
  ("settings/mod.rs", "Settings::to_toml", false),
  ("settings/mod.rs", "get_thread_local_settings", false),
  ("settings/signer.rs", "SignerSettings::signer", false),
  ("store.rs", "Store::from_jumbf", false)
]

/-- **The set of functions that reach the thread-local settings is exactly the reviewed legacy
API** (a new caller, a caller that disappears, or a reader that starts writing, fails here). -/
theorem tls_touchers_are_reviewed_legacy : Gen.tlsTouchers = reviewedLegacy := by decide +kernel

/-- **No function that is handed a context or a settings value (parameter of type `Context` /
`Settings`, or `self` of a type holding one) reaches the thread-local settings through
statically resolved calls.** No exception list. (`Gen.ctxOrTls` has one row per function that
takes a context or reaches the thread-local settings, with the two flags.) -/
theorem context_paths_do_not_read_tls_partial :
    Gen.ctxOrTls.all (fun r => !(r.2.2.1 && r.2.2.2)) = true := by decide +kernel

/-- The rows flagged "reaches the thread-local settings" are the rows of `Gen.tlsTouchers`. -/
theorem ctx_or_tls_consistent :
    (Gen.ctxOrTls.filter (fun r => r.2.2.2)).map (fun r => (r.1, r.2.1)) =
      Gen.tlsTouchers.map (fun r => (r.1, r.2.1)) := by decide +kernel

/-- Non-vacuity: several hundred functions take a context, among them the entry points the
property is about. -/
theorem takes_context_populated :
    300 ≤ (Gen.ctxOrTls.filter (fun r => r.2.2.1)).length ∧
    (Gen.ctxOrTls.filter (fun r => r.2.2.1 && r.1 == "reader.rs")).any (fun r => r.2.1 == "Reader::with_stream") = true := by
  constructor <;> decide +kernel

/-- The full statement: no context path reaches the thread-local settings, *including* calls
dispatched through the asset-handler traits. -/
def ContextPathsTlsFree : Prop :=
  Gen.ctxOrTls.all (fun r => !(r.2.2.1 && r.2.2.2)) = true ∧ Gen.tlsDynTouchers = []

/-- Trait methods (dynamic dispatch, called from context paths with no context argument) that reach
the thread-local settings. Known defect: `BmffIO::read_cai` / `write_cai` re-parse the original and
update manifest stores with `Store::from_jumbf`, whose decompression cap comes from the thread-local
settings — every context-based read / write of such a BMFF asset depends on them. -/
def knownDynLeaks : List (String × String × String) := [
  ("asset_handlers/bmff_io.rs", "BmffIO::read_cai", "CAIReader"),
  ("asset_handlers/bmff_io.rs", "BmffIO::write_cai", "CAIWriter")
]

/-- The dynamic-dispatch leaks are exactly the known ones (a new one fails here). -/
theorem dyn_tls_touchers_are_known : Gen.tlsDynTouchers = knownDynLeaks := by decide +kernel

/-- **The code falsifies the full statement** (open finding `context-read-depends-on-thread-local-settings`):
witness = the two BMFF handler methods. When the defect is repaired this theorem stops compiling
and `context_paths_do_not_read_tls_partial` is to be replaced by the full statement. -/
theorem context_paths_tls_free_false : ¬ ContextPathsTlsFree := by
  intro h
  have h2 := h.2
  rw [dyn_tls_touchers_are_known] at h2
  exact absurd h2 (by decide)

/-- The same defect in the state model: a context-based read (`leakyRead`) observes an earlier
legacy settings write of its thread. -/
theorem context_read_depends_on_tls :
    ∃ s t v, (step (step s (.setTls t v)).1 (.leakyRead t)).2 ≠ (step s (.leakyRead t)).2 :=
  ⟨initSys 1 1, 0, 401, by decide⟩

/-! ### Settings builders -/

/-- The public functions of `Settings` / `Context` / `IntoSettings` that do not reach the
thread-local settings at all: the settings-building API the property is about. -/
def tlsFreeApi : List String := [
  "Context::async_signer", "Context::cancel", "Context::into_shared", "Context::is_cancelled",
  "Context::new", "Context::resolver", "Context::resolver_async", "Context::set_async_signer",
  "Context::set_progress_callback", "Context::set_resolver", "Context::set_resolver_async",
  "Context::set_settings", "Context::set_signer", "Context::settings", "Context::settings_mut",
  "Context::signer", "Context::with_async_signer", "Context::with_progress_callback",
  "Context::with_resolver", "Context::with_resolver_async", "Context::with_settings",
  "Context::with_signer", "Settings::into_settings", "String::into_settings", "Value::into_settings",
  "str::into_settings", "Settings::get_value", "Settings::new", "Settings::set_value",
  "Settings::update_from_str", "Settings::with_file", "Settings::with_json", "Settings::with_toml",
  "Settings::with_value"
]

/-- The public functions that do reach them: (name, deprecated, writes). -/
def tlsUsingApi : List (String × Bool × Bool) := [
  ("Settings::from_file", true, true), ("Settings::from_string", true, true),
  ("Settings::from_toml", true, true), ("Settings::signer", true, false),
  ("Settings::to_pretty_toml", true, false), ("Settings::to_toml", true, false)
]

/-- **Building settings values / contexts never touches the thread-local settings** — not even
reads: every public function of `Settings` / `Context` / `IntoSettings` is in the thread-local-free
list, or is one of six `#[deprecated]` legacy functions. Source-derived (replaces the model-level
`rfl`); a new public builder that touches the thread-local settings fails here. -/
theorem builders_do_not_touch_tls :
    (Gen.settingsApi.filter (fun a => !a.2.2.2.1)).map (fun a => a.2.1) = tlsFreeApi ∧
    (Gen.settingsApi.filter (fun a => a.2.2.2.1)).map (fun a => (a.2.1, a.2.2.1, a.2.2.2.2)) = tlsUsingApi := by
  constructor <;> decide +kernel

/-- The legacy thread-local setters: `Settings::from_string` / `from_toml` / `from_file`. They
return a `Settings` value *and* merge it into the thread-local settings — that is their documented
purpose ("Load thread-local Settings …"), they are what the property calls "the legacy
thread-local settings", and the model's `setTls`. Decision: not a violation of "building settings
values never changes the legacy thread-local settings" as long as the public functions that
reach the thread-local settings are all `#[deprecated]` in favour of the pure builders and the
writers are exactly these three. -/
theorem settings_api_tls_users_are_deprecated_legacy :
    tlsUsingApi.all (fun r => r.2.1) = true ∧
    (tlsUsingApi.filter (fun r => r.2.2)).map (·.1) =
      ["Settings::from_file", "Settings::from_string", "Settings::from_toml"] := by
  constructor <;> decide

/-- Witness that the legacy API is history-dependent by design: a legacy read observes an earlier
legacy write on the same thread (replayed on the implementation by the C38 harness, `rt` probes). -/
theorem tls_history_visible :
    ∃ s, (step (step s (.setTls 0 5)).1 (.readTls 0)).2 ≠ (step s (.readTls 0)).2 :=
  ⟨initSys 1 1, by decide⟩

/-! ### Non-state sources of nondeterminism (clock, environment, randomness, hash iteration) -/

inductive NdVerdict
  | validationTime    -- produces the validation time stamp, exempt by the statement
  | signingFresh      -- time / random identifiers / salts / nonces put into a NEW manifest while signing
  | clockValidity     -- compares a certificate / credential validity window with the current time:
                      -- the verdict changes only when the wall clock crosses such a boundary
  | diagnostics       -- timing / logging only
  | orderFree         -- iterates a hash container; the result does not depend on the order
  | apiOrder          -- hands the hash order to the caller of a helper API; not part of the report
  | signingOrder      -- hash order decides the ORDER of items written into a new manifest while signing
  | decidesReport     -- hash order can decide the content of a read report: defect
  deriving DecidableEq, Repr

/-- Reviewed sites. -/
def reviewedNondet : List ((String × String × String) × NdVerdict) := [
  (("assertions/assertion_metadata.rs", "AssertionMetadata::new", "clock"), .signingFresh),
  (("assertions/metadata.rs", "Metadata::is_valid", "hashIter"), .orderFree),
  (("asset_handlers/bmff_io.rs", "get_top_level_box_offsets", "hashIter"), .orderFree),
  (("asset_handlers/bmff_io.rs", "get_top_level_boxes", "hashIter"), .orderFree),
  (("builder.rs", "Builder::add_auto_actions_assertions_settings", "hashIter"), .signingOrder),
  (("builder.rs", "Builder::data_hashed_placeholder", "random"), .signingFresh),
  (("builder.rs", "Builder::maybe_add_timestamp", "hashIter"), .orderFree),
  (("builder.rs", "Builder::set_asset_from_dest", "random"), .signingFresh),
  (("builder.rs", "Builder::sign_box_hashed_embeddable", "random"), .signingFresh),
  (("builder.rs", "default_instance_id", "random"), .signingFresh),
  (("claim.rs", "Claim::new", "random"), .signingFresh),
  (("crjson.rs", "CrJsonExporter::build_validation_results_per_manifest", "clock"), .validationTime),
  (("crjson.rs", "build_manifest_validation_results", "clock"), .validationTime),
  (("crypto/cose/certificate_profile.rs", "check_certificate_profile_inner", "clock"), .clockValidity),
  (("crypto/internal/time.rs", "utc_now", "clock"), .clockValidity),
  (("crypto/time_stamp/provider.rs", "default_rfc3161_message", "random"), .signingFresh),
  (("identity/claim_aggregation/ica_signature_verifier.rs", "IcaSignatureVerifier::check_valid_from", "clock"), .clockValidity),
  (("identity/claim_aggregation/ica_signature_verifier.rs", "IcaSignatureVerifier::check_valid_until", "clock"), .clockValidity),
  (("ingredient.rs", "Ingredient::add_to_claim", "hashIter"), .orderFree),
  (("ingredient.rs", "default_instance_id", "random"), .signingFresh),
  (("manifest.rs", "default_instance_id", "random"), .signingFresh),
  (("reader.rs", "Reader::iter_manifests", "hashIter"), .apiOrder),
  (("resource_store.rs", "ResourceStore::iter_resource_ids", "hashIter"), .apiOrder),
  (("salt.rs", "DefaultSalt::generate_salt", "random"), .signingFresh),
  (("settings/builder.rs", "ClaimGeneratorInfo::try_from", "hashIter"), .orderFree),
  -- was `.decidesReport` (which of several time-stamp assertions naming one manifest won depended on
  -- the order of `svi.manifest_map.values()`); fixed: the earliest valid time stamp wins
  -- (fixes/C38-timestamp-assertion-earliest-wins.patch), replayed by the C38 harness
  (("store.rs", "Store::get_store_validation_info", "hashIter"), .orderFree),
  (("store.rs", "Store::is_uri_redacted", "hashIter"), .orderFree),
  (("store.rs", "Store::load_ingredient_to_claim", "hashIter"), .signingOrder),
  (("store.rs", "Store::save_to_bmff_fragmented", "hashIter"), .orderFree),
  (("utils/ephemeral_cert.rs", "default_validity", "clock"), .signingFresh),
  (("utils/ephemeral_cert.rs", "fill_random", "random"), .signingFresh),
  (("utils/time_it.rs", "TimeIt::new", "clock"), .diagnostics),
  (("validation_results.rs", "ValidationResults::from_store", "clock"), .validationTime)
]

/-- **Every clock / environment / randomness / hash-iteration site of the source is reviewed**
(a new one fails here), and none reads the process environment. -/
theorem nondet_sites_reviewed : Gen.nondetSites = reviewedNondet.map (·.1) := by decide +kernel

theorem no_environment_reads : (reviewedNondet.filter (fun e => e.1.2.2 == "env")).length = 0 := by
  decide +kernel

/-- **No reviewed site lets hash order decide the content of a read report.** (One did:
`Store::get_store_validation_info` inserted into `svi.timestamps` while iterating
`svi.manifest_map.values()`, so which of several time-stamp assertions naming the same manifest won
differed between two reads of the same bytes — reproduced by the C38 harness, repaired by keeping
the earliest valid time stamp.) -/
theorem report_deciding_hash_order_sites :
    (reviewedNondet.filter (fun e => e.2 == .decidesReport)).map (·.1.2.1) = [] := by decide

/-! ### Non-vacuity -/
example : ProgsCompat [.cancel 0, .getSigner 0 7] [.checkProgress 1, .setTls 0 5, .buildSettings 1 3] := by
  intro a ha b hb
  simp at ha hb
  rcases ha with rfl | rfl <;> rcases hb with rfl | rfl | rfl <;> decide
example : ∀ o ∈ [Op.checkProgress 0, .getSignerS 0, .getResolverS 0, .readSettings 0, .readTls 0],
    sharedSafe o = true := by decide
example :
    (runSched (initSys 2 1) [.cancel 0, .checkProgress 0] [.checkProgress 1, .readTls 0]
      [false, true, false, true]).2 = ([.unit, .flag true], [.flag false, .val 200]) := by decide +kernel
example :
    (runSchedN (initSys 1 1) [[.getSignerS 0, .checkProgress 0], [.getSignerS 0], [.readSettings 0, .getResolverS 0]]
      [2, 1, 0, 2, 0]).2 = [[.val 100, .flag false], [.val 100], [.val 100, .val 100]] := by decide +kernel
/-- a shared context cancelled mid-run: the second checkpoint reports "cancelled", the rest is baseline -/
example :
    (runSched (initSys 1 1) [.checkProgress 0, .getSignerS 0, .checkProgress 0] [.cancel 0] [true, false]).2.1 =
      [.flag false, .val 100, .flag true] := by decide +kernel

end C2pa.C24
