import C2paModel.Props.C24
/-
C38 — property theorems (determinism / repeatability), over the state model shared with C24.

Statement: reading the same bytes twice with the same settings yields the same report, and
signing never depends on state left behind by earlier operations in the same process.

In the model an operation's observable result is a function of (its inputs, the cell it
touches). The theorems say: read-type operations leave the whole system state unchanged (so
repeating a read program repeats its outputs); an operation's output depends only on its own
cell; whatever ran before on *other* cells is irrelevant; write-once cells never change once
set. That there is no further process-wide mutable state is the inventory obligation of C24
(`inventory_closed`, `no_mutable_globals`), re-decided on every run. Reports themselves
(bytes → JSON) are compared on the implementation by the harness (same process twice, and a
fresh process).
-/
namespace C2pa.C24

def isRead : Op → Bool
  | .checkProgress _ | .readSettings _ | .buildSettings _ _ | .readTls _ | .leakyRead _ => true
  | _ => false

theorem set_getElem?_self {α} : ∀ (l : List α) (i : Nat) (x : α), l[i]? = some x → l.set i x = l := by
  intro l
  induction l with
  | nil => intro i x h; simp at h
  | cons a t ih =>
    intro i x h
    cases i with
    | zero => simp at h; simp [h]
    | succ j => simp at h; simp [ih j x h]

/-- Read-type operations do not change the system state. -/
theorem read_ops_preserve_state (s : Sys) (op : Op) (h : isRead op = true) : (step s op).1 = s := by
  cases op <;> simp [isRead] at h
  · -- checkProgress
    simp only [step, onCtx]; split
    · next x hx => simp [set_getElem?_self _ _ _ hx]
    · rfl
  · simp only [step, onCtx]; split
    · next x hx => simp [set_getElem?_self _ _ _ hx]
    · rfl
  · rfl
  · simp only [step, onTls]; split
    · next v hv => simp [set_getElem?_self _ _ _ hv]
    · rfl
  · simp only [step, onTls]; split
    · next v hv => simp [set_getElem?_self _ _ _ hv]
    · rfl

theorem read_prog_preserves_state : ∀ (p : List Op) (s : Sys), (∀ o ∈ p, isRead o = true) →
    (runProg s p).1 = s := by
  intro p
  induction p with
  | nil => intro s _; rfl
  | cons o p ih =>
    intro s h
    simp only [runProg]
    rw [read_ops_preserve_state s o (h o (List.mem_cons_self ..))]
    exact ih s (fun x hx => h x (List.mem_cons_of_mem _ hx))

/-- **Repeating a read program repeats its outputs.** -/
theorem replay_deterministic (p : List Op) (s : Sys) (h : ∀ o ∈ p, isRead o = true) :
    (runProg (runProg s p).1 p).2 = (runProg s p).2 := by
  rw [read_prog_preserves_state p s h]

/-- What an operation can observe. -/
def view (s : Sys) : Cell → Option (Ctx ⊕ Nat)
  | .ctx c => (s.ctxs[c]?).map .inl
  | .thread t => (s.tls[t]?).map .inr
  | .none => none

/-- **An operation's output depends only on its own cell.** -/
theorem output_depends_only_on_cell (s s' : Sys) (op : Op) (h : view s op.cell = view s' op.cell) :
    (step s op).2 = (step s' op).2 := by
  cases op with
  | buildSettings t w => rfl
  | readTls t | setTls t w | leakyRead t =>
    simp only [Op.cell, view] at h
    simp only [step, onTls]
    cases h1 : s.tls[t]? <;> cases h2 : s'.tls[t]? <;> simp_all
  | checkProgress d | cancel d | getSigner d w | getResolver d w | readSettings d | getSignerS d
  | getResolverS d =>
    simp only [Op.cell, view] at h
    simp only [step, onCtx]
    cases h1 : s.ctxs[d]? <;> cases h2 : s'.ctxs[d]? <;> simp_all

/-- **State left behind on other contexts / threads is irrelevant**: whatever program ran
before on cells independent of `op`, `op` observes what it would observe on the initial state. -/
theorem earlier_independent_ops_irrelevant (s : Sys) (pre : List Op) (op : Op)
    (h : IndepOf op pre) : (step (runProg s pre).1 op).2 = (step s op).2 :=
  (step_runProg_comm op pre s h).2.2

/-- **A whole history is irrelevant to a later program** when every operation of the history is
compatible with every operation of the program: other cells, or safe operations on the same
cells (reads, checkpoints, lazily initialised signer / resolver). -/
theorem earlier_compatible_history_irrelevant : ∀ (p pre : List Op) (s : Sys), ProgsCompat pre p →
    (runProg (runProg s pre).1 p).2 = (runProg s p).2 := by
  intro p
  induction p with
  | nil => intro pre s _; rfl
  | cons o p ih =>
    intro pre s h
    have ho : CompatOf o pre := fun a ha => h a ha o (List.mem_cons_self ..)
    obtain ⟨k1, _, k3⟩ := step_runProg_compat_comm o pre s ho
    simp only [runProg]
    rw [k3, ← k1]
    rw [ih pre (step s o).1 (fun a ha b hb => h a ha b (List.mem_cons_of_mem _ hb))]

/-- **Repeating a program of safe operations repeats its outputs** — also when the first run
initialises the lazily created signer / resolver of the context (the second run finds the cell
filled with the value it would have created itself). -/
theorem replay_deterministic_shared (p : List Op) (s : Sys) (h : ∀ o ∈ p, sharedSafe o = true) :
    (runProg (runProg s p).1 p).2 = (runProg s p).2 :=
  earlier_compatible_history_irrelevant p p s (fun a ha b hb => by simp [compat, h a ha, h b hb])

/-- The operations of a context-based read / sign on context `c`, as the model sees them:
checkpoints, the context's own settings, the lazily built resolver / signer. -/
def readProg (c : Nat) : List Op := [.checkProgress c, .readSettings c, .getResolverS c, .checkProgress c]
def signProg (c : Nat) : List Op :=
  [.checkProgress c, .readSettings c, .getSignerS c, .getResolverS c, .checkProgress c]

/-- A history operation that cannot disturb context-based operations on `c`: anything except
cancelling `c` itself or initialising its cells with a caller-chosen value — in particular every
legacy thread-local settings write, every operation on other contexts, every read / sign on `c`. -/
def Harmless (c : Nat) : Op → Bool
  | .cancel d | .getSigner d _ | .getResolver d _ => d != c
  | _ => true

theorem harmless_compat (c : Nat) (o b : Op) (ho : Harmless c o = true) (hb : b ∈ signProg c ∨ b ∈ readProg c) :
    compat o b = true := by
  have hb' : b = .checkProgress c ∨ b = .readSettings c ∨ b = .getSignerS c ∨ b = .getResolverS c := by
    rcases hb with hb | hb <;> simp [signProg, readProg] at hb <;> grind
  rcases hb' with rfl | rfl | rfl | rfl <;> cases o <;>
    simp_all [Harmless, compat, indep, Op.cell, sharedSafe]

/-- **Signing / reading through a context never depends on what ran before in the process**:
after ANY history of harmless operations (legacy settings writes on any thread, operations on
other contexts, earlier reads and signs on the same context, settings builders) a context-based
sign and read give exactly the outputs they give on the initial state. -/
theorem context_sign_independent_of_history (s : Sys) (pre : List Op) (c : Nat)
    (h : ∀ o ∈ pre, Harmless c o = true) :
    (runProg (runProg s pre).1 (signProg c)).2 = (runProg s (signProg c)).2 :=
  earlier_compatible_history_irrelevant _ pre s
    (fun a ha b hb => harmless_compat c a b (h a ha) (Or.inl hb))

theorem context_read_independent_of_history (s : Sys) (pre : List Op) (c : Nat)
    (h : ∀ o ∈ pre, Harmless c o = true) :
    (runProg (runProg s pre).1 (readProg c)).2 = (runProg s (readProg c)).2 :=
  earlier_compatible_history_irrelevant _ pre s
    (fun a ha b hb => harmless_compat c a b (h a ha) (Or.inr hb))

/-- Non-vacuity: a history with legacy writes, a cancel of another context and a sign on the same one. -/
example : ∀ o ∈ [Op.setTls 0 7, .cancel 1, .getSignerS 0, .getSigner 1 9, .leakyRead 0], Harmless 0 o = true := by
  decide

/-- Write-once cells never change once set (the lazily created signer of a context stays the
one first created, whatever runs later on that context). -/
theorem signer_write_once (s : Sys) (op : Op) (c v : Nat) (x : Ctx)
    (hx : s.ctxs[c]? = some x) (hs : x.signer = some v) :
    ∃ y, (step s op).1.ctxs[c]? = some y ∧ y.signer = some v := by
  have hlt : c < s.ctxs.length := (List.getElem?_eq_some_iff.1 hx).1
  cases op with
  | buildSettings t w => exact ⟨x, hx, hs⟩
  | readTls t => exact ⟨x, by simp only [step, onTls]; split <;> exact hx, hs⟩
  | setTls t w => exact ⟨x, by simp only [step, onTls]; split <;> exact hx, hs⟩
  | leakyRead t => exact ⟨x, by simp only [step, onTls]; split <;> exact hx, hs⟩
  | checkProgress d | cancel d | getSigner d w | getResolver d w | readSettings d | getSignerS d
  | getResolverS d =>
    simp only [step, onCtx]
    by_cases hd : d = c
    · subst hd
      simp [hx, List.getElem?_set_self hlt, getOrInit, hs]
    · cases hdx : s.ctxs[d]? with
      | none => exact ⟨x, hx, hs⟩
      | some z => exact ⟨x, by simp [List.getElem?_set_ne hd, hx], hs⟩

/-! ### Non-vacuity -/
example : (runProg (initSys 2 2) [.checkProgress 0, .readSettings 1, .readTls 1]).2 =
    [.flag false, .val 101, .val 201] := by decide +kernel

end C2pa.C24
