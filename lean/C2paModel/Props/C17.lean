import C2paModel.Lemmas.C17
/-
C17 — BMFF mdat hashing is independent of how the payload is chunked.  Statement:

  When a caller feeds the mdat payload to the SDK incrementally and then signs in the BMFF
  placeholder workflow, the resulting asset reads back Valid for every way of splitting the
  payload into chunks. With a fixed leaf size the recorded Merkle leaves depend only on the
  concatenated payload.

The theorems are over every payload, every chunk list `cs` (any number of chunks, any sizes,
empty chunks included), every fixed leaf size `F > 0` (bytes) or variable sizes, and both mdat
header forms.  `cs.flatten` is the payload as the caller delivers it (the box content after the
size/type header, or after the 16-byte header of a large-size box); `covered large payload` is
the part the verifier hashes (it excludes 16 bytes from the start of the box).

"Reads back Valid" is proved for the hash binding of the mdat boxes: the verifier's ranges
(`validate_merkle_maps_mdat_boxes`) are exactly the recorded leaves and every leaf passes
`check_merkle_tree` (C16).  The flat BMFF hash over the rest of the file, the claim signature and
the manifest structure are not part of the model; they are observed end-to-end by the harness.

The theorems describe the code with the repairs /verif/fixes/C17-*.patch applied; before the
repair `MerkleAccumulator::add_merkle_leaf` falsified `leaves_depend_on_concat` (first chunk of
at most 8 bytes: the chunk was dropped and 8 further bytes skipped) and `variable_sizes_sum`
(an empty chunk recorded a zero-length leaf with an empty digest).

Limits that are part of the statements (and of the code):
* the validator refuses an mdat with more than `MAX_MERKLE_LEAVES_SIZE / digest length` leaves
  (2^20 for SHA-256).  Since fixes/C17-signing-histories.patch the signer refuses exactly those
  (`signer_stores_iff_validator_accepts_*`); before, it stored maps no reader accepts
  (`pre_fix_signer_validator_asymmetry_*`).  `Budget` is the input-level form of the limit.
* an asset with several mdats of which one has no covered byte does not verify
  (`uncovered_mdat_rejected`; open finding); all mdats uncovered gives no Merkle maps at all
  (`all_uncovered_no_maps`).
* the leaf size is documented to be set before the first chunk; `setFixed_first` covers that,
  the `example`s at the end show what a later change does (refusal or an unverifiable map).
-/
namespace C2pa.C17

variable {β : Type}

/-- the leaves stored for one mdat after all chunks and the final flush -/
def finalLeaves (fixed : Option Nat) (large : Bool) (cs : List (List β)) : Except Err (List (Leaf β)) :=
  match runMdat fixed large {} cs with
  | .ok st => .ok (flush st).leaves
  | .error e => .error e

/-- **Fixed leaf size: the recorded leaves are a function of the concatenated payload** — they
are the leaves of the consecutive `F`-byte blocks of the covered payload, for every chunking. -/
theorem leaves_depend_on_concat (F : Nat) (hF : 0 < F) (large : Bool) (cs : List (List β)) :
    finalLeaves (some F) large cs = .ok ((chunksOf F (covered large cs.flatten)).map leafOf) := by
  obtain ⟨st, hrun, _, hwf⟩ := runMdat_fixed_spec F hF large cs {} [] (InvF_init F large)
  simp only [finalLeaves, hrun]
  rw [flush_leaves_of_WF F hF st _ hwf]
  simp

/-- Two chunkings of the same payload record the same leaves (and neither fails). -/
theorem chunking_independent (F : Nat) (hF : 0 < F) (large : Bool) (cs cs' : List (List β))
    (h : cs.flatten = cs'.flatten) :
    finalLeaves (some F) large cs = finalLeaves (some F) large cs'
      ∧ ∃ ls, finalLeaves (some F) large cs = .ok ls := by
  rw [leaves_depend_on_concat F hF, leaves_depend_on_concat F hF, h]
  exact ⟨rfl, _, rfl⟩

/-- No mdat entry (hence no MerkleMap) exactly when nothing of the payload is covered. -/
theorem no_leaves_iff_nothing_covered (F : Nat) (hF : 0 < F) (large : Bool) (cs : List (List β)) :
    finalLeaves (some F) large cs = .ok [] ↔ covered large cs.flatten = [] := by
  rw [leaves_depend_on_concat F hF]
  constructor
  · intro h
    have h' : (chunksOf F (covered large cs.flatten)).map leafOf = ([] : List (Leaf β)) := by
      simpa using h
    have hnil : chunksOf F (covered large cs.flatten) = [] := List.map_eq_nil_iff.mp h'
    have := chunksOf_flatten F (covered large cs.flatten) hF
    rw [hnil] at this
    simpa using this.symm
  · intro h
    rw [h, chunksOf_nil]; simp

/-- **Variable leaf sizes: the leaves tile the covered payload** — one leaf per chunk that
contributes bytes, none of length zero, their data concatenates to the covered payload, so the
sizes sum to the length the verifier requires. -/
theorem variable_sizes_sum (large : Bool) (cs : List (List β)) :
    ∃ pieces : List (List β),
      finalLeaves none large cs = .ok (pieces.map leafOf)
        ∧ (∀ p ∈ pieces, p ≠ [])
        ∧ pieces.flatten = covered large cs.flatten
        ∧ ((pieces.map leafOf).map (·.len)).sum = (covered large cs.flatten).length := by
  obtain ⟨st, hrun, _, hrem, pieces, hp, hl, hfl⟩ := runMdat_var_spec large cs {} [] (InvV_init large)
  refine ⟨pieces, ?_, hp, by simpa using hfl, ?_⟩
  · simp [finalLeaves, hrun, flush, hrem, hl]
  · have : (pieces.map leafOf).map (·.len) = pieces.map List.length := by
      simp [leafOf, Function.comp_def]
    rw [this, sum_map_length_flatten, hfl]
    simp

theorem addLeaf_var_count (large : Bool) (st st' : MdatState β) (data : List β)
    (h : addLeaf none large st data = .ok st') :
    st'.leaves.length ≤ st.leaves.length + 1 ∧ st'.rem = st.rem := by
  cases large with
  | true =>
    simp only [addLeaf, ↓reduceIte] at h
    split at h
    · simp only [Except.ok.injEq] at h; subst h; exact ⟨by omega, rfl⟩
    · simp only [Except.ok.injEq] at h; subst h; simp
  | false =>
    simp only [addLeaf, Bool.false_eq_true, ↓reduceIte] at h
    split at h
    · simp only [Except.ok.injEq] at h; subst h; exact ⟨by simp, rfl⟩
    · simp only [Except.ok.injEq] at h; subst h; simp

theorem runMdat_var_count (large : Bool) (cs : List (List β)) (st st' : MdatState β)
    (h : runMdat none large st cs = .ok st') :
    st'.leaves.length ≤ st.leaves.length + cs.length ∧ st'.rem = st.rem := by
  induction cs generalizing st with
  | nil => simp only [runMdat, Except.ok.injEq] at h; subst h; simp
  | cons c cs ih =>
    simp only [runMdat] at h
    split at h
    · rename_i st1 h1
      obtain ⟨a1, a2⟩ := addLeaf_var_count large st st1 c h1
      obtain ⟨b1, b2⟩ := ih st1 h
      exact ⟨by simp only [List.length_cons]; omega, by rw [b2, a2]⟩
    · simp at h

/-- variable sizes: at most one leaf per delivered chunk -/
theorem variable_leafcount_le (large : Bool) (cs : List (List β)) (ls : List (Leaf β))
    (h : finalLeaves none large cs = .ok ls) : ls.length ≤ cs.length := by
  simp only [finalLeaves] at h
  split at h
  · rename_i st hst
    obtain ⟨h1, h2⟩ := runMdat_var_count large cs {} st hst
    simp only [Except.ok.injEq] at h
    subst h
    have : st.rem = none := h2
    simpa [flush, this] using h1
  · simp at h

/-! ### the verifier accepts what the accumulator recorded -/

/-- the mdat box as the verifier reads it: a header of 8 (16 for large-size) bytes, then the
payload -/
def IsBox (large : Bool) (hdr payload box : List β) : Prop :=
  box = hdr ++ payload ∧ hdr.length = if large then 16 else 8

theorem box_region (large : Bool) (hdr payload box : List β) (h : IsBox large hdr payload box) :
    box.drop 16 = covered large payload := by
  obtain ⟨rfl, hl⟩ := h
  cases large with
  | true =>
    simp only [if_true] at hl
    simp [covered, hl]
  | false =>
    simp only [Bool.false_eq_true, if_false] at hl
    simp [covered, List.drop_append, hl]

/-- the leaf-memory budget of the validator, on the caller's inputs: with a fixed leaf size the
covered payload has at most `MAX / hsz` blocks; with variable sizes at most that many chunks are
delivered (each chunk gives at most one leaf) -/
def Budget (fixed : Option Nat) (hsz : Nat) (large : Bool) (cs : List (List β)) : Prop :=
  match fixed with
  | some F => divCeil (covered large cs.flatten).length F * hsz ≤ maxMerkleLeavesSize
  | none => cs.length * hsz ≤ maxMerkleLeavesSize

instance (fixed : Option Nat) (hsz : Nat) (large : Bool) (cs : List (List β)) :
    Decidable (Budget fixed hsz large cs) :=
  match fixed with
  | some F =>
    inferInstanceAs (Decidable (divCeil (covered large cs.flatten).length F * hsz ≤ maxMerkleLeavesSize))
  | none => inferInstanceAs (Decidable (cs.length * hsz ≤ maxMerkleLeavesSize))

theorem mkMap_of_cap (fixed : Option Nat) (hsz id : Nat) (leaves : List (Leaf β)) :
    mkMap fixed hsz id leaves =
      if capOk hsz leaves.length then mkMapPre fixed hsz id leaves else .error .tooManyLeaves := by
  unfold mkMap
  cases capOk hsz leaves.length <;> simp

/-- **Fixed leaf size, signer and validator agree on the budget.**  For every chunking the
accumulated leaves are the `⌈|covered payload| / F⌉` blocks; the map `create_mms_from_mdat_leaves`
would store for them (`mkMapPre`: the code before the budget check) verifies against the mdat box
**iff** the leaf vector fits `MAX_MERKLE_LEAVES_SIZE`, and the repaired signer stores it iff it
fits. -/
theorem signer_stores_iff_validator_accepts_fixed [DecidableEq β] (F : Nat) (hF : 1 < F)
    (hsz : Nat) (large : Bool) (cs : List (List β)) (hdr box : List β) (id : Nat)
    (hbox : IsBox large hdr cs.flatten box) (hne : covered large cs.flatten ≠ []) :
    ∃ leaves mm, finalLeaves (some F) large cs = .ok leaves
      ∧ leaves ≠ []
      ∧ leaves.length = divCeil (covered large cs.flatten).length F
      ∧ mkMapPre (some F) hsz id leaves = .ok mm
      ∧ mm.varSizes = none ∧ mm.id = id
      ∧ ((∃ ranges, mdatRanges mm box = .ok ranges ∧ checkMap mm ranges = true)
          ↔ leaves.length * hsz ≤ maxMerkleLeavesSize)
      ∧ (mkMap (some F) hsz id leaves = .ok mm ↔ leaves.length * hsz ≤ maxMerkleLeavesSize)
      ∧ (mkMap (some F) hsz id leaves = .error .tooManyLeaves
          ↔ ¬ leaves.length * hsz ≤ maxMerkleLeavesSize) := by
  have hF0 : 0 < F := by omega
  let D := covered large cs.flatten
  have hreg := box_region large hdr cs.flatten box hbox
  have hsum : (((chunksOf F D).map leafOf).map (·.len)).sum = D.length := by
    have : ((chunksOf F D).map leafOf).map (·.len) = (chunksOf F D).map List.length := by
      simp [leafOf, Function.comp_def]
    rw [this, sum_map_length_flatten, chunksOf_flatten F D hF0]
  have hFne : ¬ F = 0 := by omega
  let mm : MMap β :=
    { id := id, count := ((chunksOf F D).map leafOf).length,
      hashes := ((chunksOf F D).map leafOf).map (·.hash),
      fixedBlock := some (if D.length > 1 then min D.length F else F), varSizes := none,
      hsz := hsz }
  have hpre : mkMapPre (some F) hsz id ((chunksOf F D).map leafOf) = .ok mm := by
    simp only [mkMapPre, hFne, if_false, hsum, mm]
  have hranges := mdatRanges_fixed F hF D box hne hreg mm rfl
  have hcm : checkMap mm (chunksOf F D) = true := by
    apply checkMap_blocks _ _ (chunksOf_ne_nil F D)
    · simp [mm]
    · simp [mm, leafOf, Function.comp_def]
  have hlen : ((chunksOf F D).map leafOf).length = (chunksOf F D).length := by simp
  refine ⟨(chunksOf F D).map leafOf, mm, leaves_depend_on_concat F hF0 large cs, ?_, ?_, hpre,
    rfl, rfl, ?_, ?_, ?_⟩
  · rw [chunksOf_cons F D hF0 hne]; simp
  · rw [hlen]; exact chunksOf_length F D hF0
  · rw [hlen, ← capOk_iff]
    show _ ↔ capOk mm.hsz _ = true
    constructor
    · rintro ⟨ranges, hr, _⟩
      rw [hranges] at hr
      cases hc : capOk mm.hsz (chunksOf F D).length with
      | true => rfl
      | false => simp [hc] at hr
    · intro hc
      exact ⟨chunksOf F D, by rw [hranges, hc]; rfl, hcm⟩
  · rw [mkMap_of_cap, hpre, ← capOk_iff]
    cases capOk hsz ((chunksOf F D).map leafOf).length <;> simp
  · rw [mkMap_of_cap, hpre, ← capOk_iff]
    cases capOk hsz ((chunksOf F D).map leafOf).length <;> simp

/-- Fixed leaf size (`F > 1`; the public setter takes KiB): the MerkleMap built from the
accumulated leaves verifies against the mdat box, for every chunking (`covered payload`
non-empty, i.e. the mdat has a Merkle map at all; at most `MAX / hsz` blocks). -/
theorem accumulated_verifies_fixed [DecidableEq β] (F : Nat) (hF : 1 < F) (hsz : Nat) (large : Bool)
    (cs : List (List β)) (hdr box : List β) (id : Nat)
    (hbox : IsBox large hdr cs.flatten box) (hne : covered large cs.flatten ≠ [])
    (hcap : Budget (some F) hsz large cs) :
    ∃ leaves mm ranges, finalLeaves (some F) large cs = .ok leaves
      ∧ leaves ≠ []
      ∧ mkMap (some F) hsz id leaves = .ok mm
      ∧ mm.varSizes = none ∧ mm.id = id
      ∧ mdatRanges mm box = .ok ranges
      ∧ checkMap mm ranges = true := by
  obtain ⟨leaves, mm, h1, h2, h3, _, h5, h5', h6, h7, _⟩ :=
    signer_stores_iff_validator_accepts_fixed F hF hsz large cs hdr box id hbox hne
  have hb : leaves.length * hsz ≤ maxMerkleLeavesSize := by rw [h3]; exact hcap
  obtain ⟨ranges, hr, hc⟩ := h6.mpr hb
  exact ⟨leaves, mm, ranges, h1, h2, h7.mpr hb, h5, h5', hr, hc⟩

/-- Over the budget the repaired signer refuses (`update_hash_from_stream` returns an error)
instead of storing a map that cannot verify. -/
theorem over_budget_refused_fixed [DecidableEq β] (F : Nat) (hF : 1 < F) (hsz : Nat) (large : Bool)
    (cs : List (List β)) (hdr box : List β) (id : Nat)
    (hbox : IsBox large hdr cs.flatten box) (hne : covered large cs.flatten ≠ [])
    (hcap : ¬ Budget (some F) hsz large cs) :
    ∃ leaves, finalLeaves (some F) large cs = .ok leaves
      ∧ mkMap (some F) hsz id leaves = .error .tooManyLeaves := by
  obtain ⟨leaves, mm, h1, _, h3, _, _, _, _, _, h8⟩ :=
    signer_stores_iff_validator_accepts_fixed F hF hsz large cs hdr box id hbox hne
  exact ⟨leaves, h1, h8.mpr (by rw [h3]; exact hcap)⟩

/-- **The defect repaired by the budget check in the signer**: over the budget the old
`create_mms_from_mdat_leaves` stored a map and the validator refuses it — for *every* chunking
(the leaf count of a fixed-size tree does not depend on the chunking). -/
theorem pre_fix_signer_validator_asymmetry_fixed [DecidableEq β] (F : Nat) (hF : 1 < F) (hsz : Nat)
    (large : Bool) (cs : List (List β)) (hdr box : List β) (id : Nat)
    (hbox : IsBox large hdr cs.flatten box) (hne : covered large cs.flatten ≠ [])
    (hcap : ¬ Budget (some F) hsz large cs) :
    ∃ leaves mm, finalLeaves (some F) large cs = .ok leaves
      ∧ mkMapPre (some F) hsz id leaves = .ok mm
      ∧ ¬ ∃ ranges, mdatRanges mm box = .ok ranges ∧ checkMap mm ranges = true := by
  obtain ⟨leaves, mm, h1, _, h3, h4, _, _, h6, _, _⟩ :=
    signer_stores_iff_validator_accepts_fixed F hF hsz large cs hdr box id hbox hne
  exact ⟨leaves, mm, h1, h4, fun h => hcap (by have := h6.mp h; rw [h3] at this; exact this)⟩

/-- **Variable leaf sizes, signer and validator agree on the budget**: one leaf per chunk that
contributes bytes (so at most `cs.length`), and the stored map verifies iff the leaf vector fits;
the repaired signer stores it iff it fits. -/
theorem signer_stores_iff_validator_accepts_variable [DecidableEq β] (hsz : Nat) (large : Bool)
    (cs : List (List β)) (hdr box : List β) (id : Nat) (hbox : IsBox large hdr cs.flatten box) :
    ∃ leaves mm, finalLeaves none large cs = .ok leaves
      ∧ (covered large cs.flatten ≠ [] → leaves ≠ [])
      ∧ leaves.length ≤ cs.length
      ∧ mkMapPre none hsz id leaves = .ok mm
      ∧ mm.fixedBlock = none ∧ mm.id = id
      ∧ ((∃ ranges, mdatRanges mm box = .ok ranges ∧ checkMap mm ranges = true)
          ↔ leaves.length * hsz ≤ maxMerkleLeavesSize)
      ∧ (mkMap none hsz id leaves = .ok mm ↔ leaves.length * hsz ≤ maxMerkleLeavesSize)
      ∧ (mkMap none hsz id leaves = .error .tooManyLeaves
          ↔ ¬ leaves.length * hsz ≤ maxMerkleLeavesSize) := by
  obtain ⟨pieces, hfin, hp, hfl, hsum⟩ := variable_sizes_sum large cs
  have hreg := box_region large hdr cs.flatten box hbox
  have hsz' : (pieces.map leafOf).map (·.len) = pieces.map List.length := by
    simp [leafOf, Function.comp_def]
  let mm : MMap β :=
    { id := id, count := (pieces.map leafOf).length, hashes := (pieces.map leafOf).map (·.hash),
      fixedBlock := none, varSizes := some ((pieces.map leafOf).map (·.len)), hsz := hsz }
  have hpre : mkMapPre none hsz id (pieces.map leafOf) = .ok mm := rfl
  have hranges := mdatRanges_var pieces box (by rw [hreg, hfl]) mm rfl (by simp [mm, hsz'])
  have hcm : checkMap mm pieces = true := by
    apply checkMap_blocks _ _ hp
    · simp [mm]
    · simp [mm, leafOf, Function.comp_def]
  have hlen : (pieces.map leafOf).length = pieces.length := by simp
  refine ⟨pieces.map leafOf, mm, hfin, ?_, ?_, hpre, rfl, rfl, ?_, ?_, ?_⟩
  · intro hne hnil
    have : pieces = [] := List.map_eq_nil_iff.mp hnil
    rw [this] at hfl
    exact hne (by simpa using hfl.symm)
  · exact variable_leafcount_le large cs _ hfin
  · rw [hlen, ← capOk_iff]
    show _ ↔ capOk mm.hsz _ = true
    constructor
    · rintro ⟨ranges, hr, _⟩
      rw [hranges] at hr
      cases hc : capOk mm.hsz pieces.length with
      | true => rfl
      | false => simp [hc] at hr
    · intro hc
      exact ⟨pieces, by rw [hranges, hc]; rfl, hcm⟩
  · rw [mkMap_of_cap, hpre, ← capOk_iff]
    cases capOk hsz (pieces.map leafOf).length <;> simp
  · rw [mkMap_of_cap, hpre, ← capOk_iff]
    cases capOk hsz (pieces.map leafOf).length <;> simp

/-- Variable leaf sizes: the stored map verifies for every chunking with at most `MAX / hsz`
chunks. -/
theorem accumulated_verifies_variable [DecidableEq β] (hsz : Nat) (large : Bool) (cs : List (List β))
    (hdr box : List β) (id : Nat) (hbox : IsBox large hdr cs.flatten box)
    (hcap : Budget none hsz large cs) :
    ∃ leaves mm ranges, finalLeaves none large cs = .ok leaves
      ∧ (covered large cs.flatten ≠ [] → leaves ≠ [])
      ∧ mkMap none hsz id leaves = .ok mm
      ∧ mm.fixedBlock = none ∧ mm.id = id
      ∧ mdatRanges mm box = .ok ranges
      ∧ checkMap mm ranges = true := by
  obtain ⟨leaves, mm, h1, h2, h3, _, h5, h5', h6, h7, _⟩ :=
    signer_stores_iff_validator_accepts_variable hsz large cs hdr box id hbox
  have hb : leaves.length * hsz ≤ maxMerkleLeavesSize :=
    Nat.le_trans (Nat.mul_le_mul_right hsz h3) hcap
  obtain ⟨ranges, hr, hc⟩ := h6.mpr hb
  exact ⟨leaves, mm, ranges, h1, h2, h7.mpr hb, h5, h5', hr, hc⟩

/-- the same defect with variable leaf sizes: more leaves than the budget (e.g. a 5 GB mdat
delivered in 4 KiB writes) gave a stored map that the validator refuses -/
theorem pre_fix_signer_validator_asymmetry_variable [DecidableEq β] (hsz : Nat) (large : Bool)
    (cs : List (List β)) (hdr box : List β) (id : Nat) (hbox : IsBox large hdr cs.flatten box)
    (leaves : List (Leaf β)) (hl : finalLeaves none large cs = .ok leaves)
    (hcap : ¬ leaves.length * hsz ≤ maxMerkleLeavesSize) :
    ∃ mm, mkMapPre none hsz id leaves = .ok mm
      ∧ (¬ ∃ ranges, mdatRanges mm box = .ok ranges ∧ checkMap mm ranges = true)
      ∧ mkMap none hsz id leaves = .error .tooManyLeaves := by
  obtain ⟨leaves', mm, h1, _, _, h4, _, _, h6, _, h8⟩ :=
    signer_stores_iff_validator_accepts_variable hsz large cs hdr box id hbox
  have : leaves' = leaves := by rw [h1] at hl; simpa using hl
  subst this
  exact ⟨mm, h4, fun h => hcap (h6.mp h), h8.mpr hcap⟩

/-- An asset with a single mdat: `validate_merkle_maps_mdat_boxes` succeeds for every chunking
and both leaf-size modes. -/
theorem single_mdat_asset_verifies [DecidableEq β] (fixed : Option Nat) (hF : ∀ F, fixed = some F → 1 < F)
    (hsz : Nat) (large : Bool) (cs : List (List β)) (hdr box : List β)
    (hbox : IsBox large hdr cs.flatten box) (hne : covered large cs.flatten ≠ [])
    (hcap : Budget fixed hsz large cs) :
    ∃ leaves mm, finalLeaves fixed large cs = .ok leaves ∧ mkMap fixed hsz 0 leaves = .ok mm
      ∧ validateMaps [mm] [box] = true := by
  cases fixed with
  | some F =>
    obtain ⟨leaves, mm, ranges, h1, _, h2, hv, _, h3, h4⟩ :=
      accumulated_verifies_fixed F (hF F rfl) hsz large cs hdr box 0 hbox hne hcap
    exact ⟨leaves, mm, h1, h2, by simp [validateMaps, hv, h3, h4]⟩
  | none =>
    obtain ⟨leaves, mm, ranges, h1, _, h2, hv, _, h3, h4⟩ :=
      accumulated_verifies_variable hsz large cs hdr box 0 hbox hcap
    exact ⟨leaves, mm, h1, h2, by simp [validateMaps, hv, h3, h4]⟩

/-! ### several mdats: the per-mdat states do not interfere -/

theorem lookup_insert (i j : Nat) (s : MdatState β) (l : List (Nat × MdatState β)) :
    lookupSt j (insertSt i s l) = if j = i then s else lookupSt j l := by
  induction l with
  | nil =>
    by_cases h : j = i
    · simp [insertSt, lookupSt, h]
    · have h' : ¬ i = j := fun e => h e.symm
      simp [insertSt, lookupSt, h, h']
  | cons x xs ih =>
    obtain ⟨k, t⟩ := x
    simp only [insertSt]
    by_cases hk : k = i
    · subst hk
      by_cases h : j = k
      · simp [lookupSt, h]
      · have h' : ¬ k = j := fun e => h e.symm
        simp [lookupSt, h, h']
    · simp only [hk, if_false]
      by_cases hlt : i < k
      · simp only [hlt, if_true]
        by_cases h : j = i
        · simp [lookupSt, h]
        · have h' : ¬ i = j := fun e => h e.symm
          simp [lookupSt, h, h']
      · simp only [hlt, if_false, lookupSt]
        by_cases hkj : k = j
        · have : ¬ j = i := by intro e; exact hk (hkj.trans e)
          simp [hkj, this]
        · simp [hkj, ih]

/-- `hash_bmff_mdat_bytes(id, …)` changes the state of mdat `id` exactly as the single-mdat
step does and leaves every other mdat's state untouched (chunks of different mdats may be
interleaved arbitrarily). -/
theorem mdats_independent (a a' : Acc β) (id : Nat) (large : Bool) (data : List β)
    (h : a.add id large data = .ok a') (j : Nat) :
    a'.fixed = a.fixed ∧
    (j ≠ id → lookupSt j a'.mdats = lookupSt j a.mdats) ∧
    addLeaf a.fixed large (lookupSt id a.mdats) data = .ok (lookupSt id a'.mdats) := by
  simp only [Acc.add] at h
  split at h
  · rename_i s hs
    simp only [Except.ok.injEq] at h
    subst h
    refine ⟨rfl, ?_, ?_⟩
    · intro hj; simp [lookup_insert, hj]
    · simp [lookup_insert, hs]
  · simp at h

/-- the whole call sequence of an application (chunks of several mdats in any order) -/
def Acc.run (a : Acc β) : List (Nat × Bool × List β) → Except Err (Acc β)
  | [] => .ok a
  | (id, large, data) :: rest =>
    match a.add id large data with
    | .ok a' => Acc.run a' rest
    | .error e => .error e

theorem Acc.run_fixed (a a' : Acc β) (calls : List (Nat × Bool × List β))
    (h : a.run calls = .ok a') : a'.fixed = a.fixed := by
  induction calls generalizing a with
  | nil => simp only [Acc.run, Except.ok.injEq] at h; rw [h]
  | cons c rest ih =>
    obtain ⟨id, large, data⟩ := c
    simp only [Acc.run] at h
    split at h
    · rename_i a1 h1
      rw [ih a1 h, (mdats_independent a a1 id large data h1 id).1]
    · simp at h

/-- After any interleaved call sequence, the state of mdat `id` is what feeding just that
mdat's chunks, in order, to a fresh single-mdat accumulator gives. -/
theorem interleaving_irrelevant (a a' : Acc β) (calls : List (Nat × Bool × List β))
    (h : a.run calls = .ok a') (id : Nat) (large : Bool)
    (hcons : ∀ c ∈ calls, c.1 = id → c.2.1 = large) :
    runMdat a.fixed large (lookupSt id a.mdats)
        ((calls.filter (fun c => c.1 = id)).map (·.2.2)) = .ok (lookupSt id a'.mdats) := by
  induction calls generalizing a with
  | nil =>
    simp only [Acc.run, Except.ok.injEq] at h
    subst h
    simp [runMdat]
  | cons c rest ih =>
    obtain ⟨cid, clarge, data⟩ := c
    simp only [Acc.run] at h
    split at h
    · rename_i a1 h1
      obtain ⟨hfx, hother, hsame⟩ := mdats_independent a a1 cid clarge data h1 id
      have hrest := ih a1 h (fun c hc => hcons c (by simp [hc]))
      by_cases hid : cid = id
      · subst hid
        have hl : clarge = large := hcons (cid, clarge, data) (by simp) rfl
        subst hl
        simp only [List.filter_cons, decide_true, if_true, List.map_cons, runMdat, hsame]
        rw [← hfx]; exact hrest
      · have hne : id ≠ cid := fun e => hid e.symm
        simp only [List.filter_cons, hid, decide_false, Bool.false_eq_true, if_false]
        rw [← hother hne, ← hfx]; exact hrest
    · simp at h

/-! ### ids stay ascending and duplicate-free (`BTreeMap` order = file order of the mdats) -/

theorem Acc.add_keys (a a' : Acc β) (id : Nat) (large : Bool) (data : List β)
    (h : a.add id large data = .ok a') :
    ((keys a.mdats).Pairwise (· < ·) → (keys a'.mdats).Pairwise (· < ·))
      ∧ ∀ k, k ∈ keys a'.mdats ↔ k = id ∨ k ∈ keys a.mdats := by
  simp only [Acc.add] at h
  split at h
  · simp only [Except.ok.injEq] at h
    subst h
    exact ⟨insertSt_sorted id _ a.mdats, mem_keys_insertSt id _ a.mdats⟩
  · simp at h

/-- **The accumulator never reorders or duplicates mdats**: whatever the order of the calls, the
ids it iterates over when the maps are built are strictly ascending (the defect repaired in
fixes/C17-bmff-hash-mdat-maps.patch was a `HashMap` iteration order on the validator's side of
this pairing). -/
theorem Acc.run_sorted (a a' : Acc β) (calls : List (Nat × Bool × List β))
    (h : a.run calls = .ok a') (hs : (keys a.mdats).Pairwise (· < ·)) :
    (keys a'.mdats).Pairwise (· < ·) := by
  induction calls generalizing a with
  | nil => simp only [Acc.run, Except.ok.injEq] at h; subst h; exact hs
  | cons c rest ih =>
    obtain ⟨id, large, data⟩ := c
    simp only [Acc.run] at h
    split at h
    · rename_i a1 h1
      exact ih a1 h ((Acc.add_keys a a1 id large data h1).1 hs)
    · simp at h

/-- …and they are exactly the ids the caller used. -/
theorem Acc.run_keys (a a' : Acc β) (calls : List (Nat × Bool × List β))
    (h : a.run calls = .ok a') (k : Nat) :
    k ∈ keys a'.mdats ↔ k ∈ keys a.mdats ∨ ∃ c ∈ calls, c.1 = k := by
  induction calls generalizing a with
  | nil => simp only [Acc.run, Except.ok.injEq] at h; subst h; simp
  | cons c rest ih =>
    obtain ⟨id, large, data⟩ := c
    simp only [Acc.run] at h
    split at h
    · rename_i a1 h1
      rw [ih a1 h, (Acc.add_keys a a1 id large data h1).2 k]
      constructor
      · rintro ((rfl | hk) | ⟨c, hc, rfl⟩)
        · exact Or.inr ⟨(k, large, data), by simp, rfl⟩
        · exact Or.inl hk
        · exact Or.inr ⟨c, by simp [hc], rfl⟩
      · rintro (hk | ⟨c, hc, rfl⟩)
        · exact Or.inl (Or.inr hk)
        · simp only [List.mem_cons] at hc
          rcases hc with rfl | hc
          · exact Or.inl (Or.inl rfl)
          · exact Or.inr ⟨c, hc, rfl⟩
    · simp at h

/-! ### assets with several mdat boxes -/

/-- element-wise relation between two lists of the same length -/
inductive All2 {α γ : Type} (R : α → γ → Prop) : List α → List γ → Prop
  | nil : All2 R [] []
  | cons {a : α} {c : γ} {as : List α} {cs : List γ} : R a c → All2 R as cs → All2 R (a :: as) (c :: cs)

theorem All2.length_eq {α γ : Type} {R : α → γ → Prop} {l₁ : List α} {l₂ : List γ}
    (h : All2 R l₁ l₂) : l₁.length = l₂.length := by
  induction h with
  | nil => rfl
  | cons _ _ ih => simp [ih]

theorem All2.of_index {α γ : Type} {R : α → γ → Prop} (l₁ : List α) (l₂ : List γ)
    (hl : l₁.length = l₂.length)
    (hr : ∀ (i : Nat) (a : α) (c : γ), l₁[i]? = some a → l₂[i]? = some c → R a c) :
    All2 R l₁ l₂ := by
  induction l₁ generalizing l₂ with
  | nil =>
    cases l₂ with
    | nil => exact All2.nil
    | cons _ _ => simp at hl
  | cons a as ih =>
    cases l₂ with
    | nil => simp at hl
    | cons c cs =>
      exact All2.cons (hr 0 a c rfl rfl)
        (ih cs (by simpa using hl)
          (fun i a' c' h1 h2 => hr (i + 1) a' c' (by simpa using h1) (by simpa using h2)))

theorem All2.exists_left {α γ : Type} {R : α → γ → Prop} {l₁ : List α} {l₂ : List γ}
    (h : All2 R l₁ l₂) (c : γ) (hc : c ∈ l₂) : ∃ a ∈ l₁, R a c := by
  induction h with
  | nil => simp at hc
  | @cons a0 c0 as cs hd _ ih =>
    simp only [List.mem_cons] at hc
    rcases hc with rfl | hc
    · exact ⟨a0, by simp, hd⟩
    · obtain ⟨a, ha, hr⟩ := ih hc
      exact ⟨a, by simp [ha], hr⟩

/-- one mdat of an asset: how it was delivered and how it lies in the file -/
structure MdatRun (β : Type) where
  large : Bool
  cs : List (List β)
  hdr : List β
  box : List β

/-- what `validate_merkle_maps_mdat_boxes` needs of one (map, box) pair -/
def GoodMap [DecidableEq β] (mm : MMap β) (box : List β) : Prop :=
  (mm.fixedBlock.isSome && mm.varSizes.isSome) = false
    ∧ ∃ ranges, mdatRanges mm box = .ok ranges ∧ checkMap mm ranges = true

theorem validateMaps_of_good [DecidableEq β] (mms : List (MMap β)) (boxes : List (List β))
    (h : All2 GoodMap mms boxes) : validateMaps mms boxes = true := by
  have hany : mms.any (fun mm => mm.fixedBlock.isSome && mm.varSizes.isSome) = false := by
    induction h with
    | nil => rfl
    | cons hd _ ih => simp only [List.any_cons, hd.1, ih, Bool.or_self]
  have hlen : boxes.length = mms.length := h.length_eq.symm
  have hall : ((List.zip boxes mms).all fun (box, mm) =>
      match mdatRanges mm box with
      | .ok ranges => checkMap mm ranges
      | .error _ => false) = true := by
    induction h with
    | nil => rfl
    | @cons m0 b0 ms bs hd _ ih =>
      obtain ⟨_, ranges, hr, hc⟩ := hd
      simp only [List.zip_cons_cons, List.all_cons, hr, hc, Bool.true_and]
      have hany' : (ms.any fun (mm : MMap β) => mm.fixedBlock.isSome && mm.varSizes.isSome) = false := by
        simp only [List.any_cons, Bool.or_eq_false_iff] at hany
        exact hany.2
      exact ih hany' (by simpa using hlen)
  simp only [validateMaps, hany, Bool.false_eq_true, if_false, hlen, ne_eq, not_true_eq_false]
  exact hall

/-- one mdat was delivered completely (state `st` = result of its own chunk sequence), lies in
the file as header ‖ payload, has a covered byte and respects the leaf budget -/
def Delivered (fixed : Option Nat) (hsz : Nat) (st : MdatState β) (r : MdatRun β) : Prop :=
  runMdat fixed r.large {} r.cs = .ok st
    ∧ IsBox r.large r.hdr r.cs.flatten r.box ∧ covered r.large r.cs.flatten ≠ []
    ∧ Budget fixed hsz r.large r.cs

/-- **Several mdats, from per-mdat states.** If every mdat of the asset was delivered completely
(in any chunking — see `interleaving_irrelevant`), then the MerkleMaps `update_hash_from_stream`
stores verify against the asset's mdat boxes; one map per mdat, in the order of the states. -/
theorem multi_mdat_asset_verifies [DecidableEq β] (fixed : Option Nat)
    (hF : ∀ F, fixed = some F → 1 < F) (hsz : Nat) (sts : List (Nat × MdatState β))
    (runs : List (MdatRun β))
    (h : All2 (fun p r => Delivered fixed hsz p.2 r) sts runs) :
    ∃ mms, createMms fixed hsz sts = .ok mms ∧ validateMaps mms (runs.map (·.box)) = true
      ∧ mms.map (·.id) = sts.map (·.1) := by
  suffices hs : ∃ mms, createMms fixed hsz sts = .ok mms ∧ All2 GoodMap mms (runs.map (·.box))
      ∧ mms.map (·.id) = sts.map (·.1) by
    obtain ⟨mms, h1, h2, h3⟩ := hs
    exact ⟨mms, h1, validateMaps_of_good mms _ h2, h3⟩
  induction h with
  | nil => exact ⟨[], rfl, All2.nil, rfl⟩
  | @cons p r ps rs hd _ ih =>
    obtain ⟨mms, hm, hg, hi⟩ := ih
    obtain ⟨id, st⟩ := p
    obtain ⟨hrun, hbox, hne, hcap⟩ := hd
    have hfin : finalLeaves fixed r.large r.cs = .ok (flush st).leaves := by
      simp only [finalLeaves]; simp only at hrun; rw [hrun]
    cases fixed with
    | some F =>
      obtain ⟨leaves, mm, ranges, h1, hnl, h2, hv, hid, h3, h4⟩ :=
        accumulated_verifies_fixed F (hF F rfl) hsz r.large r.cs r.hdr r.box id hbox hne hcap
      rw [hfin] at h1
      have hl : (flush st).leaves = leaves := by simpa using h1
      have hne2 : leaves.isEmpty = false := by
        cases leaves with
        | nil => exact absurd rfl hnl
        | cons _ _ => rfl
      refine ⟨mm :: mms, ?_, All2.cons ⟨by simp [hv], ranges, h3, h4⟩ hg, by simp [hid, hi]⟩
      simp only [createMms, hl, hne2, Bool.false_eq_true, if_false, h2, hm]
    | none =>
      obtain ⟨leaves, mm, ranges, h1, hnl, h2, hv, hid, h3, h4⟩ :=
        accumulated_verifies_variable hsz r.large r.cs r.hdr r.box id hbox hcap
      rw [hfin] at h1
      have hl : (flush st).leaves = leaves := by simpa using h1
      have hne2 : leaves.isEmpty = false := by
        cases leaves with
        | nil => exact absurd rfl (hnl hne)
        | cons _ _ => rfl
      refine ⟨mm :: mms, ?_, All2.cons ⟨by simp [hv], ranges, h3, h4⟩ hg, by simp [hid, hi]⟩
      simp only [createMms, hl, hne2, Bool.false_eq_true, if_false, h2, hm]

/-- **The whole history, from the caller's calls to the verdict.**  A fresh accumulator receives
an arbitrary interleaving `calls` of chunks for the mdats `0 … n-1` (the ids used are exactly the
positions of the mdat boxes in the file: `hids`), each mdat's chunks concatenating, in call
order, to the payload that lies in its box.  Then `update_hash_from_stream` stores one
MerkleMap per mdat, with ids `0 … n-1` in file order, and they verify against the asset's mdat
boxes. -/
theorem run_then_verify [DecidableEq β] (fixed : Option Nat) (hF : ∀ F, fixed = some F → 1 < F)
    (hsz : Nat) (calls : List (Nat × Bool × List β)) (a' : Acc β)
    (h : ({ fixed := fixed } : Acc β).run calls = .ok a') (runs : List (MdatRun β))
    (hids : ∀ i, i < runs.length ↔ ∃ c ∈ calls, c.1 = i)
    (hr : ∀ i r, runs[i]? = some r →
      (calls.filter (fun c => c.1 = i)).map (·.2.2) = r.cs
        ∧ (∀ c ∈ calls, c.1 = i → c.2.1 = r.large)
        ∧ IsBox r.large r.hdr r.cs.flatten r.box ∧ covered r.large r.cs.flatten ≠ []
        ∧ Budget fixed hsz r.large r.cs) :
    ∃ mms, createMms fixed hsz a'.mdats = .ok mms
      ∧ validateMaps mms (runs.map (·.box)) = true
      ∧ mms.map (·.id) = List.range runs.length := by
  have hfx : a'.fixed = fixed := Acc.run_fixed _ a' calls h
  have hsorted : (keys a'.mdats).Pairwise (· < ·) :=
    Acc.run_sorted _ a' calls h (by simp [keys])
  have hkeys : keys a'.mdats = List.range runs.length := by
    apply sorted_eq_range _ _ hsorted
    intro k
    rw [Acc.run_keys _ a' calls h k, hids k]
    simp [keys]
  have htab := sorted_lookup a'.mdats hsorted
  rw [hkeys] at htab
  have hall : All2 (fun p r => Delivered fixed hsz p.2 r) a'.mdats runs := by
    apply All2.of_index
    · have : (keys a'.mdats).length = runs.length := by rw [hkeys]; simp
      simpa [keys] using this
    · intro i p r hp hri
      obtain ⟨hcs, hlarge, hbox, hne, hcap⟩ := hr i r hri
      have hi : i < runs.length := by
        have := (List.getElem?_eq_some_iff.mp hri).1; exact this
      have hp' : p = (i, lookupSt i a'.mdats) := by
        rw [htab] at hp
        simp only [List.getElem?_map, List.getElem?_range hi, Option.map_some,
          Option.some.injEq] at hp
        exact hp.symm
      have hint := interleaving_irrelevant _ a' calls h i r.large hlarge
      simp only [lookupSt] at hint
      rw [hcs] at hint
      subst hp'
      exact ⟨hint, hbox, hne, hcap⟩
  obtain ⟨mms, h1, h2, h3⟩ := multi_mdat_asset_verifies fixed hF hsz a'.mdats runs hall
  refine ⟨mms, h1, h2, ?_⟩
  rw [h3]; exact hkeys

/-! ### mdats without a covered byte -/

theorem finalLeaves_nil_of_uncovered (fixed : Option Nat) (hF : ∀ F, fixed = some F → 0 < F)
    (large : Bool) (cs : List (List β)) (h : covered large cs.flatten = []) :
    finalLeaves fixed large cs = .ok [] := by
  cases fixed with
  | some F => exact (no_leaves_iff_nothing_covered F (hF F rfl) large cs).mpr h
  | none =>
    obtain ⟨pieces, hfin, hp, hfl, _⟩ := variable_sizes_sum large cs
    rw [h] at hfl
    have : pieces = [] := by
      cases pieces with
      | nil => rfl
      | cons p ps =>
        have hp0 := hp p (by simp)
        have : p = [] := by
          have := congrArg List.length hfl
          simp only [List.flatten_cons, List.length_append, List.length_nil] at this
          exact List.length_eq_zero_iff.mp (by omega)
        exact absurd this hp0
    rw [hfin, this]; rfl

/-- No mdat has a byte outside the 16-byte exclusion ⇒ `update_hash_from_stream` stores no
Merkle map at all (the BMFF hash is then the flat hash with its ordinary exclusions, outside this
model). -/
theorem all_uncovered_no_maps (fixed : Option Nat) (hF : ∀ F, fixed = some F → 0 < F) (hsz : Nat)
    (sts : List (Nat × MdatState β)) (runs : List (MdatRun β))
    (h : All2 (fun p r => runMdat fixed r.large {} r.cs = .ok p.2
      ∧ covered r.large r.cs.flatten = []) sts runs) :
    createMms fixed hsz sts = .ok [] := by
  induction h with
  | nil => rfl
  | @cons p r ps rs hd _ ih =>
    obtain ⟨id, st⟩ := p
    obtain ⟨hrun, hunc⟩ := hd
    have hfin := finalLeaves_nil_of_uncovered fixed hF r.large r.cs hunc
    simp only [finalLeaves] at hfin
    simp only at hrun
    rw [hrun] at hfin
    have hl : (flush st).leaves = [] := by simpa using hfin
    simp only [createMms, hl, List.isEmpty_nil, if_true, ih]

theorem createMms_length (fixed : Option Nat) (hsz : Nat) (sts : List (Nat × MdatState β))
    (mms : List (MMap β)) (h : createMms fixed hsz sts = .ok mms) :
    mms.length ≤ sts.length
      ∧ ((∃ p ∈ sts, (flush p.2).leaves = []) → mms.length < sts.length) := by
  induction sts generalizing mms with
  | nil => simp only [createMms, Except.ok.injEq] at h; subst h; simp
  | cons p ps ih =>
    obtain ⟨id, st⟩ := p
    simp only [createMms] at h
    split at h
    · rename_i hemp
      obtain ⟨i1, _⟩ := ih mms h
      exact ⟨by simp only [List.length_cons]; omega, fun _ => by simp only [List.length_cons]; omega⟩
    · rename_i hnemp
      split at h
      · rename_i m ms hm hms
        simp only [Except.ok.injEq] at h
        subst h
        obtain ⟨i1, i2⟩ := ih ms hms
        refine ⟨by simp only [List.length_cons]; omega, ?_⟩
        rintro ⟨q, hq, hql⟩
        simp only [List.mem_cons] at hq
        rcases hq with rfl | hq
        · simp only at hql
          rw [hql] at hnemp
          simp at hnemp
        · have := i2 ⟨q, hq, hql⟩
          simp only [List.length_cons]; omega
      · simp at h
      · simp at h

/-- **The open finding `multi-mdat-with-uncovered-mdat`, as a theorem about the code**: when one
mdat of the asset has no covered byte while some other has, fewer maps are stored than there are
mdat boxes and the validator rejects the asset — for every chunking.  (The full statement
"every asset reads back Valid" is false for these inputs; `run_then_verify` therefore asks for a
covered byte in every mdat.) -/
theorem uncovered_mdat_rejected [DecidableEq β] (fixed : Option Nat)
    (hF : ∀ F, fixed = some F → 0 < F) (hsz : Nat) (sts : List (Nat × MdatState β))
    (runs : List (MdatRun β)) (mms : List (MMap β))
    (h : All2 (fun p r => runMdat fixed r.large {} r.cs = .ok p.2) sts runs)
    (hunc : ∃ r ∈ runs, covered r.large r.cs.flatten = [])
    (hm : createMms fixed hsz sts = .ok mms) :
    mms.length < runs.length ∧ validateMaps mms (runs.map (·.box)) = false := by
  obtain ⟨r, hr, hcov⟩ := hunc
  obtain ⟨p, hp, hrun⟩ := h.exists_left r hr
  have hfin := finalLeaves_nil_of_uncovered fixed hF r.large r.cs hcov
  simp only [finalLeaves, hrun] at hfin
  have hl : (flush p.2).leaves = [] := by simpa using hfin
  have hlt := (createMms_length fixed hsz sts mms hm).2 ⟨p, hp, hl⟩
  rw [h.length_eq] at hlt
  refine ⟨hlt, ?_⟩
  have hne : ¬ (runs.map (·.box)).length = mms.length := by simp; omega
  simp only [validateMaps]
  split
  · rfl
  · simp [hne]

/-! ### histories: a second `update_hash_from_stream`, and the leaf-size setter -/

theorem createMms_flushed (fixed : Option Nat) (hsz : Nat) (sts : List (Nat × MdatState β)) :
    createMms fixed hsz (sts.map fun p => (p.1, flush p.2)) = createMms fixed hsz sts := by
  induction sts with
  | nil => rfl
  | cons p ps ih =>
    obtain ⟨id, st⟩ := p
    simp only [List.map_cons, createMms, flush_idempotent, ih]

/-- **Calling `update_hash_from_stream` again changes nothing**: the remainders were drained by
the first call, so the second one stores the same maps and leaves the same state. -/
theorem update_hash_twice (a a1 : Acc β) (hsz : Nat) (mms : List (MMap β))
    (h : a.updateHash hsz = .ok (a1, mms)) : a1.updateHash hsz = .ok (a1, mms) := by
  simp only [Acc.updateHash] at h
  split at h
  · rename_i mms' hm
    simp only [Except.ok.injEq, Prod.mk.injEq] at h
    obtain ⟨rfl, rfl⟩ := h
    simp only [Acc.updateHash, createMms_flushed, hm, List.map_map]
    congr 3
    apply List.map_congr_left
    intro p _
    simp [flush_idempotent]
  · simp at h

/-- **The defect repaired in the flush** (the reviewer's `flush_twice`): the old flush kept the
remainder, so a second `update_hash_from_stream` (a retry after an I/O error, say) appended the
same partial leaf again and the stored leaves no longer matched the payload. -/
theorem pre_fix_flush_twice (st : MdatState β) (h : st.rem ≠ none) :
    (flushPre (flushPre st)).leaves ≠ (flushPre st).leaves := by
  cases hr : st.rem with
  | none => exact absurd hr h
  | some b =>
    intro e
    have := congrArg List.length e
    simp [flushPre, hr] at this

/-- the first flush is the same before and after the repair, only the state it leaves differs -/
theorem flushPre_leaves (st : MdatState β) : (flushPre st).leaves = (flush st).leaves := by
  unfold flushPre flush
  cases st.rem <;> rfl

/-- a history without `setFixed` is a `run` -/
theorem runOps_adds (a : Acc β) (calls : List (Nat × Bool × List β)) :
    a.runOps (calls.map fun c => Op.add c.1 c.2.1 c.2.2) = a.run calls := by
  induction calls generalizing a with
  | nil => rfl
  | cons c rest ih =>
    obtain ⟨id, large, data⟩ := c
    simp only [List.map_cons, Acc.runOps, Acc.step, Acc.run]
    cases a.add id large data with
    | ok a1 => exact ih a1
    | error e => rfl

/-- the documented use of `set_bmff_hash_fixed_leaf_size`: before the first chunk it is the same
as an accumulator created with that leaf size, so every theorem above applies -/
theorem setFixed_first (bytes : Nat) (ops : List (Op β)) :
    ({} : Acc β).runOps (.setFixed bytes :: ops) = ({ fixed := some bytes } : Acc β).runOps ops := rfl

/-! ### non-vacuity and the repaired inputs -/

-- first chunk of 3 bytes, then the rest: same leaves as the payload in one piece (F = 4)
example :
    (finalLeaves (some 4) false [[0, 1, 2], [3, 4, 5, 6, 7, 8, 9, 10, 11, 12, 13]]).toOption
      = (finalLeaves (some 4) false [[0, 1, 2, 3, 4, 5, 6, 7, 8, 9, 10, 11, 12, 13]]).toOption := by
  decide +kernel

example :
    (finalLeaves (some 4) false [[0, 1, 2], [], [3, 4, 5, 6, 7, 8, 9, 10, 11, 12, 13]]).toOption
      = some [⟨4, .sha [8, 9, 10, 11]⟩, ⟨2, .sha [12, 13]⟩] := by
  decide +kernel

-- variable sizes: header split over three chunks, an empty chunk in between; no empty leaf
example :
    (finalLeaves none false [[0, 1, 2], [3, 4, 5], [], [6, 7, 8, 9], [10, 11]]).toOption
      = some [⟨2, .sha [8, 9]⟩, ⟨2, .sha [10, 11]⟩] := by
  decide +kernel

-- the hypotheses of `accumulated_verifies_fixed` are satisfiable
example : IsBox false [100, 101, 102, 103, 104, 105, 106, 107] [0, 1, 2, 3, 4, 5, 6, 7, 8, 9]
    [100, 101, 102, 103, 104, 105, 106, 107, 0, 1, 2, 3, 4, 5, 6, 7, 8, 9] ∧
    covered false [0, 1, 2, 3, 4, 5, 6, 7, 8, 9] ≠ ([] : List Nat) ∧
    Budget (some 4) 32 false [[0, 1, 2], [3, 4, 5, 6, 7, 8, 9]] := by
  refine ⟨⟨rfl, rfl⟩, ?_, ?_⟩
  · decide
  · decide

-- the budget really excludes something: 2^20 + 1 leaves of SHA-256 are refused, 2^20 are not
example : capOk 32 1048577 = false ∧ capOk 32 1048576 = true := by decide

/-- two mdats (a standard one and a large-size one) delivered interleaved -/
def exCalls : List (Nat × Bool × List Nat) :=
  [(0, false, [0, 1, 2]), (1, true, [50, 51, 52]), (0, false, [3, 4, 5, 6, 7, 8, 9, 10]),
   (1, true, [53, 54]), (0, false, [11, 12])]

def exRuns : List (MdatRun Nat) :=
  [{ large := false, cs := [[0, 1, 2], [3, 4, 5, 6, 7, 8, 9, 10], [11, 12]],
     hdr := [100, 101, 102, 103, 104, 105, 106, 107],
     box := [100, 101, 102, 103, 104, 105, 106, 107, 0, 1, 2, 3, 4, 5, 6, 7, 8, 9, 10, 11, 12] },
   { large := true, cs := [[50, 51, 52], [53, 54]],
     hdr := [200, 201, 202, 203, 204, 205, 206, 207, 208, 209, 210, 211, 212, 213, 214, 215],
     box := [200, 201, 202, 203, 204, 205, 206, 207, 208, 209, 210, 211, 212, 213, 214, 215,
             50, 51, 52, 53, 54] }]

-- the hypotheses of `run_then_verify` hold for this two-mdat history (fixed leaf size 2) …
example :
    (∀ i, i < exRuns.length ↔ ∃ c ∈ exCalls, c.1 = i)
    ∧ ∀ i r, exRuns[i]? = some r →
      (exCalls.filter (fun c => c.1 = i)).map (·.2.2) = r.cs
        ∧ (∀ c ∈ exCalls, c.1 = i → c.2.1 = r.large)
        ∧ IsBox r.large r.hdr r.cs.flatten r.box ∧ covered r.large r.cs.flatten ≠ []
        ∧ Budget (some 2) 32 r.large r.cs := by
  constructor
  · intro i
    constructor
    · intro hi
      have : i = 0 ∨ i = 1 := by simp [exRuns] at hi; omega
      rcases this with rfl | rfl
      · exact ⟨(0, false, [0, 1, 2]), by simp [exCalls], rfl⟩
      · exact ⟨(1, true, [50, 51, 52]), by simp [exCalls], rfl⟩
    · rintro ⟨c, hc, rfl⟩
      simp only [exCalls, List.mem_cons, List.not_mem_nil, or_false] at hc
      rcases hc with rfl | rfl | rfl | rfl | rfl <;> simp [exRuns]
  · intro i r hr
    match i, hr with
    | 0, hr =>
      simp only [exRuns, List.getElem?_cons_zero, Option.some.injEq] at hr
      subst hr
      refine ⟨by decide, by decide, ⟨rfl, rfl⟩, by decide, by decide⟩
    | 1, hr =>
      simp only [exRuns, List.getElem?_cons_succ, List.getElem?_cons_zero, Option.some.injEq] at hr
      subst hr
      refine ⟨by decide, by decide, ⟨rfl, rfl⟩, by decide, by decide⟩
    | n + 2, hr => simp [exRuns] at hr

-- … and its conclusion can be observed directly: two maps, ids 0 and 1, verifying
example :
    (match ({ fixed := some 2 } : Acc Nat).run exCalls with
     | .ok a' =>
       match createMms (some 2) 32 a'.mdats with
       | .ok mms => mms.map (·.id) == [0, 1] && validateMaps mms (exRuns.map (·.box))
       | .error _ => false
     | .error _ => false) = true := by
  decide +kernel

-- second mdat delivered first: the maps still come out in id (= file) order
example :
    (match ({ fixed := none } : Acc Nat).run
        [(1, true, [50, 51, 52]), (0, false, [0, 1, 2, 3, 4, 5, 6, 7, 8, 9]), (1, true, [53])] with
     | .ok a' => keys a'.mdats == [0, 1]
     | .error _ => false) = true := by
  decide +kernel

-- lowering the leaf size below a buffered partial leaf is refused (it used to underflow:
-- a panic in debug builds, a wrapped length and a lost chunk boundary in release builds)
example :
    (match ({ fixed := some 8 } : Acc Nat).runOps
        [.add 0 true [0, 1, 2, 3, 4], .setFixed 4, .add 0 true [5]] with
     | .error .badParam => true
     | _ => false) = true := by
  decide +kernel

-- changing the leaf size between chunks otherwise records leaves of mixed sizes under one
-- `fixed_block_size`; the validator rejects that map (this is why the setter is documented to
-- be called before the first chunk, and why `leaves_depend_on_concat` fixes `F` for the history)
example :
    (match ({ fixed := some 4 } : Acc Nat).runOps
        [.add 0 true [0, 1, 2, 3, 4, 5], .setFixed 2, .add 0 true [6, 7, 8]] with
     | .ok a' =>
       match createMms a'.fixed 32 a'.mdats with
       | .ok mms =>
         mms.map (·.count) == [4]
           && !validateMaps mms [(List.range 16).map (· + 100) ++ [0, 1, 2, 3, 4, 5, 6, 7, 8]]
       | .error _ => false
     | .error _ => false) = true := by
  decide +kernel

-- the old flush on a concrete state: the 2-byte remainder is recorded twice
example :
    ((flushPre (flushPre ({ leaves := [], rem := some [7, 8] } : MdatState Nat))).leaves.length,
     (flush (flush ({ leaves := [], rem := some [7, 8] } : MdatState Nat))).leaves.length) = (2, 1) := by
  decide

end C2pa.C17
